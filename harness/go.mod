module verif/harness

go 1.26.1

require (
	github.com/zeebo/xxh3 v1.1.0
	go.miragespace.co/specter v0.0.0
)

require (
	github.com/avast/retry-go/v4 v4.7.0 // indirect
	github.com/klauspost/cpuid/v2 v2.3.0 // indirect
	github.com/planetscale/vtprotobuf v0.6.0 // indirect
	github.com/twitchtv/twirp v8.1.3+incompatible // indirect
	go.uber.org/multierr v1.11.0 // indirect
	go.uber.org/zap v1.27.1 // indirect
	google.golang.org/protobuf v1.36.11 // indirect
)

replace go.miragespace.co/specter => /repo
