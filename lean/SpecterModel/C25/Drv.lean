import SpecterModel.Util
import SpecterModel.C25.Model
/-!
C25 line-protocol driver.
`call <Method> <caller> <tokenRecord> <body> <datagram> => <code> <changed 0|1>`
caller      : nodeleg | nocert | badsubject | badversion | panicid | tok
tokenRecord : what the DHT holds under the caller's token key: absent | empty | undecodable | kverr | client | oldclient | na
body        : valid | empty | garbage | json       (ignored by the model: the gate never reads it)
datagram    : ok | fail                            (outcome of the RegisterIdentity test datagram)
code        : ok | <twirp code> | panic (HTTP 500 without twirp body);  changed: DHT snapshot differs or a mutating KV call was made

`callcn <Method> <hex CommonName> <records> <body> <datagram> => <code> <changed 0|1>`
the caller presents a verified certificate with exactly this CommonName (it goes through the REAL
pki.ExtractCertificateIdentity); records = `-` or a comma list `<hex token>=<tokenRecord>`: every client-token
record in the DHT apart from the fixed victim fixture (whose token never occurs in a CommonName).
-/
namespace Specter.C25
open Specter.Util

def parseCaller (c : String) : Option Caller :=
  match c with
  | "nodeleg" => some .noDelegation
  | "nocert" => some .noCert
  | "badsubject" => some .badSubject
  | "badversion" => some .badSubject
  | "panicid" => some .panicSubject
  | "tok" => some (.token "t")
  | _ => none

def parseRec (r : String) : Option TokenRec :=
  match r with
  | "absent" | "empty" | "na" => some .absent
  | "undecodable" => some .undecodable
  | "kverr" => some .kvError
  | "kverr-retryable" => some .kvError      -- a retryable lookup failure is still a failed lookup: refused
  | "client" => some (.client false)
  | "oldclient" => some (.client true)
  | _ => none

/-- the driver's DHT: the token records (absent = no entry) plus a dirty flag. -/
structure DSt where
  recs : List (String × TokenRec)
  dirty : Bool
deriving DecidableEq

def DW : World DSt where
  tokenRec st t := match st.recs.find? (·.1 == t) with | some (_, r) => r | none => .absent
  saveToken st t := { recs := (t, .client false) :: st.recs.filter (·.1 != t), dirty := true }

/-- expected observable outcome; `none` = an authorized call reached a handler the model does not describe. -/
def expectedSt (m : String) (c : Caller) (st0 : DSt) (dgramOk : Bool) : Option String :=
  if m ∉ allMethods then some "bad_route 0"
  else match gate DW Gen.C25.allowList m c st0 with
    | (_, some code) => some (code ++ " 0")
    | (st1, none) =>
      if m = "Ping" then some "ok 0"
      else if m = "RegisterIdentity" then
        match registerIdentity DW dgramOk true c st1 with
        | (_, .err code) => some (code ++ " 0")
        | (_, _) => some "ok 1"
      else none

def expected (m : String) (c : Caller) (rec : TokenRec) (dgramOk : Bool) : Option String :=
  expectedSt m c ⟨[("t", rec)], false⟩ dgramOk

/-- the property statement: apart from Ping and RegisterIdentity, a caller without verified certificate
(or no delegation) or with a never-registered token gets an error and the DHT does not change. -/
def specCheck (m caller rec code changed : String) : Option String :=
  let gated := m ∈ allMethods ∧ m ≠ "Ping" ∧ m ≠ "RegisterIdentity"
  let unauth := caller = "nodeleg" ∨ caller = "nocert" ∨ caller = "badsubject" ∨ caller = "badversion" ∨ caller = "panicid"
      ∨ (caller = "tok" ∧ (rec = "absent" ∨ rec = "empty"
          -- the token was never registered and, on top, the lookup itself fails (hard or retryable error)
          ∨ rec = "kverr" ∨ rec = "kverr-retryable"))
  if gated ∧ unauth then
    if code = "ok" then some "an unauthenticated / unregistered caller was served"
    else if changed ≠ "0" then some "a refused call changed the DHT"
    else none
  else none

/-! ### `callcn`: the property statement over certificate subjects

The statement's notion of "the caller's token", written independently of the model's `cut`/`subjectParts`:
split the CommonName at every separator; a v1 subject `v1:<number>:<token>` carries the re-joined remainder
(all of it), a v2 subject `v2:<number>:…` carries the entire CommonName; anything else is no identity. -/

def isNumber (s : String) : Bool :=
  !s.isEmpty && s.toList.all (fun c => '0' ≤ c && c ≤ '9') && (s.toNat?.getD (2 ^ 64)) < 2 ^ 64

def specToken (cn : String) : Option String :=
  match cn.splitOn ":" with
  | v :: id :: t :: rest =>
    if !isNumber id then none
    else if v = "v1" then some (":".intercalate (t :: rest))
    else if v = "v2" then some cn
    else none
  | _ => none

def parseRecs (s : String) : Option (List (String × String)) :=
  if s = "-" then some [] else
  (s.splitOn ",").mapM fun item =>
    match item.splitOn "=" with
    | [h, k] => (hexToAscii h).map (·, k)
    | _ => none

/-- never registered: no entry under the token key, an empty value, or (on top) a failing lookup. -/
def neverRegistered (recs : List (String × String)) (t : String) : Bool :=
  match recs.find? (·.1 == t) with
  | none => true
  | some (_, k) => k == "absent" || k == "empty" || k == "kverr" || k == "kverr-retryable"

def specCheckCN (m : String) (cn : String) (recs : List (String × String)) (code changed : String) : Option String :=
  let gated := m ∈ allMethods ∧ m ≠ "Ping" ∧ m ≠ "RegisterIdentity"
  if ¬ gated then none else
  let why : Option String :=
    match specToken cn with
    | none => some "a caller whose certificate subject is no client identity"
    | some t => if neverRegistered recs t then
        some ("a caller whose token \"" ++ t ++ "\" was never registered (client records: "
          ++ ", ".intercalate ((recs.filter (fun r => !neverRegistered recs r.1)).map (fun r => "\"" ++ r.1 ++ "\"")) ++ ")")
      else none
  match why with
  | none => none
  | some w =>
    if code = "ok" then some (w ++ " was served")
    else if changed ≠ "0" then some (w ++ " was refused but the call changed the DHT")
    else none

def judge (m : String) (c : Caller) (st0 : DSt) (body : String) (dgramOk : Bool) (rhs : String) : Verdict :=
  match expectedSt m c st0 dgramOk with
  | some e =>
    -- a garbage body that reaches the (allow-listed) handler stage is rejected by twirp as `malformed`
    -- unless it happens to decode; the gate itself never looks at the body
    let passed := (gate DW Gen.C25.allowList m c st0).2.isNone ∧ m ∈ allMethods
    if e = rhs ∨ (passed ∧ body = "garbage" ∧ rhs = "malformed 0") then .ok else .diff e
  | none =>
    -- the model lets this caller through the gate to a handler it does not describe: whatever the handler
    -- answers, it is not the gate's refusal (authorized_passes)
    let code := (rhs.splitOn " ").headD ""
    if code = "unauthenticated" ∨ code = "panic" ∨ code = "bad_route" then .diff "passes-the-gate" else .ok

def step (_ : Unit) (toks : List String) (rhs : String) : Unit × Verdict :=
  match toks with
  | ["reset"] => ((), .ok)
  | ["call", m, caller, rec, body, dgram] =>
    match parseCaller caller, parseRec rec, rhs.splitOn " " with
    | some c, some r, [code, changed] =>
      match specCheck m caller rec code changed with
      | some why => ((), .spec why)
      | none => ((), judge m c ⟨[("t", r)], false⟩ body (dgram == "ok") rhs)
    | _, _, _ => ((), .bad "call args")
  | ["callcn", m, cnhex, recs, body, dgram] =>
    match hexToAscii cnhex, parseRecs recs, rhs.splitOn " " with
    | some cn, some rs, [code, changed] =>
      match rs.mapM (fun r => (parseRec r.2).map (r.1, ·)) with
      | none => ((), .bad "callcn record kind")
      | some trs =>
        match specCheckCN m cn rs code changed with
        | some why => ((), .spec why)
        | none => ((), judge m (callerOfSubject cn.toList) ⟨trs, false⟩ body (dgram == "ok") rhs)
    | _, _, _ => ((), .bad "callcn args")
  | _ => ((), .bad "unknown op")

def main : IO Unit := runLoop () step

end Specter.C25
