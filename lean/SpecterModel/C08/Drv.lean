import SpecterModel.C01.Sim
import SpecterModel.C08.Props
/-! C08 driver: a join request must be answered with success, a retryable refusal, the duplicate-id
refusal or a routing (lookup/transport) error — never a panic, a crash, a hang or another error. -/
namespace Specter.C08
open Specter.Util Specter.Ring

def allowedRefusals : List String :=
  ([Err.joinInvalidState, .joinInvalidSuccessor, .joinTransferFailure, .leaveInvalidState, .leaveTransferFailure,
    .kvStale].filter (·.retryable)).map (fun e => "err:" ++ e.name) ++
  ["err:ErrDuplicateJoinerID"] ++
  ([Err.notStarted, .gone, .noSuccessor, .unreachable].filter isLookupError).map (fun e => "err:" ++ e.name)

def lookupErrNames : List String :=
  ([Err.notStarted, .gone, .noSuccessor, .unreachable].filter isLookupError).map (fun e => "err:" ++ e.name)

/-- what the model answers to the same request on the same (validated) net -/
def modelAnswer (net : Net) (toks : List String) : Option String :=
  (simOp net toks).map (·.2)

def spec (net _net' : Net) (toks : List String) (ires : String) : Option String :=
  match toks with
  | "reqjoin" :: _ | "reqjoinrace" :: _ =>
    if ires.startsWith "ok:" || (allowedRefusals.contains ires && !lookupErrNames.contains ires) then none
    else if lookupErrNames.contains ires then
      -- a non-retryable lookup error is admitted only when the request really could not be routed to a node
      -- responsible for the joiner (dead / departed / not started node on the route): the model's routing over
      -- the same pointers must fail with the same error
      if modelAnswer net toks == some ires then none
      else some s!"join request answered with the non-retryable {ires} although it reached a node that could refuse it retryably (model: {(modelAnswer net toks).getD "?"})"
    else some s!"join request answered with {ires}"
  | _ => none

def main : IO Unit := runLoop ([] : Net) (ringStep spec)

end Specter.C08
