import SpecterModel.C11.Gen
/-!
# Shared executable model of the specter KV back-ends (kv/memory, kv/aof, kv/sqlite3)

Core Lean only. Used by C16 (contract refinement), C17 (key-range transfer) and C19 (leases); other
properties (C20/C21/C10) may import it — names in `Specter.Kv` are meant to stay stable.

A store maps every key to an `Entry` (`simple` value, prefix `children`, `lease` token); `dom`
lists the keys that were ever written (finite support, needed to enumerate listings). The hash
function is a parameter. `Backend` selects the few places where the Go back-ends really differ
(read from the code, function by function):

* `kv/memory` keeps Go's nil-vs-empty distinction for simple values (`Put(k, []byte{})` stores a
  non-nil empty slice, `Delete` stores nil; `isDeleted` tests `== nil`), `ListKeys` reports SIMPLE
  only when `len > 0`; `Renew` refuses iff `cur = 0 ∨ now > cur ∨ cur ≠ prev`; `Release` is a bare
  `CAS(token, 0)` (so `Release(0)` on a free lease "succeeds"); `Import` overwrites simple value
  and lease token unconditionally.
* `kv/aof` = the memory store behind a single-writer mutation queue + log (same sequential
  behaviour while open; the log is the subject of C20/C21).
* `kv/sqlite3` keeps rows: a simple row always reads back non-nil (`Get` turns NULL/empty into
  `[]byte{}`), `ListKeys` reports SIMPLE whenever the row exists (tracker flag), `Renew` updates iff
  `token = prev ∧ token > now`, `Release` deletes iff a row with that token exists, `Import` skips a
  nil simple value when children or a lease come with it and never resets a lease to 0.
  The `key_trackers` row (hash, flags) is a function of the three tables in every reachable state
  (flag set ⇔ row(s) exist), so it is not separate state here; a code change that breaks this shows
  up as a model/implementation difference on `listkeys` / `range`.

Domain: lease tokens, clock values and hashes are `< 2^63` (UnixNano / 48-bit ring ids), where Go's
`uint64`, SQLite's signed INTEGER and `Nat` agree.
-/
namespace Specter.Kv

abbrev Bytes := List Nat
abbrev Key := Bytes

inductive Backend where
  | memory | aof | sqlite
deriving DecidableEq, Repr

/-- the one behavioural switch: SQL rows vs the in-memory skipmap (aof delegates to memory) -/
def Backend.isSql : Backend → Bool
  | .sqlite => true
  | _ => false

/-- per-key data; also the shape of `protocol.KVTransfer` (Export/Import). `simple = none` is Go nil
/ no row; `lease = 0` is "free" / no row. -/
structure Entry where
  simple : Option Bytes := none
  children : List Bytes := []
  lease : Nat := 0
deriving DecidableEq, Repr

/-- `!isDeleted` of kv/memory = "a key_trackers row exists" of kv/sqlite3. -/
def Entry.held (e : Entry) : Bool := e.simple.isSome || !e.children.isEmpty || e.lease != 0

structure Store where
  dom : List Key
  ent : Key → Entry

def Store.init : Store := ⟨[], fun _ => {}⟩

/-- modify the entry of `k` (creating it when absent — `fetchVal` / upsert) -/
def Store.upd (s : Store) (k : Key) (f : Entry → Entry) : Store :=
  ⟨if k ∈ s.dom then s.dom else s.dom ++ [k], fun k' => if k' = k then f (s.ent k) else s.ent k'⟩

/-- `deleteAll` / the four `DELETE … WHERE key IN` statements, for one key -/
def Store.drop (s : Store) (k : Key) : Store :=
  ⟨s.dom.erase k, fun k' => if k' = k then {} else s.ent k'⟩

inductive Kind where
  | simple | pfx | lease
deriving DecidableEq, Repr

inductive Op where
  | put (k : Key) (v : Option Bytes)
  | get (k : Key)
  | delete (k : Key)
  | pappend (k : Key) (c : Bytes)
  | plist (k : Key)
  | pcontains (k : Key) (c : Bytes)
  | premove (k : Key) (c : Bytes)
  | listKeys (pre : Bytes)
  | acquire (k : Key) (ttl : Int) (now : Nat)
  | renew (k : Key) (ttl : Int) (prev now : Nat)
  | release (k : Key) (tok : Nat)
  | importKV (kvs : List (Key × Entry))
  | exportKV (ks : List Key)
  | rangeKeys (lo hi : Nat)
  | removeKeys (ks : List Key)
deriving Repr

inductive Out where
  | ok
  | value (v : Option Bytes)
  | children (cs : List Bytes)
  | bool (b : Bool)
  | kinds (l : List (Key × Kind))
  | token (t : Nat)
  | entries (es : List Entry)
  | keys (ks : List Key)
  | prefixConflict | leaseConflict | leaseExpired | invalidTTL
deriving DecidableEq, Repr

/-! ## leases: a timed cell with explicit `now` (nanoseconds) -/

def second : Int := 1000000000

/-- `durationGuard`: truncate to whole seconds (Go `Duration.Truncate` rounds toward zero), reject
anything below one second. `none` = `ErrKVLeaseInvalidTTL`. (C19 ties this to the Go text.) -/
def ttlGuard (ttl : Int) : Option Nat :=
  let td := ttl - ttl.tmod second
  if td < second then none else some td.toNat

/-- `Acquire` on the cell: both back-ends refuse iff the stored token is in the future
(memory: `curr > now`; sqlite: upsert `WHERE token <= now`). Returns the new cell and the result. -/
def acquireCell (cur now : Nat) (ttl : Int) : Nat × Out :=
  match ttlGuard ttl with
  | none => (cur, .invalidTTL)
  | some d => if cur > now then (cur, .leaseConflict) else (now + d, .token (now + d))

def renewOk (b : Backend) (cur prev now : Nat) : Bool :=
  if b.isSql then decide (cur = prev) && decide (cur > now)
  else decide (cur ≠ 0) && !decide (now > cur) && decide (cur = prev)

def renewCell (b : Backend) (cur prev now : Nat) (ttl : Int) : Nat × Out :=
  match ttlGuard ttl with
  | none => (cur, .invalidTTL)
  | some d => if renewOk b cur prev now then (now + d, .token (now + d)) else (cur, .leaseExpired)

def releaseOk (b : Backend) (cur tok : Nat) : Bool :=
  if b.isSql then decide (cur ≠ 0) && decide (cur = tok) else decide (cur = tok)

def releaseCell (b : Backend) (cur tok : Nat) : Nat × Out :=
  if releaseOk b cur tok then (0, .ok) else (cur, .leaseExpired)

/-! ## hash ranges -/

/-- kv/memory `RangeKeys`: `chord.Between(low, id, high, true)` (the C11 translation of the Go text) -/
def between (lo t hi : Nat) : Bool :=
  Gen.C11.Between (BitVec.ofNat 64 lo) (BitVec.ofNat 64 t) (BitVec.ofNat 64 hi) true

/-- SQLite sees `int64(v)` -/
def sqlInt (v : Nat) : Int := (BitVec.ofNat 64 v).toInt

/-- kv/sqlite3 `RangeKeys`: the Go selector `high > low` is unsigned, the two queries
(`queryRangeKeysNorm` / `queryRangeKeysWrap`) compare the bound signed integers. -/
def sqlRange (lo t hi : Nat) : Bool :=
  if hi % 2^64 > lo % 2^64 then
    (decide (sqlInt t > sqlInt lo) && decide (sqlInt t < sqlInt hi)) || decide (sqlInt t = sqlInt hi)
  else
    decide (sqlInt t > sqlInt lo) || decide (sqlInt t < sqlInt hi) || decide (sqlInt t = sqlInt hi)

def inRange (b : Backend) (lo t hi : Nat) : Bool :=
  if b.isSql then sqlRange lo t hi else between lo t hi

/-! ## per-key operations -/

def putValue (b : Backend) (v : Option Bytes) : Option Bytes :=
  if b.isSql then some (v.getD []) else v

/-- does `ListKeys` report SIMPLE for this entry -/
def listsSimple (b : Backend) (e : Entry) : Bool :=
  if b.isSql then e.simple.isSome
  else match e.simple with
    | some (_ :: _) => true
    | _ => false

def kindsOf (b : Backend) (k : Key) (e : Entry) : List (Key × Kind) :=
  (if listsSimple b e then [(k, Kind.simple)] else []) ++
  (if e.children.isEmpty then [] else [(k, Kind.pfx)]) ++
  (if e.lease != 0 then [(k, Kind.lease)] else [])

def addChildren (cs : List Bytes) (new : List Bytes) : List Bytes :=
  new.foldl (fun acc c => if c ∈ acc then acc else acc ++ [c]) cs

/-- kv/sqlite3 `importedSimpleValue` -/
def sqlImportedSimple (t : Entry) : Option Bytes :=
  match t.simple with
  | some v => some v
  | none => if t.children.isEmpty && t.lease == 0 then some [] else none

def importEntry (b : Backend) (t : Entry) (e : Entry) : Entry :=
  if b.isSql then
    { simple := match sqlImportedSimple t with
                | some v => some v
                | none => e.simple,
      children := addChildren e.children t.children,
      lease := if t.lease != 0 then t.lease else e.lease }
  else
    { simple := t.simple, children := addChildren e.children t.children, lease := t.lease }

def importAll (b : Backend) (s : Store) (kvs : List (Key × Entry)) : Store :=
  kvs.foldl (fun s kv => s.upd kv.1 (importEntry b kv.2)) s

def exportAll (s : Store) (ks : List Key) : List Entry := ks.map s.ent

def removeAll (s : Store) (ks : List Key) : Store := ks.foldl Store.drop s

def rangeKeys (b : Backend) (hash : Key → Nat) (s : Store) (lo hi : Nat) : List Key :=
  s.dom.filter fun k => (s.ent k).held && inRange b lo (hash k) hi

def listKeys (b : Backend) (s : Store) (pre : Bytes) : List (Key × Kind) :=
  (s.dom.filter fun k => pre.isPrefixOf k).flatMap fun k => kindsOf b k (s.ent k)

/-- apply a lease-cell function to the lease of key `k` -/
def onLease (s : Store) (k : Key) (r : Nat × Out) : Store × Out :=
  (if r.1 = (s.ent k).lease then s else s.upd k fun e => { e with lease := r.1 }, r.2)

/-- one operation of back-end `b` (sequential behaviour; concurrency is C18) -/
def step (b : Backend) (hash : Key → Nat) (s : Store) : Op → Store × Out
  | .put k v => (s.upd k fun e => { e with simple := putValue b v }, .ok)
  | .get k => (s, .value (s.ent k).simple)
  | .delete k => (s.upd k fun e => { e with simple := none }, .ok)
  | .pappend k c =>
    if c ∈ (s.ent k).children then (s, .prefixConflict)
    else (s.upd k fun e => { e with children := e.children ++ [c] }, .ok)
  | .plist k => (s, .children (s.ent k).children)
  | .pcontains k c => (s, .bool (decide (c ∈ (s.ent k).children)))
  | .premove k c => (s.upd k fun e => { e with children := e.children.erase c }, .ok)
  | .listKeys pre => (s, .kinds (listKeys b s pre))
  | .acquire k ttl now => onLease s k (acquireCell (s.ent k).lease now ttl)
  | .renew k ttl prev now => onLease s k (renewCell b (s.ent k).lease prev now ttl)
  | .release k tok => onLease s k (releaseCell b (s.ent k).lease tok)
  | .importKV kvs => (importAll b s kvs, .ok)
  | .exportKV ks => (s, .entries (exportAll s ks))
  | .rangeKeys lo hi => (s, .keys (rangeKeys b hash s lo hi))
  | .removeKeys ks => (removeAll s ks, .ok)

/-- outputs of a run -/
def run {σ : Type} (f : σ → Op → σ × Out) : σ → List Op → List Out
  | _, [] => []
  | s, op :: ops => (f s op).2 :: run f (f s op).1 ops

/-- final state of a run -/
def exec {σ : Type} (f : σ → Op → σ × Out) : σ → List Op → σ
  | s, [] => s
  | s, op :: ops => exec f (f s op).1 ops

end Specter.Kv
