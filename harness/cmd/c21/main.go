// C21 correspondence: the REAL kv/aof store on random mutation histories with clean stop/reopen cycles
// (aof.New → Start → mutations → Stop → aof.New …) against the Lean model (submit / replay) and the
// property oracle "the data after the restart equals the data before the stop".
package main

import (
	"context"
	"errors"
	"os"
	"sort"
	"strconv"
	"strings"
	"time"

	"go.miragespace.co/specter/spec/chord"

	"go.miragespace.co/specter/kv/aof"
	"verif/harness/cmd/c21/aofh"
	"verif/harness/hlib"
)

type session struct {
	r   *hlib.Run
	dir string
	kv  *aof.DiskKV
}

func (s *session) reset() {
	s.close()
	s.dir = aofh.TempDir("c21-")
	kv, err := aofh.Open(s.dir)
	if err != nil {
		panic(err)
	}
	s.kv = kv
	s.r.Raw("reset")
}

func (s *session) close() {
	if s.kv != nil {
		s.kv.Stop()
		s.kv = nil
	}
	if s.dir != "" {
		os.RemoveAll(s.dir)
		s.dir = ""
	}
}

func (s *session) do(o aofh.Op) {
	if s.kv == nil {
		return
	}
	line := o.Line()
	res := aofh.Exec(s.kv, o)
	s.r.Emit(line, res)
	s.r.Count("op:" + o.Kind)
	if res != "ok" {
		s.r.Count("result:" + o.Kind + ":" + res)
	}
}

// ---------- lease calls (volatile: kv/aof hands them to the memory store, they are never logged) ----------

// leaseOp: kind acq|ren|rel; ttl in milliseconds; tok = "cur" (the token the store holds right now,
// read through Export as an honest holder would remember it) or a literal number.
type leaseOp struct {
	kind string
	key  []byte
	ttl  int
	tok  string
}

func (o leaseOp) line() string {
	switch o.kind {
	case "acq":
		return "acq " + aofh.Tok(o.key) + " " + strconv.Itoa(o.ttl)
	case "ren":
		return "ren " + aofh.Tok(o.key) + " " + strconv.Itoa(o.ttl) + " " + o.tok
	}
	return "rel " + aofh.Tok(o.key) + " " + o.tok
}

func parseLeaseOp(t []string) (leaseOp, bool) {
	switch {
	case len(t) == 3 && t[0] == "acq":
		n, _ := strconv.Atoi(t[2])
		return leaseOp{kind: "acq", key: aofh.UnTok(t[1]), ttl: n}, true
	case len(t) == 4 && t[0] == "ren":
		n, _ := strconv.Atoi(t[2])
		return leaseOp{kind: "ren", key: aofh.UnTok(t[1]), ttl: n, tok: t[3]}, true
	case len(t) == 3 && t[0] == "rel":
		return leaseOp{kind: "rel", key: aofh.UnTok(t[1]), tok: t[2]}, true
	}
	return leaseOp{}, false
}

func leaseErrTok(err error) string {
	switch {
	case err == nil:
		return "ok"
	case errors.Is(err, chord.ErrKVLeaseInvalidTTL):
		return "invalid-ttl"
	case errors.Is(err, chord.ErrKVLeaseConflict):
		return "lease-conflict"
	case errors.Is(err, chord.ErrKVLeaseExpired):
		return "lease-expired"
	}
	return "err"
}

func (s *session) lease(o leaseOp) {
	if s.kv == nil {
		return
	}
	ctx := context.Background()
	key := append([]byte(nil), o.key...)
	tok := uint64(0)
	if o.tok == "cur" {
		if ex, _ := s.kv.Export(ctx, [][]byte{key}); len(ex) == 1 {
			tok = ex[0].GetLeaseToken()
		}
	} else if o.tok != "" {
		tok, _ = strconv.ParseUint(o.tok, 10, 64)
	}
	ttl := time.Duration(o.ttl) * time.Millisecond
	var err error
	func() {
		defer func() {
			if p := recover(); p != nil {
				err = errors.New("panic")
			}
		}()
		switch o.kind {
		case "acq":
			_, err = s.kv.Acquire(ctx, key, ttl)
		case "ren":
			_, err = s.kv.Renew(ctx, key, ttl, tok)
		case "rel":
			err = s.kv.Release(ctx, key, tok)
		}
	}()
	res := leaseErrTok(err)
	s.r.Emit(o.line(), res)
	s.r.Count("op:" + o.kind)
	s.r.Count("result:" + o.kind + ":" + res)
}

// genLease: lease calls over the same key alphabet as the mutations; ttls are either rejected (< 1 s)
// or so long that a lease never runs out during a case.
func genLease(rng *hlib.Rng, keys [][]byte) leaseOp {
	o := leaseOp{key: hlib.Pick(rng, keys)}
	o.ttl = hlib.Pick(rng, []int{3600_000, 3600_000, 3600_000, 7200_500, 1000_000, 0, 999})
	tok := "cur"
	if rng.Chance(30) {
		tok = strconv.Itoa(rng.Intn(7)) // stale / foreign token (imports carry 1..5)
	}
	switch x := rng.Intn(100); {
	case x < 60:
		o.kind = "acq"
	case x < 80:
		o.kind, o.tok = "ren", tok
	default:
		o.kind, o.tok = "rel", tok
	}
	return o
}

func universe(ops []aofh.Op, extra [][]byte) [][]byte {
	keys := aofh.Universe(ops)
	seen := map[string]bool{}
	for _, k := range keys {
		seen[aofh.Tok(k)] = true
	}
	for _, k := range extra {
		if !seen[aofh.Tok(k)] {
			seen[aofh.Tok(k)] = true
			keys = append(keys, k)
		}
	}
	sort.Slice(keys, func(i, j int) bool { return aofh.Tok(keys[i]) < aofh.Tok(keys[j]) })
	return keys
}

func (s *session) snap(keys [][]byte) {
	if s.kv == nil {
		return
	}
	s.r.Emit("snap "+aofh.ListTok(keys), aofh.Snapshot(s.kv, keys))
}

// restart = clean Stop, then the real aof.New on the same directory
func (s *session) reopen(keys [][]byte) {
	if s.kv == nil {
		return
	}
	s.kv.Stop()
	s.kv = nil
	s.r.Count(hlib.F("segments-at-restart:%d", aofh.Segments(s.dir)))
	kv, err := safeOpen(s.dir)
	if err != nil {
		s.r.Emit("reopen "+aofh.ListTok(keys), err.Error())
		s.r.Count("restart-failed:" + err.Error())
		return
	}
	s.kv = kv
	s.r.Emit("reopen "+aofh.ListTok(keys), aofh.Snapshot(kv, keys))
	s.r.Count("restart")
}

// safeOpen = aof.New; a failure is "error", a panic during replay is "panic"
func safeOpen(dir string) (kv *aof.DiskKV, err error) {
	defer func() {
		if p := recover(); p != nil {
			kv, err = nil, errors.New("panic")
		}
	}()
	kv, err = aofh.Open(dir)
	if err != nil {
		err = errors.New("error")
	}
	return
}

func main() {
	r := hlib.Start()
	r.Rule = "random mutation histories on the real aof store (puts, deletes, prefix append/remove over 4 children so conflicts are frequent, imports with overlapping/duplicate keys and lease tokens (stale and live), key removals; 6 keys incl. the empty key), two cases out of three interleaved with lease calls on the same keys (Acquire/Renew/Release through the store: valid and rejected ttls, current/stale/foreign tokens; never logged), 1..4 clean Stop/aof.New cycles at random positions incl. back-to-back restarts, large values that cycle WAL segments; non-trivial = distinct history with at least one restart after a non-empty log"
	rng := hlib.NewRng(r.Seed)
	s := &session{r: r}
	defer s.close()

	if r.Replay != "" {
		for _, t := range r.ReplayLines() {
			switch t[0] {
			case "reset":
				s.reset()
			case "snap":
				s.snap(aofh.UnListTok(t[1]))
			case "reopen":
				s.reopen(aofh.UnListTok(t[1]))
			default:
				if o, ok := aofh.ParseOp(t); ok {
					s.do(o)
				}
			}
		}
		s.close()
		r.Finish()
		return
	}

	cases, maxOps, bigCases := 80, 50, 1
	if r.Thorough() {
		cases, maxOps, bigCases = 4000, 120, 25
	}
	for c := 0; c < cases+bigCases; c++ {
		cfg := aofh.GenCfg{N: 1 + rng.Intn(maxOps), EmptyKey: rng.Chance(50)}
		if c >= cases {
			cfg.Big = true
			cfg.N = 30 + rng.Intn(30)
		}
		if c < 3 {
			cfg.N = c // empty and tiny histories
		}
		ops := aofh.Gen(rng, cfg)
		// two cases out of three also make lease calls (Acquire/Renew/Release: volatile, never logged)
		// between the mutations, on the keys the mutations use, and let some imports carry a live token
		leaseEvery := 0
		var leaseKeys [][]byte
		if c%3 != 0 && len(ops) > 0 {
			leaseEvery = 10 + rng.Intn(30)
			leaseKeys = aofh.Universe(ops)
			if rng.Chance(50) && len(leaseKeys) > 2 {
				leaseKeys = leaseKeys[:2] // concentrate the leases on few keys
			}
			for i := range ops {
				if ops[i].Kind == "imp" && len(ops[i].Vals) > 0 && rng.Chance(15) {
					ops[i].Vals[rng.Intn(len(ops[i].Vals))].Lease = aofh.LiveLease()
				}
			}
			r.Count("case:with-lease-calls")
		}
		keys := universe(ops, leaseKeys)
		s.reset()
		restarts := 1 + rng.Intn(4)
		at := map[int]int{}
		for i := 0; i < restarts-1; i++ {
			at[rng.Intn(len(ops)+1)]++
		}
		var key strings.Builder
		for i, o := range ops {
			for ; at[i] > 0; at[i]-- {
				s.snap(keys)
				s.reopen(keys)
				key.WriteString("R;")
			}
			for leaseEvery > 0 && len(leaseKeys) > 0 && rng.Chance(leaseEvery) {
				l := genLease(rng, leaseKeys)
				s.lease(l)
				key.WriteString(l.line() + ";")
			}
			s.do(o)
			key.WriteString(o.Line() + ";")
			if rng.Chance(5) {
				s.snap(keys)
			}
		}
		for leaseEvery > 0 && len(leaseKeys) > 0 && rng.Chance(leaseEvery) {
			l := genLease(rng, leaseKeys)
			s.lease(l)
			key.WriteString(l.line() + ";")
		}
		s.snap(keys)
		s.reopen(keys)
		if rng.Chance(30) { // back-to-back restart
			s.snap(keys)
			s.reopen(keys)
		}
		if len(ops) > 0 {
			r.Case(key.String())
		} else {
			r.Case("")
		}
		r.Count(hlib.F("history-len:%d", (len(ops)+9)/10*10))
		s.close()
	}
	r.Finish()
}
