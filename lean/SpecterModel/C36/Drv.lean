import SpecterModel.Util
import SpecterModel.C36.Model
/-! C36 line-protocol driver.

error token: wrappers outermost first then the innermost error, joined by `.`: `f` = fmt %w, `o` = net.OpError,
  `u` = url.Error;
  innermost: nf nc nd ca eof dl nt osdl no ot ueof; `-` = no error.
`lib <err> => <Is nf> <Is nc> <Is nd> <Is canceled> <Is EOF> <Is deadline> <IsTimeout> <IsNoDirect>`   real library / spec/tun predicates
`http <direct|chain|chain-live> <err> => <status>|silent`
`tcp <drainErr> <hostOk> <dialErr> => <events>`         events: dial, send:<FRAME>, pipe, close (comma-joined)
`connect <addrOk> <dialErr> <recvOk> <clientStatus> <hijackOk> => <status> <dialed> <remoteClosedAtReturn> <piped>`

SPEC verdicts restate the property: by the CLASS of the innermost error (not by the model's predicates). -/
namespace Specter.C36
open Specter.Util

def parseLeaf : String → Option Kind
  | "nf" => some .notFound | "nc" => some .notConnected | "nd" => some .noDirect | "ca" => some .canceled
  | "eof" => some .eof | "dl" => some .deadline | "nt" => some .netTimeout | "osdl" => some .netTimeout
  | "no" => some .netOther | "ot" => some .other | "ueof" => some .other | _ => none

def parseErr (t : String) : Option Err :=
  let parts := t.splitOn "."
  match parts.reverse with
  | [] => none
  | l :: ws => do
    let k ← parseLeaf l
    let ws ← ws.reverse.mapM fun w => if w = "f" then some Wrap.fmt else if w = "o" then some Wrap.op else if w = "u" then some Wrap.url else none
    pure ⟨ws, k⟩

def parseOptErr (t : String) : Option (Option Err) := if t = "-" then some none else (parseErr t).map some

def actStr : Act → String
  | .status n => toString n
  | .silent => "silent"

def frameStr : Frame → String
  | .ok => "OK" | .unknownError => "UNKNOWN_ERROR" | .noDirect => "NO_DIRECT"

def evStr : Ev → String
  | .dial => "dial" | .send f => "send:" ++ frameStr f | .close => "close" | .pipe => "pipe"

/-- In the property's quantifier for the timeout clause of a net timeout OTHER than the context deadline: `%w`
layers around an (OpError/url.Error-nested) timeout. A `net.OpError` / `url.Error` directly around a `%w` layer
declares itself a non-timeout `net.Error`, and nothing else in the chain identifies the value as a timeout:
class undetermined, no verdict. -/
def plainStack : List Wrap → Bool
  | .op :: .fmt :: _ => false
  | .url :: .fmt :: _ => false
  | _ :: rest => plainStack rest
  | [] => true

/-- statement: missing tunnel 404, client offline 503, timeout 504, any other forwarding failure 502.
The class of an error value is what `errors.Is` reports for the innermost sentinel ("wrapped or not"): a chain that
contains `context.DeadlineExceeded` IS a timeout whatever the wrappers around it answer themselves, exactly like a
chain containing `ErrDestinationNotFound` is a missing tunnel. -/
def httpWant (e : Err) : Option String :=
  match e.leaf with
  | .notFound => some "404"
  | .notConnected => some "503"
  | .deadline => some "504"
  | .netTimeout => if plainStack e.wraps then some "504" else none
  | .canceled | .eof => none            -- the caller went away: not a reportable forwarding failure
  | .noDirect | .netOther | .other => some "502"

def tcpSpec (drain : Option Err) (hostOk : Bool) (dial : Option Err) (evs : List String) : Option String :=
  let fails := drain.isSome || !hostOk || dial.isSome
  let evs' := evs.filter (· ≠ "dial")
  if fails then
    match evs' with
    | [s, "close"] => if s = "send:NO_DIRECT" ∨ s = "send:UNKNOWN_ERROR" then none else some "caller-must-get-a-failure-status-before-close"
    | _ => some "caller-must-get-exactly-one-failure-status-then-close"
  else
    if evs.any (·.startsWith "send:") then some "gateway-originated-a-status-frame-on-success"
    else if !(evs.contains "pipe" && evs.contains "dial") then some "client-bytes-not-relayed"
    else none

def step (_ : Unit) (toks : List String) (rhs : String) : Unit × Verdict :=
  match toks with
  | ["lib", et] =>
    match parseErr et with
    | some e =>
      let m := " ".intercalate ([e.is .notFound, e.is .notConnected, e.is .noDirect, e.is .canceled, e.is .eof,
        e.is .deadline, isTimeout e, isNoDirect e].map boolStr)
      if m ≠ rhs then ((), .diff m) else ((), .ok)
    | none => ((), .bad "lib args")
  | ["http", _mode, et] =>
    match parseErr et with
    | some e =>
      match httpWant e with
      | some w => if rhs ≠ w then ((), .spec s!"status-must-be-{w}") else
          if actStr (classify e) ≠ rhs then ((), .diff (actStr (classify e))) else ((), .ok)
      | none => if actStr (classify e) ≠ rhs then ((), .diff (actStr (classify e))) else ((), .ok)
    | none => ((), .bad "http args")
  | ["tcp", dr, hok, di] =>
    match parseOptErr dr, parseBool hok, parseOptErr di with
    | some drain, some hostOk, some dial =>
      let evs := if rhs = "-" then [] else rhs.splitOn ","
      match tcpSpec drain hostOk dial evs with
      | some why => ((), .spec why)
      | none =>
        -- after a successful relay the caller's stream is closed by tun.Pipe: not part of forwardTCP itself
        let m := (forwardTCP drain hostOk dial).map evStr
        let m := if m.contains "pipe" then m ++ ["close"] else m
        -- the harness lists `dial` first when it happened
        let canon (l : List String) := (l.filter (· = "dial")) ++ (l.filter (· ≠ "dial"))
        if canon m ≠ canon evs then ((), .diff (",".intercalate m)) else ((), .ok)
    | _, _, _ => ((), .bad "tcp args")
  | ["connect", aok, di, rok, st, hj] =>
    match parseBool aok, parseOptErr di, parseBool rok, parseBool hj,
          (if st = "OK" then some Frame.ok else if st = "NO_DIRECT" then some Frame.noDirect
           else if st = "UNKNOWN_ERROR" then some Frame.unknownError else none) with
    | some addrOk, some dial, some recvOk, some hijackOk, some st =>
      match rhs.splitOn " " with
      | [code, _dialed, _closed, piped] =>
        let clientOk := addrOk && dial.isNone && recvOk && st == Frame.ok
        -- statement: success status only when a client connection exists (and reported OK); otherwise a failure status
        if (code = "200" ∨ piped = "true") ∧ !clientOk then ((), .spec "success-status-without-a-ready-client-connection")
        else if !clientOk ∧ !(code.toNat?.any (· ≥ 400)) then ((), .spec "caller-must-get-a-failure-status")
        else
          let o := httpConnect addrOk dial recvOk st hijackOk
          let m := s!"{o.status} {boolStr o.dialed} {boolStr o.remoteClosed} {boolStr o.piped}"
          if m ≠ rhs then ((), .diff m) else ((), .ok)
      | _ => ((), .bad "connect result")
    | _, _, _, _, _ => ((), .bad "connect args")
  | _ => ((), .bad "unknown op")

def main : IO Unit := runLoop () step

end Specter.C36
