// Package rig: shared test rig of the C25/C26 harnesses — a recording in-memory chord.VNode (kv/memory
// behind explicit forwarding methods, mutation counter, failure injection, canonical snapshots) and a fake
// tunnel transport whose accepted streams are fabricated by the harness (so that the REAL attachRPC stack —
// chi middlewares, twirp servers, RequestRouted hook — serves the requests).
package rig

import (
	"context"
	"crypto/x509"
	"crypto/x509/pkix"
	"encoding/hex"
	"net"
	"sort"
	"strings"
	"sync"
	"sync/atomic"
	"time"

	"go.miragespace.co/specter/kv/memory"
	"go.miragespace.co/specter/spec/chord"
	"go.miragespace.co/specter/spec/protocol"
	"go.miragespace.co/specter/spec/transport"
)

// RecNode is the abstract DHT: one KV for the whole ring.
type RecNode struct {
	chord.VNode // nil: anything not forwarded below is unreachable from tun/server
	mu      sync.Mutex
	KV      *memory.MemoryKV
	Mut     atomic.Int64 // number of mutating KV calls that reached the DHT
	FailGet map[string]error
	FailPut map[string]error
	Self    *protocol.Node
	Succs   []chord.VNode
}

func NewRecNode(self *protocol.Node) *RecNode {
	return &RecNode{KV: memory.WithHashFn(chord.Hash), FailGet: map[string]error{}, FailPut: map[string]error{}, Self: self}
}

func (n *RecNode) Reset() {
	n.KV = memory.WithHashFn(chord.Hash)
	n.Mut.Store(0)
	n.FailGet = map[string]error{}
	n.FailPut = map[string]error{}
}

func (n *RecNode) ID() uint64                            { return n.Self.GetId() }
func (n *RecNode) Identity() *protocol.Node              { return n.Self }
func (n *RecNode) GetSuccessors() ([]chord.VNode, error) { return n.Succs, nil }

func (n *RecNode) Put(ctx context.Context, key, value []byte) error {
	if e := n.FailPut[string(key)]; e != nil {
		return e
	}
	n.Mut.Add(1)
	return n.KV.Put(ctx, key, value)
}
func (n *RecNode) Get(ctx context.Context, key []byte) ([]byte, error) {
	if e := n.FailGet[string(key)]; e != nil {
		return nil, e
	}
	return n.KV.Get(ctx, key)
}
func (n *RecNode) Delete(ctx context.Context, key []byte) error {
	if e := n.FailPut[string(key)]; e != nil {
		return e
	}
	n.Mut.Add(1)
	return n.KV.Delete(ctx, key)
}
func (n *RecNode) PrefixAppend(ctx context.Context, prefix, child []byte) error {
	n.Mut.Add(1)
	return n.KV.PrefixAppend(ctx, prefix, child)
}
func (n *RecNode) PrefixList(ctx context.Context, prefix []byte) ([][]byte, error) {
	return n.KV.PrefixList(ctx, prefix)
}
func (n *RecNode) PrefixContains(ctx context.Context, prefix, child []byte) (bool, error) {
	if e := n.FailGet[string(prefix)]; e != nil {
		return false, e
	}
	return n.KV.PrefixContains(ctx, prefix, child)
}
func (n *RecNode) PrefixRemove(ctx context.Context, prefix, child []byte) error {
	n.Mut.Add(1)
	return n.KV.PrefixRemove(ctx, prefix, child)
}
func (n *RecNode) Acquire(ctx context.Context, lease []byte, ttl time.Duration) (uint64, error) {
	n.Mut.Add(1)
	return n.KV.Acquire(ctx, lease, ttl)
}
func (n *RecNode) Renew(ctx context.Context, lease []byte, ttl time.Duration, prev uint64) (uint64, error) {
	n.Mut.Add(1)
	return n.KV.Renew(ctx, lease, ttl, prev)
}
func (n *RecNode) Release(ctx context.Context, lease []byte, token uint64) error {
	n.Mut.Add(1)
	return n.KV.Release(ctx, lease, token)
}
func (n *RecNode) Import(ctx context.Context, keys [][]byte, values []*protocol.KVTransfer) error {
	n.Mut.Add(1)
	return n.KV.Import(ctx, keys, values)
}
func (n *RecNode) ListKeys(ctx context.Context, prefix []byte) ([]*protocol.KeyComposite, error) {
	return n.KV.ListKeys(ctx, prefix)
}

// Entry is the content of one key.
type Entry struct {
	Key      string
	Simple   []byte
	Children []string
	Leased   bool
}

// Entries returns the whole store, sorted by key (keys with no content are dropped).
func (n *RecNode) Entries() []Entry {
	ctx := context.Background()
	keys, _ := n.KV.RangeKeys(ctx, 0, 0)
	vals, _ := n.KV.Export(ctx, keys)
	var out []Entry
	for i, k := range keys {
		e := Entry{Key: string(k), Simple: vals[i].GetSimpleValue(), Leased: vals[i].GetLeaseToken() != 0}
		for _, c := range vals[i].GetPrefixChildren() {
			e.Children = append(e.Children, string(c))
		}
		sort.Strings(e.Children)
		if len(e.Simple) == 0 && len(e.Children) == 0 && !e.Leased {
			continue
		}
		out = append(out, e)
	}
	sort.Slice(out, func(i, j int) bool { return out[i].Key < out[j].Key })
	return out
}

// Snapshot is a canonical text of the whole store.
func (n *RecNode) Snapshot() string {
	var sb strings.Builder
	for _, e := range n.Entries() {
		sb.WriteString(e.Key + "=" + hex.EncodeToString(e.Simple) + "|" + strings.Join(e.Children, ",") + "|")
		if e.Leased {
			sb.WriteString("L")
		}
		sb.WriteString("\n")
	}
	return sb.String()
}

// Transport is the tunnel transport of the server under test.
type Transport struct {
	transport.Transport // nil: unreachable
	Self       *protocol.Node
	Streams    chan *transport.StreamDelegate
	DatagramOK atomic.Bool
	Datagrams  atomic.Int64
}

func NewTransport(self *protocol.Node) *Transport {
	t := &Transport{Self: self, Streams: make(chan *transport.StreamDelegate, 16)}
	t.DatagramOK.Store(true)
	return t
}
func (t *Transport) Identity() *protocol.Node                        { return t.Self }
func (t *Transport) AcceptStream() <-chan *transport.StreamDelegate { return t.Streams }
func (t *Transport) SendDatagram(peer *protocol.Node, buf []byte) error {
	t.Datagrams.Add(1)
	if t.DatagramOK.Load() {
		return nil
	}
	return net.ErrClosed
}

type addrConn struct {
	net.Conn
	remote net.Addr
}

func (c *addrConn) RemoteAddr() net.Addr { return c.remote }
func (c *addrConn) LocalAddr() net.Addr  { return &net.TCPAddr{IP: net.IPv4(127, 0, 0, 1), Port: 1} }

var connSeq atomic.Uint32

// Dial fabricates an accepted RPC stream carrying the given verified certificate (nil = none) and returns the
// client end. Every connection gets its own remote IP (the rpc handler rate-limits per IP).
func (t *Transport) Dial(cert *x509.Certificate) net.Conn {
	c1, c2 := net.Pipe()
	s := connSeq.Add(1)
	ip := net.IPv4(10, byte(s>>16), byte(s>>8), byte(s))
	t.Streams <- &transport.StreamDelegate{
		Conn:        &addrConn{Conn: c2, remote: &net.TCPAddr{IP: ip, Port: 4000}},
		Certificate: cert,
		Identity:    &protocol.Node{Id: 7, Address: "peer"},
		Kind:        protocol.Stream_RPC,
	}
	return c1
}

// Cert fabricates the (already verified) certificate as the transport would hand it over: tun/server reads
// nothing but Subject.CommonName.
func Cert(cn string) *x509.Certificate {
	return &x509.Certificate{Subject: pkix.Name{CommonName: cn}}
}
