import SpecterModel.C03.Props
import SpecterModel.C08.Props
/-!
# C10 — Ring-wide key listing returns exactly the stored keys

`ringWalk` is the model of the ring walk inside `LocalNode.ListKeys` (repeated
`FindSuccessor(next.ID()+1)` issued at the listing node, with duplicate detection). On a stable
ring the walk started at any member visits EVERY member exactly once and ends at the start node;
the per-node listings are then concatenated, so (with C05's single-holder placement) every stored
key is reported exactly once per kind of data it holds.
-/
namespace Specter.C10
open Specter.Ring Specter.C01 Specter.C03

/-- lookups issued by member `n` complete within the model's fuel constant, for every key -/
def WalkComplete (net : Net) (n : Nat) : Prop := ∀ key, key < M → ∃ o, findSucc net FUEL n key = .found o

theorem moduloSum_one_lt (cur : Nat) : moduloSum cur 1 < M := by
  unfold moduloSum; exact Nat.mod_lt _ (by simp [M])

/-- each step of the walk lands on the owner of `cur + 1`: the first member after `cur` -/
theorem walk_step_owner (net : Net) (hs : Stable net) (n cur : Nat) (hn : Mem net n) (hw : WalkComplete net n) :
    ∃ nx, findSucc net FUEL n (moduloSum cur 1) = .found nx ∧ IsOwner net (moduloSum cur 1) nx := by
  obtain ⟨o', ho'⟩ := hw _ (moduloSum_one_lt cur)
  obtain ⟨f, o, hres, ho⟩ := lookup_correct net hs n _ hn (moduloSum_one_lt cur)
  have := found_unique net n _ FUEL f o' o ho' hres
  subst this; exact ⟨o', ho', ho⟩

/-- structural facts of a successful walk: it extends `seen`, ends at the start node, has no duplicates -/
theorem ringWalk_shape (net : Net) (n : Nat) : ∀ (fuel cur : Nat) (seen l : List Nat),
    ringWalk net n fuel cur seen = .ok l → seen.Nodup → n ∉ seen →
      l.Nodup ∧ l.getLast? = some n ∧ ∃ mid, l = seen ++ mid ++ [n] := by
  intro fuel
  induction fuel with
  | zero => intro cur seen l h; simp [ringWalk] at h
  | succ f ih =>
    intro cur seen l h hnd hns
    rw [ringWalk] at h
    cases hf : findSucc net FUEL n (moduloSum cur 1) with
    | err e => simp [hf] at h
    | found nx =>
      simp only [hf] at h
      by_cases c1 : (nx == n) = true
      · simp only [c1, if_true] at h
        injection h with h; subst h
        refine ⟨?_, by simp, ⟨[], by simp⟩⟩
        rw [List.nodup_append]
        refine ⟨hnd, by simp, ?_⟩
        intro a ha b hb; simp at hb; subst hb; intro e; subst e; exact hns ha
      · simp only [c1, Bool.false_eq_true, if_false] at h
        split at h
        · simp at h
        · rename_i c2
          have hnx : nx ∉ seen := by simpa using c2
          have hne : nx ≠ n := by simpa using c1
          have hnd' : (seen ++ [nx]).Nodup := by
            rw [List.nodup_append]
            refine ⟨hnd, by simp, ?_⟩
            intro a ha b hb; simp at hb; subst hb; intro e; subst e; exact hnx ha
          have hns' : n ∉ seen ++ [nx] := by
            simp only [List.mem_append, List.mem_singleton, not_or]
            exact ⟨hns, fun e => hne e.symm⟩
          obtain ⟨h1, h2, mid, h3⟩ := ih nx (seen ++ [nx]) l h hnd' hns'
          exact ⟨h1, h2, nx :: mid, by rw [h3]; simp⟩

/-- the walk never reports "ring is unstable" for a node it has not seen: the error needs a repeated id -/
theorem unstable_needs_repeat (net : Net) (n : Nat) : ∀ (fuel cur : Nat) (seen : List Nat),
    ringWalk net n fuel cur seen = .error .unstable →
      ∃ cur' seen', seen <+: seen' ∧ ∃ nx, findSucc net FUEL n (moduloSum cur' 1) = .found nx ∧ nx ≠ n ∧ nx ∈ seen' := by
  intro fuel
  induction fuel with
  | zero => intro cur seen h; simp [ringWalk] at h
  | succ f ih =>
    intro cur seen h
    rw [ringWalk] at h
    cases hf : findSucc net FUEL n (moduloSum cur 1) with
    | err e =>
      simp [hf] at h; subst h
      exact absurd (Specter.C08.findSucc_err_isLookupError net _ _ _ _ hf) (by simp [Specter.C08.isLookupError])
    | found nx =>
      simp only [hf] at h
      by_cases c1 : (nx == n) = true
      · simp [c1] at h
      · simp only [c1, Bool.false_eq_true, if_false] at h
        split at h
        · rename_i c2
          exact ⟨cur, seen, List.prefix_refl _, nx, hf, by simpa using c1, by simpa using c2⟩
        · obtain ⟨cur', seen', hp, r⟩ := ih nx (seen ++ [nx]) h
          exact ⟨cur', seen', List.IsPrefix.trans (List.prefix_append _ _) hp, r⟩

/-- **Coverage.** Invariant of the walk on a stable ring: every member other than the start node whose
clockwise distance from the start is at most that of the current node has been visited. -/
theorem ringWalk_covers (net : Net) (hs : Stable net) (n : Nat) (hn : Mem net n) (hw : WalkComplete net n) :
    ∀ (fuel cur : Nat) (seen l : List Nat), ringWalk net n fuel cur seen = .ok l →
      Mem net cur →
      (∀ m, Mem net m → m ≠ n → dist n m ≤ dist n cur → m ∈ seen) →
      ∀ m, Mem net m → m ∈ l := by
  intro fuel
  induction fuel with
  | zero => intro cur seen l h; simp [ringWalk] at h
  | succ f ih =>
    intro cur seen l h hcur hinv m hm
    have hnM := hs.lt n hn; have hcM := hs.lt cur hcur; have hmM := hs.lt m hm
    obtain ⟨nx, hf, hown⟩ := walk_step_owner net hs n cur hn hw
    have hnxM := hs.lt nx hown.1
    rw [ringWalk] at h
    simp only [hf] at h
    -- the key looked up is cur+1 (mod M); nx is the first member at or after it
    have hkM := moduloSum_one_lt cur
    have hkey : (cur + 1 < M ∧ moduloSum cur 1 = cur + 1) ∨ (cur + 1 = M ∧ moduloSum cur 1 = 0) := by
      unfold moduloSum; rw [Nat.mod_eq_of_lt hcM]
      have h1 : 1 % M = 1 := by simp [M]
      rw [h1]
      by_cases hc : cur + 1 < M
      · left; exact ⟨hc, Nat.mod_eq_of_lt hc⟩
      · right; have : cur + 1 = M := by omega
        exact ⟨this, by rw [this]; exact Nat.mod_self M⟩
    generalize moduloSum cur 1 = k at hkM hkey hown hf
    by_cases c1 : (nx == n) = true
    · have hnxn : nx = n := by simpa using c1
      simp only [c1, if_true] at h
      injection h with h; subst h
      by_cases hmn : m = n
      · subst hmn; simp
      · -- m ≠ n: it cannot lie strictly after cur (the owner of cur+1 is n itself)
        have h1 := hown.2 m hm
        rw [hnxn] at h1
        have hle : dist n m ≤ dist n cur := by
          have := dist_cases n m hnM hmM; have := dist_cases n cur hnM hcM
          have := dist_cases k n hkM hnM; have := dist_cases k m hkM hmM
          have := M_val
          omega
        simp only [List.mem_append, List.mem_singleton]
        exact Or.inl (hinv m hm hmn hle)
    · simp only [c1, Bool.false_eq_true, if_false] at h
      have hnxn : nx ≠ n := by simpa using c1
      split at h
      · simp at h
      · refine ih nx (seen ++ [nx]) l h hown.1 ?_ m hm
        intro m' hm' hm'n hle
        have hm'M := hs.lt m' hm'
        have h1 := hown.2 m' hm'
        have h2 := hown.2 n hn
        simp only [List.mem_append, List.mem_singleton]
        -- either m' was already covered (distance ≤ that of cur) or it is nx itself
        by_cases hc' : dist n m' ≤ dist n cur
        · exact Or.inl (hinv m' hm' hm'n hc')
        · right
          have := dist_cases n m' hnM hm'M; have := dist_cases n cur hnM hcM; have := dist_cases n nx hnM hnxM
          have := dist_cases k nx hkM hnxM; have := dist_cases k m' hkM hm'M
          have := dist_cases k n hkM hnM
          have := M_val
          omega

/-- **C10 (walk).** On a stable ring the walk started at any member `n` succeeds only with a list that
contains every member, has no duplicates and ends at `n`. -/
theorem ring_walk_enumerates (net : Net) (hs : Stable net) (n : Nat) (hn : Mem net n) (hw : WalkComplete net n)
    (fuel : Nat) (l : List Nat) (h : ringWalk net n fuel n [] = .ok l) :
    (∀ m, Mem net m → m ∈ l) ∧ l.Nodup ∧ l.getLast? = some n := by
  obtain ⟨h1, h2, _⟩ := ringWalk_shape net n fuel n [] l h (by simp) (by simp)
  refine ⟨ringWalk_covers net hs n hn hw fuel n [] l h hn ?_, h1, h2⟩
  intro m hm hmn hle
  have hnM := hs.lt n hn; have hmM := hs.lt m hm
  have := dist_cases n m hnM hmM; have := dist_cases n n hnM hnM; have := M_val
  omega

/-- non-vacuity: the walk on the three-node ring of C01 -/
def walkList (r : Except Err (List Nat)) : Option (List Nat) := match r with | .ok l => some l | .error _ => none
example : walkList (ringWalk Specter.C01.ring3 0 10 0 []) = some [5, 2^48-1, 0] := by decide
example : walkList (ringWalk Specter.C01.ring3 5 10 5 []) = some [2^48-1, 0, 5] := by decide

end Specter.C10
