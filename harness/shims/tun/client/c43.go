//go:build verif

package client

import (
	"context"
	"errors"

	"go.miragespace.co/specter/spec/protocol"
	"go.miragespace.co/specter/spec/rpc"

	"github.com/zhangyunhao116/skipmap"
	"go.uber.org/atomic"
	"go.uber.org/zap"
)

// verifC43Tun scripts the three RPCs SyncConfigTunnels uses; every other method of the embedded
// (nil) interface would panic, i.e. the harness notices if the code starts calling something else.
type verifC43Tun struct {
	rpc.TunnelClient
	registered    []string
	registeredErr bool
	fresh         []string // "" = that call fails
	Calls         int
	Published     []string
}

func (f *verifC43Tun) RegisteredHostnames(context.Context, *protocol.RegisteredHostnamesRequest) (*protocol.RegisteredHostnamesResponse, error) {
	if f.registeredErr {
		return nil, errors.New("scripted failure")
	}
	return &protocol.RegisteredHostnamesResponse{Hostnames: append([]string{}, f.registered...)}, nil
}

func (f *verifC43Tun) GenerateHostname(context.Context, *protocol.GenerateHostnameRequest) (*protocol.GenerateHostnameResponse, error) {
	i := f.Calls
	f.Calls++
	if i >= len(f.fresh) || f.fresh[i] == "" {
		return nil, errors.New("scripted failure")
	}
	return &protocol.GenerateHostnameResponse{Hostname: f.fresh[i]}, nil
}

func (f *verifC43Tun) PublishTunnel(_ context.Context, req *protocol.PublishTunnelRequest) (*protocol.PublishTunnelResponse, error) {
	f.Published = append(f.Published, req.GetHostname())
	return &protocol.PublishTunnelResponse{Published: req.GetServers()}, nil
}

// VerifC43Sync runs the real SyncConfigTunnels on a client whose configuration holds `tunnels`
// (config file at path) against the scripted server. Returns the configuration's tunnels
// afterwards, the number of GenerateHostname calls and the hostnames passed to PublishTunnel.
func VerifC43Sync(path string, tunnels []Tunnel, registered []string, registeredErr bool, fresh []string) (out []Tunnel, calls int, published []string) {
	cfg := &Config{path: path, router: skipmap.NewString[route](), Version: 2, Apex: "apex.example:443",
		PrivKey: "k", Tunnels: append([]Tunnel{}, tunnels...)}
	fake := &verifC43Tun{registered: registered, registeredErr: registeredErr, fresh: fresh}
	c := &Client{
		ClientConfig: ClientConfig{Logger: zap.NewNop(), Configuration: cfg},
		rootDomain:   atomic.NewString("example.com"),
		proxies:      skipmap.NewString[*httpProxy](),
		connections:  skipmap.NewString[*protocol.Node](),
		tunnelClient: fake,
		closeCh:      make(chan struct{}),
	}
	c.connections.Store("node-1", &protocol.Node{Id: 1, Address: "node-1"})
	c.SyncConfigTunnels(context.Background())
	return append([]Tunnel{}, c.Configuration.Tunnels...), fake.Calls, fake.Published
}

// verifC43RmTun is the scripted service plus ONE re-entrant removal: while the client's sync is
// waiting for the answer of the RPC named by (point, k) — "r" = RegisteredHostnames, "g" = the k-th
// GenerateHostname call, "p" = the k-th PublishTunnel call (0-based) — `hook` runs (it calls
// UnpublishTunnel / ReleaseTunnel on the same client, as the local UI / control API would).
type verifC43RmTun struct {
	verifC43Tun
	point   string
	k       int
	hook    func()
	Fired   bool
	Removed []string // hostnames passed to UnpublishTunnel / ReleaseTunnel RPCs
}

func (f *verifC43RmTun) fire(point string, k int) {
	if !f.Fired && f.point == point && f.k == k {
		f.Fired = true
		f.hook()
	}
}

func (f *verifC43RmTun) RegisteredHostnames(ctx context.Context, req *protocol.RegisteredHostnamesRequest) (*protocol.RegisteredHostnamesResponse, error) {
	f.fire("r", 0)
	return f.verifC43Tun.RegisteredHostnames(ctx, req)
}

func (f *verifC43RmTun) GenerateHostname(ctx context.Context, req *protocol.GenerateHostnameRequest) (*protocol.GenerateHostnameResponse, error) {
	f.fire("g", f.Calls)
	return f.verifC43Tun.GenerateHostname(ctx, req)
}

func (f *verifC43RmTun) PublishTunnel(ctx context.Context, req *protocol.PublishTunnelRequest) (*protocol.PublishTunnelResponse, error) {
	f.fire("p", len(f.Published))
	return f.verifC43Tun.PublishTunnel(ctx, req)
}

func (f *verifC43RmTun) UnpublishTunnel(_ context.Context, req *protocol.UnpublishTunnelRequest) (*protocol.UnpublishTunnelResponse, error) {
	f.Removed = append(f.Removed, "u:"+req.GetHostname())
	return &protocol.UnpublishTunnelResponse{}, nil
}

func (f *verifC43RmTun) ReleaseTunnel(_ context.Context, req *protocol.ReleaseTunnelRequest) (*protocol.ReleaseTunnelResponse, error) {
	f.Removed = append(f.Removed, "l:"+req.GetHostname())
	return &protocol.ReleaseTunnelResponse{}, nil
}

// VerifC43SyncRm is VerifC43Sync with a tunnel removal arriving in the middle of the sync: at the
// RPC (point, k) the real UnpublishTunnel (release=false) or ReleaseTunnel (release=true) is called
// for `hostname` on the same client. Returns additionally whether the point was reached, the live
// configuration right after the removal returned (mid) and whether the removal reported an error.
func VerifC43SyncRm(path string, tunnels []Tunnel, registered []string, registeredErr bool, fresh []string,
	point string, k int, hostname string, release bool) (out []Tunnel, calls int, published []string, fired bool, mid []Tunnel, rmErr bool) {
	cfg := &Config{path: path, router: skipmap.NewString[route](), Version: 2, Apex: "apex.example:443",
		PrivKey: "k", Tunnels: append([]Tunnel{}, tunnels...)}
	fake := &verifC43RmTun{verifC43Tun: verifC43Tun{registered: registered, registeredErr: registeredErr, fresh: fresh},
		point: point, k: k}
	c := &Client{
		ClientConfig: ClientConfig{Logger: zap.NewNop(), Configuration: cfg},
		rootDomain:   atomic.NewString("example.com"),
		proxies:      skipmap.NewString[*httpProxy](),
		connections:  skipmap.NewString[*protocol.Node](),
		tunnelClient: fake,
		closeCh:      make(chan struct{}),
	}
	c.connections.Store("node-1", &protocol.Node{Id: 1, Address: "node-1"})
	fake.hook = func() {
		var err error
		if release {
			err = c.ReleaseTunnel(context.Background(), Tunnel{Hostname: hostname})
		} else {
			err = c.UnpublishTunnel(context.Background(), Tunnel{Hostname: hostname})
		}
		rmErr = err != nil
		mid = append([]Tunnel{}, c.GetCurrentConfig().Tunnels...)
	}
	c.SyncConfigTunnels(context.Background())
	return append([]Tunnel{}, c.Configuration.Tunnels...), fake.Calls, fake.Published, fake.Fired, mid, rmErr
}
