// C20 tie: the REAL kv/aof store is run in a child process (this binary re-executing itself with -child)
// on a seeded mutation history and stopped abruptly at controlled points; the parent reopens the
// directory with the real aof.New and hands the recovered state to the Lean model / property oracle.
//
//	(c) syscall-prefix images: the child runs under strace; the recorded file operations (openat, write,
//	    mkdir, rename, unlink, fsync, close) and the issued/acked markers are totally ordered; for EVERY
//	    prefix the directory image is rebuilt and reopened → every file-operation boundary, deterministically.
//	(b) SIGKILL baseline: the child is killed after a seeded number of protocol lines.
package main

import (
	"bufio"
	"fmt"
	"os"
	"os/exec"
	"path/filepath"
	"regexp"
	"strconv"
	"strings"

	"verif/harness/cmd/c21/aofh"
	"verif/harness/hlib"
)

// ---------- child mode ----------

// `vh -child <dir> <histfile>`: prints `issued i` before and `acked i <result>` after every mutation
// (one unbuffered write(2) per line).
func child(dir, histfile string) {
	b, err := os.ReadFile(histfile)
	if err != nil {
		panic(err)
	}
	kv, err := aofh.Open(dir)
	if err != nil {
		os.Stdout.WriteString("openfail\n")
		os.Exit(3)
	}
	os.Stdout.WriteString("opened\n")
	i := 0
	for _, l := range strings.Split(string(b), "\n") {
		o, ok := aofh.ParseOp(strings.Fields(l))
		if !ok {
			continue
		}
		i++
		os.Stdout.WriteString(fmt.Sprintf("issued %d\n", i))
		res := aofh.Exec(kv, o)
		os.Stdout.WriteString(fmt.Sprintf("acked %d %s\n", i, res))
	}
	kv.Stop()
	os.Stdout.WriteString("stopped\n")
}

// ---------- strace parsing ----------

type event struct {
	kind   string // marker-issued marker-acked marker-other mkdir create write rename unlink sync close
	path   string // relative to the child's data dir; for markers: the marker text
	path2  string
	data   []byte
	trunc  bool
	walSeg bool // write to a WAL segment file (20-digit name)
}


func unhex(s string) string {
	var sb strings.Builder
	for i := 0; i < len(s); {
		if s[i] == '\\' && i+3 < len(s) && s[i+1] == 'x' {
			v, _ := strconv.ParseUint(s[i+2:i+4], 16, 8)
			sb.WriteByte(byte(v))
			i += 4
		} else {
			sb.WriteByte(s[i])
			i++
		}
	}
	return sb.String()
}

var (
	reLine   = regexp.MustCompile(`^(\d+)\s+(.*)$`)
	reCall   = regexp.MustCompile(`^(\w+)\((.*)\)\s+= (-?\d+)`)
	reStr    = regexp.MustCompile(`"((?:\\x[0-9a-f]{2})*)"`)
	reFd     = regexp.MustCompile(`^(\d+)<((?:\\x[0-9a-f]{2})*)>`)
	reSegEnd = regexp.MustCompile(`/\d{20}$`)
)

// parseTrace turns the strace output into the ordered list of events concerning dataDir and the marker file.
func parseTrace(path, dataDir, markerFile string) ([]event, error) {
	f, err := os.Open(path)
	if err != nil {
		return nil, err
	}
	defer f.Close()
	sc := bufio.NewScanner(f)
	sc.Buffer(make([]byte, 1<<20), 1<<28)
	pending := map[string]string{}
	var evs []event
	rel := func(p string) (string, bool) {
		if p == dataDir {
			return ".", true
		}
		if strings.HasPrefix(p, dataDir+"/") {
			return p[len(dataDir)+1:], true
		}
		return "", false
	}
	for sc.Scan() {
		m := reLine.FindStringSubmatch(sc.Text())
		if m == nil {
			continue
		}
		pid, rest := m[1], m[2]
		if strings.HasPrefix(rest, "---") || strings.HasPrefix(rest, "+++") {
			continue
		}
		if i := strings.Index(rest, " <unfinished ...>"); i >= 0 {
			pending[pid] = rest[:i]
			continue
		}
		if strings.HasPrefix(rest, "<... ") {
			j := strings.Index(rest, "resumed>")
			if j < 0 {
				continue
			}
			rest = pending[pid] + rest[j+len("resumed>"):]
			delete(pending, pid)
		}
		c := reCall.FindStringSubmatch(rest)
		if c == nil {
			continue
		}
		name, args, ret := c[1], c[2], c[3]
		if strings.HasPrefix(ret, "-") {
			continue // failed call: no effect
		}
		strs := reStr.FindAllStringSubmatch(args, -1)
		switch name {
		case "write", "pwrite64":
			fd := reFd.FindStringSubmatch(args)
			if fd == nil || len(strs) == 0 {
				continue
			}
			p := unhex(fd[2])
			data := []byte(unhex(strs[0][1]))
			n, _ := strconv.Atoi(ret)
			if n < len(data) {
				data = data[:n]
			}
			if p == markerFile {
				s := string(data)
				switch {
				case strings.HasPrefix(s, "issued "):
					evs = append(evs, event{kind: "marker-issued", path: strings.TrimSpace(s)})
				case strings.HasPrefix(s, "acked "):
					evs = append(evs, event{kind: "marker-acked", path: strings.TrimSpace(s)})
				default:
					evs = append(evs, event{kind: "marker-other", path: strings.TrimSpace(s)})
				}
			} else if r, ok := rel(p); ok {
				if name == "pwrite64" {
					return nil, fmt.Errorf("unexpected pwrite64 on %s", r)
				}
				evs = append(evs, event{kind: "write", path: r, data: data, walSeg: reSegEnd.MatchString(p)})
			}
		case "openat":
			if len(strs) == 0 {
				continue
			}
			if r, ok := rel(unhex(strs[0][1])); ok && strings.Contains(args, "O_CREAT") {
				evs = append(evs, event{kind: "create", path: r, trunc: strings.Contains(args, "O_TRUNC")})
			}
		case "mkdir", "mkdirat":
			if len(strs) == 0 {
				continue
			}
			if r, ok := rel(unhex(strs[0][1])); ok {
				evs = append(evs, event{kind: "mkdir", path: r})
			}
		case "rename", "renameat", "renameat2":
			if len(strs) < 2 {
				continue
			}
			a, ok1 := rel(unhex(strs[0][1]))
			b, ok2 := rel(unhex(strs[1][1]))
			if ok1 && ok2 {
				evs = append(evs, event{kind: "rename", path: a, path2: b})
			}
		case "unlink", "unlinkat":
			if len(strs) == 0 {
				continue
			}
			if r, ok := rel(unhex(strs[0][1])); ok {
				evs = append(evs, event{kind: "unlink", path: r})
			}
		case "ftruncate":
			return nil, fmt.Errorf("unexpected ftruncate")
		case "fsync", "fdatasync", "close":
			fd := reFd.FindStringSubmatch(args)
			if fd == nil {
				continue
			}
			if r, ok := rel(unhex(fd[2])); ok {
				k := "sync"
				if name == "close" {
					k = "close"
				}
				evs = append(evs, event{kind: k, path: r})
			}
		}
	}
	return evs, sc.Err()
}

// image = directory content rebuilt from a prefix of the recorded file operations
type image struct {
	dirs  []string
	files map[string][]byte
	order []string
}

func (im *image) apply(e event) bool {
	switch e.kind {
	case "mkdir":
		im.dirs = append(im.dirs, e.path)
	case "create":
		if _, ok := im.files[e.path]; !ok {
			im.order = append(im.order, e.path)
			im.files[e.path] = nil
		} else if e.trunc {
			im.files[e.path] = nil
		}
	case "write":
		im.files[e.path] = append(append([]byte(nil), im.files[e.path]...), e.data...)
	case "rename":
		if b, ok := im.files[e.path]; ok {
			delete(im.files, e.path)
			if _, ok2 := im.files[e.path2]; !ok2 {
				im.order = append(im.order, e.path2)
			}
			im.files[e.path2] = b
		}
	case "unlink":
		delete(im.files, e.path)
	default:
		return false
	}
	return true
}

func (im *image) materialize(dir string) {
	os.MkdirAll(dir, 0o755)
	for _, d := range im.dirs {
		os.MkdirAll(filepath.Join(dir, d), 0o755)
	}
	for p, b := range im.files {
		os.MkdirAll(filepath.Dir(filepath.Join(dir, p)), 0o755)
		if err := os.WriteFile(filepath.Join(dir, p), b, 0o644); err != nil {
			panic(err)
		}
	}
}

func (im *image) describe() string {
	var parts []string
	for _, p := range im.order {
		if b, ok := im.files[p]; ok {
			parts = append(parts, fmt.Sprintf("%s:%d", filepath.Base(p), len(b)))
		}
	}
	if len(parts) == 0 {
		return "empty"
	}
	return strings.Join(parts, "+")
}

// ---------- parent ----------

type caseRun struct {
	r    *hlib.Run
	rng  *hlib.Rng
	ops  []aofh.Op
	keys [][]byte
	ref  []string // reference results
	work string
}

func (c *caseRun) emitCrash(acked, issued int, w string, tag string, res string) {
	c.r.Emit(fmt.Sprintf("crash %s %d %d %s %s", aofh.ListTok(c.keys), acked, issued, w, tag), res)
	c.r.Count("crash-result:" + map[bool]string{true: "state", false: res}[res != "error" && res != "panic"])
}

// reference run in-process: results and final state go to the model as ordinary op lines
func (c *caseRun) reference() {
	dir := filepath.Join(c.work, "ref")
	kv, err := aofh.Open(dir)
	if err != nil {
		panic(err)
	}
	c.r.Raw("reset")
	for _, o := range c.ops {
		res := aofh.Exec(kv, o)
		c.ref = append(c.ref, res)
		c.r.Emit(o.Line(), res)
		c.r.Count("op:" + o.Kind)
		if res != "ok" {
			c.r.Count("result:" + o.Kind + ":" + res)
		}
	}
	c.r.Emit("snap "+aofh.ListTok(c.keys), aofh.Snapshot(kv, c.keys))
	kv.Stop()
	os.RemoveAll(dir)
}

func (c *caseRun) histFile() string {
	p := filepath.Join(c.work, "hist.txt")
	var sb strings.Builder
	for _, o := range c.ops {
		sb.WriteString(o.Line() + "\n")
	}
	os.WriteFile(p, []byte(sb.String()), 0o644)
	return p
}

// (c) strace prefix images
func (c *caseRun) traceImages(stride int) bool {
	exe, _ := os.Executable()
	dir := filepath.Join(c.work, "child")
	os.RemoveAll(dir)
	os.MkdirAll(dir, 0o755)
	marker := filepath.Join(c.work, "child.out")
	trace := filepath.Join(c.work, "trace.txt")
	out, err := os.Create(marker)
	if err != nil {
		panic(err)
	}
	cmd := exec.Command("strace", "-f", "-qq", "-y", "-xx", "-s", "4000000",
		"-e", "trace=openat,write,pwrite64,ftruncate,rename,renameat,renameat2,unlink,unlinkat,mkdir,mkdirat,fsync,fdatasync,close",
		"-o", trace, exe, "-child", dir, c.histFile())
	cmd.Stdout = out
	cmd.Stderr = os.Stderr
	err = cmd.Run()
	out.Close()
	if err != nil {
		c.r.Count("strace-failed")
		return false
	}
	// the child's acknowledged results must be the reference results
	mb, _ := os.ReadFile(marker)
	i := 0
	for _, l := range strings.Split(string(mb), "\n") {
		f := strings.Fields(l)
		if len(f) == 3 && f[0] == "acked" {
			if i >= len(c.ref) || f[2] != c.ref[i] {
				panic("child result differs from reference run: " + l)
			}
			i++
		}
	}
	if i != len(c.ref) {
		panic("child did not finish the history")
	}
	evs, err := parseTrace(trace, dir, marker)
	if err != nil {
		panic(err)
	}
	im := &image{files: map[string][]byte{}}
	issued, acked, walWrites, version := 0, 0, 0, 0
	cache := map[int]string{}
	seen := map[string]bool{}
	recoverNow := func(k int, what string) {
		key := fmt.Sprintf("%d/%d/%d", version, acked, issued)
		if seen[key] {
			return
		}
		seen[key] = true
		res, ok := cache[version]
		if !ok {
			idir := filepath.Join(c.work, "img")
			os.RemoveAll(idir)
			im.materialize(idir)
			res = aofh.Recover(idir, c.keys)
			cache[version] = res
			c.r.Count("distinct-crash-image")
		}
		c.emitCrash(acked, issued, strconv.Itoa(walWrites), fmt.Sprintf("trace:%d:%s:%s", k, what, im.describe()), res)
		c.r.Count("crash-point:after-" + strings.SplitN(what, ":", 2)[0])
	}
	recoverNow(0, "start")
	for k, e := range evs {
		switch e.kind {
		case "marker-issued":
			issued++
		case "marker-acked":
			acked++
		case "marker-other":
		default:
			if im.apply(e) {
				version++
			}
			if e.kind == "write" && e.walSeg {
				walWrites++
			}
		}
		if stride <= 1 || k%stride == 0 || k == len(evs)-1 {
			recoverNow(k+1, e.kind)
		}
	}
	c.r.Count("trace-events:" + strconv.Itoa((len(evs)+49)/50*50))
	os.RemoveAll(dir)
	return true
}

// (b) SIGKILL after a seeded number of protocol lines
func (c *caseRun) killRun(afterLines int) {
	exe, _ := os.Executable()
	dir := filepath.Join(c.work, "kill")
	os.RemoveAll(dir)
	os.MkdirAll(dir, 0o755)
	cmd := exec.Command(exe, "-child", dir, c.histFile())
	pipe, err := cmd.StdoutPipe()
	if err != nil {
		panic(err)
	}
	if err := cmd.Start(); err != nil {
		panic(err)
	}
	sc := bufio.NewScanner(pipe)
	issued, acked, n := 0, 0, 0
	killed := false
	for sc.Scan() {
		f := strings.Fields(sc.Text())
		if len(f) >= 2 && f[0] == "issued" {
			issued++
		}
		if len(f) >= 2 && f[0] == "acked" {
			acked++
		}
		n++
		if n >= afterLines && !killed {
			cmd.Process.Kill() // SIGKILL; lines already in the pipe are still read below
			killed = true
		}
	}
	cmd.Wait()
	res := aofh.Recover(dir, c.keys)
	c.emitCrash(acked, issued, "-", fmt.Sprintf("kill:%d", afterLines), res)
	c.r.Count("crash-point:sigkill")
	os.RemoveAll(dir)
}

func (c *caseRun) run(kills int, stride int) {
	c.work = aofh.TempDir("c20-")
	defer os.RemoveAll(c.work)
	c.keys = aofh.Universe(c.ops)
	c.reference()
	if !c.traceImages(stride) {
		kills += 6
	}
	for i := 0; i < kills; i++ {
		c.killRun(1 + c.rng.Intn(2*len(c.ops)+2))
	}
	var key strings.Builder
	for _, o := range c.ops {
		key.WriteString(o.Line() + ";")
	}
	c.r.Case(key.String())
}

func main() {
	if len(os.Args) >= 4 && os.Args[1] == "-child" {
		child(os.Args[2], os.Args[3])
		return
	}
	if len(os.Args) >= 4 && os.Args[1] == "-cchild" {
		cchild(os.Args[2], os.Args[3])
		return
	}
	r := hlib.Start()
	r.Rule = "random mutation histories (puts, deletes, prefix append/remove over 4 children so conflicting appends are frequent, imports, key removals) run by the real aof store in a child process; crash images = every prefix of the strace-recorded file operations (mkdir, create, write, rename, unlink, fsync, close) interleaved with the issued/acked markers, plus SIGKILL at seeded protocol lines; each image reopened with the real aof.New; the same for plans with CONCURRENT callers (rounds of 2-4 goroutines released together, identical / conflicting prefix appends, puts, imports, key removals on 2 keys x 2 children, optionally the writer goroutine started after the callers are parked; child under strace --seccomp-bpf, image after every file operation incl. those between a frame write and the end of a roll-back; SIGKILL runs); non-trivial = distinct history / plan"
	rng := hlib.NewRng(r.Seed)
	if _, err := exec.LookPath("strace"); err != nil {
		r.Count("strace-missing")
	}

	if r.Replay != "" {
		var planLines [][]string
		for _, t := range r.ReplayLines() {
			if len(t) >= 2 && t[0] == "cplan" {
				planLines = append(planLines, t[1:])
			}
		}
		if len(planLines) > 0 {
			// the schedule of the callers is not recorded: the plan is run several times
			for i := 0; i < 6; i++ {
				c := &concRun{r: r, rng: rng, p: parsePlan(planLines)}
				c.run(2)
			}
			r.Finish()
			return
		}
		var ops []aofh.Op
		for _, t := range r.ReplayLines() {
			if o, ok := aofh.ParseOp(t); ok {
				ops = append(ops, o)
			}
		}
		c := &caseRun{r: r, rng: rng, ops: ops}
		c.run(2, 1)
		r.Finish()
		return
	}

	cases, maxOps, kills := 24, 40, 2
	if r.Thorough() {
		cases, maxOps, kills = 120, 80, 6
	}
	for i := 0; i < cases; i++ {
		n := 1 + rng.Intn(maxOps)
		if i == 0 {
			n = 0
		}
		ops := aofh.Gen(rng, aofh.GenCfg{N: n, EmptyKey: rng.Chance(30)})
		if i == 1 { // the classic: duplicate prefix append
			ops = []aofh.Op{{Kind: "app", Key: []byte("a"), Val: []byte("c1")}, {Kind: "app", Key: []byte("a"), Val: []byte("c1")}, {Kind: "put", Key: []byte("b"), Val: []byte("v")}}
		}
		c := &caseRun{r: r, rng: rng, ops: ops}
		c.run(kills, 1)
	}
	ccases := 10
	if r.Thorough() {
		ccases = 60
	}
	for i := 0; i < ccases; i++ {
		p := genPlan(rng, r.Thorough())
		if i == 0 { // the classic, concurrently: the same prefix append from every caller, then a put
			p = &plan{late: true}
			for t := 0; t < 3; t++ {
				p.add(0, t, aofh.Op{Kind: "app", Key: []byte("a"), Val: []byte("c1")})
			}
			p.add(1, 0, aofh.Op{Kind: "put", Key: []byte("b"), Val: []byte("v")})
			p.add(1, 1, aofh.Op{Kind: "app", Key: []byte("a"), Val: []byte("c1")})
		}
		c := &concRun{r: r, rng: rng, p: p}
		c.run(kills)
	}
	r.Finish()
}
