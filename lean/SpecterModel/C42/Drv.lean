import SpecterModel.Util
import SpecterModel.C42.Model
/-! C42 line-protocol driver (stateful; `reset` starts a fresh router).
`hc <kind> <id|phys> <tag> => ok`   HandleChord (phys = nil target)
`ht <kind> <tag> => ok`             HandleTunnel
`par <kind>:<id|phys|tun>:<tag>,… => ok`   registrations issued CONCURRENTLY (all returned before the next line);
                                    their (table, kind, target) keys must be pairwise distinct, so every order of
                                    taking effect gives the same tables (`Props.concurrent_order_irrelevant`) and
                                    the statement oracle below is independent of the order in which they are recorded
`ic <kind> <id|nil> => h<tag>|closed`   incoming inter-node stream (nil identity ⇒ GetId() = 0)
`it <kind> => h<tag>|closed`            incoming client stream
`end => extra=<n>`                  outcomes observed beyond one per incoming stream -/
namespace Specter.C42
open Specter.Util

structure DSt where
  model : State
  hist : List Op      -- registration history, for the statement oracle

def dinit : DSt := ⟨init, []⟩

def showRes : Option Nat → String
  | some h => s!"h{h}"
  | none => "closed"

def judge (what : String) (want model : Option Nat) (rhs : String) : Verdict :=
  if rhs ≠ showRes want then .spec s!"want {showRes want} ({what})"
  else if rhs ≠ showRes model then .diff (showRes model)
  else .ok

def parseItem (it : String) : Option Op :=
  match it.splitOn ":" with
  | [kind, target, tag] =>
    match kind.toNat?, tag.toNat? with
    | some kind, some tag =>
      if target = "tun" then some (.handleTunnel kind tag)
      else if target = "phys" then some (.handleChord kind none tag)
      else target.toNat?.map fun id => .handleChord kind (some id) tag
    | _, _ => none
  | _ => none

def parseBatch (items : String) : Option (List Op) :=
  (items.splitOn ",").mapM parseItem

def step (s : DSt) (toks : List String) (rhs : String) : DSt × Verdict :=
  match toks with
  | ["reset"] => (dinit, .ok)
  | ["hc", kind, target, tag] =>
    match kind.toNat?, tag.toNat? with
    | some kind, some tag =>
      let t : Option (Option Nat) := if target = "phys" then some none else target.toNat?.map some
      match t with
      | some t =>
        let op := Op.handleChord kind t tag
        (⟨register s.model op, s.hist ++ [op]⟩, if rhs = "ok" then .ok else .diff "ok")
      | none => (s, .bad "target")
    | _, _ => (s, .bad "hc args")
  | ["ht", kind, tag] =>
    match kind.toNat?, tag.toNat? with
    | some kind, some tag =>
      let op := Op.handleTunnel kind tag
      (⟨register s.model op, s.hist ++ [op]⟩, if rhs = "ok" then .ok else .diff "ok")
    | _, _ => (s, .bad "ht args")
  | ["par", items] =>
    match parseBatch items with
    | some batch =>
      if distinctKeys batch then
        (⟨batch.foldl register s.model, s.hist ++ batch⟩, if rhs = "ok" then .ok else .diff "ok")
      else (s, .bad "batch keys not pairwise distinct")
    | none => (s, .bad "par items")
  | ["ic", kind, id] =>
    match kind.toNat?, (if id = "nil" then some 0 else id.toNat?) with
    | some kind, some id => (s, judge "most recent handler registered for this type and target, else node-wide handler of the type, else closed" (specChord s.hist kind id) (dispatchChord s.model kind id) rhs)
    | _, _ => (s, .bad "ic args")
  | ["it", kind] =>
    match kind.toNat? with
    | some kind => (s, judge "most recent client-stream handler registered for this type, else closed" (specTunnel s.hist kind) (dispatchTunnel s.model kind) rhs)
    | none => (s, .bad "it args")
  | ["end"] => (s, if rhs = "extra=0" then .ok else .spec "a stream was handled or closed more than once")
  | _ => (s, .bad "unknown op")

def main : IO Unit := runLoop dinit step

end Specter.C42
