import SpecterModel.C24.Drv

def main : IO Unit := Specter.C24.main
