#!/bin/sh
# tools/regress.sh <Cxx>...: re-run a property's own check against every confirmed seed of it (checks only)
cd "$(dirname "$0")/.."
for p in "$@"; do
  for d in seeded/$p-*; do
    id=$(basename $d)
    SEED_ID=$id python3 tools/seedcheck.py $p $d --checks $p --checks-only 2>&1 | tail -1
  done
done
