package main

// c14-facts: lifts the chord error registry and the error path facts out of the Go source as Lean text.
//
//   spec/chord/errors.go   every `Name = errorDef("message", retryable)` of the package-level var block, in
//                          source order  ->  registry : List (String × String × Bool);
//                          the initial literal of `retryableErrs`  ->  extraRetryable : List String;
//                          the initial literal of `errorStrMap` (entries `X.Error(): X` for well-known
//                          external sentinels X)  ->  mapInit : List String; every external sentinel mentioned
//                          in either literal  ->  externals : List (name × message × retryable);
//                          the shape of errorDef (registers the message in errorStrMap, appends to
//                          retryableErrs iff retryable) and of ErrorMapper (looks the twirp Msg() up in
//                          errorStrMap) is CHECKED, anything else fails loudly.
//   spec/rpc/error.go      WrapError / WrapErrorKV: `if chord.ErrorIsRetryable(err) { code = twirp.A } else
//                          { code = twirp.B }`  ->  wrapCodes; the message argument of the (single) call
//                          `twirp.NewError(code, <message>)` and the value of the meta entry "kv"  ->  wrapMsg
//                          (the parameter lists `(err error)` / `(key string, err error)` are CHECKED)
//   chord/server_rpc.go    per handler of *Server, how the error of the local node is returned
//                          (rpc.WrapError / rpc.WrapErrorKV / raw)  ->  handlers; the key argument of every
//                          rpc.WrapErrorKV call of a handler (all calls of one handler must agree)  ->  handlerKeys;
//                          EVERY error return of a handler with the call its `err` came from  ->  handlerReturns
//                          (a handler that answers with an error of its own making shows up here)
//
// usage: extract c14-facts <namespace> <errors.go> <rpc/error.go> <server_rpc.go>

import (
	"fmt"
	"go/ast"
	"go/parser"
	"go/token"
	"strconv"
	"strings"
)

func init() { factCmds["c14-facts"] = runC14Facts }

func c14Src(fset *token.FileSet, n ast.Node) string { return c35Src(fset, n) }

func c14LeanStr(s string) string {
	var b strings.Builder
	b.WriteByte('"')
	for _, r := range s {
		switch {
		case r == '"' || r == '\\':
			b.WriteByte('\\')
			b.WriteRune(r)
		case r < 0x20 || r > 0x7e:
			fail("c14-facts: non-printable character in message %q", s)
		default:
			b.WriteRune(r)
		}
	}
	b.WriteByte('"')
	return b.String()
}

func runC14Facts(args []string) {
	if len(args) != 4 {
		fail("usage: c14-facts <namespace> <errors.go> <rpc/error.go> <server_rpc.go>")
	}
	ns := args[0]
	fset := token.NewFileSet()
	parse := func(p string) *ast.File {
		f, err := parser.ParseFile(fset, p, nil, 0)
		if err != nil {
			fail("c14-facts: %v", err)
		}
		return f
	}
	errs, rpcf, srv := parse(args[1]), parse(args[2]), parse(args[3])

	// ---- registry ----
	type entry struct {
		name, msg string
		retry     bool
	}
	var reg []entry
	var extra, mapInit []string
	sawMap := false
	for _, d := range errs.Decls {
		gd, ok := d.(*ast.GenDecl)
		if !ok || gd.Tok != token.VAR {
			continue
		}
		for _, sp := range gd.Specs {
			vs := sp.(*ast.ValueSpec)
			for i, nm := range vs.Names {
				if i >= len(vs.Values) {
					continue
				}
				switch nm.Name {
				case "retryableErrs":
					cl, ok := vs.Values[i].(*ast.CompositeLit)
					if !ok {
						fail("c14-facts: retryableErrs is not a composite literal")
					}
					for _, e := range cl.Elts {
						extra = append(extra, c14Src(fset, e))
					}
					continue
				case "errorStrMap":
					cl, ok := vs.Values[i].(*ast.CompositeLit)
					if !ok {
						fail("c14-facts: errorStrMap is not a map literal")
					}
					for _, e := range cl.Elts {
						kv, ok := e.(*ast.KeyValueExpr)
						if !ok {
							fail("c14-facts: errorStrMap: unexpected element %s", c14Src(fset, e))
						}
						k, v := c14Src(fset, kv.Key), c14Src(fset, kv.Value)
						if k != v+".Error()" {
							fail("c14-facts: errorStrMap entry %s: %s is not of the form X.Error(): X", k, v)
						}
						mapInit = append(mapInit, v)
					}
					sawMap = true
					continue
				}
				call, ok := vs.Values[i].(*ast.CallExpr)
				if !ok {
					continue
				}
				if fn, ok := call.Fun.(*ast.Ident); !ok || fn.Name != "errorDef" {
					continue
				}
				if len(call.Args) != 2 {
					fail("c14-facts: errorDef call with %d arguments", len(call.Args))
				}
				lit, ok := call.Args[0].(*ast.BasicLit)
				if !ok || lit.Kind != token.STRING {
					fail("c14-facts: %s: message is not a string literal", nm.Name)
				}
				msg, err := strconv.Unquote(lit.Value)
				if err != nil {
					fail("c14-facts: %s: %v", nm.Name, err)
				}
				b := c14Src(fset, call.Args[1])
				if b != "true" && b != "false" {
					fail("c14-facts: %s: retryable flag %s is not a literal", nm.Name, b)
				}
				reg = append(reg, entry{nm.Name, msg, b == "true"})
			}
		}
	}
	if len(reg) == 0 || !sawMap {
		fail("c14-facts: no errorDef registry / errorStrMap found")
	}
	// any other errorDef call (inside a function, in another form) would escape the registry
	n := 0
	ast.Inspect(errs, func(x ast.Node) bool {
		if c, ok := x.(*ast.CallExpr); ok {
			if id, ok := c.Fun.(*ast.Ident); ok && id.Name == "errorDef" {
				n++
			}
		}
		return true
	})
	if n != len(reg) {
		fail("c14-facts: %d errorDef calls but %d registry entries", n, len(reg))
	}
	// shape of errorDef / ErrorMapper / ErrorIsRetryable
	need := map[string][]string{
		"errorDef":         {"errorStrMap[str] = err", "if retryable {", "retryableErrs = append(retryableErrs, err)", "msg: str"},
		"ErrorMapper":      {"srcErr = twirpErr.Msg()", "errorStrMap[srcErr]", "parsedErr = mapped", "return parsedErr"},
		"ErrorIsRetryable": {"range retryableErrs", "errors.Is(err, e)", "return true", "return false"},
	}
	for _, d := range errs.Decls {
		fd, ok := d.(*ast.FuncDecl)
		if !ok {
			continue
		}
		if frags, ok := need[fd.Name.Name]; ok {
			body := c14Src(fset, fd.Body)
			for _, fr := range frags {
				if !strings.Contains(body, fr) {
					fail("c14-facts: %s no longer contains `%s`", fd.Name.Name, fr)
				}
			}
			delete(need, fd.Name.Name)
		}
	}
	for k := range need {
		fail("c14-facts: function %s not found", k)
	}

	// ---- WrapError / WrapErrorKV ----
	type wc struct{ fn, yes, no, msg, kv string }
	var wcs []wc
	for _, d := range rpcf.Decls {
		fd, ok := d.(*ast.FuncDecl)
		if !ok || (fd.Name.Name != "WrapError" && fd.Name.Name != "WrapErrorKV") {
			continue
		}
		var w wc
		w.fn = fd.Name.Name
		ast.Inspect(fd.Body, func(x ast.Node) bool {
			is, ok := x.(*ast.IfStmt)
			if !ok {
				return true
			}
			if c14Src(fset, is.Cond) != "chord.ErrorIsRetryable(err)" {
				fail("c14-facts: %s: unexpected condition %s", w.fn, c14Src(fset, is.Cond))
			}
			get := func(b *ast.BlockStmt) string {
				if b == nil || len(b.List) != 1 {
					fail("c14-facts: %s: unexpected branch shape", w.fn)
				}
				as, ok := b.List[0].(*ast.AssignStmt)
				if !ok || c14Src(fset, as.Lhs[0]) != "code" {
					fail("c14-facts: %s: branch does not assign code", w.fn)
				}
				return strings.TrimPrefix(c14Src(fset, as.Rhs[0]), "twirp.")
			}
			els, _ := is.Else.(*ast.BlockStmt)
			w.yes, w.no = get(is.Body), get(els)
			return false
		})
		if w.yes == "" {
			fail("c14-facts: %s: code selection not found", w.fn)
		}
		// parameters: (err error) / (key string, err error)
		var ps []string
		for _, f := range fd.Type.Params.List {
			for _, nm := range f.Names {
				ps = append(ps, nm.Name+" "+c14Src(fset, f.Type))
			}
		}
		params := "(" + strings.Join(ps, ", ") + ")"
		if want := map[string]string{"WrapError": "(err error)", "WrapErrorKV": "(key string, err error)"}[w.fn]; params != want {
			fail("c14-facts: %s: parameters %s, expected %s", w.fn, params, want)
		}
		// the message put on the wire and the "kv" meta entry
		nNew := 0
		w.kv = "-"
		ast.Inspect(fd.Body, func(x ast.Node) bool {
			c, ok := x.(*ast.CallExpr)
			if !ok {
				return true
			}
			fn := c14Src(fset, c.Fun)
			switch {
			case fn == "twirp.NewError":
				nNew++
				if len(c.Args) != 2 || c14Src(fset, c.Args[0]) != "code" {
					fail("c14-facts: %s: unexpected call %s", w.fn, c14Src(fset, c))
				}
				w.msg = c14Src(fset, c.Args[1])
			case strings.HasPrefix(fn, "twirp.") && fn != "twirp.WrapError":
				fail("c14-facts: %s: unexpected twirp constructor %s", w.fn, fn)
			case strings.HasSuffix(fn, ".WithMeta"):
				if len(c.Args) != 2 {
					fail("c14-facts: %s: unexpected call %s", w.fn, c14Src(fset, c))
				}
				if c14Src(fset, c.Args[0]) == `"kv"` {
					if w.kv != "-" {
						fail("c14-facts: %s: meta entry kv set twice", w.fn)
					}
					w.kv = c14Src(fset, c.Args[1])
				}
			}
			return true
		})
		if nNew != 1 {
			fail("c14-facts: %s: %d twirp.NewError calls, expected 1", w.fn, nNew)
		}
		wcs = append(wcs, w)
	}
	if len(wcs) != 2 {
		fail("c14-facts: WrapError and WrapErrorKV expected, found %d", len(wcs))
	}

	// ---- handlers ----
	type hret struct{ form, recv, fn string }
	type hd struct {
		name, how, key string
		rets           []hret // EVERY error return, in source order
	}
	var hds []hd
	for _, d := range srv.Decls {
		fd, ok := d.(*ast.FuncDecl)
		if !ok || fd.Recv == nil || len(fd.Recv.List) != 1 || c14Src(fset, fd.Recv.List[0].Type) != "*Server" {
			continue
		}
		how := "none"
		hkey := ""
		var rets []hret
		errRecv, errFn := "?", "?" // the call the variable `err` was last assigned from
		ast.Inspect(fd.Body, func(x ast.Node) bool {
			if as, ok := x.(*ast.AssignStmt); ok {
				for _, l := range as.Lhs {
					if id, ok := l.(*ast.Ident); ok && id.Name == "err" {
						errRecv, errFn = "?", c14Src(fset, as.Rhs[0])
						if c, ok := as.Rhs[0].(*ast.CallExpr); ok && len(as.Rhs) == 1 {
							f := c14Src(fset, c.Fun)
							if i := strings.LastIndex(f, "."); i >= 0 {
								errRecv, errFn = f[:i], f[i+1:]
							} else {
								errRecv, errFn = "", f
							}
						}
					}
				}
			}
			if c, ok := x.(*ast.CallExpr); ok && c14Src(fset, c.Fun) == "rpc.WrapErrorKV" {
				if len(c.Args) != 2 || c14Src(fset, c.Args[1]) != "err" {
					fail("c14-facts: handler %s: unexpected call %s", fd.Name.Name, c14Src(fset, c))
				}
				k := c14Src(fset, c.Args[0])
				if hkey != "" && hkey != k {
					fail("c14-facts: handler %s wraps with different keys: %s and %s", fd.Name.Name, hkey, k)
				}
				hkey = k
			}
			rs, ok := x.(*ast.ReturnStmt)
			if !ok || len(rs.Results) != 2 {
				return true
			}
			e := c14Src(fset, rs.Results[1])
			switch {
			case e == "nil":
			case strings.HasPrefix(e, "rpc.WrapErrorKV("):
				how = "WrapErrorKV"
			case strings.HasPrefix(e, "rpc.WrapError("):
				how = "WrapError"
			case e == "err":
				how = "raw"
			default:
				fail("c14-facts: handler %s returns %s", fd.Name.Name, e)
			}
			if e != "nil" {
				rets = append(rets, hret{how, errRecv, errFn})
			}
			return true
		})
		if (how == "WrapErrorKV") != (hkey != "") {
			fail("c14-facts: handler %s: returns through %s but wraps with key %q", fd.Name.Name, how, hkey)
		}
		hds = append(hds, hd{fd.Name.Name, how, hkey, rets}) // how = the LAST error return: the one after the local node's call
	}

	var b strings.Builder
	fmt.Fprintf(&b, "/- GENERATED by extract/c14-facts from spec/chord/errors.go, spec/rpc/error.go, chord/server_rpc.go — do not edit -/\n")
	fmt.Fprintf(&b, "namespace %s\n\n", ns)
	fmt.Fprintf(&b, "/-- the chord error registry: (variable, message, retryable), in source order -/\ndef registry : List (String × String × Bool) := [\n")
	for i, e := range reg {
		c := ","
		if i == len(reg)-1 {
			c = ""
		}
		fmt.Fprintf(&b, "  (%s, %s, %v)%s\n", c14LeanStr(e.name), c14LeanStr(e.msg), e.retry, c)
	}
	fmt.Fprintf(&b, "]\n\n/-- initial contents of `retryableErrs` (errors that are retryable without being in the registry) -/\ndef extraRetryable : List String := [")
	for i, e := range extra {
		if i > 0 {
			b.WriteString(", ")
		}
		b.WriteString(c14LeanStr(e))
	}
	fmt.Fprintf(&b, "]\n\n/-- values pre-registered in `errorStrMap` under their own message -/\ndef mapInit : List String := [")
	for i, e := range mapInit {
		if i > 0 {
			b.WriteString(", ")
		}
		b.WriteString(c14LeanStr(e))
	}
	// messages of the well-known external sentinels (cross-checked against the running program by the harness)
	extMsg := map[string]string{"context.DeadlineExceeded": "context deadline exceeded", "context.Canceled": "context canceled"}
	fmt.Fprintf(&b, "]\n\n/-- external sentinel errors mentioned above: (Go value, message, in retryableErrs) -/\ndef externals : List (String × String × Bool) := [")
	seen := map[string]bool{}
	first := true
	for _, e := range append(append([]string{}, extra...), mapInit...) {
		if seen[e] {
			continue
		}
		seen[e] = true
		m, ok := extMsg[e]
		if !ok {
			fail("c14-facts: unknown external sentinel %s", e)
		}
		retry := false
		for _, x := range extra {
			if x == e {
				retry = true
			}
		}
		if !first {
			b.WriteString(", ")
		}
		first = false
		fmt.Fprintf(&b, "(%s, %s, %v)", c14LeanStr(e), c14LeanStr(m), retry)
	}
	fmt.Fprintf(&b, "]\n\n/-- (function, twirp code when retryable, twirp code otherwise) -/\ndef wrapCodes : List (String × String × String) := [")
	for i, w := range wcs {
		if i > 0 {
			b.WriteString(", ")
		}
		fmt.Fprintf(&b, "(%s, %s, %s)", c14LeanStr(w.fn), c14LeanStr(w.yes), c14LeanStr(w.no))
	}
	fmt.Fprintf(&b, "]\n\n/-- (function, message argument of twirp.NewError, value of the meta entry \"kv\" or \"-\") -/\ndef wrapMsg : List (String × String × String) := [")
	for i, w := range wcs {
		if i > 0 {
			b.WriteString(", ")
		}
		fmt.Fprintf(&b, "(%s, %s, %s)", c14LeanStr(w.fn), c14LeanStr(w.msg), c14LeanStr(w.kv))
	}
	fmt.Fprintf(&b, "]\n\n/-- how each handler of chord.Server returns the local node's error -/\ndef handlers : List (String × String) := [\n")
	for i, h := range hds {
		c := ","
		if i == len(hds)-1 {
			c = ""
		}
		fmt.Fprintf(&b, "  (%s, %s)%s\n", c14LeanStr(h.name), c14LeanStr(h.how), c)
	}
	fmt.Fprintf(&b, "]\n\n/-- the key argument of rpc.WrapErrorKV in each handler that wraps with it: a field of the request -/\ndef handlerKeys : List (String × String) := [\n")
	var kvh []hd
	for _, h := range hds {
		if h.how == "WrapErrorKV" {
			kvh = append(kvh, h)
		}
	}
	for i, h := range kvh {
		c := ","
		if i == len(kvh)-1 {
			c = ""
		}
		fmt.Fprintf(&b, "  (%s, %s)%s\n", c14LeanStr(h.name), c14LeanStr(h.key), c)
	}
	fmt.Fprintf(&b, "]\n\n/-- EVERY error return of each handler, in source order: (form of the return, receiver and name of the call the\nreturned `err` was assigned from) -/\ndef handlerReturns : List (String × List (String × String × String)) := [\n")
	for i, h := range hds {
		c := ","
		if i == len(hds)-1 {
			c = ""
		}
		var rs []string
		for _, r := range h.rets {
			rs = append(rs, fmt.Sprintf("(%s, %s, %s)", c14LeanStr(r.form), c14LeanStr(r.recv), c14LeanStr(r.fn)))
		}
		fmt.Fprintf(&b, "  (%s, [%s])%s\n", c14LeanStr(h.name), strings.Join(rs, ", "), c)
	}
	fmt.Fprintf(&b, "]\n\nend %s\n", ns)
	fmt.Print(b.String())
}
