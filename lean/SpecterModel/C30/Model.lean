import SpecterModel.C30.Gen
import SpecterModel.C29.Model
/-!
# C30 — model of keyless TLS: `getCertificate` / `GetCertificate` / `Sign` (tun/server/keyless_rpc.go),
`computeKeylessTTL` / `keylessCertLoader` (tun/server/keyless_cache.go). Core Lean only.
The binding check is C29's `checkAcme` model; the TTL constants are generated from the Go source (Gen.lean).
-/
namespace Specter.C30
open Specter.C29 (Cfg State Client Code Chk checkAcme)

inductive Err where
  | invHost | invPow | denied | kvErr | provider | invAlgo | invDigest | internal
deriving DecidableEq, Repr

def ofCode : Code → Err
  | .invHost => .invHost | .invPow => .invPow | .denied => .denied | .kvErr => .kvErr
  | .failedPre => .internal | .internal => .internal

/-- what the CertProvider yields on a cache miss -/
inductive Provider where
  | cert | fail | empty
deriving DecidableEq, Repr

structure Req where
  caller : Client
  norm : Option String     -- acme.Normalize (oracle)
  powOk : Bool             -- pow.VerifySolution for subject norm (oracle)
  kvGetFail : Bool
  prov : Provider

/-- keyless cache: hostname ↦ cached positive (true) / failed (false) result -/
abbrev Cache := String → Option Bool

structure GetOut where
  cache : Cache
  res : Option Err         -- none = certificate returned
  called : Bool            -- CertProvider invoked (cache miss after all guards passed)

def setCache (c : Cache) (h : String) (v : Bool) : Cache := fun x => if x = h then some v else c x

/-- `getCertificate`: authenticate, normalise, `checkAcme` must say *found*, then the loading cache -/
def getCertificate (cfg : Cfg) (kv : State) (cache : Cache) (r : Req) : GetOut :=
  match r.norm with
  | none => ⟨cache, some .invHost, false⟩
  | some h =>
    match checkAcme cfg kv r.caller h r.powOk r.kvGetFail with
    | .refused c _ => ⟨cache, some (ofCode c), false⟩
    | .notFound => ⟨cache, some .denied, false⟩
    | .found =>
      match cache h with
      | some true => ⟨cache, none, false⟩
      | some false => ⟨cache, some .provider, false⟩
      | none =>
        match r.prov with
        | .cert => ⟨setCache cache h true, none, true⟩
        | _ => ⟨setCache cache h false, some .provider, true⟩

/-- `KeylessSignRequest_HashAlgorithm` → `crypto.Hash.Size()`: SHA256 = 1, SHA384 = 2, SHA512 = 3 -/
def hashSize : Nat → Option Nat
  | 1 => some 32 | 2 => some 48 | 3 => some 64 | _ => none

/-- `Sign`: certificate first, then algorithm, signer type, digest length, and only then the signer -/
def sign (cfg : Cfg) (kv : State) (cache : Cache) (r : Req) (algo dlen : Nat) (isSigner signOk : Bool) : GetOut :=
  let g := getCertificate cfg kv cache r
  match g.res with
  | some _ => g
  | none =>
    match hashSize algo with
    | none => { g with res := some .invAlgo }
    | some n =>
      if !isSigner then { g with res := some .internal }
      else if dlen ≠ n then { g with res := some .invDigest }
      else if !signOk then { g with res := some .internal }
      else g

/-! ### cache TTL (nanoseconds, `time.Duration` as Int) -/

def second : Int := 1000000000

/-- `computeKeylessTTL` once the leaf's `NotAfter` is known; `d = NotAfter − now` -/
def ttlOf (d : Int) : Int :=
  let remaining := d + (-Gen.C30.keylessExpirySkew)
  if remaining ≤ 0 then second
  else if remaining < Gen.C30.keylessPositiveTTL then remaining
  else Gen.C30.keylessPositiveTTL

/-- can `ttlOf d = t` for some clock reading with `NotAfter − now = d ∈ [d1, d0]`? (decision procedure used
by the driver for the loader, which reads the clock itself; proved exact in Props: `ttlReachable_iff`) -/
def ttlReachable (d1 d0 t : Int) : Bool :=
  (t == second && decide (d1 - Gen.C30.keylessExpirySkew ≤ 0))
  || (decide (0 < t) && decide (t < Gen.C30.keylessPositiveTTL)
        && decide (d1 ≤ t + Gen.C30.keylessExpirySkew) && decide (t + Gen.C30.keylessExpirySkew ≤ d0))
  || (t == Gen.C30.keylessPositiveTTL && decide (Gen.C30.keylessPositiveTTL ≤ d0 - Gen.C30.keylessExpirySkew))

/-- `computeKeylessTTL`: `none` = nil certificate / no leaf and first chain element does not parse -/
def computeTTL : Option Int → Int
  | none => Gen.C30.keylessPositiveTTL
  | some d => ttlOf d

/-- TTL chosen by `keylessCertLoader` -/
def loaderTTL (p : Provider) (leaf : Option Int) : Int :=
  match p with
  | .cert => let t := computeTTL leaf; if t ≤ 0 then Gen.C30.keylessFailedTTL else t
  | _ => Gen.C30.keylessFailedTTL

/-! ### one run of `keylessCertLoader` on a timeline

The loader reads the clock twice: `start` on entry (only used for the debug log) and `now` AFTER the
certificate provider has answered; the provider may be arbitrarily slow (on-demand issuance, KV-backed
storage), so `ret - start` is unbounded. The TTL is computed from `now`, the cache starts the entry's
lifetime after the loader returns. All instants in ns on one clock. -/

structure Run where
  start : Int      -- `start := time.Now()` at loader entry
  ret : Int        -- the instant `CertProvider.GetCertificateWithContext` returns
  now : Int        -- `now := time.Now()` taken after the provider returned

/-- program order of the three instants -/
def Run.ordered (r : Run) : Prop := r.start ≤ r.ret ∧ r.ret ≤ r.now

instance (r : Run) : Decidable r.ordered := by unfold Run.ordered; infer_instance

/-- TTL handed to the cache by one loader run; `notAfter` = the leaf's NotAfter (`none`: no usable leaf) -/
def loaderRunTTL (p : Provider) (notAfter : Option Int) (r : Run) : Int :=
  loaderTTL p (notAfter.map (· - r.now))

/-- the statement's "never kept past its expiry minus the safety skew" as a predicate on a TTL handed to
the cache at an instant with `NotAfter − instant = dNs` (1 s is the smallest TTL the cache is ever given:
a TTL ≤ 0 would mean "no expiry"). Monotone in `dNs`: allowed for a later instant ⇒ allowed for an earlier one. -/
def ttlAllowed (dNs ttl : Int) : Bool :=
  decide (0 < ttl) && decide (ttl ≤ max (dNs - Gen.C30.keylessExpirySkew) second)

end Specter.C30
