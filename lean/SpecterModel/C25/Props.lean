import SpecterModel.C25.Model
/-!
# C25 — Tunnel control RPCs require a verified, registered client

Theorems quantify over every DHT state type and state, every caller, every method name, and every
handler behaviour (`handler` is an arbitrary function: this is the quantification over request bodies
and over what the handlers would do). The method sets, the allow-list and the hook wiring are the
GENERATED facts of `Gen.C25` (regenerated from the twirp interfaces and client_rpc.go on every run).
-/
namespace Specter.C25
open Gen.C25

variable {σ ρ : Type}

/-- The hook refuses — and leaves the DHT untouched — unless the method is allow-listed or the caller has a
verified certificate whose token is registered. -/
theorem gate_refuses (W : World σ) (allow : List String) (m : String) (c : Caller) (st : σ)
    (hm : m ∉ allow) (hc : ¬ authorized W st c) :
    ∃ code, gate W allow m c st = (st, some code) := by
  cases c with
  | noDelegation => exact ⟨"internal", by simp [gate]⟩
  | noCert => exact ⟨"unauthenticated", by simp [gate, hm]⟩
  | badSubject => exact ⟨"unauthenticated", by simp [gate, hm]⟩
  | panicSubject => exact ⟨"panic", by simp [gate, hm]⟩
  | token t =>
    simp only [authorized, not_exists] at hc
    refine ⟨"unauthenticated", ?_⟩
    cases h : W.tokenRec st t with
    | client old => exact absurd h (hc old)
    | absent => simp [gate, hm, h]
    | kvError => simp [gate, hm, h]
    | undecodable => simp [gate, hm, h]

/-- C25: a call to a non-allow-listed method by a caller without verified certificate or with an
unregistered token is refused, the handler never runs (whatever it is, whatever the body) and the DHT is
unchanged. -/
theorem refused_changes_nothing (W : World σ) (allow : List String) (handler : String → Caller → σ → σ × ρ)
    (m : String) (c : Caller) (st : σ) (hm : m ∉ allow) (hc : ¬ authorized W st c) :
    (rpc W allow handler m c st).1 = st
    ∧ ((rpc W allow handler m c st).2 = .badRoute ∨ ∃ code, (rpc W allow handler m c st).2 = .denied code) := by
  unfold rpc
  by_cases hr : m ∉ allMethods
  · simp [hr]
  · obtain ⟨code, hg⟩ := gate_refuses W allow m c st hm hc
    refine ⟨?_, Or.inr ⟨code, ?_⟩⟩ <;> simp [hr, hg]

/-- Conversely: whenever a handler ran, the method was allow-listed or the caller was authorized; and a
context without delegation never reaches any handler. -/
theorem handled_only_if_authorized (W : World σ) (allow : List String) (handler : String → Caller → σ → σ × ρ)
    (m : String) (c : Caller) (st : σ) (r : ρ) (h : (rpc W allow handler m c st).2 = .handled r) :
    c ≠ .noDelegation ∧ (m ∈ allow ∨ authorized W st c) := by
  constructor
  · intro hc; subst hc
    unfold rpc at h
    by_cases hr : m ∉ allMethods <;> simp [hr, gate] at h
  · by_cases hm : m ∈ allow
    · exact Or.inl hm
    · by_cases hc : authorized W st c
      · exact Or.inr hc
      · rcases (refused_changes_nothing W allow handler m c st hm hc).2 with h' | ⟨code, h'⟩ <;>
          rw [h'] at h <;> cases h

/-- An authorized caller does reach the handler of every routed method (the gate is not vacuous); the only
DHT write the gate itself may do is rewriting the caller's own old-format token record. -/
theorem authorized_passes (W : World σ) (allow : List String) (m : String) (t : String) (st : σ)
    (old : Bool) (h : W.tokenRec st t = .client old) :
    gate W allow m (.token t) st = (st, none) ∨ gate W allow m (.token t) st = (W.saveToken st t, none) := by
  by_cases hm : m ∈ allow
  · left; simp [gate, hm]
  · cases old <;> simp [gate, hm, h]

/-! ## the generated facts about the real RPC surface -/

/-- the allow-list in the routing hook is exactly {Ping, RegisterIdentity}. -/
theorem allowList_expected : allowList = ["Ping", "RegisterIdentity"] := by decide

/-- every method of both services except the two allow-listed ones falls into the authenticated default
branch. -/
theorem gated_methods :
    allMethods.filter (fun m => !(allowList.contains m))
      = ["GetNodes", "GenerateHostname", "RegisteredHostnames", "PublishTunnel", "UnpublishTunnel",
         "ReleaseTunnel", "AcmeInstruction", "AcmeValidate", "GetCertificate", "Sign"] := by decide

/-- both twirp servers are built with the hook, the default branch authenticates, and the delegation check
comes first. -/
theorem hook_wiring : hookedServices = ["TunnelService", "KeylessService"]
    ∧ defaultGuarded = true ∧ delegationCheckedFirst = true := by decide

/-- C25 on the real surface: for every TunnelService / KeylessService method other than Ping and
RegisterIdentity, an unauthorized call is denied with the DHT unchanged. -/
theorem every_gated_method_refuses (W : World σ) (handler : String → Caller → σ → σ × ρ)
    (m : String) (hmem : m ∈ allMethods) (hP : m ≠ "Ping") (hR : m ≠ "RegisterIdentity")
    (c : Caller) (st : σ) (hc : ¬ authorized W st c) :
    ∃ code, rpc W allowList handler m c st = (st, .denied code) := by
  have hm : m ∉ allowList := by rw [allowList_expected]; simp [hP, hR]
  obtain ⟨code, hg⟩ := gate_refuses W allowList m c st hm hc
  exact ⟨code, by simp [rpc, hmem, hg]⟩

/-! ## the allow-listed handlers -/

theorem ping_changes_nothing (c : Caller) (st : σ) : (ping c st).1 = st := rfl

/-- identity registration itself needs a verified certificate, and writes nothing without one. -/
theorem registerIdentity_needs_cert (W : World σ) (d s : Bool) (c : Caller) (st : σ)
    (hc : ∀ t, c ≠ .token t) :
    (registerIdentity W d s c st).1 = st ∧ ∃ code, (registerIdentity W d s c st).2 = .err code := by
  cases c with
  | token t => exact absurd rfl (hc t)
  | noDelegation => exact ⟨rfl, _, rfl⟩
  | noCert => exact ⟨rfl, _, rfl⟩
  | badSubject => exact ⟨rfl, _, rfl⟩
  | panicSubject => exact ⟨rfl, _, rfl⟩

/-- the only state change of RegisterIdentity is the caller's own token record. -/
theorem registerIdentity_writes_own_token (W : World σ) (d s : Bool) (c : Caller) (st : σ) :
    (registerIdentity W d s c st).1 = st ∨ ∃ t, c = .token t ∧ (registerIdentity W d s c st).1 = W.saveToken st t := by
  cases c with
  | token t =>
    cases d <;> cases s <;> simp [registerIdentity]
  | noDelegation => exact Or.inl rfl
  | noCert => exact Or.inl rfl
  | badSubject => exact Or.inl rfl
  | panicSubject => exact Or.inl rfl

/-! ## identity extraction (`pki.ExtractCertificateIdentity`): the token the gate checks is the certificate's whole token -/
theorem cut_eq_some_iff (cs a b : List Char) :
    cut cs = some (a, b) ↔ cs = a ++ ':' :: b ∧ ':' ∉ a := by
  induction cs generalizing a b with
  | nil => simp [cut]
  | cons c cs ih =>
    unfold cut
    by_cases hc : c = ':'
    · subst hc
      simp only [if_true]
      constructor
      · intro h; cases h; simp
      · rintro ⟨h, hn⟩
        cases a with
        | nil => simp at h; simp [h]
        | cons x a => simp at h; exact absurd (List.mem_cons.2 (Or.inl h.1)) hn
    · simp only [hc, if_false]
      cases hcut : cut cs with
      | none =>
        simp only [reduceCtorEq, false_iff]
        rintro ⟨h, hn⟩
        cases a with
        | nil => simp at h; exact hc h.1
        | cons x a =>
          simp at h
          have := (ih a b).2 ⟨h.2, by intro hm; exact hn (List.mem_cons_of_mem _ hm)⟩
          simp [hcut] at this
      | some p =>
        obtain ⟨a', b'⟩ := p
        have h' := (ih a' b').1 hcut
        constructor
        · intro h; cases h
          refine ⟨by simp [h'.1], ?_⟩
          intro hm
          rcases List.mem_cons.1 hm with h1 | h1
          · exact hc h1.symm
          · exact h'.2 h1
        · rintro ⟨h, hn⟩
          cases a with
          | nil => simp at h; exact absurd h.1 hc
          | cons x a =>
            simp at h
            have := (ih a b).2 ⟨h.2, by intro hm; exact hn (List.mem_cons_of_mem _ hm)⟩
            rw [hcut] at this
            cases this
            simp [h.1]

theorem subjectParts_eq_some_iff (cn a b c : List Char) :
    subjectParts cn = some (a, b, c) ↔ cn = a ++ ':' :: (b ++ ':' :: c) ∧ ':' ∉ a ∧ ':' ∉ b := by
  unfold subjectParts
  constructor
  · intro h
    cases h1 : cut cn with
    | none => simp [h1] at h
    | some p =>
      obtain ⟨a', r⟩ := p
      cases h2 : cut r with
      | none => simp [h1, h2] at h
      | some q =>
        obtain ⟨b', c'⟩ := q
        simp only [h1, h2, Option.some.injEq, Prod.mk.injEq] at h
        obtain ⟨rfl, rfl, rfl⟩ := h
        have e1 := (cut_eq_some_iff _ _ _).1 h1
        have e2 := (cut_eq_some_iff _ _ _).1 h2
        exact ⟨by rw [e1.1, e2.1], e1.2, e2.2⟩
  · rintro ⟨rfl, ha, hb⟩
    have e1 : cut (a ++ ':' :: (b ++ ':' :: c)) = some (a, b ++ ':' :: c) := (cut_eq_some_iff _ _ _).2 ⟨rfl, ha⟩
    have e2 : cut (b ++ ':' :: c) = some (b, c) := (cut_eq_some_iff _ _ _).2 ⟨rfl, hb⟩
    simp [e1, e2]

theorem isUint64_no_sep (id : List Char) (h : isUint64 id = true) : ':' ∉ id := by
  intro hm
  simp only [isUint64, Bool.and_eq_true, List.all_eq_true] at h
  have := h.1.2 _ hm
  revert this
  decide

theorem subjectParts_v1 (id tok : List Char) (hid : ':' ∉ id) :
    subjectParts (subjectV1 id tok) = some (v1Tag, id, tok) :=
  (subjectParts_eq_some_iff _ _ _ _).2 ⟨rfl, by decide, hid⟩

theorem subjectParts_v2 (id h : List Char) (hid : ':' ∉ id) :
    subjectParts (subjectV2 id h) = some (v2Tag, id, h) :=
  (subjectParts_eq_some_iff _ _ _ _).2 ⟨rfl, by decide, hid⟩

/-- a v1 subject carries its WHOLE token, separators included: nothing is cut off. -/
theorem v1_subject_roundtrip (id tok : List Char) (hid : isUint64 id = true) :
    callerOfSubject (subjectV1 id tok) = .token (String.ofList tok) := by
  simp [callerOfSubject, subjectParts_v1 id tok (isUint64_no_sep id hid), hid]

theorem v2_subject_roundtrip (id h : List Char) (hid : isUint64 id = true) :
    callerOfSubject (subjectV2 id h) = .token (String.ofList (subjectV2 id h)) := by
  have : v2Tag ≠ v1Tag := by decide
  simp [callerOfSubject, subjectParts_v2 id h (isUint64_no_sep id hid), hid, this]

/-- conversely, whenever the extraction yields a token, the CommonName is exactly the v1 subject of that
token (or the v2 subject that IS the token): the identity the gate checks determines the certificate's
token completely. -/
theorem subject_token_faithful (cn : List Char) (t : String) (h : callerOfSubject cn = .token t) :
    (∃ id tok, isUint64 id = true ∧ cn = subjectV1 id tok ∧ t = String.ofList tok)
    ∨ (∃ id hs, isUint64 id = true ∧ cn = subjectV2 id hs ∧ t = String.ofList cn) := by
  unfold callerOfSubject at h
  cases hp : subjectParts cn with
  | none => simp [hp] at h
  | some p =>
    obtain ⟨v, id, tok⟩ := p
    have e := (subjectParts_eq_some_iff _ _ _ _).1 hp
    simp only [hp] at h
    by_cases h1 : v = v1Tag
    · subst h1
      by_cases hid : isUint64 id = true
      · simp [hid] at h
        exact Or.inl ⟨id, tok, hid, e.1, h.symm⟩
      · simp [hid] at h
    · by_cases h2 : v = v2Tag
      · subst h2
        by_cases hid : isUint64 id = true
        · simp [h1, hid] at h
          exact Or.inr ⟨id, tok, hid, e.1, h.symm⟩
        · simp [h1, hid] at h
      · simp [h1, h2] at h


/-- C25 through the real identity extraction: a verified v1 certificate whose token — the ENTIRE remainder
of the CommonName after `v1:<id>:` — has no client record is refused on every gated method with the DHT
unchanged, whatever else is registered (in particular a registered token that is a prefix of the caller's
token up to one of its separators does not help). `id` is any separator-free text: a non-numeric id is refused too. -/
theorem unregistered_v1_subject_refused (W : World σ) (handler : String → Caller → σ → σ × ρ)
    (m : String) (hmem : m ∈ allMethods) (hP : m ≠ "Ping") (hR : m ≠ "RegisterIdentity")
    (id tok : List Char) (hsep : ':' ∉ id) (st : σ)
    (hreg : ∀ old, W.tokenRec st (String.ofList tok) ≠ .client old) :
    ∃ code, rpc W allowList handler m (callerOfSubject (subjectV1 id tok)) st = (st, .denied code) := by
  apply every_gated_method_refuses W handler m hmem hP hR
  intro ha
  cases hc : callerOfSubject (subjectV1 id tok) with
  | token t =>
    rw [hc] at ha
    obtain ⟨old, hold⟩ := ha
    by_cases hid : isUint64 id = true
    · rw [v1_subject_roundtrip id tok hid] at hc
      cases hc
      exact hreg old hold
    · simp [callerOfSubject, subjectParts_v1 id tok hsep, hid] at hc
  | _ => rw [hc] at ha; exact ha

/-- the same for v2 certificates: the token is the entire CommonName, so a subject with anything appended
to a registered v2 subject is a different, unregistered token. -/
theorem unregistered_v2_subject_refused (W : World σ) (handler : String → Caller → σ → σ × ρ)
    (m : String) (hmem : m ∈ allMethods) (hP : m ≠ "Ping") (hR : m ≠ "RegisterIdentity")
    (id hs : List Char) (hsep : ':' ∉ id) (st : σ)
    (hreg : ∀ old, W.tokenRec st (String.ofList (subjectV2 id hs)) ≠ .client old) :
    ∃ code, rpc W allowList handler m (callerOfSubject (subjectV2 id hs)) st = (st, .denied code) := by
  apply every_gated_method_refuses W handler m hmem hP hR
  intro ha
  have h21 : v2Tag ≠ v1Tag := by decide
  cases hc : callerOfSubject (subjectV2 id hs) with
  | token t =>
    rw [hc] at ha
    obtain ⟨old, hold⟩ := ha
    by_cases hid : isUint64 id = true
    · rw [v2_subject_roundtrip id hs hid] at hc
      cases hc
      exact hreg old hold
    · simp [callerOfSubject, subjectParts_v2 id hs hsep, hid, h21] at hc
  | _ => rw [hc] at ha; exact ha

/-- every CommonName that is neither a v1 nor a v2 subject with a numeric id is refused on every gated
method, whatever is registered. -/
theorem malformed_subject_refused (W : World σ) (handler : String → Caller → σ → σ × ρ)
    (m : String) (hmem : m ∈ allMethods) (hP : m ≠ "Ping") (hR : m ≠ "RegisterIdentity")
    (cn : List Char) (st : σ)
    (h1 : ∀ id tok, isUint64 id = true → cn ≠ subjectV1 id tok)
    (h2 : ∀ id hs, isUint64 id = true → cn ≠ subjectV2 id hs) :
    ∃ code, rpc W allowList handler m (callerOfSubject cn) st = (st, .denied code) := by
  apply every_gated_method_refuses W handler m hmem hP hR
  intro ha
  cases hc : callerOfSubject cn with
  | token t =>
    rcases subject_token_faithful cn t hc with ⟨id, tok, hid, e, _⟩ | ⟨id, hs, hid, e, _⟩
    · exact h1 id tok hid e
    · exact h2 id hs hid e
  | _ => rw [hc] at ha; exact ha

/-! ## non-vacuity: a concrete DHT (association list token ↦ record) -/

private def W0 : World (List (String × TokenRec)) where
  tokenRec st t := match st.find? (·.1 == t) with | some (_, r) => r | none => .absent
  saveToken st t := (t, .client false) :: st

private def st0 : List (String × TokenRec) := [("alice", .client false), ("old", .client true), ("junk", .undecodable)]
private def h0 : String → Caller → List (String × TokenRec) → List (String × TokenRec) × Nat :=
  fun _ _ st => (("evil", .client false) :: st, 7)   -- a handler that always writes

example : "PublishTunnel" ∈ allMethods ∧ "PublishTunnel" ∉ allowList := by decide
example : ¬ authorized W0 st0 (.token "mallory") := by simp [authorized, W0, st0]
example : ¬ authorized W0 st0 (.token "junk") := by simp [authorized, W0, st0]
example : (rpc W0 allowList h0 "PublishTunnel" (.token "mallory") st0).1 = st0 := by decide
example : (rpc W0 allowList h0 "PublishTunnel" (.token "alice") st0).1 = ("evil", .client false) :: st0 := by decide
example : (rpc W0 allowList h0 "Sign" .noCert st0).1 = st0 := by decide
example : (rpc W0 allowList h0 "Ping" .noCert st0).1 = ("evil", .client false) :: st0 := by decide
example : authorized W0 st0 (.token "alice") := ⟨false, by decide⟩
example : (gate W0 allowList "GetNodes" (.token "old") st0) = (("old", .client false) :: st0, none) := by decide

/-! non-vacuity of the extraction theorems: `alice` is registered, `alice:other` / `alice:` / `:alice` are not -/
private def cs (s : String) : List Char := s.toList

example : isUint64 (cs "42") = true ∧ isUint64 (cs "18446744073709551615") = true
    ∧ isUint64 (cs "18446744073709551616") = false ∧ isUint64 (cs "") = false ∧ isUint64 (cs "+1") = false := by decide
example : callerOfSubject (cs "v1:42:alice:other") = .token "alice:other" := by decide
example : callerOfSubject (cs "v1:42::") = .token ":" := by decide
example : callerOfSubject (cs "v2:42:aGFzaA==:x") = .token "v2:42:aGFzaA==:x" := by decide
example : callerOfSubject (cs "v1:42") = .badSubject ∧ callerOfSubject (cs "v1:x:t") = .panicSubject
    ∧ callerOfSubject (cs "v3:1:t") = .badSubject := by decide
example : (rpc W0 allowList h0 "GenerateHostname" (callerOfSubject (cs "v1:42:alice")) st0).1
    = ("evil", .client false) :: st0 := by decide
example : (rpc W0 allowList h0 "GenerateHostname" (callerOfSubject (cs "v1:42:alice:other")) st0).1 = st0 := by decide
example : ∀ old, W0.tokenRec st0 (String.ofList (cs "alice:other")) ≠ .client old := by decide

end Specter.C25
