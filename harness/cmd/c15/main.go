// C15 correspondence: the real chord.WrapRetryKV (retry-go underneath) over a scripted VNode, for all
// 11 wrapped KV methods, vs the Lean model of DoWithData and the statement-level oracle.
package main

import (
	"bytes"
	"context"
	"errors"
	"fmt"
	"io"
	"strconv"
	"strings"
	"sync"
	"time"

	"go.miragespace.co/specter/spec/chord"
	"go.miragespace.co/specter/spec/protocol"
	"verif/harness/hlib"
)

var retryable = []error{
	chord.ErrKVStaleOwnership,
	chord.ErrKVPendingTransfer,
	context.DeadlineExceeded,
	chord.ErrJoinInvalidState,
	fmt.Errorf("wrapped: %w", chord.ErrKVPendingTransfer),
	chord.ErrLeaveTransferFailure,
}

var nonRetryable = []error{
	chord.ErrKVSimpleConflict,
	chord.ErrNodeGone,
	errors.New("boom"),
	chord.ErrKVLeaseConflict,
	context.Canceled,
	io.ErrUnexpectedEOF,
	chord.ErrKVPrefixConflict,
}

var errExhausted = errors.New("script exhausted")

// scriptErr gives every scripted error its own identity (which call produced the returned error?)
type scriptErr struct {
	base error
	idx  int
}

func (e *scriptErr) Error() string { return e.base.Error() }
func (e *scriptErr) Unwrap() error { return e.base }

type entry struct {
	tok string // o<v> | R<k> | N<k>
	val uint64
	err error // instance returned (nil for success)
}

type node struct {
	chord.VNode // nil: any unexpected method panics
	mu          sync.Mutex
	script      []entry
	exhausted   error
	calls       int
	argsBad     bool
	cancelAt    int // 1-based call during which the ctx is cancelled (0 = never)
	cancel      context.CancelFunc
	ctx         context.Context
}

var (
	kA = []byte("key-a")
	kB = []byte("val-b")
)

const ttl = 7 * time.Second

func (n *node) next(ctx context.Context, ok bool) (uint64, error) {
	n.mu.Lock()
	defer n.mu.Unlock()
	i := n.calls
	n.calls++
	if !ok || ctx != n.ctx {
		n.argsBad = true
	}
	if n.cancelAt > 0 && n.calls == n.cancelAt {
		n.cancel()
	}
	if i >= len(n.script) {
		return 99, n.exhausted
	}
	e := n.script[i]
	if e.err != nil {
		return 77, e.err // a junk value next to an error: the wrapper must return the zero value
	}
	return e.val, nil
}

func val(v uint64) []byte { return []byte(strconv.FormatUint(v, 10)) }

func (n *node) Put(ctx context.Context, k, v []byte) error {
	_, err := n.next(ctx, bytes.Equal(k, kA) && bytes.Equal(v, kB))
	return err
}
func (n *node) Get(ctx context.Context, k []byte) ([]byte, error) {
	v, err := n.next(ctx, bytes.Equal(k, kA))
	return val(v), err
}
func (n *node) Delete(ctx context.Context, k []byte) error {
	_, err := n.next(ctx, bytes.Equal(k, kA))
	return err
}
func (n *node) PrefixAppend(ctx context.Context, p, c []byte) error {
	_, err := n.next(ctx, bytes.Equal(p, kA) && bytes.Equal(c, kB))
	return err
}
func (n *node) PrefixList(ctx context.Context, p []byte) ([][]byte, error) {
	v, err := n.next(ctx, bytes.Equal(p, kA))
	return [][]byte{val(v)}, err
}
func (n *node) PrefixContains(ctx context.Context, p, c []byte) (bool, error) {
	v, err := n.next(ctx, bytes.Equal(p, kA) && bytes.Equal(c, kB))
	return v != 0, err
}
func (n *node) PrefixRemove(ctx context.Context, p, c []byte) error {
	_, err := n.next(ctx, bytes.Equal(p, kA) && bytes.Equal(c, kB))
	return err
}
func (n *node) Acquire(ctx context.Context, l []byte, t time.Duration) (uint64, error) {
	return n.next(ctx, bytes.Equal(l, kA) && t == ttl)
}
func (n *node) Renew(ctx context.Context, l []byte, t time.Duration, prev uint64) (uint64, error) {
	return n.next(ctx, bytes.Equal(l, kA) && t == ttl && prev == 4242)
}
func (n *node) Release(ctx context.Context, l []byte, tok uint64) error {
	_, err := n.next(ctx, bytes.Equal(l, kA) && tok == 4242)
	return err
}
func (n *node) ListKeys(ctx context.Context, p []byte) ([]*protocol.KeyComposite, error) {
	v, err := n.next(ctx, bytes.Equal(p, kA))
	return []*protocol.KeyComposite{{Key: val(v)}}, err
}

// methods: name, whether it carries a value, and the call through the wrapper returning
// (value token "" when zero/none, error)
type method struct {
	name     string
	hasValue bool // value range: 0/1 for bool, any for others
	boolean  bool
	call     func(w chord.VNode, ctx context.Context) (string, bool, error) // value text, isZero, err
}

func pv(s string) (uint64, bool) { v, err := strconv.ParseUint(s, 10, 64); return v, err == nil }

var methods = []method{
	{"Put", false, false, func(w chord.VNode, ctx context.Context) (string, bool, error) {
		return "0", true, w.Put(ctx, kA, kB)
	}},
	{"Get", true, false, func(w chord.VNode, ctx context.Context) (string, bool, error) {
		v, err := w.Get(ctx, kA)
		return string(v), v == nil, err
	}},
	{"Delete", false, false, func(w chord.VNode, ctx context.Context) (string, bool, error) {
		return "0", true, w.Delete(ctx, kA)
	}},
	{"PrefixAppend", false, false, func(w chord.VNode, ctx context.Context) (string, bool, error) {
		return "0", true, w.PrefixAppend(ctx, kA, kB)
	}},
	{"PrefixList", true, false, func(w chord.VNode, ctx context.Context) (string, bool, error) {
		v, err := w.PrefixList(ctx, kA)
		if len(v) == 1 {
			return string(v[0]), false, err
		}
		return "?", v == nil, err
	}},
	{"PrefixContains", true, true, func(w chord.VNode, ctx context.Context) (string, bool, error) {
		v, err := w.PrefixContains(ctx, kA, kB)
		if v {
			return "1", false, err
		}
		return "0", true, err
	}},
	{"PrefixRemove", false, false, func(w chord.VNode, ctx context.Context) (string, bool, error) {
		return "0", true, w.PrefixRemove(ctx, kA, kB)
	}},
	{"Acquire", true, false, func(w chord.VNode, ctx context.Context) (string, bool, error) {
		v, err := w.Acquire(ctx, kA, ttl)
		return strconv.FormatUint(v, 10), v == 0, err
	}},
	{"Renew", true, false, func(w chord.VNode, ctx context.Context) (string, bool, error) {
		v, err := w.Renew(ctx, kA, ttl, 4242)
		return strconv.FormatUint(v, 10), v == 0, err
	}},
	{"Release", false, false, func(w chord.VNode, ctx context.Context) (string, bool, error) {
		return "0", true, w.Release(ctx, kA, 4242)
	}},
	{"ListKeys", true, false, func(w chord.VNode, ctx context.Context) (string, bool, error) {
		v, err := w.ListKeys(ctx, kA)
		if len(v) == 1 {
			return string(v[0].Key), false, err
		}
		return "?", v == nil, err
	}},
}

type tcase struct {
	m        method
	attempts uint
	cancelAt int // -1 none, 0 = cancelled before the call, c>=1 = during the c-th call
	script   []string
	raw      bool // return the sentinel errors themselves instead of tagged instances
	lhs, rhs string
}

func (c *tcase) run() {
	n := &node{cancelAt: c.cancelAt}
	for i, t := range c.script {
		k, _ := strconv.Atoi(t[1:])
		var e entry
		e.tok = t
		switch t[0] {
		case 'o':
			e.val = uint64(k)
		case 'R':
			e.err = retryable[k%len(retryable)]
		case 'N':
			e.err = nonRetryable[k%len(nonRetryable)]
		}
		if e.err != nil && !c.raw {
			e.err = &scriptErr{e.err, i}
		}
		n.script = append(n.script, e)
	}
	n.exhausted = errExhausted
	ctx, cancel := context.WithCancel(context.Background())
	defer cancel()
	n.ctx, n.cancel = ctx, cancel
	if c.cancelAt == 0 {
		cancel()
	}
	// With cancellation the retry `select` must find ctx.Done ready and the timer not: the timer is made
	// far longer than any scheduling stall. Cancellation before / during call 1 never waits for a timer
	// (1 h interval); later cancellation points wait 400 ms << n for the earlier retries.
	interval := time.Microsecond
	if c.cancelAt >= 2 {
		interval = 400 * time.Millisecond
	} else if c.cancelAt >= 0 {
		interval = time.Hour
	}
	w := chord.WrapRetryKV(n, interval, c.attempts)
	var vs string
	var zero bool
	var err error
	func() {
		defer func() {
			if p := recover(); p != nil {
				err = fmt.Errorf("PANIC")
			}
		}()
		vs, zero, err = c.m.call(w, ctx)
	}()
	res := ""
	switch {
	case err == nil:
		res = "ok" + vs
	case err.Error() == "PANIC":
		res = "panic"
	default:
		res = "other"
		if err == errExhausted {
			res = "err@" + strconv.Itoa(len(n.script))
		} else if err == context.Canceled && c.cancelAt >= 0 {
			// the context's cause; (a scripted context.Canceled is only used without cancellation)
			res = "ctx"
		} else {
			// the latest call whose scripted error is the returned value
			for i := min(n.calls, len(n.script)) - 1; i >= 0; i-- {
				if n.script[i].err != nil && n.script[i].err == err {
					res = "err@" + strconv.Itoa(i)
					break
				}
			}
		}
		if !zero {
			res += "+nonzero-value"
		}
	}
	args := "ok"
	if n.argsBad {
		args = "bad"
	}
	c.rhs = fmt.Sprintf("calls=%d res=%s args=%s", n.calls, res, args)
}

func (c *tcase) mkLHS() {
	ca := "-"
	if c.cancelAt >= 0 {
		ca = strconv.Itoa(c.cancelAt)
	}
	m := c.m.name
	if c.raw {
		m += "/raw"
	}
	c.lhs = fmt.Sprintf("retry %s %d %s %s", m, c.attempts, ca, hlib.Join(c.script, ","))
}

func main() {
	r := hlib.Start()
	r.Rule = "case = (KV method, attempts, script of per-call results ok/retryable/non-retryable with error kinds, optional ctx cancellation point); exhaustive over {ok,R,N}^len, len<=attempts+1, attempts 1..3 (quick) / 1..4 (thorough), all 11 methods; then random scripts with attempts 0..6, raw sentinel errors, cancellation before/during call c; then every script over {ok,R,N}^len with the context ending during call c for every c<=min(len,attempts), attempts 1..2 (quick) / 1..3 (thorough), all 11 methods; non-trivial = at least one retryable error in the script"
	rng := hlib.NewRng(r.Seed)
	var cases []*tcase
	tokFor := func(m method, kind int) string {
		switch kind {
		case 0:
			v := 0
			if m.boolean {
				v = rng.Intn(2)
			} else if m.hasValue {
				v = rng.Intn(1000)
			}
			return "o" + strconv.Itoa(v)
		case 1:
			return "R" + strconv.Itoa(rng.Intn(len(retryable)))
		default:
			return "N" + strconv.Itoa(rng.Intn(len(nonRetryable)))
		}
	}
	if r.Replay != "" {
		for _, t := range r.ReplayLines() {
			if len(t) != 5 || t[0] != "retry" {
				continue
			}
			c := &tcase{cancelAt: -1}
			name := strings.TrimSuffix(t[1], "/raw")
			c.raw = name != t[1]
			for _, m := range methods {
				if m.name == name {
					c.m = m
				}
			}
			a, _ := strconv.Atoi(t[2])
			c.attempts = uint(a)
			if t[3] != "-" {
				c.cancelAt, _ = strconv.Atoi(t[3])
			}
			if t[4] != "-" {
				c.script = strings.Split(t[4], ",")
			}
			cases = append(cases, c)
		}
	} else {
		maxA := 3
		if r.Thorough() {
			maxA = 4
		}
		for a := 1; a <= maxA; a++ {
			for ln := 1; ln <= a+1; ln++ {
				total := 1
				for i := 0; i < ln; i++ {
					total *= 3
				}
				for code := 0; code < total; code++ {
					for _, m := range methods {
						c := &tcase{m: m, attempts: uint(a), cancelAt: -1}
						x := code
						for i := 0; i < ln; i++ {
							c.script = append(c.script, tokFor(m, x%3))
							x /= 3
						}
						cases = append(cases, c)
					}
				}
			}
		}
		nr := 1500
		if r.Thorough() {
			nr = 20000
		}
		for i := 0; i < nr; i++ {
			m := hlib.Pick(rng, methods)
			c := &tcase{m: m, cancelAt: -1}
			c.attempts = uint(1 + rng.Intn(6))
			if rng.Chance(6) {
				c.attempts = 0 // library semantics "until success": outside the quantifier, model only
			}
			ln := rng.Intn(int(c.attempts) + 3)
			if c.attempts == 0 {
				ln = rng.Intn(6)
			}
			for j := 0; j < ln; j++ {
				k := 1 // mostly retryable so that long retry chains happen
				if rng.Chance(35) {
					k = rng.Intn(3)
				}
				c.script = append(c.script, tokFor(m, k))
			}
			c.raw = rng.Chance(25)
			if rng.Chance(15) {
				c.cancelAt = rng.Intn(2)
				if rng.Chance(25) {
					c.cancelAt = 2 + rng.Intn(2)
				}
				// keep scripted context.Canceled out of cancellation cases (token N4)
				for j, t := range c.script {
					if t == "N4" {
						c.script[j] = "N1"
					}
				}
			}
			cases = append(cases, c)
		}
		// the caller's context ends WHILE call c is in flight, for every script over {ok,R,N}^len and every
		// c <= len: the result obtained from that call (success / non-retryable / last error) is what the
		// caller must get; only a retry that is still due may be replaced by the context's cause.
		// (generated after the random cases so that their RNG stream is unchanged)
		maxC := 2
		if r.Thorough() {
			maxC = 3
		}
		for a := 1; a <= maxC; a++ {
			for ln := 1; ln <= a+1; ln++ {
				total := 1
				for i := 0; i < ln; i++ {
					total *= 3
				}
				for code := 0; code < total; code++ {
					for ca := 1; ca <= ln && ca <= a; ca++ {
						for _, m := range methods {
							c := &tcase{m: m, attempts: uint(a), cancelAt: ca}
							x := code
							for i := 0; i < ln; i++ {
								t := tokFor(m, x%3)
								if t == "N4" { // scripted context.Canceled would be mistaken for the cause
									t = "N1"
								}
								c.script = append(c.script, t)
								x /= 3
							}
							cases = append(cases, c)
						}
					}
				}
			}
		}
	}
	// run in parallel (retry-go sleeps up to 100 ms of jitter per retry), emit in order
	sem := make(chan struct{}, 256)
	var wg sync.WaitGroup
	for _, c := range cases {
		c.mkLHS()
		wg.Add(1)
		sem <- struct{}{}
		go func(c *tcase) {
			defer wg.Done()
			defer func() { <-sem }()
			// watchdog: a wrapper that never returns (unbounded retries) is a result, not a hang
			fin := make(chan string, 1)
			cc := *c
			go func() { cc.run(); fin <- cc.rhs }()
			select {
			case c.rhs = <-fin:
			case <-time.After(40 * time.Second):
				c.rhs = "calls=? res=no-return-within-40s args=?"
			}
		}(c)
	}
	wg.Wait()
	for _, c := range cases {
		r.Raw("# case")
		r.Emit(c.lhs, c.rhs)
		nR := 0
		for _, t := range c.script {
			if t[0] == 'R' {
				nR++
			}
		}
		if nR > 0 {
			r.Case(c.lhs)
		} else {
			r.Case("")
		}
		r.Count("method:" + c.m.name)
		r.Count(fmt.Sprintf("attempts=%d", c.attempts))
		if c.cancelAt >= 0 {
			r.Count(fmt.Sprintf("ctx-cancelled-at=%d", c.cancelAt))
		}
		if c.raw {
			r.Count("raw-sentinel-errors")
		}
		r.Count(strings.SplitN(strings.SplitN(c.rhs, " ", 2)[1], "@", 2)[0][:6])
		r.Count(strings.SplitN(c.rhs, " ", 2)[0])
	}
	r.Finish()
}
