import SpecterModel.Util
import SpecterModel.C21.Model
/-!
C21 line-protocol driver (also provides the parsing / rendering shared with C20 and C22).

Tokens: byte strings are hex (`-` = empty) or `big:<n>:<seed>` (a large generated value, kept abstract);
lists are comma separated, `_` = empty list; a transfer is `value/children/lease`, transfers are joined by `|`.
State text: `key=value/children(sorted)/lease` for every listed key with any datum, joined by `;`, `-` if none;
a live lease token (a wall-clock deadline in the future) is written `L`.
Lease calls (never logged): `acq k ttl_ms`, `ren k ttl_ms tok`, `rel k tok` with `tok` = `cur` (the token the
store currently holds for `k`) or a number; results `ok | invalid-ttl | lease-conflict | lease-expired`.
-/
namespace Specter.Aof.Proto
open Specter.Util Specter.Aof

def parseBytes (s : String) : Option Bytes :=
  if s.startsWith "big:" then
    match s.splitOn ":" with
    | [_, n, seed] =>
      match n.toNat?, seed.toNat? with
      | some n, some seed => some [1000000 + n, seed]
      | _, _ => none
    | _ => none
  else hexToBytes s

def renderBytes (b : Bytes) : String :=
  match b with
  | [n, seed] => if n ≥ 1000000 then s!"big:{n - 1000000}:{seed}" else bytesToHex b
  | _ => bytesToHex b

def parseList (s : String) : Option (List Bytes) :=
  if s = "_" then some [] else (s.splitOn ",").mapM parseBytes

def parseTransfer (s : String) : Option Transfer :=
  match s.splitOn "/" with
  | [v, cs, l] =>
    -- `L` = a live lease token (a deadline in the future; the exact nanosecond value is immaterial)
    match parseBytes v, parseList cs, (if l = "L" then some liveTok else l.toNat?) with
    | some v, some cs, some l => some { value := v, children := cs, lease := l }
    | _, _, _ => none
  | _ => none

def parseTransfers (s : String) : Option (List Transfer) :=
  if s = "_" then some [] else (s.splitOn "|").mapM parseTransfer

def insertSorted (x : String) : List String → List String
  | [] => [x]
  | y :: ys => if x ≤ y then x :: y :: ys else y :: insertSorted x ys

def sortStrings (xs : List String) : List String := xs.foldl (fun acc x => insertSorted x acc) []

def renderEntry (k : Bytes) (e : Entry) : Option String :=
  if e.val = [] ∧ e.children = [] ∧ e.lease = 0 then none
  else
    let cs := sortStrings (e.children.map renderBytes)
    let cs := if cs.isEmpty then "_" else ",".intercalate cs
    let l := if e.lease ≥ liveMin then "L" else toString e.lease
    some s!"{renderBytes k}={renderBytes e.val}/{cs}/{l}"

def renderMem (keys : List Bytes) (m : Mem) : String :=
  let parts := keys.filterMap (fun k => renderEntry k (m.get k))
  if parts.isEmpty then "-" else ";".intercalate parts

/-- parse a mutation op line (lhs tokens) into the model mutation -/
def parseMutation (toks : List String) : Option Mutation :=
  match toks with
  | ["put", k, v] => do some { type := tPut, key := ← parseBytes k, value := ← parseBytes v }
  | ["del", k] => do some { type := tDelete, key := ← parseBytes k }
  | ["app", k, c] => do some { type := tAppend, key := ← parseBytes k, value := ← parseBytes c }
  | ["rem", k, c] => do some { type := tRemove, key := ← parseBytes k, value := ← parseBytes c }
  | ["imp", ks, ts] => do some { type := tImport, keys := ← parseList ks, values := ← parseTransfers ts }
  | ["rmk", ks] => do some { type := tRemoveKeys, keys := ← parseList ks }
  | _ => none

def parseTok (s : String) : Option (Option Nat) :=
  if s = "cur" then some none else s.toNat?.map some

/-- parse a lease call (volatile: goes to memory only) -/
def parseVolatile (toks : List String) : Option VOp :=
  match toks with
  | ["acq", k, ttl] => do some (.acquire (← parseBytes k) (decide ((← ttl.toNat?) ≥ 1000)))
  | ["ren", k, ttl, t] => do some (.renew (← parseBytes k) (decide ((← ttl.toNat?) ≥ 1000)) (← parseTok t))
  | ["rel", k, t] => do some (.release (← parseBytes k) (← parseTok t))
  | _ => none

def renderVErr : Option VErr → String
  | none => "ok"
  | some .invalidTTL => "invalid-ttl"
  | some .conflict => "lease-conflict"
  | some .expired => "lease-expired"

/-- the part of a state text the property statement speaks about: simple value and prefix children of
every key (the lease column is dropped; a key with neither value nor children is not listed) -/
def dataOf (snap : String) : String :=
  let parts := (snap.splitOn ";").filterMap fun p =>
    match p.splitOn "/" with
    | [kv, cs, _] =>
      match kv.splitOn "=" with
      | [_, v] => if v = "-" ∧ cs = "_" then none else some s!"{kv}/{cs}"
      | _ => some p
    | _ => if p = "-" ∨ p = "" then none else some p
  ";".intercalate parts

def renderErr : Option Err → String
  | none => "ok"
  | some .conflict => "conflict"
  | some .panic => "panic"

end Specter.Aof.Proto

namespace Specter.C21
open Specter.Util Specter.Aof Specter.Aof.Proto

structure St where
  store : Store := {}
  lastSnap : String := ""      -- implementation's live snapshot taken before the stop
  vol : Bool := false          -- a lease call (volatile by design) happened since the last (re)open
deriving Inhabited

def step (st : St) (toks : List String) (rhs : String) : St × Verdict :=
  match toks with
  | ["reset"] => ({}, .ok)
  | ["snap", ks] =>
    match parseList ks with
    | none => (st, .bad "snap keys")
    | some keys =>
      let m := renderMem keys st.store.mem
      ({ st with lastSnap := rhs }, if m = rhs then .ok else .diff m)
  | ["reopen", ks] =>
    match parseList ks with
    | none => (st, .bad "reopen keys")
    | some keys =>
      -- property statement: a clean restart succeeds and yields exactly the data seen before the stop:
      -- simple values and prefix children always; the lease column too unless lease calls (volatile by
      -- design, never logged) happened since the store was opened — then it is compared with the model
      let specBad := rhs = "error" ∨ rhs = "panic" ∨ dataOf rhs ≠ dataOf st.lastSnap ∨
        (¬ st.vol ∧ rhs ≠ st.lastSnap)
      match st.store.reopen with
      | .ok s' =>
        let m := renderMem keys s'.mem
        ({ st with store := s', vol := false },
          if specBad then .spec s!"restart changed the data: before={st.lastSnap}"
          else if m = rhs then .ok else .diff m)
      | .error _ =>
        (st, if specBad then .spec s!"restart changed the data: before={st.lastSnap}" else .diff "error")
  | _ =>
    match parseVolatile toks with
    | some op =>
      let (s', r) := st.store.volatile op
      ({ st with store := s', vol := true }, if renderVErr r = rhs then .ok else .diff (renderVErr r))
    | none =>
    match parseMutation toks with
    | none => (st, .bad "unknown op")
    | some mu =>
      if ¬ mu.WF then (st, .bad "ill-formed import") else
      let (s', r) := submit st.store mu
      ({ st with store := s' }, if renderErr r = rhs then .ok else .diff (renderErr r))

def main : IO Unit := runLoop ({} : St) step

end Specter.C21
