import SpecterModel.Util
import SpecterModel.C43.Model
/-! C43 line-protocol driver.

`sync <tunnels> <registered> <fresh> => <tunnels after> <GenerateHostname calls> <published hostnames>`
* list token: `_` = empty list, items separated by `,`; strings hex-encoded (`-` = empty string)
* tunnel item `hex(target):hex(hostname)`; `<registered>` = `!` when RegisteredHostnames fails;
  fresh item `!` = that GenerateHostname call fails.

`syncrm <tunnels> <registered> <fresh> <point> <hex hostname> <u|l> => <tunnels after> <calls> <published> <fired> <mid>`
* the same sync, but while it waits for the RPC `<point>` (`r` = RegisteredHostnames, `g<k>` = k-th
  GenerateHostname call, `p<k>` = k-th PublishTunnel call, 0-based) the real UnpublishTunnel (`u`) /
  ReleaseTunnel (`l`) is called for `<hostname>` on the same client;
* `<fired>`: `1` the removal ran, `0` the sync never made that RPC, `E` the removal returned an error;
  `<mid>`: the live configuration right after the removal returned (`-` when it did not run). -/
namespace Specter.C43
open Specter.Util

def parseList {α} (f : String → Option α) (tok : String) : Option (List α) :=
  if tok = "_" then some [] else (tok.splitOn ",").mapM f

def parseTunnel (s : String) : Option Tunnel :=
  match s.splitOn ":" with
  | [t, h] => do some ⟨← hexToAscii t, ← hexToAscii h⟩
  | _ => none

def parseFresh (s : String) : Option (Option String) :=
  if s = "!" then some none else (hexToAscii s).map some

def hx (s : String) : String := bytesToHex (s.toList.map Char.toNat)

def renderList (xs : List String) : String := if xs.isEmpty then "_" else ",".intercalate xs

def renderTunnels (ts : List Tunnel) : String := renderList (ts.map fun t => hx t.target ++ ":" ++ hx t.host)

def render (r : Result) : String :=
  renderTunnels r.out ++ " " ++ toString r.calls ++ " " ++ renderList (r.published.map hx)

/-- all pairs (earlier, later) of a list -/
def pairs {α} : List α → List (α × α)
  | [] => []
  | a :: l => l.map (fun b => (a, b)) ++ pairs l

/-- Executable reading of the property statement, independent of `assign`.
Returns the first clause the observed result violates.
Unconditional: length/targets/configured hostnames kept; a new hostname is generated or reusable and
goes to a tunnel with a target; no request while a reusable name is left.
Under the server contracts (registered is a set, generated names are new), failing requests included:
no two tunnels share a hostname unless both were configured with it; at most as many tunnels with a
target stay unnamed as requests failed (none when no request fails). -/
def specCheck (ts : List Tunnel) (reg : Option (List String)) (fr : List (Option String))
    (out : List Tunnel) (calls : Nat) : Option String :=
  let z := ts.zip out
  let cfg := ts.map (·.host)
  if out.length ≠ ts.length then some "tunnel list changed length"
  else if z.any (fun p => p.2.target ≠ p.1.target) then some "a target changed"
  else if z.any (fun p => p.1.host ≠ "" && p.2.host ≠ p.1.host) then some "a configured hostname was not kept"
  else match reg with
  | none => if out ≠ ts then some "configuration changed although registered hostnames are unknown" else none
  | some r =>
    let reusable := r.filter fun h => !(h.toList.elem '.') && !cfg.elem h
    let freshNames := fr.filterMap id
    if z.any (fun p => p.2.host ≠ p.1.host &&
        !(p.1.target ≠ "" && (reusable.elem p.2.host || freshNames.elem p.2.host))) then
      some "a hostname was assigned that is neither generated nor a reusable (registered, dot-free, unused) one, or to a tunnel without target"
    else
      -- server-side contracts (hypotheses of `distinct`): registered is a set, generated names are new.
      -- Failing requests are INSIDE this quantifier: a failed request must leave its tunnel unnamed,
      -- it never entitles two tunnels to one hostname.
      let needyN := (ts.filter fun t => t.target ≠ "" && t.host = "").length
      let supplyOK := decide r.Nodup && decide freshNames.Nodup &&
        freshNames.all (fun n => !r.elem n && !cfg.elem n)
      -- additionally no request fails (script long enough, no failing entry)
      let inQ := supplyOK && fr.all (·.isSome) && decide (needyN ≤ reusable.length + fr.length)
      -- requests that were made and failed: the first `calls` script entries that are failures
      -- (an exhausted script fails too)
      let failed := calls - ((fr.take calls).filterMap id).length
      let unnamed := (out.filter fun t => t.target ≠ "" && t.host = "").length
      if inQ && out.any (fun t => t.target ≠ "" && t.host = "") then some "a tunnel with a target has no hostname"
      else if supplyOK && (pairs z).any (fun pq => pq.1.2.host = pq.2.2.host && !(pq.1.2 = pq.1.1 && pq.2.2 = pq.2.1)) then
        some "two tunnels share a hostname that was not configured on both"
      else if supplyOK && decide (unnamed > failed) then
        some "more tunnels with a target are left without hostname than hostname requests failed"
      else if calls > 0 && reusable.any (fun a => !(out.map (·.host)).elem a) then
        some "a new hostname was requested while a reusable one was left unused"
      else none

def cnt (xs : List String) (x : String) : Nat := (xs.filter (· = x)).length

/-- Executable reading of the property statement for a sync during which ONE tunnel (the first one
carrying hostname `h`) was unpublished / released. Judged on the outcome only — the configuration after
the sync, the GenerateHostname calls and the hostnames announced with PublishTunnel — and without
prescribing whether the removed tunnel is still listed afterwards:
* (server contracts hold) no hostname is carried by more tunnels than were configured with it (one, for
  a name nobody was configured with), and none is announced more often than that in the one sync;
* the list consists of the configured tunnels: none appears twice, none but the removed one is missing,
  configured hostnames are kept;
* new hostnames are generated or reusable ones; every tunnel with a target is named unless a request
  failed; no request while a reusable name is left. -/
def specCheckRm (ts : List Tunnel) (reg : Option (List String)) (fr : List (Option String)) (h : String)
    (out : List Tunnel) (calls : Nat) (pub : List String) : Option String :=
  let cfg := ts.map (·.host)
  let oh := out.map (·.host)
  let tg := fun (l : List Tunnel) (t : String) => (l.filter (·.target = t)).length
  let rmTarget : Option String := (ts.find? (·.host = h)).map (·.target)
  let freshNames := fr.filterMap id
  let supplyOK := match reg with
    | none => true     -- nothing may be assigned at all
    | some r => decide r.Nodup && decide freshNames.Nodup && freshNames.all (fun n => !r.elem n && !cfg.elem n)
  if supplyOK && oh.any (fun x => x ≠ "" && decide (cnt oh x > max 1 (cnt cfg x))) then
    some "two tunnels share a hostname that was not configured on both"
  else if supplyOK && pub.any (fun x => decide (cnt pub x > max 1 (cnt cfg x))) then
    some "a hostname was published more than once in a single sync without being configured that often"
  else if out.length > ts.length then some "more tunnels than configured"
  else if out.length + 1 < ts.length then some "more than the removed tunnel disappeared"
  else if out.any (fun t => decide (tg out t.target > tg ts t.target)) then
    some "a tunnel appears more often than configured"
  else if ts.any (fun t => decide (tg out t.target + (if rmTarget = some t.target then 1 else 0) < tg ts t.target)) then
    some "a tunnel other than the removed one disappeared"
  else if cfg.any (fun c => c ≠ "" && decide (cnt oh c + (if c = h then 1 else 0) < cnt cfg c)) then
    some "a configured hostname was not kept"
  else match reg with
  | none =>
    if out ≠ ts && !((List.range ts.length).any fun i => (ts[i]?.map (·.host)) == some h && out == ts.eraseIdx i) then
      some "configuration changed (beyond the removal) although registered hostnames are unknown"
    else none
  | some r =>
    -- names nobody is configured with (reusable in every reading) / additionally the removed tunnel's name
    let reusable := r.filter fun x => !(x.toList.elem '.') && !cfg.elem x
    let reusableRm := r.filter fun x => !(x.toList.elem '.') && !(cfg.erase h).elem x
    let needyN := (ts.filter fun t => t.target ≠ "" && t.host = "").length
    let inQ := supplyOK && fr.all (·.isSome) && decide (needyN ≤ reusable.length + fr.length)
    let failed := calls - ((fr.take calls).filterMap id).length
    let unnamed := (out.filter fun t => t.target ≠ "" && t.host = "").length
    if oh.any (fun x => x ≠ "" && decide (cnt oh x > cnt cfg x) && !(reusableRm.elem x || freshNames.elem x)) then
      some "a hostname was assigned that is neither generated nor a reusable (registered, dot-free, unused) one"
    else if out.any (fun t => t.target = "" && t.host ≠ "" && !(ts.any fun u => u.target = "" && u.host = t.host)) then
      some "a tunnel without target received a hostname"
    else if inQ && out.any (fun t => t.target ≠ "" && t.host = "") then some "a tunnel with a target has no hostname"
    else if supplyOK && decide (unnamed > failed) then
      some "more tunnels with a target are left without hostname than hostname requests failed"
    else if calls > 0 && reusable.any (fun a => !oh.elem a) then
      some "a new hostname was requested while a reusable one was left unused"
    else none

def parsePoint (s : String) : Option Point :=
  if s = "r" then some .reg
  else match s.toList with
    | 'g' :: k => (String.ofList k).toNat?.map .gen
    | 'p' :: k => (String.ofList k).toNat?.map .pub
    | _ => none

def renderRm (m : ResultRm) : String :=
  render m.res ++ " " ++ (match m.mid with | some l => "1 " ++ renderTunnels l | none => "0 -")

def step (_ : Unit) (toks : List String) (rhs : String) : Unit × Verdict :=
  match toks with
  | ["reset"] => ((), .ok)
  | ["sync", tsT, regT, frT] =>
    let reg? : Option (Option (List String)) :=
      if regT = "!" then some none else (parseList hexToAscii regT).map some
    match parseList parseTunnel tsT, reg?, parseList parseFresh frT, rhs.splitOn " " with
    | some ts, some reg, some fr, [outT, callsT, _pubT] =>
      match parseList parseTunnel outT, callsT.toNat? with
      | some out, some calls =>
        match specCheck ts reg fr out calls with
        | some why => ((), .spec why)
        | none =>
          let m := render (sync ts reg fr)
          if m ≠ rhs then ((), .diff m) else ((), .ok)
      | _, _ => ((), .bad "sync rhs")
    | _, _, _, _ => ((), .bad "sync args")
  | ["syncrm", tsT, regT, frT, ptT, hT, kindT] =>
    let reg? : Option (Option (List String)) :=
      if regT = "!" then some none else (parseList hexToAscii regT).map some
    match parseList parseTunnel tsT, reg?, parseList parseFresh frT, parsePoint ptT, hexToAscii hT, rhs.splitOn " " with
    | some ts, some reg, some fr, some pt, some h, [outT, callsT, pubT, firedT, _midT] =>
      if kindT ≠ "u" && kindT ≠ "l" then ((), .bad "syncrm kind") else
      match parseList parseTunnel outT, callsT.toNat?, parseList hexToAscii pubT with
      | some out, some calls, some pub =>
        -- the removal ran (even one that reported an error may have had its effect): judge the
        -- outcome of the concurrent scenario; it never ran: this was a plain sync
        let verdict := if firedT = "0" then specCheck ts reg fr out calls else specCheckRm ts reg fr h out calls pub
        match verdict with
        | some why => ((), .spec why)
        | none =>
          let m := renderRm (syncRm ts reg fr pt h)
          if m ≠ rhs then ((), .diff m) else ((), .ok)
      | _, _, _ => ((), .bad "syncrm rhs")
    | _, _, _, _, _, _ => ((), .bad "syncrm args")
  | _ => ((), .bad "unknown op")

def main : IO Unit := runLoop () step

end Specter.C43
