import SpecterModel.C39.Drv

def main : IO Unit := Specter.C39.main
