#!/usr/bin/env python3
"""Regenerate Driver/Main.lean (dispatch on property id) and SpecterModel.lean (imports every
Props module) from the directory layout. Idempotent; run by setup and by ./check."""
import os, re, sys
root = os.path.dirname(os.path.abspath(__file__))
# only properties whose spec/Cxx.json exists are wired in (work in progress stays out of the build)
ids = sorted(d for d in os.listdir(os.path.join(root, "SpecterModel"))
             if re.fullmatch(r"C\d+", d) and os.path.isdir(os.path.join(root, "SpecterModel", d))
             and os.path.exists(os.path.join(root, "..", "spec", d + ".json")))
drv = [i for i in ids if os.path.exists(os.path.join(root, "SpecterModel", i, "Drv.lean"))]
main = "".join(f"import SpecterModel.{i}.Drv\n" for i in drv)
main += "\ndef main (args : List String) : IO UInt32 := do\n  match args with\n"
for i in drv:
    main += f'  | ["{i}"] => do Specter.{i}.main; return 0\n'
main += '  | _ => do IO.eprintln "usage: modeld <property id>"; return 2\n'
top = "".join(f"import SpecterModel.{i}.Props\n" for i in ids
              if os.path.exists(os.path.join(root, "SpecterModel", i, "Props.lean")))
def put(path, text):
    if not os.path.exists(path) or open(path).read() != text:
        open(path, "w").write(text)
put(os.path.join(root, "Driver", "Main.lean"), main)
# one executable per property as well (modeld_Cxx): a broken driver of one property cannot
# take the others down; ./check uses these.
lake = """name = "SpecterModel"
version = "0.1.0"
defaultTargets = ["SpecterModel"]

[[lean_lib]]
name = "SpecterModel"

[[lean_lib]]
name = "Driver"

[[lean_exe]]
name = "modeld"
root = "Driver.Main"
"""
for i in drv:
    put(os.path.join(root, "Driver", i + ".lean"), f"import SpecterModel.{i}.Drv\n\ndef main : IO Unit := Specter.{i}.main\n")
    lake += f"""
[[lean_exe]]
name = "modeld_{i}"
root = "Driver.{i}"
"""
put(os.path.join(root, "lakefile.toml"), lake)
put(os.path.join(root, "SpecterModel.lean"), top)
