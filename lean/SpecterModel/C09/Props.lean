import SpecterModel.C01.Lemmas
/-!
# C09 — Lookups terminate in every reachable node state

`findSucc` (the model of `LocalNode.FindSuccessor`, tied to the code by the differential ring
harness) returns a node or an error after finitely many hops in EVERY pointer state:
no assumption that predecessors, successors or fingers are correct, complete or even
consistent — only that identifiers are in the 2^48 space. This covers every state of the join
protocol (neighbours learnt, fingers nil / partial / stale) and of graceful leaves.
-/
namespace Specter.C09
open Specter.Ring

/-- identifiers are in the ring (guaranteed by `NodeConfig.Validate` for node ids) -/
structure InSpace (net : Net) : Prop where
  succs : ∀ n nd, net.get n = some nd → ∀ s ∈ nd.succs, s < M
  fingers : ∀ n nd, net.get n = some nd → ∀ f, some f ∈ nd.fingers → f < M

/-- Every forwarding hop strictly decreases `cw key ·`; by strong induction some fuel suffices. -/
theorem lookup_terminates_aux (net : Net) (hw : InSpace net) :
    ∀ (d n key : Nat), cw key n = d → n < M → key < M →
      ∃ fuel, findSucc net fuel n key ≠ .err .fuel := by
  intro d
  induction d using Nat.strongRecOn with
  | ind d ih =>
    intro n key hd hn hk
    match stepCase net n key with
    | .none hg => exact ⟨1, by rw [findSucc_none net 0 n key hg]; simp⟩
    | .dead nd e hg hc =>
      refine ⟨1, ?_⟩
      rw [findSucc_dead net 0 n key nd e hg hc]
      intro h; injection h with h; exact checkNodeState_ne_fuel nd false (h ▸ hc)
    | .pred nd hg hc h => exact ⟨1, by rw [findSucc_pred net 0 n key nd hg hc h]; simp⟩
    | .nosucc nd hg hc h hs => exact ⟨1, by rw [findSucc_nosucc net 0 n key nd hg hc h hs]; simp⟩
    | .succ nd s hg hc h hs hb => exact ⟨1, by rw [findSucc_succ_found net 0 n key s nd hg hc h hs hb]; simp⟩
    | .hop nd s hg hc h hs hb =>
      have hsM : s < M := hw.succs n nd hg s (List.mem_of_mem_head? hs)
      obtain ⟨hcM, hlt⟩ := hop_decreases n key s nd.fingers hn hk hsM (hw.fingers n nd hg) hb
      obtain ⟨fuel, hf⟩ := ih _ (by rw [← hd]; exact hlt) _ key rfl hcM hk
      exact ⟨fuel + 1, by rw [findSucc_hop net fuel n key s nd hg hc h hs hb]; exact hf⟩

/-- **C09.** In every pointer state (identifiers in the ring), a lookup issued to any node `n` for
any key ends with a node or an error — it never diverges. -/
theorem lookup_terminates (net : Net) (hw : InSpace net) (n key : Nat) (hn : n < M) (hk : key < M) :
    ∃ fuel, findSucc net fuel n key ≠ .err .fuel :=
  lookup_terminates_aux net hw _ n key rfl hn hk

/-- more fuel never changes a finished lookup -/
theorem findSucc_fuel_mono (net : Net) : ∀ (fuel n key : Nat) (r : Res),
    findSucc net fuel n key = r → r ≠ .err .fuel → findSucc net (fuel + 1) n key = r := by
  intro fuel
  induction fuel with
  | zero => intro n key r h hr; simp [findSucc] at h; exact absurd h.symm hr
  | succ f ih =>
    intro n key r h hr
    match stepCase net n key with
    | .none hg => rw [findSucc_none net _ n key hg] at h ⊢; exact h
    | .dead nd e hg hc => rw [findSucc_dead net _ n key nd e hg hc] at h ⊢; exact h
    | .pred nd hg hc hp => rw [findSucc_pred net _ n key nd hg hc hp] at h ⊢; exact h
    | .nosucc nd hg hc hp hs => rw [findSucc_nosucc net _ n key nd hg hc hp hs] at h ⊢; exact h
    | .succ nd s hg hc hp hs hb => rw [findSucc_succ_found net _ n key s nd hg hc hp hs hb] at h ⊢; exact h
    | .hop nd s hg hc hp hs hb =>
      rw [findSucc_hop net _ n key s nd hg hc hp hs hb] at h ⊢
      exact ih _ _ r h hr

/-- The joining-node state that made the pre-repair code diverge: node 150 knows pred 100 and succ 200,
its finger table is still empty, key 300 is outside (100,150] and (150,200]. The repaired code
answers after two hops. -/
def joinNet : Net :=
  [(100, { state := .active, pred := some 200, succs := [150, 200], fingers := List.replicate 48 (some 150) }),
   (150, { state := .joining, pred := some 100, succs := [200, 100], fingers := List.replicate 48 none }),
   (200, { state := .active, pred := some 150, succs := [100, 150], fingers := List.replicate 48 (some 100) })]

example : findSucc joinNet 3 150 300 = .found 100 := by decide

/-- The pre-repair `FindSuccessor` (forwarding to the closest preceding node even when that is the
node itself) diverges on that state: this is the regression the repair protects against. -/
def findSuccOld (net : Net) : Nat → Nat → Nat → Res
  | 0, _, _ => .err .fuel
  | fuel+1, n, key =>
    match net.get n with
    | none => .err .unreachable
    | some nd =>
      match checkNodeState nd false with
      | some e => .err e
      | none =>
        if inPredRange nd.pred key n then .found n
        else match nd.succs.head? with
          | none => .err .noSuccessor
          | some s =>
            if between n key s true then .found s
            else findSuccOld net fuel (closestPreceding n key nd.fingers) key

theorem old_code_diverges : ∀ fuel, findSuccOld joinNet fuel 150 300 = .err .fuel := by
  intro fuel
  induction fuel with
  | zero => rfl
  | succ f ih =>
    have h2 : closestPreceding 150 300 (List.replicate 48 none) = 150 := by decide
    have step : ∀ g, findSuccOld joinNet (g+1) 150 300 = findSuccOld joinNet g 150 300 := by
      intro g
      show (match joinNet.get 150 with
        | none => Res.err .unreachable
        | some nd => _) = _
      rfl
    rw [step]; exact ih

/-- non-vacuity: the joining net satisfies the hypothesis of `lookup_terminates` (checked by evaluation) -/
def inSpaceB (net : Net) : Bool :=
  net.all fun p => p.2.succs.all (· < M) && p.2.fingers.all (fun f => match f with | some f => f < M | none => true)

theorem get_mem (net : Net) (n : Nat) (nd : Node) (h : net.get n = some nd) : (n, nd) ∈ net := by
  unfold Net.get at h
  cases hf : net.find? (·.1 == n) with
  | none => simp [hf] at h
  | some p =>
    simp [hf] at h
    have hm := List.mem_of_find?_eq_some hf
    have hp := List.find?_some hf
    simp at hp
    obtain ⟨a, b⟩ := p
    simp at hp h
    subst hp; subst h; exact hm

theorem inSpace_of_inSpaceB (net : Net) (h : inSpaceB net = true) : InSpace net := by
  unfold inSpaceB at h
  rw [List.all_eq_true] at h
  constructor
  · intro n nd hg s hs
    have := h _ (get_mem net n nd hg)
    simp only [Bool.and_eq_true, List.all_eq_true] at this
    simpa using this.1 s hs
  · intro n nd hg f hf
    have := h _ (get_mem net n nd hg)
    simp only [Bool.and_eq_true, List.all_eq_true] at this
    simpa using this.2 (some f) hf

example : InSpace joinNet := inSpace_of_inSpaceB _ (by decide)

end Specter.C09
