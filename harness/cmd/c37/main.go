// C37 correspondence: requests parsed by net/http are served by the real apex router (apexServer.Mount: chi,
// middleware.BasicAuth, the real internal proxy middleware, middleware.Profiler, catch-all) with recording
// internal handlers and a recording DialInternal. Each line says what was reached.
package main

import (
	"bufio"
	"context"
	"crypto/tls"
	"encoding/base64"
	"errors"
	"fmt"
	"net"
	"net/http"
	"net/http/httptest"
	"strings"

	"github.com/go-chi/chi/v5"
	"go.miragespace.co/specter/gateway"
	"go.miragespace.co/specter/spec/protocol"
	"golang.org/x/net/http/httpguts"
	"verif/harness/hlib"
)

type world struct {
	reached []string
	dialed  []string
}

func (w *world) Identity() *protocol.Node { return &protocol.Node{Address: "gateway.internal:1"} }
func (w *world) DialClient(ctx context.Context, link *protocol.Link) (net.Conn, error) {
	return nil, errors.New("unexpected DialClient")
}
func (w *world) DialInternal(ctx context.Context, n *protocol.Node) (net.Conn, error) {
	w.dialed = append(w.dialed, n.GetAddress())
	return nil, errors.New("verif: no such node")
}
func (w *world) rec(name string) http.Handler {
	return http.HandlerFunc(func(rw http.ResponseWriter, r *http.Request) {
		w.reached = append(w.reached, name)
		rw.WriteHeader(200)
	})
}

type config struct {
	user, pass string
	mounts     int // bitmask: 1 acme, 2 chord, 4 tun, 8 migrator
}

var wd = &world{}
var routers = map[config]http.Handler{}

func router(c config) http.Handler {
	h, ok := routers[c]
	if !ok {
		var ih gateway.InternalHandlers
		if c.mounts&1 != 0 {
			ih.Acme = wd.rec("acme")
		}
		if c.mounts&2 != 0 {
			ih.Chord = wd.rec("chord")
		}
		if c.mounts&4 != 0 {
			ih.TunnelServer = wd.rec("tun")
		}
		if c.mounts&8 != 0 {
			ih.Migrator = wd.rec("migrator")
		}
		h = gateway.VerifApex(wd, c.user, c.pass, ih)
		routers[c] = h
		// every route the real router has registered (chi.Walk) becomes a request target of the generator
		if rt, ok := h.(chi.Routes); ok {
			chi.Walk(rt, func(method, route string, _ http.Handler, _ ...func(http.Handler) http.Handler) error {
				chiMethods[method] = true // chi lists every method of its table for HandleFunc/Mount routes (incl. chi.RegisterMethod additions)
				t := strings.ReplaceAll(route, "*", "x")
				if strings.Contains(t, "{") || strings.Contains(t, "pprof") || seenRoute[method+" "+t] {
					return nil
				}
				seenRoute[method+" "+t] = true
				walked = append(walked, [2]string{method, t})
				return nil
			})
		}
	}
	return h
}

var walked [][2]string
var seenRoute = map[string]bool{}

var chiMethods = map[string]bool{"CONNECT": true, "DELETE": true, "GET": true, "HEAD": true, "OPTIONS": true, "PATCH": true, "POST": true, "PUT": true, "TRACE": true}

var r *hlib.Run

type reqSpec struct {
	cfg     config
	method  string
	target  string   // request-target as sent
	headers []string // raw header lines
}

const (
	hdrNode = "X-Internal-Proxy-Node-Address"
	hdrFwd  = "X-Internal-Proxy-Forwarded"
)

func run(s reqSpec) {
	raw := s.method + " " + s.target + " HTTP/1.1\r\nHost: example.com\r\n" + strings.Join(s.headers, "") + "\r\n"
	req, err := http.ReadRequest(bufio.NewReader(strings.NewReader(raw)))
	if err != nil {
		r.Count("skip:net/http refuses the request text")
		return
	}
	for k, vv := range req.Header {
		if !httpguts.ValidHeaderFieldName(k) {
			r.Count("skip:http.Server refuses the header name")
			return
		}
		for _, v := range vv {
			if !httpguts.ValidHeaderFieldValue(v) {
				r.Count("skip:http.Server refuses the header value")
				return
			}
		}
	}
	req.RemoteAddr = "198.51.100.7:4711"
	req.TLS = &tls.ConnectionState{ServerName: "example.com", HandshakeComplete: true, CipherSuite: tls.TLS_AES_128_GCM_SHA256}
	auth := "-"
	if u, p, ok := req.BasicAuth(); ok {
		auth = hlib.HexS(u) + ":" + hlib.HexS(p)
	}
	node, fwd := "-", hlib.B(req.Header.Get(hdrFwd) != "")
	if v := req.Header.Get(hdrNode); v != "" {
		node = hlib.HexS(v)
	}
	lhs := fmt.Sprintf("apex %s %s %d %s %s %s %s %s %s %s", hlib.HexS(s.cfg.user), hlib.HexS(s.cfg.pass), s.cfg.mounts,
		s.method, hlib.B(chiMethods[s.method]), hlib.HexS(req.URL.Path), hlib.HexS(req.URL.RawPath), auth, node, fwd)
	wd.reached, wd.dialed = nil, nil
	rec := httptest.NewRecorder()
	res := func() (out string) {
		defer func() {
			if p := recover(); p != nil {
				out = "panic"
			}
		}()
		router(s.cfg).ServeHTTP(rec, req)
		return ""
	}()
	if res == "" {
		reached := hlib.Join(wd.reached, ",")
		if reached == "-" && rec.Code == 200 && rec.Body.String() == gateway.VerifEndpointsDoc() {
			reached = "catchall"
		}
		dialed := "-"
		if len(wd.dialed) > 0 {
			xs := make([]string, len(wd.dialed))
			for i, d := range wd.dialed {
				xs[i] = hlib.HexS(d)
			}
			dialed = strings.Join(xs, ",")
		}
		res = fmt.Sprintf("%d %s %s", rec.Code, reached, dialed)
	}
	r.Emit(lhs, res)
	r.Case(lhs)
	f := strings.Fields(res)
	if len(f) == 3 {
		r.Count("status:" + f[0])
		if f[1] != "-" {
			r.Count("reached:" + f[1])
		}
		if f[2] != "-" {
			r.Count("dialed")
		}
	}
	switch {
	case auth == "-":
		r.Count("auth:none-or-unparsable")
	case auth == hlib.HexS(s.cfg.user)+":"+hlib.HexS(s.cfg.pass):
		r.Count("auth:matches-config")
	default:
		r.Count("auth:wrong")
	}
	if s.cfg.user == "" || s.cfg.pass == "" {
		r.Count("config:no-credentials")
	} else {
		r.Count("config:credentials")
	}
	if strings.HasPrefix(req.URL.Path, "/_internal") {
		r.Count("path:/_internal…")
	} else {
		r.Count("path:other")
	}
}

// ---------- generators ----------
var configs = []config{{"admin", "secret", 15}, {"admin", "secret", 0}, {"admin", "secret", 5}, {"", "secret", 15}, {"admin", "", 15}, {"", "", 15},
	{"a:b", "p", 15}, {"admin", "sec:ret", 10}, {"Admin", "Secret", 15}, {"admin", " ", 15}}

func b64(s string) string { return base64.StdEncoding.EncodeToString([]byte(s)) }

func mixCase(rng *hlib.Rng, s string) string {
	b := []byte(s)
	for i, c := range b {
		if ((c >= 'a' && c <= 'z') || (c >= 'A' && c <= 'Z')) && rng.Intn(3) == 0 {
			b[i] = c ^ 0x20
		}
	}
	return string(b)
}

func seg(rng *hlib.Rng) string {
	const al = "abcxyz019-_.~"
	n := 1 + rng.Intn(6)
	b := make([]byte, n)
	for i := range b {
		b[i] = al[rng.Intn(len(al))]
	}
	return string(b)
}

func genPath(rng *hlib.Rng) string {
	sub := []string{"", "/", "/acme", "/acme/", "/acme/directory", "/chord", "/chord/x/y", "/tun", "/tun/twirp/x", "/migrator", "/migrator/run",
		"/debug", "/debug/", "/debug/vars", "/debug/pprof/cmdline", "/debug/nope", "/acmeX", "/Acme", "//acme", "/./acme", "/../acme", "/acme%2Fx", "/%61cme"}
	switch rng.Intn(16) {
	case 0, 1, 2, 3, 4, 5, 6:
		return "/_internal" + hlib.Pick(rng, sub)
	case 7:
		return "/_internal/" + seg(rng) + "/" + seg(rng)
	case 8: // near misses and encodings of the prefix
		return hlib.Pick(rng, []string{"/_internalx", "/_INTERNAL/acme", "//_internal/acme", "/x/_internal/acme", "/_internal%2Facme", "/%5Finternal/acme",
			"/_internal%2f", "/_internal.", "/_internal;x/acme", "/./_internal/acme", "/_interna", "/_internal/%2e%2e/quic.png"})
	case 9:
		return hlib.Pick(rng, []string{"/", "/quic.png", "/specter-cgi/x", "/nothing", "/twirp/protocol.PKIService/RequestCertificate"})
	case 10:
		return "/_internal" + hlib.Pick(rng, sub) + "?" + seg(rng) + "=" + seg(rng)
	case 11:
		return "/_internal/" + mixCase(rng, hlib.Pick(rng, []string{"acme", "chord", "tun", "migrator", "debug"})) + "/" + seg(rng)
	default:
		return "/_internal" + hlib.Pick(rng, sub[2:12]) + "/" + seg(rng)
	}
}

func genAuth(rng *hlib.Rng, c config) []string {
	name := "Authorization"
	if rng.Intn(4) == 0 {
		name = mixCase(rng, name)
	}
	line := func(v string) string { return name + ": " + v + "\r\n" }
	switch rng.Intn(16) {
	case 0, 1:
		return nil
	case 2, 3, 4, 5, 6:
		return []string{line("Basic " + b64(c.user+":"+c.pass))}
	case 7:
		return []string{line("Basic " + b64(c.user+":"+c.pass+"x"))}
	case 8:
		return []string{line("Basic " + b64(c.user+"x:"+c.pass))}
	case 9:
		return []string{line("Basic " + b64(c.user+":"))}
	case 10:
		return []string{line("Basic " + b64(":"+c.pass))}
	case 11:
		return []string{line(hlib.Pick(rng, []string{"basic ", "BASIC ", "Basic  "}) + b64(c.user+":"+c.pass))}
	case 12:
		return []string{line(hlib.Pick(rng, []string{"Bearer " + b64(c.user+":"+c.pass), "Basic !!!notbase64", "Basic", "Basic " + b64(c.user), "Basic " + b64(":"), c.user + ":" + c.pass}))}
	case 13: // two Authorization headers: net/http uses the first
		if rng.Bool() {
			return []string{line("Basic " + b64(c.user+":"+c.pass)), line("Basic " + b64("x:y"))}
		}
		return []string{line("Basic " + b64("x:y")), line("Basic " + b64(c.user+":"+c.pass))}
	case 14:
		return []string{line("Basic " + b64(strings.ToUpper(c.user)+":"+c.pass))}
	default:
		return []string{line("Basic " + b64(c.user+":"+strings.ToUpper(c.pass)))}
	}
}

func genProxy(rng *hlib.Rng) []string {
	n1, n2 := hdrNode, hdrFwd
	if rng.Intn(3) == 0 {
		n1, n2 = strings.ToLower(n1), mixCase(rng, n2)
	}
	switch rng.Intn(8) {
	case 0, 1, 2:
		return nil
	case 3, 4:
		return []string{n1 + ": 10.0.0.2:1234\r\n"}
	case 5:
		return []string{n1 + ": node-b.internal:9\r\n", n2 + ": true\r\n"}
	case 6:
		return []string{n2 + ": " + hlib.Pick(rng, []string{"true", "false", "0", "x"}) + "\r\n"}
	default:
		return []string{n1 + ":\r\n", n2 + ":\r\n"}
	}
}

func main() {
	r = hlib.Start()
	r.Rule = "case = (admin credentials config incl. empty user / empty password, mounted internal handlers, method, request target, Authorization header, internal-proxy headers) served by the real apex router; non-trivial = distinct line; targets: /_internal subtree (mounts, profiler, catch-all, random), near-miss and percent-encoded prefixes, public routes; auth: none / correct / wrong / partial / malformed / duplicated / case-changed"
	rng := hlib.NewRng(r.Seed)
	router(configs[0]) // learn chi's method table and the registered routes from the real router
	if r.Replay != "" {
		for _, t := range r.ReplayLines() {
			if t[0] != "apex" || len(t) != 11 {
				continue
			}
			var c config
			c.user, c.pass = string(hlib.UnHex(t[1])), string(hlib.UnHex(t[2]))
			fmt.Sscanf(t[3], "%d", &c.mounts)
			target := string(hlib.UnHex(t[6]))
			if t[7] != "-" {
				target = string(hlib.UnHex(t[7]))
			}
			var hs []string
			if t[8] != "-" {
				p := strings.SplitN(t[8], ":", 2)
				hs = append(hs, "Authorization: Basic "+b64(string(hlib.UnHex(p[0]))+":"+string(hlib.UnHex(p[1])))+"\r\n")
			}
			if t[9] != "-" {
				hs = append(hs, hdrNode+": "+string(hlib.UnHex(t[9]))+"\r\n")
			}
			if t[10] == "true" {
				hs = append(hs, hdrFwd+": true\r\n")
			}
			run(reqSpec{cfg: c, method: t[4], target: target, headers: hs})
		}
		r.Finish()
		return
	}
	methods := []string{"PROPFIND", "UNLOCK", "GET", "GET", "GET", "POST", "POST", "PUT", "DELETE", "HEAD", "OPTIONS", "PATCH", "TRACE", "CONNECT", "FOO", "get"}
	n := 30000
	if r.Thorough() {
		n = 600000
	}
	for i := 0; i < n; i++ {
		c := hlib.Pick(rng, configs)
		if rng.Intn(3) == 0 {
			c = configs[0]
		}
		var hs []string
		hs = append(hs, genAuth(rng, c)...)
		hs = append(hs, genProxy(rng)...)
		method, target := hlib.Pick(rng, methods), genPath(rng)
		if len(walked) > 0 && rng.Intn(10) == 0 { // a route taken from the real routing tree
			router(c)
			w := hlib.Pick(rng, walked)
			method, target = w[0], w[1]
			r.Count("target:from-chi.Walk")
		}
		run(reqSpec{cfg: c, method: method, target: target, headers: hs})
	}
	r.Finish()
}
