// C47 correspondence: the real cmd/internal/listen.ParseAddresses (through the forwarding package injected by
// overlay) on random base / override lists of IPv4 / IPv6 / bracketed / wildcard / hostname / Fly / malformed
// addresses with ASCII and Unicode whitespace, blanks and duplicates. The class of every trimmed entry
// (SplitHostPort fails | empty host | v4 | v6 | fly | other) and its host come from the real net library and
// are handed to the Lean model as oracle input.
package main

import (
	"encoding/hex"
	"net"
	"strconv"
	"strings"

	"go.miragespace.co/specter/cmd/verifc47"
	"verif/harness/hlib"
)

func x(s string) string { return "x" + hex.EncodeToString([]byte(s)) }

func xl(l []string) string {
	if len(l) == 0 {
		return "-"
	}
	o := make([]string, len(l))
	for i, s := range l {
		o[i] = x(s)
	}
	return strings.Join(o, ",")
}

func classify(a string) (string, string) {
	host, _, err := net.SplitHostPort(a)
	if err != nil {
		return "bad", ""
	}
	switch ip := net.ParseIP(host); {
	case host == "":
		return "empty", host
	case ip != nil && ip.To4() != nil:
		return "v4", host
	case ip != nil:
		return "v6", host
	case host == verifc47.FlyGlobalServicesHost:
		return "fly", host
	}
	return "other", host
}

func run(r *hlib.Run, proto string, base, ovr []string) {
	seen := map[string]bool{}
	var orc []string
	for _, l := range [][]string{base, ovr} {
		for _, a := range l {
			t := strings.TrimSpace(a)
			if t == "" || seen[t] {
				continue
			}
			seen[t] = true
			c, h := classify(t)
			orc = append(orc, x(t)+":"+c+":"+x(h))
			r.Count("class:" + c)
		}
	}
	var rhs string
	func() {
		defer func() {
			if recover() != nil {
				rhs = "panic"
			}
		}()
		out, err := verifc47.ParseAddresses(proto, base, ovr)
		switch {
		case err == nil:
			es := make([]string, len(out))
			for i, a := range out {
				es[i] = x(a.Address) + "|" + x(a.Host) + "|" + x(a.Network) + "|" + strconv.Itoa(int(a.Version))
			}
			rhs = "ok " + strings.Join(es, ";")
			r.Count("result:ok")
		case strings.HasPrefix(err.Error(), "no listen addresses provided"):
			rhs = "err:none"
			r.Count("result:err-none")
		case strings.HasPrefix(err.Error(), "listen host must be an IP address"):
			rhs = "err:host"
			r.Count("result:err-host")
		default:
			rhs = "err:split"
			r.Count("result:err-split")
		}
	}()
	lhs := "parse " + x(proto) + " " + xl(base) + " " + xl(ovr) + " " + hlib.Join(orc, ",")
	r.Emit(lhs, rhs)
	if len(base)+len(ovr) == 0 {
		r.Case("")
	} else {
		r.Case(lhs)
	}
}

func unx(t string) string {
	b, _ := hex.DecodeString(strings.TrimPrefix(t, "x"))
	return string(b)
}
func unxl(t string) []string {
	if t == "-" {
		return nil
	}
	var o []string
	for _, e := range strings.Split(t, ",") {
		o = append(o, unx(e))
	}
	return o
}

func main() {
	r := hlib.Start()
	r.Rule = "one case = (proto, base list 0..6, override list 0..4); entries drawn from valid IPv4/IPv6/wildcard/Fly addresses (mostly), hostnames and malformed strings, wrapped in ASCII/Unicode whitespace, with blanks and duplicates (also duplicates differing only by whitespace); non-trivial = at least one entry (distinct case text)"
	rng := hlib.NewRng(r.Seed)
	if r.Replay != "" {
		for _, t := range r.ReplayLines() {
			if t[0] == "parse" && len(t) >= 4 {
				run(r, unx(t[1]), unxl(t[2]), unxl(t[3]))
			}
		}
		r.Finish()
		return
	}
	valid := []string{"1.2.3.4:80", "0.0.0.0:443", "127.0.0.1:0", "255.255.255.255:65535", "10.0.0.1:8080",
		"[::1]:80", "[::]:443", "[2001:db8::1]:53", "[::ffff:1.2.3.4]:80", "[fe80::1]:1", "[2001:DB8::1]:53", "[FE80::1]:1",
		":80", ":0", ":", "fly-global-services:4443", "fly-global-services:80"}
	hosty := []string{"example.com:80", "localhost:80", "FLY-GLOBAL-SERVICES:1", "fly-global-services.:1", "fly-global-service:1",
		"[fe80::1%eth0]:80", "1.2.3:80", "256.1.1.1:80", "01.2.3.4:80", "*:80", "[::1%]:1", "::1:80x:1"}
	malformed := []string{"1.2.3.4", "::1:80", "[::1]", "1.2.3.4:80:90", "[::1]:80]", "host", "[::1", "::1]:80", "1.2.3.4 :80", "[1.2.3.4]:80",
		"[]:80", "a:b:c", "\u200b1.2.3.4:80", "1.2.3.4:80\ufeff"}
	spaces := []string{"", "", " ", "  ", "\t", "\n", "\r\n", "\v", "\f", "\u00a0", "\u0085", "\u1680", "\u3000", "\u2003", "\u2028", "\u2029", "\u202f", "\u205f", "\u200a", " \t "}
	blanks := []string{"", " ", "\t\n", "\u00a0", " \u2003\u3000 "}
	entry := func() string {
		var a string
		switch k := rng.Intn(20); {
		case k < 12:
			a = hlib.Pick(rng, valid)
			r.Count("entry:valid")
		case k < 14:
			// random numeric address
			if rng.Bool() {
				a = hlib.F("%d.%d.%d.%d:%d", rng.Intn(256), rng.Intn(256), rng.Intn(256), rng.Intn(256), rng.Intn(65536))
			} else {
				a = hlib.F("[%x:%x::%x]:%d", rng.Intn(65536), rng.Intn(65536), rng.Intn(65536), rng.Intn(65536))
			}
			r.Count("entry:valid-random")
		case k < 16:
			a = hlib.Pick(rng, hosty)
			r.Count("entry:hostname-like")
		case k < 18:
			a = hlib.Pick(rng, malformed)
			r.Count("entry:malformed")
		default:
			r.Count("entry:blank")
			return hlib.Pick(rng, blanks)
		}
		return hlib.Pick(rng, spaces) + a + hlib.Pick(rng, spaces)
	}
	list := func(max int, validOnly bool) []string {
		n := rng.Intn(max + 1)
		l := make([]string, 0, n)
		for i := 0; i < n; i++ {
			if len(l) > 0 && rng.Chance(25) {
				d := strings.TrimSpace(hlib.Pick(rng, l)) // duplicate, possibly with other whitespace
				if rng.Chance(15) { // near-duplicate: same address in another letter case is a different string
					if u := strings.ToUpper(d); u != d {
						d = u
					} else {
						d = strings.ToLower(d)
					}
					r.Count("entry:case-variant")
				}
				l = append(l, hlib.Pick(rng, spaces)+d+hlib.Pick(rng, spaces))
				r.Count("entry:duplicate")
				continue
			}
			e := entry()
			if validOnly {
				for tries := 0; tries < 8; tries++ {
					if c, _ := classify(strings.TrimSpace(e)); strings.TrimSpace(e) == "" || (c != "bad" && c != "other") {
						break
					}
					e = entry()
				}
			}
			l = append(l, e)
		}
		return l
	}
	n := 30000
	if r.Thorough() {
		n = 600000
	}
	protos := []string{"tcp", "udp", "", "quic", "tcp4"}
	for i := 0; i < n; i++ {
		validOnly := rng.Chance(60) // otherwise most cases would stop at the first bad entry
		base := list(6, validOnly)
		var ovr []string
		switch rng.Intn(4) {
		case 0:
		case 1: // overrides that vanish after trimming
			for k, m := 0, rng.Intn(3); k < m; k++ {
				ovr = append(ovr, hlib.Pick(rng, blanks))
			}
			r.Count("overrides:blank-only")
		default:
			ovr = list(4, validOnly)
		}
		run(r, hlib.Pick(rng, protos), base, ovr)
	}
	r.Finish()
}
