// C45 tie: record the file operations of the REAL configuration save (Config.writeFile reached via
// UpdateApex / RebuildTunnels / directly) with strace on a helper invocation of this very binary,
// turn them into the model's FsOp list, rebuild every prefix crash image on disk with real system
// calls (two variants: everything written survives / unsynced data is lost) and parse each image
// with the real reader client.NewConfig: it must be the previous or the new configuration.
// The config path is a regular file, a symbolic link to the real file in another directory (dotfiles
// checkout, mounted volume) or a chain of two links; the crash images are rebuilt with the same layout
// and read through the config path, as the client does on its next start.
package main

import (
	"encoding/json"
	"fmt"
	"os"
	"os/exec"
	"path/filepath"
	"regexp"
	"strconv"
	"strings"

	"go.miragespace.co/specter/tun/client"
	"verif/harness/hlib"
)

// ---------- helper sub-command (the traced process) ----------

func helper(args []string) {
	mode, path, arg := args[0], args[1], args[2]
	cfg, err := client.NewConfig(path)
	if err != nil {
		fmt.Fprintln(os.Stderr, "helper: ", err)
		os.Exit(3)
	}
	switch mode {
	case "apex":
		client.VerifC45NewClient(cfg).UpdateApex(arg)
	case "rebuild":
		var ts []client.Tunnel
		if err := json.Unmarshal([]byte(arg), &ts); err != nil {
			os.Exit(4)
		}
		client.VerifC45NewClient(cfg).RebuildTunnels(ts)
	case "cert":
		cfg.Certificate = arg
		if err := client.VerifC45WriteFile(cfg); err != nil {
			os.Exit(5)
		}
	default:
		os.Exit(6)
	}
	os.Exit(0)
}

// ---------- strace parsing ----------

type op struct {
	kind string // openTrunc write fsync close rename unlink other
	fd   int
	a, b string // names (cfg, tmp, x<hex>)
	data []byte
	what string
}

func (o op) toks() string {
	switch o.kind {
	case "openTrunc":
		return "openTrunc " + strconv.Itoa(o.fd) + " " + o.a
	case "write":
		return "write " + strconv.Itoa(o.fd) + " " + hlib.Hex(o.data)
	case "fsync", "close":
		return o.kind + " " + strconv.Itoa(o.fd)
	case "rename":
		return "rename " + o.a + " " + o.b
	case "unlink":
		return "unlink " + o.a
	}
	return "other " + o.what
}

var (
	reFull   = regexp.MustCompile(`^(\d+)\s+(\w+)\((.*)\)\s+=\s+(-?\d+|\?)`)
	reUnfin  = regexp.MustCompile(`^(\d+)\s+(\w+)\((.*) <unfinished \.\.\.>$`)
	reResume = regexp.MustCompile(`^(\d+)\s+<\.\.\. (\w+) resumed>(.*)$`)
)

func unq(s string) ([]byte, bool) { // "\x41\x42" (strace -xx) -> bytes
	s = strings.TrimSpace(s)
	if len(s) < 2 || s[0] != '"' {
		return nil, false
	}
	e := strings.LastIndex(s, `"`)
	body := s[1:e]
	if strings.HasSuffix(s, "...") { // truncated string: never with -s large enough
		return nil, false
	}
	out := make([]byte, 0, len(body)/4)
	for i := 0; i+3 < len(body)+0 && i < len(body); i += 4 {
		if body[i] != '\\' || body[i+1] != 'x' {
			return nil, false
		}
		v, err := strconv.ParseUint(body[i+2:i+4], 16, 8)
		if err != nil {
			return nil, false
		}
		out = append(out, byte(v))
	}
	return out, true
}

func parseTrace(trace, cfgPath string) ([]op, error) {
	b, err := os.ReadFile(trace)
	if err != nil {
		return nil, err
	}
	dir := filepath.Dir(cfgPath)
	name := func(p string) (string, bool) {
		if !filepath.IsAbs(p) {
			return "", false
		}
		p = filepath.Clean(p)
		if p == filepath.Join(dir, "trace.txt") {
			return "", false
		}
		if rel, err := filepath.Rel(dir, p); err == nil && rel != "." && !strings.HasPrefix(rel, "..") {
			return relName(rel), true // anything below the case directory (link targets live in sub-directories)
		}
		return "", false
	}
	tracked := map[int]bool{}
	pend := map[string]string{}
	var ops []op
	for _, line := range strings.Split(string(b), "\n") {
		if m := reUnfin.FindStringSubmatch(line); m != nil {
			pend[m[1]] = m[2] + "(" + m[3]
			continue
		}
		if m := reResume.FindStringSubmatch(line); m != nil {
			line = m[1] + " " + pend[m[1]] + m[3]
			delete(pend, m[1])
		}
		m := reFull.FindStringSubmatch(line)
		if m == nil {
			continue
		}
		call, args, ret := m[2], strings.Split(m[3], ", "), m[4]
		rv, _ := strconv.Atoi(ret)
		if ret == "?" || rv < 0 {
			continue // failed call: no effect
		}
		fdArg := func() int { v, _ := strconv.Atoi(strings.TrimSpace(args[0])); return v }
		switch call {
		case "openat":
			if len(args) < 3 {
				continue
			}
			pb, ok := unq(args[1])
			if !ok {
				return nil, fmt.Errorf("unparsable path in %q", line)
			}
			n, in := name(string(pb))
			if !in {
				continue
			}
			flags := args[2]
			if !strings.Contains(flags, "O_WRONLY") && !strings.Contains(flags, "O_RDWR") {
				continue // read-only open of a file in the directory: no effect on content
			}
			tracked[rv] = true
			if strings.Contains(flags, "O_TRUNC") && strings.Contains(flags, "O_CREAT") {
				ops = append(ops, op{kind: "openTrunc", fd: rv, a: n})
			} else {
				ops = append(ops, op{kind: "other", what: "open-for-write-without-O_CREAT|O_TRUNC:" + n})
			}
		case "write":
			if !tracked[fdArg()] {
				continue
			}
			d, ok := unq(args[1])
			if !ok {
				return nil, fmt.Errorf("unparsable data in %q", line)
			}
			ops = append(ops, op{kind: "write", fd: fdArg(), data: d[:rv]})
		case "pwrite64", "ftruncate":
			if tracked[fdArg()] {
				ops = append(ops, op{kind: "other", what: call})
			}
		case "fsync", "fdatasync":
			if tracked[fdArg()] {
				ops = append(ops, op{kind: "fsync", fd: fdArg()})
			}
		case "close":
			if tracked[fdArg()] {
				delete(tracked, fdArg())
				ops = append(ops, op{kind: "close", fd: fdArg()})
			}
		case "rename", "renameat", "renameat2":
			var pa, pb2 string
			if call == "rename" {
				pa, pb2 = args[0], args[1]
			} else {
				pa, pb2 = args[1], args[3]
			}
			a, ok1 := unq(pa)
			bb, ok2 := unq(pb2)
			if !ok1 || !ok2 {
				return nil, fmt.Errorf("unparsable rename in %q", line)
			}
			na, ina := name(string(a))
			nb, inb := name(string(bb))
			if !ina && !inb {
				continue
			}
			if !ina || !inb {
				ops = append(ops, op{kind: "other", what: "rename-across-directories"})
				continue
			}
			ops = append(ops, op{kind: "rename", a: na, b: nb})
		case "unlink", "unlinkat":
			pa := args[0]
			if call == "unlinkat" {
				pa = args[1]
			}
			a, ok := unq(pa)
			if !ok {
				return nil, fmt.Errorf("unparsable unlink in %q", line)
			}
			if na, in := name(string(a)); in {
				ops = append(ops, op{kind: "unlink", a: na})
			}
		}
	}
	return ops, nil
}

// ---------- names and layout ----------

// relName: model name of a path relative to the directory of the config path.
func relName(rel string) string {
	switch rel {
	case "client.yaml":
		return "cfg"
	case "client.yaml.tmp":
		return "tmp"
	}
	return "x" + hlib.HexS(rel)
}

// namePath: inverse of relName below root.
func namePath(root, n string) string {
	switch n {
	case "cfg":
		return filepath.Join(root, "client.yaml")
	case "tmp":
		return filepath.Join(root, "client.yaml.tmp")
	}
	if strings.HasPrefix(n, "x") {
		if b := hlib.UnHex(n[1:]); len(b) > 0 {
			return filepath.Join(root, string(b))
		}
	}
	return filepath.Join(root, n)
}

// chainOf: the relative paths client.yaml leads through; the last one is the regular file.
// link 0: client.yaml is the file; 1: client.yaml -> real/client.yaml;
// 2: client.yaml -> dot/client.yaml -> real/client.yaml.
func chainOf(link int) []string {
	switch link {
	case 1:
		return []string{"client.yaml", "real/client.yaml"}
	case 2:
		return []string{"client.yaml", "dot/client.yaml", "real/client.yaml"}
	}
	return []string{"client.yaml"}
}

// layout creates the symbolic links of the chain below root (absolute or relative link texts) and
// returns the path of the regular file at its end.
func layout(root string, link int, abs bool) string {
	ch := chainOf(link)
	for _, rel := range ch {
		if err := os.MkdirAll(filepath.Dir(filepath.Join(root, rel)), 0o755); err != nil {
			panic(err)
		}
	}
	for i := 0; i+1 < len(ch); i++ {
		from, to := filepath.Join(root, ch[i]), filepath.Join(root, ch[i+1])
		text := to
		if !abs {
			var err error
			if text, err = filepath.Rel(filepath.Dir(from), to); err != nil {
				panic(err)
			}
		}
		os.Remove(from)
		if err := os.Symlink(text, from); err != nil {
			panic(err)
		}
	}
	return filepath.Join(root, ch[len(ch)-1])
}

// ---------- crash images ----------

func canon(c *client.Config) string {
	s := fmt.Sprintf("%d|%q|%q|%q", c.Version, c.Apex, c.Certificate, c.PrivKey)
	for _, t := range c.Tunnels {
		s += fmt.Sprintf("|%q,%q,%v,%d,%q,%q", t.Target, t.Hostname, t.Insecure, t.ProxyHeaderTimeout, t.ProxyHeaderHost, t.ProxyHeaderMode)
	}
	return s
}

func read(path string) (string, string) { // raw token, canonical parse (or error class)
	raw := "absent"
	if b, err := os.ReadFile(path); err == nil {
		raw = hlib.Hex(b)
	}
	c, err := client.NewConfig(path)
	if err != nil {
		e := err.Error()
		switch {
		case raw == "absent":
			return raw, "lost:no-file"
		case strings.Contains(e, "expecting config version"):
			return raw, "lost:not-a-config(version)"
		case strings.Contains(e, "error opening"):
			return raw, "lost:cannot-open"
		case strings.HasSuffix(e, "EOF"):
			return raw, "lost:empty-file"
		case strings.Contains(e, "yaml"):
			return raw, "lost:undecodable"
		}
		return raw, "lost:invalid"
	}
	return raw, canon(c)
}

// image rebuilds the crash image after ops[:k] in a fresh directory with real system calls.
// lossy: writes not followed (within the prefix) by an fsync of the same open file are dropped.
func image(root string, link int, abs bool, old, stale []byte, hasStale bool, ops []op, k int, lossy bool) string {
	os.RemoveAll(root)
	if err := os.MkdirAll(root, 0o755); err != nil {
		panic(err)
	}
	p := func(n string) string { return namePath(root, n) }
	must := func(err error) {
		if err != nil {
			panic(err)
		}
	}
	must(os.WriteFile(layout(root, link, abs), old, 0o644))
	if hasStale {
		must(os.WriteFile(p("tmp"), stale, 0o644))
	}
	durable := make([]bool, k)
	if lossy {
		for i := 0; i < k; i++ {
			if ops[i].kind != "write" {
				continue
			}
			for j := i + 1; j < k; j++ {
				if ops[j].kind == "close" && ops[j].fd == ops[i].fd {
					break
				}
				if ops[j].kind == "fsync" && ops[j].fd == ops[i].fd {
					durable[i] = true
					break
				}
			}
		}
	}
	fds := map[int]*os.File{}
	for i := 0; i < k; i++ {
		o := ops[i]
		switch o.kind {
		case "openTrunc": // through symbolic links, like the recorded call
			os.MkdirAll(filepath.Dir(p(o.a)), 0o755)
			f, err := os.OpenFile(p(o.a), os.O_RDWR|os.O_CREATE|os.O_TRUNC, 0o644)
			must(err)
			fds[o.fd] = f
		case "write":
			if f := fds[o.fd]; f != nil && (!lossy || durable[i]) {
				_, err := f.Write(o.data)
				must(err)
			}
		case "fsync":
			if f := fds[o.fd]; f != nil {
				must(f.Sync())
			}
		case "close":
			if f := fds[o.fd]; f != nil {
				f.Close()
				delete(fds, o.fd)
			}
		case "rename":
			os.Rename(p(o.a), p(o.b))
		case "unlink":
			os.Remove(p(o.a))
		}
	}
	for _, f := range fds {
		f.Close()
	}
	return p("cfg")
}

// ---------- scenarios ----------

type scenario struct {
	Mode  string        `json:"mode"`
	Arg   string        `json:"arg"`
	Stale string        `json:"stale"` // content of a left-over client.yaml.tmp ("" = none)
	Link  int           `json:"link"`  // 0: the config path is a regular file; 1: a symbolic link to the file; 2: link to link to file
	Abs   bool          `json:"abs"`   // link texts are absolute paths (else relative)
	Old   client.Config `json:"old"`
}

var self string
var base string
var caseNo int

func runScenario(r *hlib.Run, sc scenario) {
	caseNo++
	dir := filepath.Join(base, "case"+strconv.Itoa(caseNo))
	os.RemoveAll(dir)
	if err := os.MkdirAll(dir, 0o755); err != nil {
		panic(err)
	}
	defer os.RemoveAll(dir)
	cfgPath := filepath.Join(dir, "client.yaml")
	js, _ := json.Marshal(sc)
	r.Raw("reset")
	r.Emit("scenario "+hlib.Hex(js), "ok")
	if sc.Link < 0 || sc.Link > 2 {
		sc.Link = 0
	}
	realPath := layout(dir, sc.Link, sc.Abs) // the regular file the config path leads to
	if err := client.VerifC45Save(realPath, sc.Old); err != nil {
		panic(err)
	}
	os.Remove(realPath + ".tmp")
	if fi, err := os.Lstat(cfgPath); err != nil || (fi.Mode()&os.ModeSymlink != 0) != (sc.Link > 0) {
		panic("layout of the config path is not the requested one")
	}
	if sc.Stale != "" {
		os.WriteFile(cfgPath+".tmp", []byte(sc.Stale), 0o644)
	}
	oldB, _ := os.ReadFile(cfgPath)
	_, oldC := read(cfgPath)
	trace := filepath.Join(dir, "trace.txt")
	cmd := exec.Command("strace", "-f", "-xx", "-s", "4000000", "-o", trace, "-e",
		"trace=openat,write,pwrite64,ftruncate,rename,renameat,renameat2,unlink,unlinkat,fsync,fdatasync,close",
		self, "c45-helper", sc.Mode, cfgPath, sc.Arg)
	if out, err := cmd.CombinedOutput(); err != nil {
		panic(fmt.Sprintf("strace/helper failed: %v\n%s", err, out))
	}
	ops, err := parseTrace(trace, cfgPath)
	if err != nil {
		panic(err)
	}
	newB, _ := os.ReadFile(cfgPath)
	_, newC := read(cfgPath)
	staleTok := "_"
	if sc.Stale != "" {
		staleTok = hlib.HexS(sc.Stale)
	}
	initLine := "init " + hlib.Hex(oldB) + " " + staleTok
	for _, rel := range chainOf(sc.Link)[1:] {
		initLine += " " + relName(rel)
	}
	r.Emit(initLine, "ok")
	verdict := func(c string) string {
		switch c {
		case oldC:
			return "old"
		case newC:
			return "new"
		}
		if strings.HasPrefix(c, "lost:") {
			return c
		}
		return "lost:some-other-configuration"
	}
	img := filepath.Join(dir, "img")
	for k := 1; k <= len(ops); k++ {
		rawS, cS := read(image(img, sc.Link, sc.Abs, oldB, []byte(sc.Stale), sc.Stale != "", ops, k, false))
		rawL, cL := read(image(img, sc.Link, sc.Abs, oldB, []byte(sc.Stale), sc.Stale != "", ops, k, true))
		r.Emit("op "+ops[k-1].toks(), rawS+" "+verdict(cS)+" "+rawL+" "+verdict(cL))
		r.Case(sc.Mode + ":" + strconv.Itoa(caseNo) + ":" + strconv.Itoa(k))
		r.Count("crash-point:after-" + ops[k-1].kind)
	}
	r.Emit("shape", "atomic "+hlib.Hex(newB))
	r.Count("save-via:" + sc.Mode)
	r.Count("config-path:" + []string{"regular-file", "symlink", "symlink-chain"}[sc.Link])
	r.Count("ops-per-save:" + strconv.Itoa(len(ops)))
	if sc.Stale != "" {
		r.Count("stale-tmp-present")
	}
	if oldC == newC {
		r.Count("warning:new==old")
	}
}

func main() {
	if len(os.Args) >= 5 && os.Args[1] == "c45-helper" {
		helper(os.Args[2:])
		return
	}
	r := hlib.Start()
	r.Rule = "case = one configuration save of the real code (UpdateApex | RebuildTunnels | writeFile after a certificate change) on a random existing configuration whose path is a regular file | a symbolic link to the file in another directory | a chain of two links (absolute or relative link texts), recorded with strace; evaluation = one crash point (prefix of the recorded file operations) x {all written data survives, unsynced data lost}; every crash point of every recorded save is evaluated (exhaustive over the quantifier for that save)"
	rng := hlib.NewRng(r.Seed)
	var err error
	self, err = os.Executable()
	if err != nil {
		panic(err)
	}
	wd, _ := os.Getwd()
	base = filepath.Join(wd, "c45work")
	os.MkdirAll(base, 0o755)
	defer os.RemoveAll(base)

	if r.Replay != "" {
		for _, t := range r.ReplayLines() {
			if t[0] == "scenario" && len(t) >= 2 {
				var sc scenario
				if json.Unmarshal(hlib.UnHex(t[1]), &sc) == nil {
					runScenario(r, sc)
				}
			}
		}
		r.Finish()
		return
	}

	pem := func(kind string, n int) string {
		s := "-----BEGIN " + kind + "-----\n"
		for i := 0; i < n; i++ {
			s += hlib.Hex(rng.Bytes(24)) + "\n"
		}
		return s + "-----END " + kind + "-----\n"
	}
	targets := []string{"tcp://127.0.0.1:22", "http://127.0.0.1:8080", "https://10.0.0.1:8443", "unix:///tmp/s.sock"}
	tunnels := func(n int) []client.Tunnel {
		ts := make([]client.Tunnel, n)
		for i := range ts {
			ts[i] = client.Tunnel{Target: hlib.Pick(rng, targets), Hostname: "h" + strconv.Itoa(rng.Intn(1000))}
			if rng.Chance(30) {
				ts[i].Insecure = true
			}
			if rng.Chance(30) {
				ts[i].ProxyHeaderMode = "custom"
				ts[i].ProxyHeaderHost = "host" + strconv.Itoa(i) + ".internal"
			}
		}
		return ts
	}
	gen := func(i int) scenario {
		sc := scenario{Old: client.Config{Version: 2, Apex: "specter.example:443",
			Certificate: pem("CERTIFICATE", 2+rng.Intn(12)), PrivKey: pem("PRIVATE KEY", 2), Tunnels: tunnels(rng.Intn(5))}}
		if rng.Chance(30) {
			sc.Stale = "left over from an earlier crash\n" + hlib.Hex(rng.Bytes(rng.Intn(400)))
		}
		// every way of saving meets every kind of config path within 9 consecutive cases
		sc.Link = (i / 3) % 3
		sc.Abs = rng.Chance(50)
		switch i % 3 {
		case 0:
			sc.Mode, sc.Arg = "apex", "new-"+strconv.Itoa(rng.Intn(1000))+".example:443"
		case 1:
			sc.Mode = "rebuild"
			ts := tunnels(1 + rng.Intn(40)) // may be much larger or smaller than the old file
			b, _ := json.Marshal(ts)
			sc.Arg = string(b)
		default:
			sc.Mode, sc.Arg = "cert", pem("CERTIFICATE", 1+rng.Intn(200))
		}
		return sc
	}
	n := 9
	if r.Thorough() {
		n = 120
	}
	for i := 0; i < n; i++ {
		runScenario(r, gen(i))
	}
	r.Finish()
}
