import SpecterModel.C18.Drv

def main : IO Unit := Specter.C18.main
