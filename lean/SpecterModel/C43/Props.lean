import SpecterModel.C43.Model
/-!
# C43 — Tunnel sync assigns each tunnel a distinct hostname

Theorems about the model of `SyncConfigTunnels` (`Model.lean`, tied to the real function by the
differential harness `harness/cmd/c43`).

Reading of the statement: hostnames that are already configured are kept *verbatim* — so if the
configuration itself lists one hostname twice, that duplicate survives; `distinct` says those are
the ONLY possible duplicates, `no_shared_hostname` is the clean statement for configurations without
such duplicates.  Hypotheses that are contracts of the server side and not of this code:
`registered.Nodup` (PrefixList is a set), and `FreshOK` (a generated hostname is new: not generated
twice, not already registered to this client, not already in the configuration).
-/
namespace Specter.C43

/-! ## the loop -/

theorem somes_sub_cons (x : Option String) (fr : List (Option String)) : ∀ n ∈ somes fr, n ∈ somes (x :: fr) := by
  intro n hn; cases x <;> simp [somes, hn]

/-- Every output tunnel is its input tunnel, possibly with a hostname taken from the supply
(reusable names then generated names), and that only for a tunnel with a target and no hostname. -/
theorem assign_pointwise (ts : List Tunnel) (av : List String) (fr : List (Option String)) :
    ∀ p ∈ ts.zip (assign ts av fr).1,
      p.2.target = p.1.target ∧
      (p.2 = p.1 ∨ (p.1.host = "" ∧ p.1.target ≠ "" ∧ (p.2.host ∈ av ∨ p.2.host ∈ somes fr))) := by
  fun_induction assign ts av fr with
  | case1 => simp
  | case2 t ts av fr ht r ih =>
    intro p hp; simp only [List.zip_cons_cons, List.mem_cons] at hp
    rcases hp with rfl | hp
    · simp
    · exact ih p hp
  | case3 t ts fr ht hh a av' r ih =>
    intro p hp; simp only [List.zip_cons_cons, List.mem_cons] at hp
    rcases hp with rfl | hp
    · simp [hh, ht]
    · have := ih p hp
      refine ⟨this.1, ?_⟩
      rcases this.2 with h | ⟨h1, h2, h3 | h3⟩
      · exact .inl h
      · exact .inr ⟨h1, h2, .inl (List.mem_cons_of_mem _ h3)⟩
      · exact .inr ⟨h1, h2, .inr h3⟩
  | case4 t ts ht hh n fr' r ih =>
    intro p hp; simp only [List.zip_cons_cons, List.mem_cons] at hp
    rcases hp with rfl | hp
    · simp [hh, ht, somes]
    · have := ih p hp
      refine ⟨this.1, ?_⟩
      rcases this.2 with h | ⟨h1, h2, h3 | h3⟩
      · exact .inl h
      · simp at h3
      · exact .inr ⟨h1, h2, .inr (somes_sub_cons _ _ _ h3)⟩
  | case5 t ts ht hh fr' r ih =>
    intro p hp; simp only [List.zip_cons_cons, List.mem_cons] at hp
    rcases hp with rfl | hp
    · simp
    · have := ih p hp
      refine ⟨this.1, ?_⟩
      rcases this.2 with h | ⟨h1, h2, h3 | h3⟩
      · exact .inl h
      · simp at h3
      · exact .inr ⟨h1, h2, .inr (somes_sub_cons _ _ _ h3)⟩
  | case6 t ts ht hh r ih =>
    intro p hp; simp only [List.zip_cons_cons, List.mem_cons] at hp
    rcases hp with rfl | hp
    · simp
    · exact ih p hp
  | case7 t ts av fr ht hh r ih =>
    intro p hp; simp only [List.zip_cons_cons, List.mem_cons] at hp
    rcases hp with rfl | hp
    · simp
    · exact ih p hp

theorem assign_length (ts : List Tunnel) (av : List String) (fr : List (Option String)) :
    (assign ts av fr).1.length = ts.length := by
  fun_induction assign ts av fr <;> simp_all +zetaDelta

/-- Supply hypothesis of the loop: the names that can be handed out are pairwise different and none
of them is a hostname of a tunnel still to be processed. -/
def Supply (ts : List Tunnel) (av : List String) (fr : List (Option String)) : Prop :=
  (av ++ somes fr).Nodup ∧ ∀ n ∈ av ++ somes fr, ∀ t ∈ ts, t.host ≠ n

/-- relation "the only way two output tunnels share a hostname is that both kept a configured one" -/
def OnlyConfiguredDup (p q : Tunnel × Tunnel) : Prop :=
  p.2.host = q.2.host → p.2 = p.1 ∧ q.2 = q.1

theorem supply_tail {t : Tunnel} {ts : List Tunnel} {av : List String} {fr : List (Option String)} (h : Supply (t :: ts) av fr) : Supply ts av fr :=
  ⟨h.1, fun n hn u hu => h.2 n hn u (List.mem_cons_of_mem _ hu)⟩

/-- a tunnel that keeps its hostname cannot collide with a name handed out later -/
theorem head_kept_ok {t : Tunnel} {ts : List Tunnel} {av : List String} {fr : List (Option String)} (h : Supply (t :: ts) av fr) :
    ∀ q ∈ ts.zip (assign ts av fr).1, OnlyConfiguredDup (t, t) q := by
  intro q hq heq
  have := assign_pointwise ts av fr q hq
  rcases this.2 with h1 | ⟨_, _, h3⟩
  · exact ⟨rfl, h1⟩
  · exfalso
    have hm : q.2.host ∈ av ++ somes fr := by
      rcases h3 with h3 | h3
      · exact List.mem_append_left _ h3
      · exact List.mem_append_right _ h3
    exact h.2 _ hm t (List.mem_cons_self) heq

/-- a freshly handed-out name `a` collides with nothing later, given it is neither configured later
nor still in the remaining supply -/
theorem head_new_ok {t : Tunnel} {a : String} {ts : List Tunnel} {av : List String} {fr : List (Option String)}
    (hcfg : ∀ u ∈ ts, u.host ≠ a) (hav : a ∉ av) (hfr : a ∉ somes fr) :
    ∀ q ∈ ts.zip (assign ts av fr).1, OnlyConfiguredDup (t, { t with host := a }) q := by
  intro q hq heq
  exfalso
  have := assign_pointwise ts av fr q hq
  simp only at heq
  rcases this.2 with h1 | ⟨_, _, h3 | h3⟩
  · have hmem : q.1 ∈ ts := (List.of_mem_zip hq).1
    exact hcfg q.1 hmem (by rw [← h1]; exact heq.symm)
  · exact hav (heq ▸ h3)
  · exact hfr (heq ▸ h3)

theorem assign_pairwise (ts : List Tunnel) (av : List String) (fr : List (Option String))
    (h : Supply ts av fr) : (ts.zip (assign ts av fr).1).Pairwise OnlyConfiguredDup := by
  fun_induction assign ts av fr with
  | case1 => simp
  | case2 t ts av fr ht r ih =>
    simp only [List.zip_cons_cons, List.pairwise_cons]
    exact ⟨head_kept_ok h, ih (supply_tail h)⟩
  | case3 t ts fr ht hh a av' r ih =>
    simp only [List.zip_cons_cons, List.pairwise_cons]
    have hnd := h.1
    simp only [List.cons_append, List.nodup_cons, List.mem_append, not_or] at hnd
    have h' : Supply ts av' fr :=
      ⟨hnd.2, fun n hn u hu => h.2 n (List.mem_cons_of_mem _ hn) u (List.mem_cons_of_mem _ hu)⟩
    refine ⟨head_new_ok (fun u hu => h.2 a (by simp) u (List.mem_cons_of_mem _ hu)) hnd.1.1 hnd.1.2, ih h'⟩
  | case4 t ts ht hh n fr' r ih =>
    simp only [List.zip_cons_cons, List.pairwise_cons]
    have hnd := h.1
    simp only [somes, List.nil_append, List.nodup_cons] at hnd
    have h' : Supply ts [] fr' :=
      ⟨by simpa using hnd.2, fun m hm u hu => h.2 m (by simp [somes] at hm ⊢; exact .inr hm) u (List.mem_cons_of_mem _ hu)⟩
    refine ⟨head_new_ok (fun u hu => h.2 n (by simp [somes]) u (List.mem_cons_of_mem _ hu)) (by simp) hnd.1, ih h'⟩
  | case5 t ts ht hh fr' r ih =>
    simp only [List.zip_cons_cons, List.pairwise_cons]
    have h0 : Supply (t :: ts) [] fr' := by simpa [Supply, somes] using h
    exact ⟨head_kept_ok h0, ih (supply_tail h0)⟩
  | case6 t ts ht hh r ih =>
    simp only [List.zip_cons_cons, List.pairwise_cons]
    exact ⟨head_kept_ok h, ih (supply_tail h)⟩
  | case7 t ts av fr ht hh r ih =>
    simp only [List.zip_cons_cons, List.pairwise_cons]
    exact ⟨head_kept_ok h, ih (supply_tail h)⟩

/-- If no request fails and the script is long enough, every tunnel with a target ends up named. -/
theorem assign_named (ts : List Tunnel) (av : List String) (fr : List (Option String))
    (hcfg : ∀ n ∈ av ++ somes fr, ∀ t ∈ ts, t.host ≠ n)
    (hok : ∀ x ∈ fr, x ≠ none) (hlen : needy ts ≤ av.length + fr.length) :
    ∀ t' ∈ (assign ts av fr).1, t'.target ≠ "" → t'.host ≠ "" := by
  fun_induction assign ts av fr with
  | case1 => simp
  | case2 t ts av fr ht r ih =>
    intro t' ht'; simp only [List.mem_cons] at ht'
    rcases ht' with rfl | ht'
    · intro h; exact absurd ht h
    · exact ih (fun n hn u hu => hcfg n hn u (List.mem_cons_of_mem _ hu)) hok
        (by simpa [needy, ht] using hlen) t' ht'
  | case3 t ts fr ht hh a av' r ih =>
    intro t' ht'; simp only [List.mem_cons] at ht'
    rcases ht' with rfl | ht'
    · intro _; simp only
      exact fun h => hcfg a (by simp) t List.mem_cons_self (by rw [hh, h])
    · exact ih (fun n hn u hu => hcfg n (List.mem_cons_of_mem _ hn) u (List.mem_cons_of_mem _ hu)) hok
        (by simp [needy, ht, hh] at hlen ⊢; omega) t' ht'
  | case4 t ts ht hh n fr' r ih =>
    intro t' ht'; simp only [List.mem_cons] at ht'
    rcases ht' with rfl | ht'
    · intro _; simp only
      exact fun h => hcfg n (by simp [somes]) t List.mem_cons_self (by rw [hh, h])
    · exact ih (fun m hm u hu => hcfg m (by simp [somes] at hm ⊢; exact .inr hm) u (List.mem_cons_of_mem _ hu))
        (fun x hx => hok x (List.mem_cons_of_mem _ hx))
        (by simp [needy, ht, hh] at hlen ⊢; omega) t' ht'
  | case5 t ts ht hh fr' r ih => exact absurd rfl (hok none List.mem_cons_self)
  | case6 t ts ht hh r ih => simp [needy, ht, hh] at hlen
  | case7 t ts av fr ht hh r ih =>
    intro t' ht'; simp only [List.mem_cons] at ht'
    rcases ht' with rfl | ht'
    · intro _; exact hh
    · exact ih (fun n hn u hu => hcfg n hn u (List.mem_cons_of_mem _ hu)) hok
        (by simpa [needy, hh] using hlen) t' ht'

/-- Exact number of `GenerateHostname` calls: one per needy tunnel beyond the reusable supply. -/
theorem assign_calls (ts : List Tunnel) (av : List String) (fr : List (Option String)) :
    (assign ts av fr).2 = needy ts - av.length := by
  fun_induction assign ts av fr <;> simp_all [needy] <;> omega

/-- The first `needy ts` reusable names are all handed out. -/
theorem assign_uses_available (ts : List Tunnel) (av : List String) (fr : List (Option String)) :
    ∀ a ∈ av.take (needy ts), ∃ t' ∈ (assign ts av fr).1, t'.host = a := by
  fun_induction assign ts av fr with
  | case1 => simp [needy]
  | case3 t ts fr ht hh a av' r ih =>
    intro b hb
    simp [needy, ht, hh] at hb
    rcases hb with rfl | hb
    · exact ⟨_, List.mem_cons_self, rfl⟩
    · obtain ⟨t', h1, h2⟩ := ih b (by simpa [needy] using hb)
      exact ⟨t', List.mem_cons_of_mem _ h1, h2⟩
  | case2 t ts av fr ht r ih =>
    intro b hb
    obtain ⟨t', h1, h2⟩ := ih b (by simpa [needy, List.filter_cons, ht] using hb)
    exact ⟨t', List.mem_cons_of_mem _ h1, h2⟩
  | case7 t ts av fr ht hh r ih =>
    intro b hb
    obtain ⟨t', h1, h2⟩ := ih b (by simpa [needy, List.filter_cons, ht, hh] using hb)
    exact ⟨t', List.mem_cons_of_mem _ h1, h2⟩
  | case4 => simp
  | case5 => simp
  | case6 => simp

/-! ## property theorems about `sync` -/

/-- A generated hostname is new. -/
structure FreshOK (ts : List Tunnel) (reg : List String) (fr : List (Option String)) : Prop where
  nodup : (somes fr).Nodup
  notRegistered : ∀ n ∈ somes fr, n ∉ reg
  notConfigured : ∀ n ∈ somes fr, n ∉ hosts ts

theorem mem_available {ts : List Tunnel} {reg : List String} {a : String} (h : a ∈ available ts reg) :
    a ∈ reg ∧ dotted a = false ∧ a ∉ hosts ts := by
  simp [available] at h
  exact ⟨h.1, h.2.1, by simpa [hosts] using h.2.2⟩

theorem supply_of_fresh {ts reg fr} (hreg : reg.Nodup) (hf : FreshOK ts reg fr) :
    Supply ts (available ts reg) fr := by
  refine ⟨List.nodup_append.mpr ⟨hreg.filter _, hf.nodup, ?_⟩, ?_⟩
  · intro a ha b hb hab
    exact hf.notRegistered b hb (hab ▸ (mem_available ha).1)
  · intro n hn t ht heq
    have hin : t.host ∈ hosts ts := List.mem_map.mpr ⟨t, ht, rfl⟩
    rcases List.mem_append.mp hn with h | h
    · exact (mem_available h).2.2 (heq ▸ hin)
    · exact hf.notConfigured n h (heq ▸ hin)

/-- configured_kept: the tunnel list keeps its length and order; targets never change; a tunnel that
already has a hostname is untouched; so is every tunnel when `RegisteredHostnames` fails. -/
theorem configured_kept (ts : List Tunnel) (reg : Option (List String)) (fr : List (Option String)) :
    (sync ts reg fr).out.length = ts.length ∧
    ∀ p ∈ ts.zip (sync ts reg fr).out, p.2.target = p.1.target ∧ (p.1.host ≠ "" → p.2 = p.1) := by
  cases reg with
  | none =>
    refine ⟨rfl, fun p hp => ?_⟩
    have : p.1 = p.2 := by
      simp only [sync] at hp
      exact List.of_mem_zip hp |> fun _ => by
        obtain ⟨i, hi, rfl⟩ := List.mem_iff_getElem.mp hp
        simp
    simp [this]
  | some r =>
    refine ⟨assign_length _ _ _, fun p hp => ?_⟩
    have := assign_pointwise ts (available ts r) fr p hp
    refine ⟨this.1, fun hne => ?_⟩
    rcases this.2 with h | ⟨h, _⟩
    · exact h
    · exact absurd h hne

/-- reuse_only_autogenerated_unused: a hostname the sync newly puts on a tunnel is either a generated
one, or a registered, dot-free hostname that no tunnel of the configuration uses; and only tunnels
with a target and without hostname receive one. -/
theorem reuse_only_autogenerated_unused (ts : List Tunnel) (reg : List String) (fr : List (Option String)) :
    ∀ p ∈ ts.zip (sync ts (some reg) fr).out, p.2 ≠ p.1 →
      p.1.host = "" ∧ p.1.target ≠ "" ∧
      ((p.2.host ∈ reg ∧ dotted p.2.host = false ∧ p.2.host ∉ hosts ts) ∨ some p.2.host ∈ fr) := by
  intro p hp hne
  have := assign_pointwise ts (available ts reg) fr p hp
  rcases this.2 with h | ⟨h1, h2, h3 | h3⟩
  · exact absurd h hne
  · exact ⟨h1, h2, .inl (mem_available h3)⟩
  · refine ⟨h1, h2, .inr ?_⟩
    clear hp this hne
    induction fr with
    | nil => simp [somes] at h3
    | cons x fr ih =>
      cases x with
      | none => exact List.mem_cons_of_mem _ (ih (by simpa [somes] using h3))
      | some n =>
        simp only [somes, List.mem_cons] at h3
        rcases h3 with h3 | h3
        · simp [h3]
        · exact List.mem_cons_of_mem _ (ih h3)

/-- reuse_before_request: the number of `GenerateHostname` calls is exactly the number of tunnels
needing a name beyond the reusable hostnames, and whenever a call is made every reusable hostname
has been put on some tunnel. -/
theorem reuse_before_request (ts : List Tunnel) (reg : List String) (fr : List (Option String)) :
    (sync ts (some reg) fr).calls = needy ts - (available ts reg).length ∧
    ((sync ts (some reg) fr).calls > 0 →
      ∀ a ∈ available ts reg, ∃ t' ∈ (sync ts (some reg) fr).out, t'.host = a) := by
  refine ⟨assign_calls _ _ _, fun hpos a ha => ?_⟩
  have hc : (sync ts (some reg) fr).calls = needy ts - (available ts reg).length := assign_calls _ _ _
  apply assign_uses_available ts (available ts reg) fr a
  rw [List.take_of_length_le (by omega)]; exact ha

/-- every_target_named: when no `GenerateHostname` call fails (the script is long enough and has no
failure), every tunnel with a target has a hostname afterwards. -/
theorem every_target_named (ts : List Tunnel) (reg : List String) (fr : List (Option String))
    (hcfg : ∀ n ∈ somes fr, n ∉ hosts ts) (hok : ∀ x ∈ fr, x ≠ none)
    (hlen : needy ts ≤ (available ts reg).length + fr.length) :
    ∀ t' ∈ (sync ts (some reg) fr).out, t'.target ≠ "" → t'.host ≠ "" := by
  apply assign_named ts (available ts reg) fr _ hok hlen
  intro n hn t ht heq
  have hin : t.host ∈ hosts ts := List.mem_map.mpr ⟨t, ht, rfl⟩
  rcases List.mem_append.mp hn with h | h
  · exact (mem_available h).2.2 (heq ▸ hin)
  · exact hcfg n h (heq ▸ hin)

/-- distinct: two different positions of the synchronised list carry the same hostname only if both
tunnels were configured with it already (both are untouched). -/
theorem distinct (ts : List Tunnel) (reg : List String) (fr : List (Option String))
    (hreg : reg.Nodup) (hf : FreshOK ts reg fr) :
    (ts.zip (sync ts (some reg) fr).out).Pairwise OnlyConfiguredDup :=
  assign_pairwise ts (available ts reg) fr (supply_of_fresh hreg hf)

/-- index form of `distinct` -/
theorem distinct_idx (ts : List Tunnel) (reg : List String) (fr : List (Option String))
    (hreg : reg.Nodup) (hf : FreshOK ts reg fr) (i j : Nat) (hij : i ≠ j)
    (hi : i < ts.length) (hj : j < ts.length)
    (hi' : i < (sync ts (some reg) fr).out.length) (hj' : j < (sync ts (some reg) fr).out.length)
    (heq : (sync ts (some reg) fr).out[i].host = (sync ts (some reg) fr).out[j].host) :
    (sync ts (some reg) fr).out[i] = ts[i] ∧ (sync ts (some reg) fr).out[j] = ts[j] := by
  have hp := List.pairwise_iff_getElem.mp (distinct ts reg fr hreg hf)
  have hlz : (ts.zip (sync ts (some reg) fr).out).length = ts.length := by
    have hl := (configured_kept ts (some reg) fr).1
    simp only [List.length_zip]; omega
  rcases Nat.lt_or_gt_of_ne hij with h | h
  · have := hp i j (by omega) (by omega) h
    simp only [OnlyConfiguredDup, List.getElem_zip] at this
    exact this heq
  · have := hp j i (by omega) (by omega) h
    simp only [OnlyConfiguredDup, List.getElem_zip] at this
    exact (this heq.symm).symm

/-- no_shared_hostname (the statement in its clean form): if the configuration does not itself list a
hostname twice, the registered list is a set, generated hostnames are new and no request fails, then
after the sync a tunnel with a target has a non-empty hostname that no other tunnel of the list carries. -/
theorem no_shared_hostname (ts : List Tunnel) (reg : List String) (fr : List (Option String))
    (hreg : reg.Nodup) (hf : FreshOK ts reg fr)
    (hcfg : ts.Pairwise fun a b => a.host = b.host → a.host = "")
    (hok : ∀ x ∈ fr, x ≠ none) (hlen : needy ts ≤ (available ts reg).length + fr.length)
    (i j : Nat) (hij : i ≠ j)
    (hi : i < (sync ts (some reg) fr).out.length) (hj : j < (sync ts (some reg) fr).out.length)
    (hti : (sync ts (some reg) fr).out[i].target ≠ "") :
    (sync ts (some reg) fr).out[i].host ≠ "" ∧
    (sync ts (some reg) fr).out[i].host ≠ (sync ts (some reg) fr).out[j].host := by
  have hlen' : (sync ts (some reg) fr).out.length = ts.length := (configured_kept ts (some reg) fr).1
  have hnamed := every_target_named ts reg fr hf.notConfigured hok hlen
  have hni := hnamed _ (List.getElem_mem hi) hti
  refine ⟨hni, fun heq => ?_⟩
  have := distinct_idx ts reg fr hreg hf i j hij (by omega) (by omega) hi hj heq
  have h1 : ts[i].host = ts[j].host := by rw [← this.1, ← this.2]; exact heq
  have hp := List.pairwise_iff_getElem.mp hcfg
  have h2 : ts[i].host = "" := by
    rcases Nat.lt_or_gt_of_ne hij with h | h
    · exact hp i j (by omega) (by omega) h h1
    · exact h1 ▸ hp j i (by omega) (by omega) h h1.symm
  rw [← this.1] at h2
  exact hni h2

/-! ## failing requests (`GenerateHostname` errors, exhausted script) -/

theorem somes_length_le (l : List (Option String)) : (somes l).length ≤ l.length := by
  induction l with
  | nil => simp [somes]
  | cons x l ih => cases x <;> simp [somes] <;> omega

theorem somes_take_le (k : Nat) (l : List (Option String)) : (somes (l.take k)).length ≤ k :=
  Nat.le_trans (somes_length_le _) (List.length_take_le _ _)

/-- requests among the first `k` calls of a script that failed (a call beyond the script fails) -/
def failedCalls (k : Nat) (fr : List (Option String)) : Nat := k - (somes (fr.take k)).length

/-- The tunnels left needing a name after the loop are exactly as many as requests failed. -/
theorem assign_unnamed (ts : List Tunnel) (av : List String) (fr : List (Option String))
    (hcfg : ∀ n ∈ av ++ somes fr, ∀ t ∈ ts, t.host ≠ n) :
    needy (assign ts av fr).1 = failedCalls (assign ts av fr).2 fr := by
  fun_induction assign ts av fr with
  | case1 => simp [needy, failedCalls]
  | case2 t ts av fr ht r ih =>
    have := ih (fun n hn u hu => hcfg n hn u (List.mem_cons_of_mem _ hu))
    simpa [needy, ht] using this
  | case3 t ts fr ht hh a av' r ih =>
    have ha : a ≠ "" := fun h => hcfg a (by simp) t List.mem_cons_self (by rw [hh, h])
    have := ih (fun n hn u hu => hcfg n (List.mem_cons_of_mem _ hn) u (List.mem_cons_of_mem _ hu))
    simpa [needy, ha] using this
  | case4 t ts ht hh n fr' r ih =>
    have hn : n ≠ "" := fun h => hcfg n (by simp [somes]) t List.mem_cons_self (by rw [hh, h])
    have := ih (fun m hm u hu => hcfg m (by simp [somes] at hm ⊢; exact .inr hm) u (List.mem_cons_of_mem _ hu))
    simp +zetaDelta [needy, failedCalls, hn, somes] at this ⊢; omega
  | case5 t ts ht hh fr' r ih =>
    have := ih (fun m hm u hu => hcfg m (by simp [somes] at hm ⊢; exact hm) u (List.mem_cons_of_mem _ hu))
    have hle := somes_take_le r.2 fr'
    simp +zetaDelta [needy, failedCalls, ht, hh, somes] at this hle ⊢; omega
  | case6 t ts ht hh r ih =>
    have := ih (by simp [somes])
    simp +zetaDelta [needy, failedCalls, ht, hh, somes] at this ⊢; omega
  | case7 t ts av fr ht hh r ih =>
    have := ih (fun n hn u hu => hcfg n hn u (List.mem_cons_of_mem _ hu))
    simpa [needy, hh] using this

/-- unnamed_only_after_failed_request ("each tunnel with a target has a hostname", for runs in which
requests may fail): after the sync the tunnels with a target and without hostname are exactly as many
as `GenerateHostname` calls failed — a failing request leaves its own tunnel unnamed and costs no
other tunnel its name. With no failing call this is `every_target_named`. -/
theorem unnamed_only_after_failed_request (ts : List Tunnel) (reg : List String) (fr : List (Option String))
    (hcfg : ∀ n ∈ somes fr, n ∉ hosts ts) :
    needy (sync ts (some reg) fr).out = failedCalls (sync ts (some reg) fr).calls fr := by
  apply assign_unnamed ts (available ts reg) fr
  intro n hn t ht heq
  have hin : t.host ∈ hosts ts := List.mem_map.mpr ⟨t, ht, rfl⟩
  rcases List.mem_append.mp hn with h | h
  · exact (mem_available h).2.2 (heq ▸ hin)
  · exact hcfg n h (heq ▸ hin)

/-- no_shared_hostname_faulty (distinctness in its clean form, failing requests included): if the
configuration does not itself list a hostname twice, the registered list is a set and generated
hostnames are new, then — whatever requests fail — a non-empty hostname of the synchronised list is
carried by exactly one tunnel. In particular a tunnel whose request failed does not inherit the
hostname handed to an earlier tunnel. -/
theorem no_shared_hostname_faulty (ts : List Tunnel) (reg : List String) (fr : List (Option String))
    (hreg : reg.Nodup) (hf : FreshOK ts reg fr)
    (hcfg : ts.Pairwise fun a b => a.host = b.host → a.host = "")
    (i j : Nat) (hij : i ≠ j)
    (hi : i < (sync ts (some reg) fr).out.length) (hj : j < (sync ts (some reg) fr).out.length)
    (hni : (sync ts (some reg) fr).out[i].host ≠ "") :
    (sync ts (some reg) fr).out[i].host ≠ (sync ts (some reg) fr).out[j].host := by
  have hlen' : (sync ts (some reg) fr).out.length = ts.length := (configured_kept ts (some reg) fr).1
  intro heq
  have := distinct_idx ts reg fr hreg hf i j hij (by omega) (by omega) hi hj heq
  have h1 : ts[i].host = ts[j].host := by rw [← this.1, ← this.2]; exact heq
  have hp := List.pairwise_iff_getElem.mp hcfg
  have h2 : ts[i].host = "" := by
    rcases Nat.lt_or_gt_of_ne hij with h | h
    · exact hp i j (by omega) (by omega) h h1
    · exact h1 ▸ hp j i (by omega) (by omega) h h1.symm
  rw [← this.1] at h2
  exact hni h2

/-! ## non-vacuity: concrete instances satisfying the hypotheses (and exercising reuse + request) -/

def exTs : List Tunnel :=
  [⟨"tcp://a", ""⟩, ⟨"tcp://b", "kept"⟩, ⟨"", ""⟩, ⟨"tcp://c", ""⟩, ⟨"tcp://d", "my.custom.com"⟩]
def exReg : List String := ["kept", "old1", "other.custom.com"]
def exFr : List (Option String) := [some "new1", some "new2"]

example : (sync exTs (some exReg) exFr).out =
    [⟨"tcp://a", "old1"⟩, ⟨"tcp://b", "kept"⟩, ⟨"", ""⟩, ⟨"tcp://c", "new1"⟩, ⟨"tcp://d", "my.custom.com"⟩] ∧
    (sync exTs (some exReg) exFr).calls = 1 := by decide
example : exReg.Nodup := by decide
example : FreshOK exTs exReg exFr := ⟨by decide, by decide, by decide⟩
example : ∀ x ∈ exFr, x ≠ none := by decide
example : needy exTs ≤ (available exTs exReg).length + exFr.length := by decide
example : exTs.Pairwise fun a b => a.host = b.host → a.host = "" := by decide
/-- a duplicate that the configuration already contains is kept (why `distinct` is stated that way) -/
example : (sync [⟨"tcp://a", "x"⟩, ⟨"tcp://b", "x"⟩] (some []) []).out = [⟨"tcp://a", "x"⟩, ⟨"tcp://b", "x"⟩] := by decide
/-- without `registered.Nodup` the property fails: the hypothesis is needed -/
example : (sync [⟨"tcp://a", ""⟩, ⟨"tcp://b", ""⟩] (some ["r", "r"]) []).out = [⟨"tcp://a", "r"⟩, ⟨"tcp://b", "r"⟩] := by decide

/-- failing requests: reuse, then a failing request, then a successful one — the tunnel whose request
failed stays unnamed (it does not inherit `old1`), everything else is named apart -/
def exFrF : List (Option String) := [none, some "new1"]
def exTsF : List Tunnel := exTs ++ [⟨"tcp://e", ""⟩]
example : (sync exTsF (some exReg) exFrF).out =
    [⟨"tcp://a", "old1"⟩, ⟨"tcp://b", "kept"⟩, ⟨"", ""⟩, ⟨"tcp://c", ""⟩, ⟨"tcp://d", "my.custom.com"⟩, ⟨"tcp://e", "new1"⟩] ∧
    (sync exTsF (some exReg) exFrF).calls = 2 ∧ failedCalls 2 exFrF = 1 := by decide
example : FreshOK exTsF exReg exFrF := ⟨by decide, by decide, by decide⟩
example : exTsF.Pairwise fun a b => a.host = b.host → a.host = "" := by decide
example : ∀ n ∈ somes exFrF, n ∉ hosts exTsF := by decide

/-! ## a tunnel removed (UnpublishTunnel / ReleaseTunnel) while the sync waits for an RPC

The sync assigns on a private copy of the tunnel list, so a removal that arrives in the middle only
edits the live configuration; the properties above hold for the outcome of such a sync unchanged. -/

/-- `tunnelRemovalWrapper` only deletes: what is left is a sublist of the configuration. -/
theorem removeHost_sublist (h : String) (ts : List Tunnel) : (removeHost h ts).Sublist ts := by
  induction ts with
  | nil => simp [removeHost]
  | cons t ts ih =>
    simp only [removeHost]
    split
    · exact List.sublist_cons_self t ts
    · exact ih.cons_cons t

/-- it deletes exactly one tunnel carrying `h` if there is one, and nothing otherwise -/
theorem removeHost_length (h : String) (ts : List Tunnel) :
    (removeHost h ts).length = if h ∈ hosts ts then ts.length - 1 else ts.length := by
  induction ts with
  | nil => simp [removeHost, hosts]
  | cons t ts ih =>
    by_cases ht : t.host = h
    · simp [removeHost, ht, hosts]
    · have hne : ¬ h = t.host := fun e => ht e.symm
      have hmem : (h ∈ hosts (t :: ts)) ↔ (h ∈ hosts ts) := by simp [hosts, hne]
      by_cases hm : h ∈ hosts ts
      · have hpos : 0 < ts.length := by
          rcases List.mem_map.mp hm with ⟨u, hu, _⟩
          exact List.length_pos_of_mem hu
        have hm' : h ∈ hosts (t :: ts) := hmem.mpr hm
        simp only [removeHost, ht, if_false, List.length_cons, ih, hm, hm', if_true]
        omega
      · have hm' : ¬ h ∈ hosts (t :: ts) := fun x => hm (hmem.mp x)
        simp only [removeHost, ht, if_false, List.length_cons, ih, hm, hm']

/-- Snapshot isolation: with the registered hostnames known, a removal arriving at ANY RPC of the sync,
for ANY hostname, leaves the sync's outcome (tunnel list written back, GenerateHostname calls,
hostnames published) exactly that of the undisturbed sync. -/
theorem syncRm_known (ts : List Tunnel) (reg : List String) (fr : List (Option String)) (pt : Point) (h : String) :
    (syncRm ts (some reg) fr pt h).res = sync ts (some reg) fr := by
  unfold syncRm
  simp only
  by_cases hr : reached (sync ts (some reg) fr) pt <;> simp [hr]

/-- the live configuration right after the removal is the configured list minus (at most) that tunnel:
the later tunnels are neither duplicated nor changed -/
theorem syncRm_mid (ts : List Tunnel) (reg : Option (List String)) (fr : List (Option String)) (pt : Point) (h : String)
    (m : List Tunnel) (hm : (syncRm ts reg fr pt h).mid = some m) : m = removeHost h ts := by
  unfold syncRm at hm
  simp only at hm
  by_cases hr : reached (sync ts reg fr) pt
  · cases reg <;> simp [hr] at hm <;> exact hm.symm
  · simp [hr] at hm

/-- The statement for a sync disturbed by a removal (failing requests allowed): the registered list is a
set, generated names are new, the configuration lists no hostname twice => whenever and whatever is
removed meanwhile, a non-empty hostname of the resulting list is carried by exactly one tunnel. -/
theorem no_shared_hostname_rm (ts : List Tunnel) (reg : List String) (fr : List (Option String))
    (pt : Point) (h : String)
    (hreg : reg.Nodup) (hf : FreshOK ts reg fr)
    (hcfg : ts.Pairwise fun a b => a.host = b.host → a.host = "")
    (i j : Nat) (hij : i ≠ j)
    (hi : i < (syncRm ts (some reg) fr pt h).res.out.length) (hj : j < (syncRm ts (some reg) fr pt h).res.out.length)
    (hni : (syncRm ts (some reg) fr pt h).res.out[i].host ≠ "") :
    (syncRm ts (some reg) fr pt h).res.out[i].host ≠ (syncRm ts (some reg) fr pt h).res.out[j].host := by
  have e := syncRm_known ts reg fr pt h
  have key : ∀ (r : Result), r = sync ts (some reg) fr → ∀ (hi : i < r.out.length) (hj : j < r.out.length),
      r.out[i].host ≠ "" → r.out[i].host ≠ r.out[j].host := by
    intro r hr; subst hr
    exact fun hi hj hni => no_shared_hostname_faulty ts reg fr hreg hf hcfg i j hij hi hj hni
  exact key _ e hi hj hni

/-- ... and with no failing request every tunnel with a target is named (clean form, as `no_shared_hostname`) -/
theorem every_target_named_rm (ts : List Tunnel) (reg : List String) (fr : List (Option String))
    (pt : Point) (h : String)
    (hcfg : ∀ n ∈ somes fr, n ∉ hosts ts) (hok : ∀ x ∈ fr, x ≠ none)
    (hlen : needy ts ≤ (available ts reg).length + fr.length) :
    ∀ t' ∈ (syncRm ts (some reg) fr pt h).res.out, t'.target ≠ "" → t'.host ≠ "" := by
  rw [syncRm_known]
  exact every_target_named ts reg fr hcfg hok hlen

/-- RegisteredHostnames failed (early return): the configuration afterwards is the configured list minus
at most the removed tunnel, so a configuration without a shared hostname stays one. -/
theorem syncRm_unknown (ts : List Tunnel) (fr : List (Option String)) (pt : Point) (h : String) :
    (syncRm ts none fr pt h).res.out.Sublist ts ∧
    ∀ R : Tunnel → Tunnel → Prop, ts.Pairwise R → (syncRm ts none fr pt h).res.out.Pairwise R := by
  have hs : (syncRm ts none fr pt h).res.out.Sublist ts := by
    unfold syncRm
    simp only
    by_cases hr : reached (sync ts none fr) pt
    · simp [hr]; exact removeHost_sublist h ts
    · have hr' : reached (sync ts none fr) pt = false := by simpa using hr
      simp only [hr', Bool.not_false, if_true]
      simp [sync]
  exact ⟨hs, fun R hR => hR.sublist hs⟩

/-! ### non-vacuity: the middle tunnel is unpublished while the sync waits for RegisteredHostnames -/
example : syncRm exTs (some exReg) exFr .reg "kept" =
    { res := sync exTs (some exReg) exFr,
      mid := some [⟨"tcp://a", ""⟩, ⟨"", ""⟩, ⟨"tcp://c", ""⟩, ⟨"tcp://d", "my.custom.com"⟩] } := by decide
/-- a point the sync never reaches: nothing is removed -/
example : (syncRm exTs (some exReg) exFr (.gen 1) "kept").mid = none := by decide
example : (syncRm exTs (some exReg) exFr (.gen 0) "kept").mid = some (removeHost "kept" exTs) := by decide
example : (syncRm exTs none exFr .reg "kept").res.out =
    [⟨"tcp://a", ""⟩, ⟨"", ""⟩, ⟨"tcp://c", ""⟩, ⟨"tcp://d", "my.custom.com"⟩] := by decide
example : removeHost "nope" exTs = exTs := by decide

end Specter.C43
