import SpecterModel.C01.Lemmas
/-!
# C05 — Each stored key lives only on its responsible node

Store-level exactness of the two hand-off primitives of the ring model (`transferUp` on join,
`transferDown` on leave), for every store, every range and every net:

* join: after a successful hand-off, the successor keeps no data key whose hash lies in the range
  `(prev, j]` it gave away, every key it keeps that was in its range `(prev, s]` is now in `(j, s]`
  (its new range), and every key that appears at the joiner has its hash in `(prev, j]`
  (the joiner's range) or was already there;
* leave: after a successful transfer the leaver holds no data at all.

The churn harness checks the resulting placement invariant (every stored key in `(pred, self]`, no key
on two nodes) on real nodes at every quiescent point, for all three... memory-backed rings.
-/
namespace Specter.C05
open Specter.Ring

theorem mem_rangeKeys (st : List KEntry) (low high : Nat) (e : KEntry) :
    e ∈ rangeKeys st low high ↔ e ∈ st ∧ between low e.hash high true = true ∧ e.isDeleted = false := by
  unfold rangeKeys; simp [List.mem_filter]

theorem mem_removeKeys (st es : List KEntry) (e : KEntry) :
    e ∈ removeKeys st es ↔ e ∈ st ∧ ∀ m ∈ es, m.key ≠ e.key := by
  unfold removeKeys
  simp only [List.mem_filter, Bool.not_eq_true', List.any_eq_false, beq_iff_eq]

/-- what stays behind after removing the keys selected by a range holds no data in that range -/
theorem remaining_outside_range (st : List KEntry) (low high : Nat) (e : KEntry)
    (h : e ∈ removeKeys st (rangeKeys st low high)) (hd : e.isDeleted = false) :
    between low e.hash high true = false := by
  rw [mem_removeKeys] at h
  obtain ⟨hm, hk⟩ := h
  cases hb : between low e.hash high true with
  | false => rfl
  | true => exact absurd rfl (hk e ((mem_rangeKeys st low high e).mpr ⟨hm, hb, hd⟩))

/-- `(prev, s]` minus `(prev, j]` is `(j, s]` when `j` lies strictly inside `(prev, s)` -/
theorem range_split (prev j s h : Nat) (hp : prev < M) (hj : j < M) (hs : s < M) (hh : h < M)
    (hjs : between prev j s false = true) (hin : between prev h s true = true)
    (hout : between prev h j true = false) : between j h s true = true := by
  rw [between_open_iff prev j s hp hj hs] at hjs
  rw [between_closed_iff prev h s hp hh hs] at hin
  have hout' := mt (between_closed_iff prev h j hp hh hj).mpr (by simp [hout])
  rw [between_closed_iff j h s hj hh hs]
  have := dist_cases prev j hp hj; have := dist_cases prev s hp hs; have := dist_cases prev h hp hh
  have := dist_cases j h hj hh; have := dist_cases j s hj hs; have := M_val
  omega

theorem importAt_get (net n2 : Net) (j : Nat) (es : List KEntry) (h : importAt net j es = some n2) :
    ∃ ndj, net.get j = some ndj ∧ n2 = net.upd j (fun nd => { nd with store := importEntries nd.store es }) := by
  unfold importAt at h
  cases hg : net.get j with
  | none => simp [hg] at h
  | some ndj =>
    simp only [hg] at h
    split at h
    · simp at h
    · split at h <;> simp at h <;> exact ⟨ndj, rfl, h.symm⟩

/-- **join, successor side.** After a successful `transferUp` the successor `s` holds no data key with
hash in the range `(prev, j]` it gave away; its pointers and state are untouched. -/
theorem transferUp_source (net net' : Net) (s j prev : Nat) (nd : Node) (hsj : s ≠ j)
    (hg : net.get s = some nd) (h : transferUp net s j prev nd.store = some net') :
    ∃ nd', net'.get s = some nd' ∧ nd'.state = nd.state ∧ nd'.pred = nd.pred ∧ nd'.succs = nd.succs ∧
      ∀ e ∈ nd'.store, e.isDeleted = false → between prev e.hash j true = false := by
  unfold transferUp at h
  simp only at h
  split at h
  · rename_i hem
    simp at h; subst h
    refine ⟨nd, hg, rfl, rfl, rfl, ?_⟩
    intro e he hd
    cases hb : between prev e.hash j true with
    | false => rfl
    | true =>
      have : e ∈ rangeKeys nd.store prev j := (mem_rangeKeys _ _ _ _).mpr ⟨he, hb, hd⟩
      rw [List.isEmpty_iff] at hem; rw [hem] at this; simp at this
  · cases hi : importAt net j (rangeKeys nd.store prev j) with
    | none => simp [hi] at h
    | some n2 =>
      simp only [hi] at h; simp at h; subst h
      obtain ⟨ndj, hgj, hn2⟩ := importAt_get net n2 j _ hi
      have hg2 : n2.get s = some nd := by rw [hn2, get_upd_other _ _ _ _ hsj]; exact hg
      refine ⟨{ nd with store := removeKeys nd.store (rangeKeys nd.store prev j) }, ?_, rfl, rfl, rfl, ?_⟩
      · rw [get_upd_same, hg2]; rfl
      · intro e he hd
        exact remaining_outside_range nd.store prev j e he hd

theorem mem_kvUpsert (st : List KEntry) (k : String) (h : Nat) (f : KEntry → KEntry) (e : KEntry)
    (he : e ∈ kvUpsert st k h f) :
    e ∈ st ∨ (∃ e0 ∈ st, e = f e0) ∨ e = f { key := k, hash := h, simple := none, children := [] } := by
  unfold kvUpsert at he
  split at he
  · simp only [List.mem_map] at he
    obtain ⟨e0, he0, rfl⟩ := he
    split
    · right; left; exact ⟨e0, he0, rfl⟩
    · left; exact he0
  · simp only [List.mem_append, List.mem_singleton] at he
    rcases he with he | he
    · left; exact he
    · right; right; exact he

/-- every entry of a store after `Import` was there before (same key and hash) or carries the key and
hash of an imported entry -/
theorem mem_importEntries (es st : List KEntry) (e : KEntry) (he : e ∈ importEntries st es) :
    (∃ e0 ∈ st, e0.key = e.key ∧ e0.hash = e.hash) ∨ (∃ m ∈ es, m.key = e.key ∧ m.hash = e.hash) := by
  unfold importEntries at he
  induction es generalizing st with
  | nil => left; exact ⟨e, by simpa using he, rfl, rfl⟩
  | cons m ms ih =>
    simp only [List.foldl_cons] at he
    rcases ih _ he with ⟨e0, he0, hk, hh⟩ | ⟨m', hm', hk, hh⟩
    · rcases mem_kvUpsert st m.key m.hash _ e0 he0 with h1 | ⟨e1, he1, rfl⟩ | rfl
      · left; exact ⟨e0, h1, hk, hh⟩
      · left; exact ⟨e1, he1, by simpa using hk, by simpa using hh⟩
      · right; exact ⟨m, List.mem_cons_self, by simpa using hk, by simpa using hh⟩
    · right; exact ⟨m', List.mem_cons_of_mem _ hm', hk, hh⟩

/-- **join, joiner side.** Every key present at the joiner after a successful `transferUp` was already
there or has its hash in the joiner's range `(prev, j]`. -/
theorem transferUp_target (net net' : Net) (s j prev : Nat) (store : List KEntry) (hsj : s ≠ j)
    (ndj : Node) (hgj : net.get j = some ndj) (h : transferUp net s j prev store = some net') :
    ∃ ndj', net'.get j = some ndj' ∧
      ∀ e ∈ ndj'.store, (∃ e0 ∈ ndj.store, e0.key = e.key ∧ e0.hash = e.hash) ∨ between prev e.hash j true = true := by
  unfold transferUp at h
  simp only at h
  split at h
  · simp at h; subst h
    exact ⟨ndj, hgj, fun e he => Or.inl ⟨e, he, rfl, rfl⟩⟩
  · cases hi : importAt net j (rangeKeys store prev j) with
    | none => simp [hi] at h
    | some n2 =>
      simp only [hi] at h; simp at h; subst h
      obtain ⟨ndj0, hgj0, hn2⟩ := importAt_get net n2 j _ hi
      rw [hgj] at hgj0; injection hgj0 with hgj0; subst hgj0
      refine ⟨{ ndj with store := importEntries ndj.store (rangeKeys store prev j) }, ?_, ?_⟩
      · rw [get_upd_other _ _ _ _ (Ne.symm hsj), hn2, get_upd_same, hgj]; rfl
      · intro e he
        rcases mem_importEntries _ _ e he with h1 | ⟨m, hm, hk, hh⟩
        · left; exact h1
        · right
          have := ((mem_rangeKeys store prev j m).mp hm).2.1
          rw [← hh]; exact this

/-- **leave.** After a successful `transferDown` the leaver holds no data key at all. -/
theorem transferDown_source_empty (net net' : Net) (l succ : Nat) (nd : Node) (hls : l ≠ succ)
    (hg : net.get l = some nd) (h : transferDown net l succ nd.store = some net') :
    ∃ nd', net'.get l = some nd' ∧ ∀ e ∈ nd'.store, e.isDeleted = true := by
  unfold transferDown at h
  simp only at h
  split at h
  · rename_i hem
    simp at h; subst h
    refine ⟨nd, hg, ?_⟩
    intro e he
    cases hd : e.isDeleted with
    | true => rfl
    | false =>
      have hb : between 0 e.hash 0 true = true := by
        unfold between; simp; omega
      have : e ∈ rangeKeys nd.store 0 0 := (mem_rangeKeys _ _ _ _).mpr ⟨he, hb, hd⟩
      rw [List.isEmpty_iff] at hem; rw [hem] at this; simp at this
  · cases hi : importAt net succ (rangeKeys nd.store 0 0) with
    | none => simp [hi] at h
    | some n2 =>
      simp only [hi] at h; simp at h; subst h
      obtain ⟨nds, _, hn2⟩ := importAt_get net n2 succ _ hi
      have hg2 : n2.get l = some nd := by rw [hn2, get_upd_other _ _ _ _ hls]; exact hg
      refine ⟨{ nd with store := removeKeys nd.store (rangeKeys nd.store 0 0) }, by rw [get_upd_same, hg2]; rfl, ?_⟩
      intro e he
      cases hd : e.isDeleted with
      | true => rfl
      | false =>
        have := remaining_outside_range nd.store 0 0 e he hd
        have hb : between 0 e.hash 0 true = true := by unfold between; simp; omega
        rw [hb] at this; simp at this

/-- **C05 for a join step.** If before the hand-off every data key of `s` was in its range `(prev, s]`,
then after it every data key of `s` is in its new range `(j, s]`. -/
theorem handOff_keeps_placement (net net' : Net) (s j prev : Nat) (nd : Node) (hsj : s ≠ j)
    (hg : net.get s = some nd) (hp : prev < M) (hj : j < M) (hs : s < M)
    (hhash : ∀ e ∈ nd.store, e.hash < M)
    (hjs : between prev j s false = true)
    (hplaced : ∀ e ∈ nd.store, e.isDeleted = false → between prev e.hash s true = true)
    (h : transferUp net s j prev nd.store = some net') :
    ∃ nd', net'.get s = some nd' ∧ ∀ e ∈ nd'.store, e.isDeleted = false → between j e.hash s true = true := by
  unfold transferUp at h
  simp only at h
  have core : ∀ e ∈ nd.store, e.isDeleted = false → between prev e.hash j true = false →
      between j e.hash s true = true :=
    fun e he hd hout => range_split prev j s e.hash hp hj hs (hhash e he) hjs (hplaced e he hd) hout
  split at h
  · rename_i hem
    simp at h; subst h
    refine ⟨nd, hg, fun e he hd => core e he hd ?_⟩
    cases hb : between prev e.hash j true with
    | false => rfl
    | true =>
      have : e ∈ rangeKeys nd.store prev j := (mem_rangeKeys _ _ _ _).mpr ⟨he, hb, hd⟩
      rw [List.isEmpty_iff] at hem; rw [hem] at this; simp at this
  · cases hi : importAt net j (rangeKeys nd.store prev j) with
    | none => simp [hi] at h
    | some n2 =>
      simp only [hi] at h; simp at h; subst h
      obtain ⟨ndj, _, hn2⟩ := importAt_get net n2 j _ hi
      have hg2 : n2.get s = some nd := by rw [hn2, get_upd_other _ _ _ _ hsj]; exact hg
      refine ⟨{ nd with store := removeKeys nd.store (rangeKeys nd.store prev j) }, by rw [get_upd_same, hg2]; rfl, ?_⟩
      intro e he hd
      have hm : e ∈ nd.store := ((mem_removeKeys _ _ _).mp he).1
      exact core e hm hd (remaining_outside_range nd.store prev j e he hd)

/-- non-vacuity: node 200 (pred 100) holds keys hashing to 120, 150 and 180; node 150 joins:
120 and 150 move, 180 stays and is in the new range (150, 200]. -/
def demoNet : Net :=
  [(200, { state := .active, pred := some 100, succs := [100],
           store := [⟨"a", 120, some "v", []⟩, ⟨"b", 150, none, ["c"]⟩, ⟨"c", 180, some "w", []⟩] }),
   (150, { state := .joining })]

example : ((transferUp demoNet 200 150 100
    [⟨"a", 120, some "v", []⟩, ⟨"b", 150, none, ["c"]⟩, ⟨"c", 180, some "w", []⟩]).bind (·.get 200)).map (·.store.map (·.key))
    = some ["c"] := by decide
example : ((transferUp demoNet 200 150 100
    [⟨"a", 120, some "v", []⟩, ⟨"b", 150, none, ["c"]⟩, ⟨"c", 180, some "w", []⟩]).bind (·.get 150)).map (·.store.map (·.key))
    = some ["a", "b"] := by decide

end Specter.C05

namespace Specter.C05
open Specter.Ring

/-! ### Conservation: what is handed off arrives intact, what is not handed off stays untouched -/

theorem mem_insertSorted (c x : String) : ∀ l : List String, c ∈ insertSorted x l ↔ c = x ∨ c ∈ l := by
  intro l
  induction l with
  | nil => simp [insertSorted]
  | cons y ys ih =>
    unfold insertSorted
    split
    · simp
    · split
      · rename_i h; have : x = y := by simpa using h
        subst this; simp
      · simp [ih]; constructor
        · rintro (h | h | h) <;> simp [h]
        · rintro (h | h | h) <;> simp [h]

theorem mem_foldl_insertSorted (c : String) : ∀ (cs acc : List String),
    c ∈ cs.foldl (fun a x => insertSorted x a) acc ↔ c ∈ cs ∨ c ∈ acc := by
  intro cs
  induction cs with
  | nil => intro acc; simp
  | cons x xs ih =>
    intro acc
    simp only [List.foldl_cons]
    rw [ih, mem_insertSorted]
    simp only [List.mem_cons]
    constructor
    · rintro (h | h | h) <;> simp [h]
    · rintro ((h | h) | h) <;> simp [h]

/-- the entry created by importing `m` into a store that has no entry for `m.key` -/
def importedEntry (m : KEntry) : KEntry :=
  { key := m.key, hash := m.hash, simple := m.simple,
    children := m.children.foldl (fun cs c => insertSorted c cs) [] }

theorem kvUpsert_fresh (st : List KEntry) (m : KEntry) (hfresh : ∀ e ∈ st, e.key ≠ m.key) :
    kvUpsert st m.key m.hash
      (fun old => { old with simple := m.simple, children := m.children.foldl (fun cs c => insertSorted c cs) old.children })
      = st ++ [importedEntry m] := by
  unfold kvUpsert
  have : st.any (fun e => e.key == m.key) = false := by
    rw [List.any_eq_false]; intro e he; simpa using hfresh e he
  simp [this, importedEntry]

theorem kvUpsert_other (st : List KEntry) (k : String) (h : Nat) (f : KEntry → KEntry) (e : KEntry)
    (he : e ∈ st) (hk : e.key ≠ k) : e ∈ kvUpsert st k h f := by
  unfold kvUpsert
  split
  · simp only [List.mem_map]
    exact ⟨e, he, by simp [hk]⟩
  · simp [he]

theorem eq_of_key_eq (st : List KEntry) (hnd : (st.map (·.key)).Nodup) (a b : KEntry)
    (ha : a ∈ st) (hb : b ∈ st) (hk : a.key = b.key) : a = b := by
  induction st with
  | nil => simp at ha
  | cons x xs ih =>
    simp only [List.map_cons, List.nodup_cons] at hnd
    rcases List.mem_cons.mp ha with rfl | ha' <;> rcases List.mem_cons.mp hb with rfl | hb'
    · rfl
    · exact absurd (List.mem_map.mpr ⟨b, hb', hk.symm⟩) hnd.1
    · exact absurd (List.mem_map.mpr ⟨a, ha', hk⟩) hnd.1
    · exact ih hnd.2 ha' hb'

/-- entries whose key is not imported survive an import unchanged -/
theorem import_keeps_others (es st : List KEntry) (e : KEntry) (he : e ∈ st) (hk : ∀ m ∈ es, m.key ≠ e.key) :
    e ∈ importEntries st es := by
  unfold importEntries
  induction es generalizing st with
  | nil => simpa using he
  | cons m ms ih =>
    simp only [List.foldl_cons]
    apply ih
    · exact kvUpsert_other st m.key m.hash _ e he (fun h => hk m List.mem_cons_self h.symm)
    · intro m' hm'; exact hk m' (List.mem_cons_of_mem _ hm')

/-- **Delivery.** Importing entries with pairwise distinct keys into a store that has none of these keys
creates, for every imported entry, an entry with the same key, hash, simple value and the same set
of children. -/
theorem import_delivers (es st : List KEntry)
    (hnd : (es.map (·.key)).Nodup) (hfresh : ∀ e ∈ st, ∀ m ∈ es, e.key ≠ m.key) :
    ∀ m ∈ es, importedEntry m ∈ importEntries st es := by
  induction es generalizing st with
  | nil => intro m hm; simp at hm
  | cons x xs ih =>
    intro m hm
    have hx : ∀ e ∈ st, e.key ≠ x.key := fun e he => hfresh e he x List.mem_cons_self
    have hstep : importEntries st (x :: xs) = importEntries (st ++ [importedEntry x]) xs := by
      unfold importEntries; simp only [List.foldl_cons]; rw [kvUpsert_fresh st x hx]
    rw [hstep]
    simp only [List.map_cons, List.nodup_cons] at hnd
    rcases List.mem_cons.mp hm with rfl | hm'
    · apply import_keeps_others
      · simp
      · intro m' hm' hk
        exact hnd.1 (List.mem_map.mpr ⟨m', hm', by simpa [importedEntry] using hk⟩)
    · apply ih _ hnd.2 _ m hm'
      intro e he m' hm''
      rcases List.mem_append.mp he with he | he
      · exact hfresh e he m' (List.mem_cons_of_mem _ hm'')
      · simp at he; subst he
        intro hk
        exact hnd.1 (List.mem_map.mpr ⟨m', hm'', by simpa [importedEntry] using hk.symm⟩)

theorem importedEntry_faithful (m : KEntry) :
    (importedEntry m).key = m.key ∧ (importedEntry m).hash = m.hash ∧ (importedEntry m).simple = m.simple ∧
    ∀ c, c ∈ (importedEntry m).children ↔ c ∈ m.children := by
  refine ⟨rfl, rfl, rfl, fun c => ?_⟩
  simp [importedEntry, mem_foldl_insertSorted]

/-- **Conservation of a join hand-off.** With a fresh joiner (empty store) and a successor store whose
keys are pairwise distinct, after a successful `transferUp`:
(1) every data entry of `s` with hash in `(prev, j]` is present at `j` with the same key, hash, simple
    value and children set;
(2) every other entry of `s` is still at `s`, unchanged;
(3) (`transferUp_source`) none of the handed-off data entries remains at `s`. -/
theorem transferUp_conserves (net net' : Net) (s j prev : Nat) (nd ndj : Node) (hsj : s ≠ j)
    (hg : net.get s = some nd) (hgj : net.get j = some ndj) (hempty : ndj.store = [])
    (hnd : (nd.store.map (·.key)).Nodup)
    (h : transferUp net s j prev nd.store = some net') :
    (∀ e ∈ nd.store, e.isDeleted = false → between prev e.hash j true = true →
        ∃ ndj', net'.get j = some ndj' ∧ importedEntry e ∈ ndj'.store) ∧
    (∀ e ∈ nd.store, (e.isDeleted = true ∨ between prev e.hash j true = false) →
        ∃ nd', net'.get s = some nd' ∧ e ∈ nd'.store) := by
  unfold transferUp at h
  simp only at h
  have hmovednd : ((rangeKeys nd.store prev j).map (·.key)).Nodup := by
    unfold rangeKeys
    exact List.Nodup.sublist (List.Sublist.map _ List.filter_sublist) hnd
  split at h
  · rename_i hem
    simp at h; subst h
    rw [List.isEmpty_iff] at hem
    constructor
    · intro e he hd hb
      have : e ∈ rangeKeys nd.store prev j := (mem_rangeKeys _ _ _ _).mpr ⟨he, hb, hd⟩
      rw [hem] at this; simp at this
    · intro e he _; exact ⟨nd, hg, he⟩
  · cases hi : importAt net j (rangeKeys nd.store prev j) with
    | none => simp [hi] at h
    | some n2 =>
      simp only [hi] at h; simp at h; subst h
      obtain ⟨ndj0, hgj0, hn2⟩ := importAt_get net n2 j _ hi
      rw [hgj] at hgj0; injection hgj0 with hgj0; subst hgj0
      have hg2 : n2.get s = some nd := by rw [hn2, get_upd_other _ _ _ _ hsj]; exact hg
      constructor
      · intro e he hd hb
        refine ⟨{ ndj with store := importEntries ndj.store (rangeKeys nd.store prev j) }, ?_, ?_⟩
        · rw [get_upd_other _ _ _ _ (Ne.symm hsj), hn2, get_upd_same, hgj]; rfl
        · rw [hempty]
          exact import_delivers _ [] hmovednd (by simp) e ((mem_rangeKeys _ _ _ _).mpr ⟨he, hb, hd⟩)
      · intro e he hcase
        refine ⟨{ nd with store := removeKeys nd.store (rangeKeys nd.store prev j) }, by rw [get_upd_same, hg2]; rfl, ?_⟩
        rw [mem_removeKeys]
        refine ⟨he, ?_⟩
        intro m hm hk
        -- m is a moved entry with the same key as e: keys are distinct, so m = e, contradiction with e not moved
        obtain ⟨hm1, hm2, hm3⟩ := (mem_rangeKeys _ _ _ _).mp hm
        have : m = e := eq_of_key_eq nd.store hnd m e hm1 he hk
        subst this
        rcases hcase with hc | hc
        · rw [hc] at hm3; simp at hm3
        · rw [hc] at hm2; simp at hm2

end Specter.C05
