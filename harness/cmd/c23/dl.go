// Deadline / cancellation cases: the calls of a history are issued with a context that ends while the call
// runs (every RPC handler of the node passes the request's context down to the store).  A call that returned
// nil is acknowledged and must be in the store (now, after re-opening, after a kill); a call that returned
// the context's error must have left nothing.  The reference is a second real store in another directory that
// executes, without any deadline, exactly the acknowledged calls.
//
// Where the context ends is steered towards the point where a call stops being cancellable (the hand-over
// from the last statement to COMMIT): per class of call a threshold is adapted after every call (ended too
// early: the call failed -> later next time; acknowledged -> earlier next time), deadlines are drawn around it.
package main

import (
	"context"
	"fmt"
	"os"
	"path/filepath"
	"sort"
	"strconv"
	"strings"
	"sync"
	"time"

	"go.miragespace.co/specter/spec/protocol"
	"verif/harness/hlib"
)

type tuner struct {
	mu   sync.Mutex
	base float64            // ns: measured duration of a small uncancelled call
	thr  map[string]float64 // ns per class of call; for the sized classes (importN, removeN): ns per key
}

var tun = &tuner{base: 300_000, thr: map[string]float64{}}

func opSize(o op) int {
	switch o.kind {
	case "import":
		return len(o.items)
	case "remove":
		return len(o.keys)
	}
	return 1
}

func opClass(o op) string {
	if n := opSize(o); o.kind == "import" || o.kind == "remove" {
		if n > 4 {
			return o.kind + "N"
		}
		return o.kind + strconv.Itoa(n)
	}
	return o.kind
}

// threshold: the current estimate (ns after the start of the call) of the moment the call stops being cancellable
func (t *tuner) threshold(o op) float64 {
	t.mu.Lock()
	defer t.mu.Unlock()
	class := opClass(o)
	v, ok := t.thr[class]
	if !ok {
		v = t.base * 0.6
		if strings.HasSuffix(class, "N") {
			v = t.base / 20 // per key; replaced by the calibration of the big calls
		}
		t.thr[class] = v
	}
	if strings.HasSuffix(class, "N") {
		return t.base*0.6 + v*float64(opSize(o))
	}
	return v
}

// feedback: the call returned in time (threshold was too late: earlier next time) or was cut short (later)
func (t *tuner) feedback(o op, inTime bool) {
	t.mu.Lock()
	defer t.mu.Unlock()
	class := opClass(o)
	v, step := t.thr[class], 0.03
	if strings.HasSuffix(class, "N") {
		step = 0.08 // few calls per run
	}
	if inTime {
		v *= 1 - step
	} else {
		v *= 1 + step
	}
	if v < 1_000 {
		v = 1_000
	}
	if v > 50_000_000 {
		v = 50_000_000
	}
	t.thr[class] = v
}

func (t *tuner) export() string {
	t.mu.Lock()
	defer t.mu.Unlock()
	xs := []string{"base=" + strconv.FormatInt(int64(t.base), 10)}
	for k, v := range t.thr {
		xs = append(xs, k+"="+strconv.FormatInt(int64(v), 10))
	}
	sort.Strings(xs)
	return strings.Join(xs, ";")
}

func (t *tuner) load(s string) {
	t.mu.Lock()
	defer t.mu.Unlock()
	for _, kv := range strings.Split(s, ";") {
		p := strings.SplitN(kv, "=", 2)
		if len(p) != 2 {
			continue
		}
		v, err := strconv.ParseFloat(p[1], 64)
		if err != nil || v <= 0 {
			continue
		}
		if p[0] == "base" {
			t.base = v
		} else {
			t.thr[p[0]] = v
		}
	}
}

// ctxFor chooses how the context of one call ends. mode: none (never), pre (before the call), wide (uniform
// over 0..2.5 thresholds), edge (around the threshold); -t = deadline, -c = explicit cancel from a timer.
func ctxFor(rng *hlib.Rng, o op) (mode string, ctx context.Context, cancel context.CancelFunc, tune bool) {
	thr := tun.threshold(o)
	var d time.Duration
	switch x := rng.Intn(100); {
	case x < 8:
		return "none", context.Background(), func() {}, false
	case x < 13:
		ctx, cancel = context.WithCancel(context.Background())
		cancel()
		return "pre", ctx, cancel, false
	case x < 25:
		mode = "wide"
		d = time.Duration(thr * 2.5 * float64(rng.Intn(10000)) / 10000)
	default:
		mode = "edge"
		d = time.Duration(thr * (0.75 + 0.5*float64(rng.Intn(10000))/10000))
	}
	if rng.Bool() {
		ctx, cancel = context.WithTimeout(context.Background(), d)
		return mode + "-t", ctx, cancel, true
	}
	cctx, ccancel := context.WithCancel(context.Background())
	tm := time.AfterFunc(d, ccancel)
	return mode + "-c", cctx, func() { tm.Stop(); ccancel() }, true
}

func listing(kv interface {
	ListKeys(context.Context, []byte) ([]*protocol.KeyComposite, error)
}) string {
	ks, err := kv.ListKeys(context.Background(), nil)
	if err != nil {
		return "error"
	}
	if len(ks) == 0 {
		return "."
	}
	var xs []string
	for _, kc := range ks {
		xs = append(xs, hlib.Hex(kc.Key)+":"+map[protocol.KeyComposite_Type]string{
			protocol.KeyComposite_SIMPLE: "S", protocol.KeyComposite_PREFIX: "P", protocol.KeyComposite_LEASE: "L"}[kc.Type])
	}
	sort.Strings(xs)
	return strings.Join(xs, ",")
}

func dlCase(root string, id int, seed uint64, nops int, handoff bool) (out caseOut) {
	rng := hlib.NewRng(seed ^ 0xd1d1)
	dirA := filepath.Join(root, fmt.Sprintf("dl%d", id))
	dirB := filepath.Join(root, fmt.Sprintf("dl%dref", id))
	os.MkdirAll(dirA, 0o755)
	os.MkdirAll(dirB, 0o755)
	defer os.RemoveAll(dirA)
	defer os.RemoveAll(dirB)
	out.lines = append(out.lines, line{raw: true, lhs: fmt.Sprintf("# case deadline %d seed %d handoff %v", id, seed, handoff)}, line{raw: true, lhs: "reset"})
	plan := genPlan(seed, nops, false)
	if handoff {
		plan = genHandoffPlan(seed, nops)
	}
	var ks [][]byte
	for _, o := range plan {
		ks = append(ks, o.allKeys()...)
	}
	keyLines(&out, append(seqKeys(), ks...))
	kvA, err := openStore(dirA, hash1)
	if err != nil {
		panic(err)
	}
	defer func() { kvA.Close() }()
	kvB, err := openStore(dirB, hash1)
	if err != nil {
		panic(err)
	}
	defer kvB.Close()
	rawA, rawB := rawOpen(dirA), rawOpen(dirB)
	defer rawA.Close()
	defer rawB.Close()
	last := dump(rawA)
	nAck, nFail := 0, 0
	reopen := func() bool {
		kvA.Close()
		kvA, err = openStore(dirA, hash1)
		if err != nil {
			kvA = nil
			out.emit("dlreopen", "openfail")
			return false
		}
		d := dump(rawA)
		out.emit("dlreopen", d)
		out.count("dl:reopen")
		return d == last
	}
	for i, o := range plan {
		mode, ctx, cancel, tune := ctxFor(rng, o)
		res, _ := o.applyCtx(ctx, kvA)
		cancel()
		after := dump(rawA)
		if tune && res != "panic" {
			tun.feedback(o, res != "error") // returned in time (whatever the result) / cut short
		}
		out.emit("dl "+mode+" "+o.tokens(0), res)
		out.count("dl-mode:" + strings.SplitN(mode, "-", 2)[0])
		out.count("dl-call:" + opClass(o))
		out.count("dl-result:" + res)
		ref := ""
		if res != "error" || after != last {
			// acknowledged (or visibly effective): the reference store executes it without a deadline
			resB, _ := o.apply(kvB)
			ref = dump(rawB)
			out.emit("dlref", resB+" "+ref)
		}
		out.emit("dlstate after "+res+" "+o.tokens(0), after)
		if res == "error" {
			nFail++
			if after == last {
				out.count("dl:unacknowledged-call-left-nothing")
			} else {
				out.count("dl:unacknowledged-call-changed-the-store")
			}
		} else {
			nAck++
		}
		diverged := ref != "" && ref != after
		last = after
		if diverged {
			break // the driver has judged the line; the two stores no longer run in lockstep
		}
		if rng.Chance(6) {
			out.emit("listkeys", listing(kvA)+" "+after)
		}
		if rng.Chance(3) || i == len(plan)-1 {
			if !reopen() {
				break
			}
		}
	}
	out.key = fmt.Sprintf("dl/%d/%d/%d", seed, nAck, nFail)
	return
}

// genHandoffPlan: what key transfer does to a store, round after round: one Import of a range of m keys
// (20..300), a few small calls on them, one RemoveKeys of the whole range.
func genHandoffPlan(seed uint64, nops int) []op {
	rng := hlib.NewRng(seed ^ 0x4a4d)
	var plan []op
	for len(plan) < nops {
		m := 20 + rng.Intn(281)
		imp := op{kind: "import"}
		rm := op{kind: "remove"}
		for _, j := range rngPerm(rng, 400)[:m] {
			kk := []byte(fmt.Sprintf("b%03d", j))
			it := genItem(rng, kk, false)
			if it.lease > 1000 { // independent of the wall clock
				it.lease = 4_000_000_000_000_000_000 + uint64(rng.Intn(1000))
			}
			imp.items = append(imp.items, it)
			rm.keys = append(rm.keys, kk)
		}
		plan = append(plan, imp)
		for n := rng.Intn(3); n > 0; n-- {
			k := hlib.Pick(rng, rm.keys)
			switch rng.Intn(3) {
			case 0:
				plan = append(plan, op{kind: "put", k: k, v: rng.Bytes(1 + rng.Intn(3))})
			case 1:
				plan = append(plan, op{kind: "pappend", k: k, v: hlib.Pick(rng, children)})
			default:
				plan = append(plan, op{kind: "del", k: k})
			}
		}
		plan = append(plan, rm)
	}
	return plan
}
