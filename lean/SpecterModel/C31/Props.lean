import SpecterModel.C31.Model
namespace Specter.C31

def lz8 (b : Nat) : Nat := ((byteBits b).takeWhile (· == false)).length

set_option maxRecDepth 100000 in
theorem lz8_shift : ∀ b, b < 256 → ∀ k, k < 9 → 1 ≤ k → (b >>> (8 - k) = 0 ↔ k ≤ lz8 b) := by decide

set_option maxRecDepth 100000 in
theorem lz8_full : ∀ b, b < 256 → (lz8 b = 8 ↔ b = 0) := by decide

theorem byteBits_length (b : Nat) : (byteBits b).length = 8 := rfl

theorem lz8_le (b : Nat) : lz8 b ≤ 8 := by
  unfold lz8
  exact Nat.le_trans (List.takeWhile_prefix _).length_le (by simp [byteBits_length])

theorem lzb_nil : leadingZeroBits [] = 0 := rfl

theorem lzb_cons (b : Nat) (rest : Bytes) :
    leadingZeroBits (b :: rest) = if lz8 b = 8 then 8 + leadingZeroBits rest else lz8 b := by
  unfold leadingZeroBits bitsOf lz8
  rw [List.flatMap_cons, List.takeWhile_append, byteBits_length]
  split <;> simp [byteBits_length]

/-- the leading-zero count never exceeds the number of bits present -/
theorem lzb_le (h : Bytes) : leadingZeroBits h ≤ 8 * h.length := by
  induction h with
  | nil => simp [lzb_nil]
  | cons b rest ih =>
    rw [lzb_cons]; have := lz8_le b
    split <;> simp only [List.length_cons] <;> omega

theorem loop_cons (b : Nat) (hash : Bytes) (fuel i bits : Nat) :
    verifyBitsLoop (b :: hash) fuel (i + 1) bits = verifyBitsLoop hash fuel i bits := by
  induction fuel generalizing i bits with
  | zero => simp [verifyBitsLoop]
  | succ f ih => simp only [verifyBitsLoop, List.getElem?_cons_succ, ih]

theorem nBytes_pos {bits : Nat} (h : 1 ≤ bits) : 1 ≤ nBytes bits := by unfold nBytes; split <;> omega
theorem nBytes_sub {bits : Nat} (h : 8 < bits) : nBytes (bits - 8) + 1 = nBytes bits := by
  unfold nBytes; have : (bits - 8) % 8 = bits % 8 := by omega
  rw [this]; split <;> omega
theorem nBytes_small {bits : Nat} (h1 : 1 ≤ bits) (h : bits ≤ 8) : nBytes bits = 1 := by
  unfold nBytes; split <;> omega

theorem loop_iff (hash : Bytes) (hb : ∀ b ∈ hash, b < 256) :
    ∀ bits, 1 ≤ bits → nBytes bits ≤ hash.length →
      verifyBitsLoop (hash.take (nBytes bits)) (nBytes bits) 0 bits = some (decide (bits ≤ leadingZeroBits hash)) := by
  induction hash with
  | nil => intro bits h1 hn; have := nBytes_pos h1; simp at hn; omega
  | cons b rest ih =>
    intro bits h1 hn
    have hb0 : b < 256 := hb b (by simp)
    have hrest : ∀ x ∈ rest, x < 256 := fun x hx => hb x (by simp [hx])
    have hle := lz8_le b
    rw [lzb_cons]
    by_cases hbig : 8 < bits
    · rw [← nBytes_sub hbig, List.take_succ_cons]
      simp only [verifyBitsLoop, List.getElem?_cons_zero, hbig, if_true, Nat.zero_add]
      by_cases hz : b = 0
      · subst hz
        have hn' : nBytes (bits - 8) ≤ rest.length := by
          have := nBytes_sub hbig; simp at hn; omega
        rw [if_neg (by simp), loop_cons, ih hrest (bits - 8) (by omega) hn']
        have : lz8 0 = 8 := (lz8_full 0 (by omega)).mpr rfl
        simp only [this, if_true]
        congr 1; apply decide_eq_decide.mpr; omega
      · rw [if_pos hz]
        have : lz8 b ≠ 8 := fun h => hz ((lz8_full b hb0).mp h)
        simp only [this, if_false]
        simp; omega
    · have hs : bits ≤ 8 := by omega
      rw [nBytes_small h1 hs]
      simp only [List.take_succ_cons, List.take_zero, verifyBitsLoop, List.getElem?_cons_zero,
        gt_iff_lt, hbig, if_false]
      have key := lz8_shift b hb0 bits (by omega) h1
      by_cases hsh : b >>> (8 - bits) = 0
      · rw [if_pos hsh]; have := key.mp hsh
        split <;> simp <;> omega
      · rw [if_neg hsh]; have : ¬ bits ≤ lz8 b := fun h => hsh (key.mpr h)
        split <;> simp <;> omega

/-- **C31 bit test.**  For ALL bit counts and ALL byte strings long enough to hold them, `verifyBits` as called by
`Verify`/`Solve` (`hash[:n]`, `n = ⌈bits/8⌉`) is exactly "the hash starts with at least `bits` zero bits". -/
theorem verifyBits_iff (hash : Bytes) (bits : Nat) (hb : ∀ b ∈ hash, b < 256) (hn : nBytes bits ≤ hash.length) :
    verifyBits (hash.take (nBytes bits)) bits (nBytes bits) = some (decide (bits ≤ leadingZeroBits hash)) := by
  unfold verifyBits
  by_cases h0 : bits = 0
  · simp [h0]
  · rw [if_neg h0]; exact loop_iff hash hb bits (by omega) hn

/-! decimal round trip -/
theorem parseDigits_append (acc : Nat) (l : Bytes) (d : Nat) (hd : isDigit d = true) :
    parseDigits acc (l ++ [d]) = (parseDigits acc l).map (fun a => a * 10 + (d - 48)) := by
  induction l generalizing acc with
  | nil => simp [parseDigits, hd]
  | cons c cs ih => simp only [List.cons_append, parseDigits]; split <;> simp [ih]

theorem dec_step (n : Nat) (h : ¬ n < 10) : dec n = dec (n / 10) ++ [48 + n % 10] := by
  unfold dec; rw [decRev, if_neg h]; simp

theorem dec_small (n : Nat) (h : n < 10) : dec n = [48 + n] := by
  unfold dec; rw [decRev, if_pos h]; rfl

theorem parseDigits_dec (n : Nat) : parseDigits 0 (dec n) = some n := by
  induction n using Nat.strongRecOn with
  | ind n ih =>
    by_cases h : n < 10
    · rw [dec_small n h]; simp [parseDigits, isDigit]; omega
    · rw [dec_step n h, parseDigits_append _ _ _ (by simp [isDigit]; omega), ih (n / 10) (by omega)]
      simp; omega

theorem dec_ne_nil (n : Nat) : dec n ≠ [] := by
  by_cases h : n < 10
  · rw [dec_small n h]; simp
  · rw [dec_step n h]; simp

theorem dec_digits (n : Nat) : ∀ c ∈ dec n, isDigit c = true := by
  induction n using Nat.strongRecOn with
  | ind n ih =>
    by_cases h : n < 10
    · rw [dec_small n h]; simp [isDigit]; omega
    · rw [dec_step n h]; intro c hc
      rcases List.mem_append.mp hc with hc | hc
      · exact ih (n / 10) (by omega) c hc
      · simp at hc; subst hc; simp [isDigit]; omega

theorem parseNat_dec (n : Nat) : parseNat (dec n) = some n := by
  unfold parseNat; rw [if_neg (dec_ne_nil n)]; exact parseDigits_dec n

/-- `ParseInt(FormatInt(n)) = n` for every non-negative int64 -/
theorem parseGoInt_dec (n : Nat) (h : n < 2^63) : parseGoInt (dec n) = some (n : Int) := by
  have hne := dec_ne_nil n
  have hd := dec_digits n
  unfold parseGoInt
  split
  · rename_i r heq; have := hd 43 (by rw [heq]; simp); simp [isDigit] at this
  · rename_i r heq; have := hd 45 (by rw [heq]; simp); simp [isDigit] at this
  · rw [parseNat_dec]; simp [h]

theorem split1_nosep (sep : Nat) (p : Bytes) (h : sep ∉ p) : split1 sep p = (p, []) := by
  induction p with
  | nil => rfl
  | cons c cs ih =>
    have hc : c ≠ sep := fun e => h (by simp [e])
    have hcs : sep ∉ cs := fun m => h (by simp [m])
    simp [split1, hc, ih hcs]

theorem split1_append (sep : Nat) (p rest : Bytes) (h : sep ∉ p) :
    split1 sep (p ++ sep :: rest) = (p, splitOn sep rest) := by
  induction p with
  | nil => simp [split1, splitOn]
  | cons c cs ih =>
    have hc : c ≠ sep := fun e => h (by simp [e])
    have hcs : sep ∉ cs := fun m => h (by simp [m])
    simp [split1, hc, ih hcs]

/-- `strings.Split(strings.Join(parts, sep), sep) = parts` when no part contains the separator -/
theorem splitOn_join (sep : Nat) (p : Bytes) (ps : List Bytes) (h : ∀ q ∈ p :: ps, sep ∉ q) :
    splitOn sep (join sep (p :: ps)) = p :: ps := by
  induction ps generalizing p with
  | nil => simp [join, splitOn, split1_nosep sep p (h p (by simp))]
  | cons q qs ih =>
    have hp : sep ∉ p := h p (by simp)
    have := ih q (fun x hx => h x (by simp [hx]))
    have e : splitOn sep (join sep (p :: q :: qs)) = p :: splitOn sep (join sep (q :: qs)) := by
      simp only [join]; unfold splitOn; rw [split1_append sep p _ hp]; rfl
    rw [e, this]

/-! ## Verify / VerifySolution -/

theorem satDur_neg_iff (d : Int) : satDur d < 0 ↔ d < 0 := by
  unfold satDur maxDur minDur; split
  · omega
  · split <;> omega

theorem window_iff (d : Int) (E : Nat) (hE : 2 * (E : Int) < 2^63 - 1) :
    absDur (satDur d) > 2 * (E : Int) ↔ (d < -(2 * (E : Int)) ∨ d > 2 * (E : Int)) := by
  unfold absDur satDur maxDur minDur
  split <;> split <;> (try split) <;> (try split) <;> omega

theorem expired_iff (x : Option Nat) (now : Int) : expired x now = true ↔ ∃ e, x = some e ∧ expNs e < now := by
  cases x with
  | none => simp [expired]
  | some e => simp [expired, satDur_neg_iff]; omega

theorem hcVerify_ok_iff (sha : Bytes → Bytes) (hsha : ∀ s, ∀ b ∈ sha s, b < 256) (h : Hashcash) (subject : Bytes) (now : Int) :
    hcVerify sha h subject now = .ok () ↔
      h.alg = algSHA256 ∧ expired h.expiresAt now = false ∧ h.subject = subject ∧
      h.difficulty ≤ leadingZeroBits (sha (toStr h)) := by
  unfold hcVerify
  by_cases ha : h.alg = algSHA256
  case neg => simp [ha]
  by_cases hx : expired h.expiresAt now = true
  · simp [ha, hx]
  by_cases hs : subject = h.subject
  case neg => simp [ha, hx, hs]; intro h2; exact absurd h2.symm hs
  simp only [ha, hx, hs, ne_eq, not_true_eq_false, if_false, true_and]
  by_cases hn : nBytes h.difficulty > (sha (toStr h)).length
  · have := lzb_le (sha (toStr h))
    have : ¬ h.difficulty ≤ leadingZeroBits (sha (toStr h)) := by
      unfold nBytes at hn; split at hn <;> omega
    simp [hn, this]
  · rw [if_neg hn, verifyBits_iff _ _ (hsha _) (by omega)]
    by_cases hd : h.difficulty ≤ leadingZeroBits (sha (toStr h)) <;> simp [hd]
end Specter.C31
