// C41 correspondence.
//  1. table: the decision table of the CURRENT overlay/reuse.go (printed by `extract c41-lines`, honouring
//     VERIF_MUTANT_DIR) row by row — compared by the driver with the generated Lean definitions.
//     leaf rows: <peer state> <peer dir> <snapshot cached> <snapshot dir> <dir of this connection>
//     <rc: the re-load finds an entry> <rcdir: direction of that entry>.
//  2. sched: every maximal interleaving of one dial / two simultaneous dials (snapshot, decide, reap steps) from every
//     consistent pre-existing cache state, executed by a simulator over the CURRENT rows; the driver compares the
//     final state with the Lean model and judges it against the property.
//  3. live (see live.go): two real overlay.QUIC transports on loopback dialing each other simultaneously.
package main

import (
	"fmt"
	"os"
	"os/exec"
	"path/filepath"
	"strings"

	"verif/harness/hlib"
)

type act struct {
	reload, closeFresh, closeCache, del, reused bool
	store, ret, err                             string
}

var snapRows = map[string][2]string{}
var leafRows = map[string]act{}
var tableLines []string

func loadTable() error {
	exe := os.Getenv("VERIF_EXTRACT")
	if exe == "" {
		exe = "/verif/build/extract"
	}
	repo := os.Getenv("VERIF_REPO")
	if repo == "" {
		repo = "/repo"
	}
	src := filepath.Join(repo, "overlay/reuse.go")
	if m := os.Getenv("VERIF_MUTANT_DIR"); m != "" {
		if _, err := os.Stat(filepath.Join(m, "overlay/reuse.go")); err == nil {
			src = filepath.Join(m, "overlay/reuse.go")
		}
	}
	out, err := exec.Command(exe, "c41-lines", src).CombinedOutput()
	if err != nil {
		return fmt.Errorf("extract c41-lines: %v: %s", err, out)
	}
	for _, l := range strings.Split(strings.TrimSpace(string(out)), "\n") {
		parts := strings.SplitN(l, " => ", 2)
		if len(parts) != 2 {
			return fmt.Errorf("bad row %q", l)
		}
		t := strings.Fields(parts[0])
		tableLines = append(tableLines, l)
		switch t[0] {
		case "snap":
			r := strings.Split(parts[1], ",")
			snapRows[strings.Join(t[1:], " ")] = [2]string{r[0], r[1]}
		case "leaf":
			a := act{}
			for _, kv := range strings.Split(parts[1], ",") {
				p := strings.SplitN(kv, "=", 2)
				switch p[0] {
				case "reload":
					a.reload = p[1] == "true"
				case "closeFresh":
					a.closeFresh = p[1] == "true"
				case "closeCache":
					a.closeCache = p[1] == "true"
				case "del":
					a.del = p[1] == "true"
				case "reused":
					a.reused = p[1] == "true"
				case "store":
					a.store = p[1]
				case "ret":
					a.ret = p[1]
				case "err":
					a.err = p[1]
				}
			}
			leafRows[strings.Join(t[1:], " ")] = a
		}
	}
	return nil
}

// ---------- simulator (mirror of Model.lean `step`) ----------

type entry struct {
	conn string // "" = none
	dir  string // incoming|outgoing
}

type proc struct {
	pc     int // 0 idle, 1 snapped, 2 done
	snap   entry
	status [2]string
	res    string
	reaped bool
}

type state struct {
	dual   bool
	cache  [2]entry // P, Q
	closed map[string]bool
	p      [4]proc // Pc Qc Qd Pd
}

var procName = []string{"Pc", "Qc", "Qd", "Pd"}
var procSide = []int{0, 1, 1, 0}
var procConn = []string{"c", "c", "d", "d"}
var procDir = []string{"outgoing", "incoming", "outgoing", "incoming"}
var procPeer = []int{1, 0, 3, 2}

func (s *state) clone() *state {
	n := *s
	n.closed = map[string]bool{}
	for k, v := range s.closed {
		n.closed[k] = v
	}
	return &n
}

func b(x bool) string {
	if x {
		return "true"
	}
	return "false"
}

func dirOr(e entry) string {
	if e.conn == "" {
		return "incoming"
	}
	return e.dir
}

func (s *state) enabled(kind byte, i int) bool {
	switch kind {
	case 's':
		return (i < 2 || s.dual) && s.p[i].pc == 0
	case 'd':
		return s.p[i].pc == 1 && s.p[procPeer[i]].pc != 0
	case 'r':
		return s.p[i].pc == 2 && s.p[i].res == "fresh" && !s.p[i].reaped && s.closed[procConn[i]]
	}
	return false
}

func (s *state) step(kind byte, i int) {
	side := procSide[i]
	switch kind {
	case 's':
		snap := s.cache[side]
		st := snapRows[b(snap.conn != "")+" "+dirOr(snap)+" "+procDir[i]]
		s.p[i] = proc{pc: 1, snap: snap, status: st}
	case 'd':
		me := s.p[i]
		peer := s.p[procPeer[i]].status
		cur := s.cache[side]
		// the re-load leaves see the entry that is in the cache now: is there one (rc), and its direction (rcdir)
		key := peer[0] + " " + peer[1] + " " + b(me.snap.conn != "") + " " + dirOr(me.snap) + " " + procDir[i] + " " + b(cur.conn != "") + " " + dirOr(cur)
		a, ok := leafRows[key]
		if !ok { // extractor and harness disagree about the row format: never continue with a zero action
			fmt.Fprintf(os.Stderr, "c41: no table row for %q\n", key)
			os.Exit(2)
		}
		cv := me.snap
		if a.reload {
			cv = cur
		}
		if a.closeFresh {
			s.closed[procConn[i]] = true
		}
		if a.closeCache && cv.conn != "" {
			s.closed[cv.conn] = true
		}
		if a.del {
			s.cache[side] = entry{}
		}
		switch a.store {
		case "fresh":
			s.cache[side] = entry{procConn[i], procDir[i]}
		case "cache":
			s.cache[side] = cv
		}
		res := "err"
		if a.err == "nil" && a.ret == "cache" {
			res = "reused:-"
			if cv.conn != "" {
				res = "reused:" + cv.conn
			}
		} else if a.err == "nil" && a.ret == "fresh" {
			res = "fresh"
		}
		if res == "err" && procDir[i] == "incoming" {
			s.closed[procConn[i]] = true
		}
		s.p[i] = proc{pc: 2, status: me.status, res: res}
	case 'r':
		if c := s.cache[side]; c.conn != "" {
			s.closed[c.conn] = true
		}
		s.cache[side] = entry{}
		s.p[i].reaped = true
	}
}

func entryTok(e entry) string {
	if e.conn == "" {
		return "-"
	}
	if e.dir == "incoming" {
		return e.conn + ":in"
	}
	return e.conn + ":out"
}

func (s *state) String() string {
	cl := ""
	for _, c := range []string{"e", "c", "d"} {
		if s.closed[c] {
			cl += c
		}
	}
	if cl == "" {
		cl = "-"
	}
	out := "P=" + entryTok(s.cache[0]) + ";Q=" + entryTok(s.cache[1]) + ";closed=" + cl
	for i := 0; i < 4; i++ {
		r := "idle"
		switch s.p[i].pc {
		case 1:
			r = "snapped"
		case 2:
			r = s.p[i].res
			if s.p[i].reaped {
				r += "+reaped"
			}
		}
		out += ";" + procName[i] + "=" + r
	}
	return out
}

var kinds = []byte{'s', 'd', 'r'}

type pre struct{ p, q entry }

var preStates = []pre{
	{},
	{p: entry{"e", "outgoing"}}, {p: entry{"e", "incoming"}},
	{q: entry{"e", "incoming"}}, {q: entry{"e", "outgoing"}},
	{entry{"e", "outgoing"}, entry{"e", "incoming"}}, {entry{"e", "incoming"}, entry{"e", "outgoing"}},
}

func initState(dual bool, pr pre) *state {
	return &state{dual: dual, cache: [2]entry{pr.p, pr.q}, closed: map[string]bool{}}
}

func emitSched(r *hlib.Run, dual bool, pr pre, steps []string, s *state) {
	d := "0"
	if dual {
		d = "1"
	}
	lhs := "sched " + d + " " + entryTok(pr.p) + " " + entryTok(pr.q) + " " + strings.Join(steps, ",")
	r.Emit(lhs, s.String())
	r.Case(lhs)
	if strings.Contains(s.String(), "reused:") {
		r.Count("sched:some-reuse")
	}
	if strings.Contains(s.String(), "=fresh") {
		r.Count("sched:some-store")
	}
	if strings.Contains(s.String(), "+reaped") {
		r.Count("sched:reaped")
	}
	r.Count("sched:dual=" + d)
}

func dfs(r *hlib.Run, dual bool, pr pre, s *state, steps []string) {
	any := false
	for _, k := range kinds {
		for i := 0; i < 4; i++ {
			if s.enabled(k, i) {
				any = true
				n := s.clone()
				n.step(k, i)
				dfs(r, dual, pr, n, append(append([]string{}, steps...), string(k)+procName[i]))
			}
		}
	}
	if !any {
		emitSched(r, dual, pr, steps, s)
	}
}

func parseEntryTok(t string) entry {
	if t == "-" {
		return entry{}
	}
	p := strings.Split(t, ":")
	d := "outgoing"
	if p[1] == "in" {
		d = "incoming"
	}
	return entry{p[0], d}
}

func runSteps(dual bool, pr pre, steps []string) *state {
	s := initState(dual, pr)
	for _, st := range steps {
		k := st[0]
		i := 0
		for j, n := range procName {
			if n == st[1:] {
				i = j
			}
		}
		if s.enabled(k, i) {
			s.step(k, i)
		}
	}
	return s
}

func main() {
	r := hlib.Start()
	r.Rule = "table rows of the current reuse.go; sched = every maximal interleaving of snapshot/decide/reap steps of one dial or two simultaneous dials from each of the 7 consistent pre-existing cache states (exhaustive), plus random step sequences with repeated / disabled labels; non-trivial = distinct schedule"
	if err := loadTable(); err != nil {
		// the decision code is no longer in the shape the extractor understands
		r.Emit("table", "unreadable:"+strings.ReplaceAll(err.Error(), " ", "_"))
		r.Finish()
		return
	}
	if r.Replay != "" {
		for _, t := range r.ReplayLines() {
			switch t[0] {
			case "sched":
				pr := pre{parseEntryTok(t[2]), parseEntryTok(t[3])}
				steps := strings.Split(t[4], ",")
				emitSched(r, t[1] == "1", pr, steps, runSteps(t[1] == "1", pr, steps))
			case "snap", "leaf":
				for _, l := range tableLines {
					if strings.HasPrefix(l, strings.Join(t, " ")+" => ") {
						p := strings.SplitN(l, " => ", 2)
						r.Emit(p[0], p[1])
					}
				}
			case "live":
				live(r, 1)
			}
		}
		r.Finish()
		return
	}
	r.Raw("# case table")
	for _, l := range tableLines {
		p := strings.SplitN(l, " => ", 2)
		r.Emit(p[0], p[1])
		r.Case(p[0])
		r.Count("table-row")
	}
	for _, dual := range []bool{false, true} {
		for _, pr := range preStates {
			r.Raw("# case sched")
			dfs(r, dual, pr, initState(dual, pr), nil)
		}
	}
	// random label sequences, with repetitions and labels that are not enabled (the model skips them)
	rng := hlib.NewRng(r.Seed)
	n := 3000
	if r.Thorough() {
		n = 60000
	}
	for t := 0; t < n; t++ {
		dual := rng.Chance(80)
		pr := hlib.Pick(rng, preStates)
		var steps []string
		for j := 0; j < 6+rng.Intn(24); j++ {
			steps = append(steps, string(hlib.Pick(rng, kinds))+hlib.Pick(rng, procName))
		}
		// complete the run deterministically so that the reported state is final
		st := runSteps(dual, pr, steps)
		for again := true; again; {
			again = false
			for _, k := range kinds {
				for i := 0; i < 4; i++ {
					if st.enabled(k, i) {
						st.step(k, i)
						steps = append(steps, string(k)+procName[i])
						again = true
					}
				}
			}
		}
		r.Raw("# case sched")
		emitSched(r, dual, pr, steps, st)
	}
	nlive := 6
	if r.Thorough() {
		nlive = 40
	}
	live(r, nlive)
	r.Finish()
}
