/-! C35: vocabulary of the header operations that the fact extractor recognises in `proxyRewrite`. -/
namespace Specter.C35

/-- One header-affecting statement of `(*Gateway).proxyRewrite`. -/
inductive HOp where
  | delList (ks : List String)            -- for _, h := range ks { out.Header.Del(h) }
  | del (k : String)                      -- out.Header.Del(k)
  | setXForwarded                         -- preq.SetXForwarded()   (net/http/httputil)
  | setHostPort (k : String) (std : Nat)  -- if g.GatewayPort == std { Set(k, out.URL.Host) } else { Set(k, "%s:%d" out.URL.Host g.GatewayPort) }
  | setConst (k v : String)               -- out.Header.Set(k, v)
  deriving Repr

end Specter.C35
