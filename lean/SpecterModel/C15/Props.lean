import SpecterModel.C15.Model
/-!
# C15 — The retrying KV client retries only retryable failures, boundedly

Theorems over the model of retry-go's `DoWithData` under the wrapper's option list, for EVERY
result stream, every `retryIf`, every `attempts ≥ 1` (and the documented `attempts = 0` semantics).
-/
namespace Specter.C15

variable {ε : Type}

def noCancel : Nat → Bool := fun _ => false

def isRetryErr (retryIf : ε → Bool) : Res ε → Bool
  | .err e => retryIf e
  | .ok _ => false

def toOut : Res ε → Out ε
  | .ok v => .ok v
  | .err e => .err e

theorem specOut_eq (retryIf : ε → Bool) (attempts : Nat) (rs : Nat → Res ε) :
    specOut retryIf attempts rs = toOut (rs (specCalls retryIf attempts rs - 1)) := by
  unfold specOut toOut; split <;> simp_all

/-- core refinement: without cancellation the loop makes `min (leading retryable + 1) (remaining + 1)`
further calls and returns the result of the last one -/
theorem loopB_spec (retryIf : ε → Bool) (rs : Nat → Res ε) (r i : Nat) :
    loopB retryIf rs noCancel i r =
      (i + min (leadingRetryable retryIf rs (r + 1) i + 1) (r + 1),
       toOut (rs (i + min (leadingRetryable retryIf rs (r + 1) i + 1) (r + 1) - 1))) := by
  induction r generalizing i with
  | zero =>
    unfold loopB leadingRetryable
    cases h : rs i with
    | ok v => simp [toOut, h]
    | err e => by_cases hr : retryIf e <;> simp [hr, toOut, h, leadingRetryable]
  | succ r ih =>
    unfold loopB leadingRetryable
    cases h : rs i with
    | ok v => simp [toOut, h]
    | err e =>
      by_cases hr : retryIf e
      · simp only [hr, Bool.not_true, Bool.false_eq_true, if_false, if_true, noCancel]
        rw [ih (i + 1)]
        have e1 : i + 1 + min (leadingRetryable retryIf rs (r + 1) (i + 1) + 1) (r + 1)
            = i + min (1 + leadingRetryable retryIf rs (r + 1) (i + 1) + 1) (r + 1 + 1) := by omega
        rw [e1]
      · simp [hr, toOut, h]

/-- **C15 main theorem**: for `attempts ≥ 1` and no cancellation, the wrapper makes exactly
`min (1 + #leading retryable errors) attempts` calls and returns the result of the last call made
(the first success, or the last error seen). -/
theorem retryDo_spec (retryIf : ε → Bool) (attempts : Nat) (h : 1 ≤ attempts) (rs : Nat → Res ε) (fuel : Nat) :
    retryDo retryIf attempts rs noCancel fuel =
      some (specCalls retryIf attempts rs, specOut retryIf attempts rs) := by
  have ha : attempts - 1 + 1 = attempts := by omega
  have := loopB_spec retryIf rs (attempts - 1) 0
  rw [ha] at this
  simp only [retryDo, noCancel, Bool.false_eq_true, if_false, show attempts ≠ 0 by omega]
  rw [specOut_eq]; unfold specCalls
  simpa [noCancel] using this

theorem specCalls_le (retryIf : ε → Bool) (attempts : Nat) (rs : Nat → Res ε) :
    specCalls retryIf attempts rs ≤ attempts := by unfold specCalls; omega

theorem specCalls_pos (retryIf : ε → Bool) (attempts : Nat) (h : 1 ≤ attempts) (rs : Nat → Res ε) :
    1 ≤ specCalls retryIf attempts rs := by unfold specCalls; omega

/-- bounded even under arbitrary context cancellation: never more than `attempts` calls -/
theorem loopB_calls_le (retryIf : ε → Bool) (rs : Nat → Res ε) (done : Nat → Bool) (r i : Nat) :
    (loopB retryIf rs done i r).1 ≤ i + r + 1 := by
  induction r generalizing i with
  | zero => unfold loopB; split <;> (try split) <;> simp
  | succ r ih =>
    unfold loopB
    split
    · simp
    · split
      · simp
      · simp only; split
        · simp
        · have := ih (i + 1); omega

theorem calls_le_attempts (retryIf : ε → Bool) (attempts : Nat) (h : 1 ≤ attempts) (rs : Nat → Res ε)
    (done : Nat → Bool) (fuel : Nat) (c : Nat) (o : Out ε)
    (hr : retryDo retryIf attempts rs done fuel = some (c, o)) : c ≤ attempts := by
  unfold retryDo at hr
  split at hr
  · simp at hr; omega
  · rw [if_neg (by omega)] at hr
    have := loopB_calls_le retryIf rs done (attempts - 1) 0
    simp at hr; rw [hr] at this; simp at this; omega

/-- a call is re-issued only after a retryable error: every call before the last one made returned a
retryable error (any context behaviour) -/
theorem loopB_reissue (retryIf : ε → Bool) (rs : Nat → Res ε) (done : Nat → Bool) (r i : Nat) :
    ∀ j, i ≤ j → j + 1 < (loopB retryIf rs done i r).1 → isRetryErr retryIf (rs j) = true := by
  induction r generalizing i with
  | zero =>
    intro j hij hj
    unfold loopB at hj
    split at hj <;> (try split at hj) <;> simp at hj <;> omega
  | succ r ih =>
    intro j hij hj
    unfold loopB at hj
    split at hj
    · simp at hj; omega
    · rename_i e he
      split at hj
      · simp at hj; omega
      · rename_i hre
        simp only at hj
        by_cases hji : j = i
        · subst hji; simp [isRetryErr, he]; simpa using hre
        · split at hj
          · simp at hj; omega
          · exact ih (i + 1) j (by omega) hj

theorem reissued_only_after_retryable (retryIf : ε → Bool) (attempts : Nat) (h : 1 ≤ attempts)
    (rs : Nat → Res ε) (done : Nat → Bool) (fuel c : Nat) (o : Out ε)
    (hr : retryDo retryIf attempts rs done fuel = some (c, o)) :
    ∀ j, j + 1 < c → isRetryErr retryIf (rs j) = true := by
  unfold retryDo at hr
  split at hr
  · simp at hr; omega
  · rw [if_neg (by omega)] at hr
    simp at hr
    intro j hj
    exact loopB_reissue retryIf rs done (attempts - 1) 0 j (by omega) (by rw [hr]; exact hj)

/-! ### consequences in the statement's own words -/

theorem lead_stop (retryIf : ε → Bool) (rs : Nat → Res ε) (b i j : Nat) (hj : j < b)
    (hpre : ∀ k, k < j → isRetryErr retryIf (rs (i + k)) = true)
    (hstop : isRetryErr retryIf (rs (i + j)) = false) :
    leadingRetryable retryIf rs b i = j := by
  induction b generalizing i j with
  | zero => omega
  | succ b ih =>
    unfold leadingRetryable
    cases j with
    | zero =>
      simp at hstop
      cases h : rs i with
      | ok v => rfl
      | err e => simp [isRetryErr, h] at hstop; simp [hstop]
    | succ j =>
      have h0 := hpre 0 (by omega)
      simp at h0
      cases h : rs i with
      | ok v => simp [isRetryErr, h] at h0
      | err e =>
        simp [isRetryErr, h] at h0
        simp only [h0, if_true]
        have := ih (i + 1) j (by omega)
          (fun k hk => by have := hpre (k + 1) (by omega); rwa [show i + (k + 1) = i + 1 + k by omega] at this)
          (by rwa [show i + (j + 1) = i + 1 + j by omega] at hstop)
        omega

theorem lead_all (retryIf : ε → Bool) (rs : Nat → Res ε) (b i : Nat)
    (hpre : ∀ k, k < b → isRetryErr retryIf (rs (i + k)) = true) :
    leadingRetryable retryIf rs b i = b := by
  induction b generalizing i with
  | zero => rfl
  | succ b ih =>
    unfold leadingRetryable
    have h0 := hpre 0 (by omega)
    simp at h0
    cases h : rs i with
    | ok v => simp [isRetryErr, h] at h0
    | err e =>
      simp [isRetryErr, h] at h0
      simp only [h0, if_true]
      have := ih (i + 1) (fun k hk => by
        have := hpre (k + 1) (by omega); rwa [show i + (k + 1) = i + 1 + k by omega] at this)
      omega

/-- the first result that is not a retryable error (a success or a non-retryable error), if it comes
within `attempts` calls, ends the call sequence and is what the caller gets -/
theorem stops_at_first_terminal (retryIf : ε → Bool) (attempts : Nat) (rs : Nat → Res ε) (fuel j : Nat)
    (hj : j < attempts)
    (hpre : ∀ k, k < j → isRetryErr retryIf (rs k) = true)
    (hstop : isRetryErr retryIf (rs j) = false) :
    retryDo retryIf attempts rs noCancel fuel = some (j + 1, toOut (rs j)) := by
  rw [retryDo_spec retryIf attempts (by omega) rs fuel, specOut_eq]
  have : leadingRetryable retryIf rs attempts 0 = j :=
    lead_stop retryIf rs attempts 0 j hj (by simpa using hpre) (by simpa using hstop)
  simp [specCalls, this, show min (j + 1) attempts = j + 1 by omega]

/-- first success within `attempts` calls is returned -/
theorem first_success (retryIf : ε → Bool) (attempts : Nat) (rs : Nat → Res ε) (fuel j v : Nat)
    (hj : j < attempts) (hpre : ∀ k, k < j → isRetryErr retryIf (rs k) = true) (hok : rs j = .ok v) :
    retryDo retryIf attempts rs noCancel fuel = some (j + 1, .ok v) := by
  have := stops_at_first_terminal retryIf attempts rs fuel j hj hpre (by simp [hok, isRetryErr])
  simpa [hok, toOut] using this

/-- a non-retryable error on the first call is returned after that single attempt -/
theorem nonretryable_single_attempt (retryIf : ε → Bool) (attempts : Nat) (h : 1 ≤ attempts)
    (rs : Nat → Res ε) (fuel : Nat) (e : ε) (h0 : rs 0 = .err e) (hn : retryIf e = false) :
    retryDo retryIf attempts rs noCancel fuel = some (1, .err e) := by
  have := stops_at_first_terminal retryIf attempts rs fuel 0 (by omega) (by intro k hk; omega)
    (by simp [h0, isRetryErr, hn])
  simpa [h0, toOut] using this

/-- only retryable errors for `attempts` calls: exactly `attempts` calls, the LAST error is returned -/
theorem exhausted_returns_last_error (retryIf : ε → Bool) (attempts : Nat) (h : 1 ≤ attempts)
    (rs : Nat → Res ε) (fuel : Nat) (hall : ∀ k, k < attempts → isRetryErr retryIf (rs k) = true) :
    retryDo retryIf attempts rs noCancel fuel = some (attempts, toOut (rs (attempts - 1))) := by
  rw [retryDo_spec retryIf attempts h rs fuel, specOut_eq]
  have : leadingRetryable retryIf rs attempts 0 = attempts :=
    lead_all retryIf rs attempts 0 (by simpa using hall)
  simp [specCalls, this]

/-- a context already cancelled: no call at all -/
theorem cancelled_before_no_call (retryIf : ε → Bool) (attempts : Nat) (rs : Nat → Res ε) (done : Nat → Bool)
    (fuel : Nat) (h : done 0 = true) : retryDo retryIf attempts rs done fuel = some (0, .ctx) := by
  simp [retryDo, h]

/-! ### the caller's context ends at some point (`done`): what the caller may get -/

/-- under ANY context behaviour the loop either runs to the statement's last call and returns its
result, or stops in between attempts (after a retryable error, context ended) with the context's cause -/
theorem loopB_cases (retryIf : ε → Bool) (rs : Nat → Res ε) (done : Nat → Bool) (r i : Nat) :
    ((loopB retryIf rs done i r).1 = i + min (leadingRetryable retryIf rs (r + 1) i + 1) (r + 1) ∧
      (loopB retryIf rs done i r).2 = toOut (rs ((loopB retryIf rs done i r).1 - 1))) ∨
    (i < (loopB retryIf rs done i r).1 ∧
      (loopB retryIf rs done i r).1 < i + min (leadingRetryable retryIf rs (r + 1) i + 1) (r + 1) ∧
      done (loopB retryIf rs done i r).1 = true ∧ (loopB retryIf rs done i r).2 = .ctx) := by
  induction r generalizing i with
  | zero =>
    left
    unfold loopB leadingRetryable
    cases h : rs i with
    | ok v => simp [toOut, h]
    | err e => by_cases hr : retryIf e <;> simp [hr, toOut, h, leadingRetryable]
  | succ r ih =>
    unfold loopB leadingRetryable
    cases h : rs i with
    | ok v => left; simp [toOut, h]
    | err e =>
      by_cases hr : retryIf e
      · simp only [hr, Bool.not_true, Bool.false_eq_true, if_false, if_true]
        have e1 : i + 1 + min (leadingRetryable retryIf rs (r + 1) (i + 1) + 1) (r + 1)
            = i + min (1 + leadingRetryable retryIf rs (r + 1) (i + 1) + 1) (r + 1 + 1) := by omega
        by_cases hd : done (i + 1) = true
        · right
          rw [if_pos hd]
          exact ⟨by omega, by omega, hd, rfl⟩
        · rw [if_neg hd]
          rcases ih (i + 1) with ⟨h1, h2⟩ | ⟨h1, h2, h3, h4⟩
          · left; exact ⟨by rw [h1, e1], h2⟩
          · right; exact ⟨by omega, by rw [← e1]; exact h2, h3, h4⟩
      · left; simp [hr, toOut, h]

/-- **C15 under a context that may end**: whatever the context does, the caller gets either the
statement's result (exactly `specCalls` calls, first success or last error), or — only if the context
had ended in between attempts, before a further attempt was due — the context's cause. -/
theorem retryDo_cases (retryIf : ε → Bool) (attempts : Nat) (h : 1 ≤ attempts) (rs : Nat → Res ε)
    (done : Nat → Bool) (fuel c : Nat) (o : Out ε)
    (hr : retryDo retryIf attempts rs done fuel = some (c, o)) :
    (c = specCalls retryIf attempts rs ∧ o = specOut retryIf attempts rs) ∨
    (c < specCalls retryIf attempts rs ∧ done c = true ∧ o = .ctx) := by
  have ha : attempts - 1 + 1 = attempts := by omega
  unfold retryDo at hr
  split at hr
  · rename_i hd
    simp at hr
    right
    have := specCalls_pos retryIf attempts h rs
    rcases hr with ⟨rfl, rfl⟩
    exact ⟨by omega, hd, rfl⟩
  · rw [if_neg (by omega)] at hr
    simp at hr
    have hc := loopB_cases retryIf rs done (attempts - 1) 0
    rw [hr, ha] at hc
    simp only [Nat.zero_add] at hc
    rcases hc with ⟨h1, h2⟩ | ⟨_, h2, h3, h4⟩
    · left
      have hcs : c = specCalls retryIf attempts rs := by unfold specCalls; exact h1
      refine ⟨hcs, ?_⟩
      rw [specOut_eq, ← hcs]; exact h2
    · right; exact ⟨by unfold specCalls; exact h2, h3, h4⟩

/-- the executable form used by the driver's statement oracle -/
theorem retryDo_allowed (retryIf : ε → Bool) (attempts : Nat) (h : 1 ≤ attempts) (rs : Nat → Res ε)
    (done : Nat → Bool) (fuel c : Nat) (o : Out ε)
    (hr : retryDo retryIf attempts rs done fuel = some (c, o)) :
    (c, o) ∈ specAllowed retryIf attempts rs done := by
  unfold specAllowed
  rcases retryDo_cases retryIf attempts h rs done fuel c o hr with ⟨h1, h2⟩ | ⟨h1, h2, h3⟩
  · subst h1 h2; exact List.mem_cons_self
  · subst h3
    refine List.mem_cons_of_mem _ (List.mem_map.mpr ⟨c, ?_, rfl⟩)
    exact List.mem_filter.mpr ⟨List.mem_range.mpr h1, h2⟩

/-- with a context that never ends the allowed set is the single statement result -/
theorem specAllowed_noCancel (retryIf : ε → Bool) (attempts : Nat) (rs : Nat → Res ε) :
    specAllowed retryIf attempts rs noCancel =
      [(specCalls retryIf attempts rs, specOut retryIf attempts rs)] := by
  unfold specAllowed
  have : (List.range (specCalls retryIf attempts rs)).filter noCancel = [] := by
    apply List.filter_eq_nil_iff.mpr; intro a _; simp [noCancel]
  rw [this]; rfl

/-- a success obtained from the last call made is what the caller gets, even if the caller's context
ended while that call was in flight (any context behaviour) -/
theorem success_never_masked (retryIf : ε → Bool) (attempts : Nat) (h : 1 ≤ attempts) (rs : Nat → Res ε)
    (done : Nat → Bool) (fuel c v : Nat) (o : Out ε)
    (hr : retryDo retryIf attempts rs done fuel = some (c + 1, o)) (hok : rs c = .ok v) :
    o = .ok v := by
  rcases retryDo_cases retryIf attempts h rs done fuel (c + 1) o hr with ⟨h1, h2⟩ | ⟨h1, _, _⟩
  · rw [h2, specOut_eq, ← h1]; simp [hok, toOut]
  · -- c + 1 < specCalls: call c would have been followed by another one, so it returned a retryable error
    exfalso
    have := reissued_only_after_retryable retryIf attempts h rs noCancel fuel _ _
      (retryDo_spec retryIf attempts h rs fuel) c h1
    simp [hok, isRetryErr] at this

/-- likewise a non-retryable error of the last call made is returned as it is -/
theorem nonretryable_never_masked (retryIf : ε → Bool) (attempts : Nat) (h : 1 ≤ attempts) (rs : Nat → Res ε)
    (done : Nat → Bool) (fuel c : Nat) (e : ε) (o : Out ε)
    (hr : retryDo retryIf attempts rs done fuel = some (c + 1, o)) (he : rs c = .err e)
    (hn : retryIf e = false) : o = .err e := by
  rcases retryDo_cases retryIf attempts h rs done fuel (c + 1) o hr with ⟨h1, h2⟩ | ⟨h1, _, _⟩
  · rw [h2, specOut_eq, ← h1]; simp [he, toOut]
  · exfalso
    have := reissued_only_after_retryable retryIf attempts h rs noCancel fuel _ _
      (retryDo_spec retryIf attempts h rs fuel) c h1
    simp [he, isRetryErr, hn] at this

/-! ### `attempts = 0` (library semantics: retry until success; OUTSIDE the property's quantifier) -/

theorem loopU_stop (retryIf : ε → Bool) (rs : Nat → Res ε) (fuel i j : Nat) (hf : j < fuel)
    (hpre : ∀ k, k < j → isRetryErr retryIf (rs (i + k)) = true)
    (hstop : isRetryErr retryIf (rs (i + j)) = false) :
    loopU retryIf rs noCancel fuel i = some (i + j + 1, toOut (rs (i + j))) := by
  induction fuel generalizing i j with
  | zero => omega
  | succ fuel ih =>
    unfold loopU
    cases j with
    | zero =>
      simp at hstop
      cases h : rs i with
      | ok v => simp [toOut, h]
      | err e => simp [isRetryErr, h] at hstop; simp [hstop, toOut, h]
    | succ j =>
      have h0 := hpre 0 (by omega)
      simp at h0
      cases h : rs i with
      | ok v => simp [isRetryErr, h] at h0
      | err e =>
        simp [isRetryErr, h] at h0
        simp only [h0, Bool.not_true, Bool.false_eq_true, if_false, noCancel]
        have := ih (i + 1) j (by omega)
          (fun k hk => by have := hpre (k + 1) (by omega); rwa [show i + (k + 1) = i + 1 + k by omega] at this)
          (by rwa [show i + (j + 1) = i + 1 + j by omega] at hstop)
        rw [this, show i + 1 + j = i + (j + 1) by omega]

/-- with `Attempts(0)` the number of calls is NOT bounded by any configured number: the wrapper keeps
calling through any number `j` of retryable errors until the first terminal result -/
theorem attempts_zero_unbounded (retryIf : ε → Bool) (rs : Nat → Res ε) (fuel j : Nat) (hf : j < fuel)
    (hpre : ∀ k, k < j → isRetryErr retryIf (rs k) = true)
    (hstop : isRetryErr retryIf (rs j) = false) :
    retryDo retryIf 0 rs noCancel fuel = some (j + 1, toOut (rs j)) := by
  have := loopU_stop retryIf rs fuel 0 j hf (by simpa using hpre) (by simpa using hstop)
  simpa [retryDo, noCancel] using this

/-! ### non-vacuity -/
def demo : Nat → Res Bool
  | 0 => .err true | 1 => .err true | 2 => .ok 7 | _ => .err false
example : retryDo id 4 demo noCancel 0 = some (3, .ok 7) := by decide
example : retryDo id 2 demo noCancel 0 = some (2, .err true) := by decide
example : specCalls id 4 demo = 3 ∧ specOut id 4 demo = .ok 7 := by decide
example : retryDo id 4 (fun _ => .err false) noCancel 0 = some (1, .err false) := by decide
example : retryDo id 0 demo noCancel 5 = some (3, .ok 7) := by decide
example : retryDo id 4 demo (fun k => k ≥ 1) 0 = some (1, .ctx) := by decide
-- context ends during call 3 (the success): the success is returned; allowed set has the ctx outcomes too
example : retryDo id 4 demo (fun k => k ≥ 3) 0 = some (3, .ok 7) := by decide
example : specAllowed id 4 demo (fun k => decide (k ≥ 2)) = [(3, .ok 7), (2, .ctx)] := by decide
example : (3, Out.ctx) ∉ specAllowed id 4 demo (fun k => decide (k ≥ 2)) := by decide
-- hypotheses of stops_at_first_terminal are satisfiable with j = 2
example : (∀ k, k < 2 → isRetryErr id (demo k) = true) ∧ isRetryErr id (demo 2) = false := by decide

end Specter.C15
