import SpecterModel.C14.Drv

def main : IO Unit := Specter.C14.main
