import SpecterModel.C27.Model
/-!
# C27 — Gateway connections reach only a client published for the hostname

Theorems over the model of `DialClient` / `getConn` / `handleProxyConn` (Model.lean), for ALL slot
lists, route lists and environments. The model is tied to tun/server/server.go differentially
(harness/cmd/c27: all 16^3 lookup/behaviour combinations against the real code).
-/
namespace Specter.C27

/-! ### route order produced by the cache loader -/

theorem foldl_order (rs acc : List Route) :
    rs.foldl (fun acc r => if r.isLocal then r :: acc else acc ++ [r]) acc
      = (rs.filter (·.isLocal)).reverse ++ acc ++ rs.filter (fun r => !r.isLocal) := by
  induction rs generalizing acc with
  | nil => simp
  | cons r rs ih =>
    rw [List.foldl_cons, ih]
    cases h : r.isLocal <;> simp [h]

/-- locals (latest first) in front, remote routes behind in their lookup order -/
theorem order_eq (rs : List Route) :
    order rs = (rs.filter (·.isLocal)).reverse ++ rs.filter (fun r => !r.isLocal) := by
  unfold order; rw [foldl_order]; simp

theorem mem_order {rs : List Route} {r : Route} : r ∈ order rs ↔ r ∈ rs := by
  rw [order_eq]; simp only [List.mem_append, List.mem_reverse, List.mem_filter]
  cases r.isLocal <;> simp

/-- **local first**: the ordered routes split into a block of local routes followed by a block of
remote routes; remote routes keep the lookup order. -/
theorem local_first (rs : List Route) :
    ∃ ls rm, order rs = ls ++ rm ∧ (∀ r ∈ ls, r.isLocal = true) ∧ (∀ r ∈ rm, r.isLocal = false)
      ∧ rm = rs.filter (fun r => !r.isLocal) ∧ ls.Perm (rs.filter (·.isLocal)) := by
  refine ⟨(rs.filter (·.isLocal)).reverse, rs.filter (fun r => !r.isLocal), order_eq rs, ?_, ?_, rfl,
    List.reverse_perm _⟩
  · intro r hr; simpa using (List.mem_filter.mp (List.mem_reverse.mp hr)).2
  · intro r hr; simpa using (List.mem_filter.mp hr).2

theorem mem_slotRoutes {slots : List Slot} {r : Route} :
    r ∈ slotRoutes slots ↔ slots[r.idx]? = some (.route r.isLocal r.client) := by
  unfold slotRoutes
  rw [List.mem_filterMap]
  constructor
  · rintro ⟨⟨s, i⟩, hm, hs⟩
    have := List.mem_zipIdx_iff_getElem?.mp hm
    cases s <;> simp [slotRoute] at hs
    subst hs; simpa using this
  · intro h
    exact ⟨(.route r.isLocal r.client, r.idx), List.mem_zipIdx_iff_getElem?.mpr h, by simp [slotRoute]⟩

/-! ### the route loop -/

def ok (env : Nat → Env) (r : Route) : Prop := tryRoute r.isLocal (env r.idx) = .ok
def noDirect (env : Nat → Env) (r : Route) : Prop := tryRoute r.isLocal (env r.idx) = .noDirect

theorem loop_found {env : Nat → Env} {t : Nat} {rs : List Route} {nr : Bool} {k : Nat}
    (h : (loop env t rs nr).outcome = .found k) :
    ∃ pre r post, rs = pre ++ r :: post ∧ r.idx = k ∧ ok env r ∧ (∀ p ∈ pre, ¬ ok env p)
      ∧ (loop env t rs nr).tried = (pre ++ [r]).map (·.idx) := by
  induction rs generalizing nr with
  | nil => simp only [loop] at h; split at h <;> cases h
  | cons r rs ih =>
    simp only [loop] at h ⊢
    cases ht : tryRoute r.isLocal (env r.idx) with
    | ok =>
      simp only [ht] at h ⊢
      exact ⟨[], r, rs, rfl, by injection h, ht, by simp, by simp⟩
    | noDirect =>
      simp only [ht] at h ⊢
      obtain ⟨pre, r', post, e, hk, hok, hpre, htr⟩ := ih h
      refine ⟨r :: pre, r', post, by simp [e], hk, hok, ?_, by simp [htr]⟩
      intro p hp; rcases List.mem_cons.mp hp with rfl | hp
      · simp [ok, ht]
      · exact hpre p hp
    | hard c =>
      simp only [ht] at h ⊢
      obtain ⟨pre, r', post, e, hk, hok, hpre, htr⟩ := ih h
      refine ⟨r :: pre, r', post, by simp [e], hk, hok, ?_, by simp [htr]⟩
      intro p hp; rcases List.mem_cons.mp hp with rfl | hp
      · simp [ok, ht]
      · exact hpre p hp

/-- without a success every route is tried, in order, and the verdict is the final classification -/
theorem loop_fail {env : Nat → Env} {t : Nat} {rs : List Route} {nr : Bool}
    (h : ∀ r ∈ rs, ¬ ok env r) :
    (loop env t rs nr).outcome
        = (if nr || decide (∃ r ∈ rs, tryRoute r.isLocal (env r.idx) = .noDirect) || decide (t > 0)
           then .notConnected else .notFound)
      ∧ (loop env t rs nr).tried = rs.map (·.idx) := by
  induction rs generalizing nr with
  | nil => simp [loop]
  | cons r rs ih =>
    have hr : ¬ ok env r := h r (List.mem_cons_self ..)
    have hrs : ∀ r ∈ rs, ¬ ok env r := fun x hx => h x (List.mem_cons_of_mem _ hx)
    simp only [loop]
    cases ht : tryRoute r.isLocal (env r.idx) with
    | ok => exact absurd ht hr
    | noDirect =>
      obtain ⟨h1, h2⟩ := ih (nr := true) hrs
      simp only [h1, h2]; simp [ht]
    | hard c =>
      obtain ⟨h1, h2⟩ := ih (nr := nr) hrs
      simp only [h1, h2]; simp [ht]

theorem loop_some_ok {env : Nat → Env} {t : Nat} {rs : List Route} {nr : Bool}
    (h : ∃ r ∈ rs, ok env r) : ∃ k, (loop env t rs nr).outcome = .found k := by
  induction rs generalizing nr with
  | nil => simp at h
  | cons r rs ih =>
    simp only [loop]
    cases ht : tryRoute r.isLocal (env r.idx) with
    | ok => exact ⟨_, rfl⟩
    | noDirect =>
      obtain ⟨x, hx, hox⟩ := h
      rcases List.mem_cons.mp hx with rfl | hx
      · simp [ok, ht] at hox
      · exact ih ⟨x, hx, hox⟩
    | hard c =>
      obtain ⟨x, hx, hox⟩ := h
      rcases List.mem_cons.mp hx with rfl | hx
      · simp [ok, ht] at hox
      · exact ih ⟨x, hx, hox⟩

/-! ### property theorems about `DialClient` -/

theorem lookup_routes {slots : List Slot} {rs : List Route} (h : lookup slots = .routes rs) :
    rs = order (slotRoutes slots) := by
  unfold lookup at h; split at h
  · cases h
  · split at h
    · cases h
    · injection h with h; exact h.symm

/-- **only a published client**: a connection is only ever handed out for a slot that holds a route of
the hostname, and that route's client accepted the stream and the link frame (`tryRoute = ok`:
`getConn` produced a connection and `rpc.Send(conn, link)` succeeded). -/
theorem only_published_client (slots : List Slot) (env : Nat → Env) (k : Nat)
    (h : (dialClient slots env).outcome = .found k) :
    ∃ l c, slots[k]? = some (.route l c) ∧ tryRoute l (env k) = .ok := by
  unfold dialClient at h
  cases hl : lookup slots with
  | notFound => simp [hl] at h
  | failed => simp [hl] at h
  | routes rs =>
    simp only [hl] at h
    obtain ⟨pre, r, post, e, hk, hok, -, -⟩ := loop_found h
    have hm : r ∈ slotRoutes slots := by
      rw [← mem_order, ← lookup_routes hl, e]; simp
    have := mem_slotRoutes.mp hm
    subst hk
    exact ⟨r.isLocal, r.client, this, hok⟩

/-- **first success in order**: the winner is the first route, in the local-first order, whose client
is reachable; exactly the routes before it and itself were dialled, in that order. -/
theorem first_success_in_order (slots : List Slot) (env : Nat → Env) (k : Nat)
    (h : (dialClient slots env).outcome = .found k) :
    ∃ pre r post, order (slotRoutes slots) = pre ++ r :: post ∧ r.idx = k ∧ ok env r
      ∧ (∀ p ∈ pre, ¬ ok env p) ∧ (dialClient slots env).tried = (pre ++ [r]).map (·.idx) := by
  unfold dialClient at h ⊢
  cases hl : lookup slots with
  | notFound => simp [hl] at h
  | failed => simp [hl] at h
  | routes rs =>
    simp only [hl] at h ⊢
    rw [← lookup_routes hl]
    exact loop_found h

/-- the dialled slots are always a prefix of the local-first route order (success or not) -/
theorem tried_prefix (slots : List Slot) (env : Nat → Env) (rs : List Route)
    (hl : lookup slots = .routes rs) :
    (dialClient slots env).tried <+: rs.map (·.idx) := by
  unfold dialClient; simp only [hl]
  by_cases hs : ∃ r ∈ rs, ok env r
  · obtain ⟨k, hk⟩ := loop_some_ok (env := env) (t := rs.length) (nr := false) hs
    obtain ⟨pre, r, post, e, -, -, -, htr⟩ := loop_found hk
    rw [htr, e]; exact ⟨post.map (·.idx), by simp⟩
  · have : ∀ r ∈ rs, ¬ ok env r := fun r hr ho => hs ⟨r, hr, ho⟩
    rw [(loop_fail (t := rs.length) (nr := false) this).2]; exact List.prefix_refl _

/-- **found iff some published client is reachable** -/
theorem found_iff (slots : List Slot) (env : Nat → Env) :
    (∃ k, (dialClient slots env).outcome = .found k)
      ↔ ∃ rs, lookup slots = .routes rs ∧ ∃ r ∈ rs, ok env r := by
  unfold dialClient
  cases hl : lookup slots with
  | notFound => simp
  | failed => simp
  | routes rs =>
    simp only [Lookup.routes.injEq, exists_eq_left']
    constructor
    · rintro ⟨k, hk⟩
      obtain ⟨pre, r, post, e, -, hok, -, -⟩ := loop_found hk
      exact ⟨r, by simp [e], hok⟩
    · exact loop_some_ok

/-- **not connected**: the hostname has routes (the lookup produced a non-empty route list) but no
client could be reached — whatever the kind of failure (no-direct, hard error, link not sent). -/
theorem not_connected_iff (slots : List Slot) (env : Nat → Env) :
    (dialClient slots env).outcome = .notConnected
      ↔ ∃ rs, lookup slots = .routes rs ∧ rs ≠ [] ∧ ∀ r ∈ rs, ¬ ok env r := by
  unfold dialClient
  cases hl : lookup slots with
  | notFound => simp
  | failed => simp
  | routes rs =>
    simp only [Lookup.routes.injEq, exists_eq_left']
    by_cases hs : ∃ r ∈ rs, ok env r
    · obtain ⟨k, hk⟩ := loop_some_ok (env := env) (t := rs.length) (nr := false) hs
      rw [hk]; simp only [reduceCtorEq, false_iff, not_and]
      intro _ hall; obtain ⟨r, hr, ho⟩ := hs; exact hall r hr ho
    · have hall : ∀ r ∈ rs, ¬ ok env r := fun r hr ho => hs ⟨r, hr, ho⟩
      rw [(loop_fail (t := rs.length) (nr := false) hall).1]
      cases rs with
      | nil => simp
      | cons a as => simpa using hall

/-- **not found**: no routes — every lookup slot empty, or a mix of empty / failed slots that yields no route. -/
theorem not_found_iff (slots : List Slot) (env : Nat → Env) :
    (dialClient slots env).outcome = .notFound
      ↔ lookup slots = .notFound ∨ lookup slots = .routes [] := by
  unfold dialClient
  cases hl : lookup slots with
  | notFound => simp
  | failed => simp
  | routes rs =>
    cases rs with
    | nil => simp [loop]
    | cons a as =>
      simp only [reduceCtorEq, Lookup.routes.injEq, false_or, iff_false]
      by_cases hs : ∃ r ∈ (a :: as), ok env r
      · obtain ⟨k, hk⟩ := loop_some_ok (env := env) (t := (a :: as).length) (nr := false) hs
        rw [hk]; simp
      · have hall : ∀ r ∈ (a :: as), ¬ ok env r := fun r hr ho => hs ⟨r, hr, ho⟩
        rw [(loop_fail (t := (a :: as).length) (nr := false) hall).1]; simp

/-- property wording, first half: H has no routes (all slots empty) ⇒ not-found -/
theorem no_routes_not_found (slots : List Slot) (env : Nat → Env) (h : ∀ s ∈ slots, s = .empty) :
    (dialClient slots env).outcome = .notFound := by
  rw [not_found_iff]; left
  unfold lookup
  have : slots.countP (· == .empty) = slots.length :=
    List.countP_eq_length.mpr (fun a ha => by simp [h a ha])
  simp [this]

/-- property wording, second half: some slot holds a route and no route's client is reachable ⇒ not-connected -/
theorem routes_unreachable_not_connected (slots : List Slot) (env : Nat → Env) (i : Nat) (l : Bool) (c : Nat)
    (hr : slots[i]? = some (.route l c))
    (hun : ∀ j l c, slots[j]? = some (.route l c) → tryRoute l (env j) ≠ .ok) :
    (dialClient slots env).outcome = .notConnected := by
  have hmem : (⟨i, l, c⟩ : Route) ∈ slotRoutes slots := mem_slotRoutes.mpr hr
  have hlen : i < slots.length := by
    rcases Nat.lt_or_ge i slots.length with h | h
    · exact h
    · simp [List.getElem?_eq_none h] at hr
  have hget : slots[i]'hlen = .route l c := by
    have := List.getElem?_eq_getElem hlen; rw [this] at hr; exact Option.some.inj hr
  rw [not_connected_iff]
  refine ⟨order (slotRoutes slots), ?_, ?_, ?_⟩
  · unfold lookup
    have h1 : slots.length ≠ slots.countP (· == .empty) := by
      intro e
      have := (List.countP_eq_length.mp e.symm) (slots[i]'hlen) (List.getElem_mem hlen)
      simp [hget] at this
    have h2 : slots.length ≠ slots.countP isErrSlot := by
      intro e
      have := (List.countP_eq_length.mp e.symm) (slots[i]'hlen) (List.getElem_mem hlen)
      simp [hget, isErrSlot] at this
    simp [h1, h2]
  · intro e; have := mem_order.mpr hmem; simp [e] at this
  · intro r hr' ho
    exact hun r.idx r.isLocal r.client (mem_slotRoutes.mp (mem_order.mp hr')) ho

/-! ### no route recorded (absent and/or failed lookups only) -/

theorem slotRoutes_nil {slots : List Slot} (h : ∀ s ∈ slots, isRoute s = false) : slotRoutes slots = [] := by
  apply List.eq_nil_iff_forall_not_mem.mpr
  intro r hr
  have hs := mem_slotRoutes.mp hr
  have hm := List.mem_of_getElem? hs
  have := h _ hm
  simp [isRoute] at this

/-- what the loader hands to `DialClient` when no lookup returned a route: not-found (all absent),
lookup-failed (all failed), or — the mixed case — an EMPTY route list, never a non-empty one -/
theorem lookup_no_route (slots : List Slot) (h : ∀ s ∈ slots, isRoute s = false) :
    lookup slots = .notFound ∨ lookup slots = .failed ∨ lookup slots = .routes [] := by
  unfold lookup
  split
  · exact Or.inl rfl
  · split
    · exact Or.inr (Or.inl rfl)
    · right; right; rw [slotRoutes_nil h]; rfl

/-- **no routes ⇒ never "has routes"**: when no lookup returned a route for H — whatever mix of absent,
failed and undecodable lookups — nothing is dialled and the outcome is not-found or lookup-failed;
in particular never not-connected ("H has routes but no client reachable") and never a connection. -/
theorem no_route_never_connected (slots : List Slot) (env : Nat → Env)
    (h : ∀ s ∈ slots, isRoute s = false) :
    ((dialClient slots env).outcome = .notFound ∨ (dialClient slots env).outcome = .lookupFailed)
      ∧ (dialClient slots env).tried = [] := by
  unfold dialClient
  rcases lookup_no_route slots h with hl | hl | hl <;> simp [hl, loop]

theorem lookup_failed_iff_slots (slots : List Slot) :
    lookup slots = .failed ↔ slots ≠ [] ∧ ∀ s ∈ slots, isErrSlot s = true := by
  unfold lookup
  by_cases h1 : slots.length = slots.countP (· == .empty)
  · rw [if_pos h1]
    simp only [reduceCtorEq, false_iff, not_and]
    intro hne' hall
    cases slots with
    | nil => exact hne' rfl
    | cons a as =>
      have ha := (List.countP_eq_length.mp h1.symm) a (List.mem_cons_self ..)
      have hb := hall a (List.mem_cons_self ..)
      cases a <;> simp_all [isErrSlot]
  · rw [if_neg h1]
    by_cases h2 : slots.length = slots.countP isErrSlot
    · rw [if_pos h2]
      simp only [true_iff]
      refine ⟨?_, fun s hs => (List.countP_eq_length.mp h2.symm) s hs⟩
      rintro rfl; simp at h1
    · rw [if_neg h2]
      simp only [reduceCtorEq, false_iff, not_and]
      intro _ hall
      exact h2 (List.countP_eq_length.mpr hall).symm

/-- **lookup-failed** is reported exactly when there are lookups and every one of them failed -/
theorem lookup_failed_iff (slots : List Slot) (env : Nat → Env) :
    (dialClient slots env).outcome = .lookupFailed ↔ slots ≠ [] ∧ ∀ s ∈ slots, isErrSlot s = true := by
  have hne : ∀ rs nr, (loop env rs.length rs nr).outcome ≠ .lookupFailed := by
    intro rs nr hc
    by_cases hs : ∃ r ∈ rs, ok env r
    · obtain ⟨k, hk⟩ := loop_some_ok (env := env) (t := rs.length) (nr := nr) hs
      rw [hk] at hc; cases hc
    · have hall : ∀ r ∈ rs, ¬ ok env r := fun r hr ho => hs ⟨r, hr, ho⟩
      rw [(loop_fail (t := rs.length) (nr := nr) hall).1] at hc
      split at hc <;> cases hc
  rw [← lookup_failed_iff_slots]
  unfold dialClient
  cases hl : lookup slots with
  | notFound => simp
  | failed => simp
  | routes rs => simpa using hne rs false

/-- **partial lookup failure, no route ⇒ not-found**: no lookup returned a route and at least one
lookup did not fail (it found the key absent) — some other lookups may have failed — ⇒ not-found.
Together with `no_routes_not_found` (all absent) this is "not-found when H has no routes" under lookup errors. -/
theorem partial_lookup_failure_not_found (slots : List Slot) (env : Nat → Env)
    (h : ∀ s ∈ slots, isRoute s = false) (he : ∃ s ∈ slots, s = .empty) :
    (dialClient slots env).outcome = .notFound := by
  rcases (no_route_never_connected slots env h).1 with hn | hf
  · exact hn
  · obtain ⟨s, hs, rfl⟩ := he
    have := ((lookup_failed_iff slots env).mp hf).2 _ hs
    simp [isErrSlot] at this

/-- converse direction for not-connected: it is only ever reported for a hostname with a recorded route -/
theorem not_connected_has_route (slots : List Slot) (env : Nat → Env)
    (h : (dialClient slots env).outcome = .notConnected) : ∃ (i : Nat) (l : Bool) (c : Nat), slots[i]? = some (Slot.route l c) := by
  obtain ⟨rs, hl, hne, -⟩ := (not_connected_iff slots env).mp h
  cases rs with
  | nil => exact absurd rfl hne
  | cons r rs' =>
    have hm : r ∈ slotRoutes slots := by rw [← mem_order, ← lookup_routes hl]; simp
    exact ⟨r.idx, r.isLocal, r.client, mem_slotRoutes.mp hm⟩

/-! ### several visitors: route cache and visitor contexts

The lookup runs under the server's parent context and its answer is cached per hostname; the visitor's
own context only reaches the dials. Consequence proved here: in ANY sequence of visits during which the
KV content of each hostname does not change, what a visitor gets is `dialClient` of the hostname's
slots and of the world's answers to ITS dials — independent of who visited before and of whether those
earlier visitors' contexts were cancelled. All theorems above therefore hold visit by visit. -/

theorem dialClient_eq_dialWith (slots : List Slot) (env : Nat → Env) :
    dialClient slots env = dialWith (lookup slots) env := by
  unfold dialClient dialWith; cases lookup slots <;> rfl

/-- every cached answer is the loader's answer for the hostname's KV content -/
def CacheOk (slotsOf : String → List Slot) (c : Cache) : Prop :=
  ∀ h lk, cacheGet c h = some lk → lk = lookup (slotsOf h)

theorem cacheOk_nil (slotsOf : String → List Slot) : CacheOk slotsOf [] := by
  intro h lk hg; simp [cacheGet] at hg

theorem cacheGet_cons (c : Cache) (h' : String) (lk : Lookup) (h : String) :
    cacheGet ((h', lk) :: c) h = if h' = h then some lk else cacheGet c h := by
  unfold cacheGet
  by_cases e : h' = h <;> simp [e]

/-- the cache after a visit, and whether the loader ran, depend on the hostname and the KV only —
not on the visitor's context, not on how the world answers dials -/
theorem lookup_ignores_visitor (c : Cache) (v : Visit) (w : Visitor) (env' : Nat → Env) :
    (visit c { v with vis := w, env := env' }).1 = (visit c v).1
      ∧ (visit c { v with vis := w, env := env' }).2.kvGets = (visit c v).2.kvGets := by
  unfold visit cachedLookup
  cases cacheGet c v.host <;> simp

/-- one visit: the answer is `dialClient` on the hostname's slots, with every dial failing iff the
visitor's context is done; the loader ran iff the hostname was not cached; the cache stays faithful -/
theorem visit_stable (slotsOf : String → List Slot) (c : Cache) (v : Visit)
    (hc : CacheOk slotsOf c) (hv : v.slots = slotsOf v.host) :
    CacheOk slotsOf (visit c v).1
      ∧ (visit c v).2.result
          = dialClient (slotsOf v.host) (effEnv (visitorDone v.vis (cacheGet c v.host).isNone) v.env)
      ∧ (visit c v).2.kvGets = (if (cacheGet c v.host).isNone then v.slots.length else 0) := by
  unfold visit cachedLookup
  cases hg : cacheGet c v.host with
  | some lk =>
    have := hc _ _ hg
    refine ⟨hc, ?_, by simp⟩
    simp only [Option.isNone_some]
    rw [dialClient_eq_dialWith, this]
  | none =>
    refine ⟨?_, ?_, by simp⟩
    · intro h lk hget
      rw [cacheGet_cons] at hget
      by_cases e : v.host = h
      · rw [if_pos e] at hget; injection hget with hget; rw [← hget, hv, e]
      · rw [if_neg e] at hget; exact hc _ _ hget
    · simp only [Option.isNone_none]
      rw [dialClient_eq_dialWith, hv]

/-- the cache after a sequence of visits -/
def cacheAfter (c : Cache) (ops : List Visit) : Cache := ops.foldl (fun c v => (visit c v).1) c

theorem run_append_one (c : Cache) (ops : List Visit) (v : Visit) :
    run c (ops ++ [v]) = run c ops ++ [(visit (cacheAfter c ops) v).2] := by
  induction ops generalizing c with
  | nil => simp [run, cacheAfter]
  | cons a as ih => simp [run, cacheAfter, ih, List.foldl_cons]

theorem cacheAfter_ok (slotsOf : String → List Slot) (ops : List Visit) (c : Cache)
    (hc : CacheOk slotsOf c) (hst : ∀ v ∈ ops, v.slots = slotsOf v.host) :
    CacheOk slotsOf (cacheAfter c ops) := by
  induction ops generalizing c with
  | nil => exact hc
  | cons a as ih =>
    simp only [cacheAfter, List.foldl_cons]
    exact ih _ (visit_stable slotsOf c a hc (hst a (List.mem_cons_self ..))).1
      (fun v hv => hst v (List.mem_cons_of_mem _ hv))

/-- a hostname is cached exactly when somebody visited it before (whatever that visitor's context) -/
theorem cached_iff_visited (ops : List Visit) (c : Cache) (h : String) :
    (cacheGet (cacheAfter c ops) h).isSome ↔ (cacheGet c h).isSome ∨ ∃ v ∈ ops, v.host = h := by
  induction ops generalizing c with
  | nil => simp [cacheAfter]
  | cons a as ih =>
    simp only [cacheAfter, List.foldl_cons]
    have := ih (visit c a).1
    simp only [cacheAfter] at this
    rw [this]
    have h1 : (cacheGet (visit c a).1 h).isSome ↔ (cacheGet c h).isSome ∨ a.host = h := by
      unfold visit cachedLookup
      cases hg : cacheGet c a.host with
      | some lk =>
        simp only
        constructor
        · exact Or.inl
        · rintro (x | rfl)
          · exact x
          · simp [hg]
      | none =>
        simp only
        rw [cacheGet_cons]
        by_cases e : a.host = h
        · simp [e]
        · simp [e]
    rw [h1]
    simp only [List.mem_cons, exists_eq_or_imp]
    constructor
    · rintro ((x | x) | x)
      · exact Or.inl x
      · exact Or.inr (Or.inl x)
      · exact Or.inr (Or.inr x)
    · rintro (x | x | x)
      · exact Or.inl (Or.inl x)
      · exact Or.inl (Or.inr x)
      · exact Or.inr x

/-- **visitor independence**: the `pre` visitors come first — any hostnames, any contexts (live, gone,
cancelled during the lookup), any dial behaviour — then `v` visits. As long as the KV content of each
hostname is the same throughout (`hst`), `v` gets exactly `dialClient` of its hostname's slots under the
world's answers to its own dials; only `v`'s own context matters (done ⇒ its dials fail). -/
theorem visitor_independence (slotsOf : String → List Slot) (pre : List Visit) (v : Visit)
    (hst : ∀ x ∈ pre ++ [v], x.slots = slotsOf x.host) :
    ∃ ran, (run [] (pre ++ [v])).getLast? =
        some ⟨dialClient (slotsOf v.host) (effEnv (visitorDone v.vis ran) v.env),
              if ran then v.slots.length else 0⟩
      ∧ (ran = false ↔ ∃ x ∈ pre, x.host = v.host) := by
  have hc : CacheOk slotsOf (cacheAfter [] pre) :=
    cacheAfter_ok slotsOf pre [] (cacheOk_nil _) (fun x hx => hst x (List.mem_append_left _ hx))
  have hv : v.slots = slotsOf v.host := hst v (by simp)
  obtain ⟨-, h2, h3⟩ := visit_stable slotsOf _ v hc hv
  refine ⟨(cacheGet (cacheAfter [] pre) v.host).isNone, ?_, ?_⟩
  · rw [run_append_one, List.getLast?_append]
    simp only [List.getLast?_singleton, Option.some_or]
    congr 1
    cases hx : (visit (cacheAfter [] pre) v).2 with
    | mk r k => rw [hx] at h2 h3; simp only at h2 h3; rw [h2, h3]
  · have hnil : (cacheGet ([] : Cache) v.host).isSome = false := by simp [cacheGet]
    have := cached_iff_visited pre [] v.host
    rw [hnil] at this
    simp only [Bool.false_eq_true, false_or] at this
    rw [← this]
    cases cacheGet (cacheAfter [] pre) v.host <;> simp

/-- **a live visitor is not affected by earlier visitors**: its result is the single-call `dialClient` -/
theorem live_visitor_unaffected (slotsOf : String → List Slot) (pre : List Visit) (v : Visit)
    (hst : ∀ x ∈ pre ++ [v], x.slots = slotsOf x.host) (hl : v.vis = .live) :
    ((run [] (pre ++ [v])).getLast?).map (·.result) = some (dialClient (slotsOf v.host) v.env) := by
  obtain ⟨ran, h, -⟩ := visitor_independence slotsOf pre v hst
  have he : effEnv false v.env = v.env := by funext i; simp [effEnv]
  rw [h, hl]
  simp [visitorDone, he]

theorem lookup_of_route {slots : List Slot} {i : Nat} {l : Bool} {c : Nat}
    (hr : slots[i]? = some (.route l c)) : lookup slots = .routes (order (slotRoutes slots)) := by
  have hlen : i < slots.length := by
    rcases Nat.lt_or_ge i slots.length with h | h
    · exact h
    · simp [List.getElem?_eq_none h] at hr
  have hget : slots[i]'hlen = .route l c := by
    have := List.getElem?_eq_getElem hlen; rw [this] at hr; exact Option.some.inj hr
  unfold lookup
  have h1 : slots.length ≠ slots.countP (· == .empty) := by
    intro e
    have := (List.countP_eq_length.mp e.symm) (slots[i]'hlen) (List.getElem_mem hlen)
    simp [hget] at this
  have h2 : slots.length ≠ slots.countP isErrSlot := by
    intro e
    have := (List.countP_eq_length.mp e.symm) (slots[i]'hlen) (List.getElem_mem hlen)
    simp [hget, isErrSlot] at this
  simp [h1, h2]

/-- single call: a hostname with a route whose client accepts stream and link is connected -/
theorem reachable_found (slots : List Slot) (env : Nat → Env) (i : Nat) (l : Bool) (c : Nat)
    (hr : slots[i]? = some (.route l c)) (hok : tryRoute l (env i) = .ok) :
    ∃ k, (dialClient slots env).outcome = .found k := by
  rw [found_iff]
  refine ⟨_, lookup_of_route hr, ⟨i, l, c⟩, mem_order.mpr (mem_slotRoutes.mpr hr), hok⟩

/-- **a cancelled visitor cannot poison the hostname**: whatever visitors came before — in particular
visitors of the same hostname whose context was already cancelled, or was cancelled during the route
lookup — a live visitor of a hostname that has a route with a reachable client is connected, and the
connection goes to a published client of that hostname that accepted stream and link. -/
theorem live_visitor_connected (slotsOf : String → List Slot) (pre : List Visit) (v : Visit)
    (hst : ∀ x ∈ pre ++ [v], x.slots = slotsOf x.host) (hl : v.vis = .live)
    (i : Nat) (l : Bool) (c : Nat) (hr : v.slots[i]? = some (.route l c)) (hok : tryRoute l (v.env i) = .ok) :
    ∃ o k, (run [] (pre ++ [v])).getLast? = some o ∧ o.result.outcome = .found k
      ∧ ∃ l' c', v.slots[k]? = some (.route l' c') ∧ tryRoute l' (v.env k) = .ok := by
  have hv : v.slots = slotsOf v.host := hst v (by simp)
  have h := live_visitor_unaffected slotsOf pre v hst hl
  rw [← hv] at h
  obtain ⟨k, hk⟩ := reachable_found v.slots v.env i l c hr hok
  cases ho : (run [] (pre ++ [v])).getLast? with
  | none => rw [ho] at h; simp at h
  | some o =>
    rw [ho] at h; simp only [Option.map_some, Option.some.injEq] at h
    refine ⟨o, k, rfl, by rw [h]; exact hk, ?_⟩
    exact only_published_client v.slots v.env k hk

/-- a visitor whose context is done is never handed a connection (every dial on its behalf fails) … -/
theorem done_visitor_never_connected (slots : List Slot) (env : Nat → Env) (k : Nat) :
    (dialClient slots (effEnv true env)).outcome ≠ .found k := by
  intro h
  obtain ⟨l, c, -, hok⟩ := only_published_client slots _ k h
  simp [effEnv, tryRoute, getConn] at hok

/-- … and it is told not-connected exactly when the hostname has a route: its having left changes
neither the not-found nor the lookup-failed answers -/
theorem done_visitor_not_connected (slots : List Slot) (env : Nat → Env) (i : Nat) (l : Bool) (c : Nat)
    (hr : slots[i]? = some (.route l c)) :
    (dialClient slots (effEnv true env)).outcome = .notConnected := by
  apply routes_unreachable_not_connected slots _ i l c hr
  intro j l' c' _ hok
  simp [effEnv, tryRoute, getConn] at hok

/-! ### status frame / remote side -/

/-- **wrong destination rejected**: a proxy stream whose route names another tunnel node (or carries no
usable route) never reaches a client and is answered with a non-OK status. -/
theorem proxy_wrong_destination_rejected (c : Nat) (d : DialRes) :
    (handleProxy (.route false c) d).dialed = none ∧ (handleProxy (.route false c) d).status ≠ 0
      ∧ (handleProxy (.route false c) d).piped = false
      ∧ (handleProxy .bad d).dialed = none ∧ (handleProxy .bad d).status ≠ 0 := by
  simp [handleProxy]

/-- the remote node only ever dials the client named in a route addressed to itself, and pipes only
after that client's stream opened -/
theorem proxy_dials_only_route_client (r : Recv) (d : DialRes) (x : Nat) :
    ((handleProxy r d).dialed = some x → r = .route true x)
      ∧ ((handleProxy r d).piped = true → d = .conn ∧ (handleProxy r d).status = 0 ∧ ∃ c, r = .route true c) := by
  cases r with
  | bad => simp [handleProxy]
  | route m c => cases m <;> cases d <;> simp [handleProxy, statusOf]

/-- **status round trip**: a remote route served by a correct remote node (`handleProxy` on a route
addressed to it) classifies exactly like a direct dial of the client on that node. -/
theorem proxied_equiv_direct (c : Nat) (d : DialRes) (lf sf : Bool) (st : Option Nat) :
    getConn false ⟨.conn, false, some (handleProxy (.route true c) d).status, lf⟩
      = getConn true ⟨d, sf, st, lf⟩ := by
  cases d <;> simp [getConn, handleProxy, statusOf, decodeStatus]

/-- only status OK opens a proxied connection; NO_DIRECT is the only code counted as "not connected" -/
theorem decodeStatus_spec (n : Nat) :
    (decodeStatus n = .conn ↔ n = 0) ∧ (decodeStatus n = .noDirect ↔ n = 2) := by
  unfold decodeStatus; split <;> simp_all

/-! ### non-vacuity -/

def envEx : Nat → Env
  | 0 => ⟨.conn, false, some 1, false⟩     -- remote answers UNKNOWN_ERROR
  | 1 => ⟨.err, false, none, false⟩        -- local dial fails hard
  | _ => ⟨.conn, false, some 0, false⟩     -- remote OK

example : dialClient [.route false 11, .route true 22, .route false 33] envEx = ⟨.found 2, [1, 0, 2], []⟩ := by decide
example : (dialClient [.route false 11, .route true 22, .empty] envEx).outcome = .notConnected := by decide
example : (dialClient [.empty, .lookupErr, .empty] envEx).outcome = .notFound := by decide
example : (dialClient [.undecodable, .lookupErr, .lookupErr] envEx).outcome = .lookupFailed := by decide
-- partial lookup failure without any route (hypotheses of partial_lookup_failure_not_found / no_route_never_connected hold)
example : (∀ s ∈ [Slot.lookupErr, .empty, .undecodable], isRoute s = false) ∧ (∃ s ∈ [Slot.lookupErr, .empty, .undecodable], s = .empty)
    ∧ lookup [.lookupErr, .empty, .undecodable] = .routes []
    ∧ dialClient [.lookupErr, .empty, .undecodable] envEx = ⟨.notFound, [], []⟩ := by decide
example : (dialClient [.route false 11, .route true 22, .lookupErr] envEx).outcome = .notConnected
    ∧ ∃ (i : Nat) (l : Bool) (c : Nat), [Slot.route false 11, .route true 22, .lookupErr][i]? = some (Slot.route l c) := ⟨by decide, 0, false, 11, rfl⟩
-- several visitors (hypotheses of visitor_independence / live_visitor_connected hold): a visitor that is
-- already gone, one that leaves during the lookup of another hostname, then a live one for the first hostname
def slotsEx : String → List Slot := fun h => if h = "a" then [.route false 11, .route true 22, .route false 33] else [.empty, .lookupErr, .route true 7]
def visitsEx : List Visit :=
  [⟨"a", slotsEx "a", envEx, .gone⟩, ⟨"b", slotsEx "b", envEx, .leavesInLookup⟩, ⟨"b", slotsEx "b", envEx, .leavesInLookup⟩, ⟨"a", slotsEx "a", envEx, .live⟩]
example : (∀ x ∈ visitsEx, x.slots = slotsEx x.host)
    ∧ run [] visitsEx = [⟨⟨.notConnected, [1, 0, 2], []⟩, 3⟩, ⟨⟨.notConnected, [2], []⟩, 3⟩, ⟨⟨.found 2, [2], []⟩, 0⟩, ⟨⟨.found 2, [1, 0, 2], []⟩, 0⟩] := by
  decide
example : order [⟨0, false, 1⟩, ⟨1, true, 2⟩, ⟨2, true, 3⟩] = [⟨2, true, 3⟩, ⟨1, true, 2⟩, ⟨0, false, 1⟩] := by decide
example : handleProxy (.route true 5) .conn = ⟨0, some 5, true⟩ ∧ handleProxy (.route false 5) .conn = ⟨1, none, false⟩ := by decide

end Specter.C27
