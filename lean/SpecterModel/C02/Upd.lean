/-!
C02, successor-list publication inside `LocalNode.stabilize` (chord/local_tasks.go).

Every stabilize run computes its own view of the successor list (`succList`) and its hash (`listHash`) and
then publishes it through three shared variables of the node:

  succListHash (atomic)   — "hash of the list that is published", used to skip the write when nothing changed
  successors              — the published list
  successorsMu            — the lock around `successors`

Several runs on the SAME node overlap by design (periodic task, FinishJoin / FinishLeave advisories). This file
is the small-step model of that publication: a program is the ordered list of accesses of ONE run (generated
from the Go source into `GenUpd.lean` by `extract c02-facts`), `n` threads run it with arbitrary views under an
arbitrary schedule. Core Lean only (linked into the driver).
-/
namespace Specter.C02.Upd

/-- One access of a stabilize run to the shared publication state. `skip` = number of following actions that
are guarded by the comparison (they are skipped when the stored hash EQUALS the run's own hash). -/
inductive Act where
  | loadHashCmp (skip : Nat)   -- `if succListHash.Load() != listHash { … }`
  | swapHashCmp (skip : Nat)   -- `if succListHash.Swap(listHash) != listHash { … }`
  | storeHash                  -- `succListHash.Store(listHash)`
  | lock                       -- `successorsMu.Lock()`
  | unlock                     -- `successorsMu.Unlock()`
  | assignList                 -- `successors = succList`
deriving DecidableEq, Repr

abbrev Prog := List Act

/-- the shared variables; lists are identified by a view number, `owner` = index of the run holding the lock -/
structure Shared where
  hashVar : Nat
  listVar : Nat
  owner : Option Nat
deriving DecidableEq, Repr

/-- one run: its own view (the list it computed) and its program counter -/
structure Thread where
  view : Nat
  pc : Nat
deriving DecidableEq, Repr

structure State where
  sh : Shared
  ths : List Thread
deriving DecidableEq, Repr

/-- One step of run number `i` (`none` = not enabled: finished, waiting for the lock, or unlocking a lock it
does not hold). `H` = the hash function on views. -/
def stepT (H : Nat → Nat) (prog : Prog) (i : Nat) (t : Thread) (sh : Shared) : Option (Thread × Shared) :=
  match prog[t.pc]? with
  | none => none
  | some (.loadHashCmp k) =>
    if sh.hashVar = H t.view then some ({ t with pc := t.pc + 1 + k }, sh)
    else some ({ t with pc := t.pc + 1 }, sh)
  | some (.swapHashCmp k) =>
    if sh.hashVar = H t.view then some ({ t with pc := t.pc + 1 + k }, { sh with hashVar := H t.view })
    else some ({ t with pc := t.pc + 1 }, { sh with hashVar := H t.view })
  | some .storeHash => some ({ t with pc := t.pc + 1 }, { sh with hashVar := H t.view })
  | some .assignList => some ({ t with pc := t.pc + 1 }, { sh with listVar := t.view })
  | some .lock =>
    if sh.owner = none then some ({ t with pc := t.pc + 1 }, { sh with owner := some i }) else none
  | some .unlock =>
    if sh.owner = some i then some ({ t with pc := t.pc + 1 }, { sh with owner := none }) else none

/-- the scheduler picks run `i`; a pick of a run that is not enabled is a no-op -/
def step (H : Nat → Nat) (prog : Prog) (s : State) (i : Nat) : State :=
  match s.ths[i]? with
  | none => s
  | some t =>
    match stepT H prog i t s.sh with
    | none => s
    | some (t', sh') => { sh := sh', ths := s.ths.set i t' }

def run (H : Nat → Nat) (prog : Prog) (s : State) (sched : List Nat) : State :=
  sched.foldl (step H prog) s

/-- initial state: the node publishes list `v0` consistently, run `i` has computed view `views[i]` -/
def init (H : Nat → Nat) (v0 : Nat) (views : List Nat) : State :=
  { sh := { hashVar := H v0, listVar := v0, owner := none }, ths := views.map fun v => { view := v, pc := 0 } }

def finished (prog : Prog) (t : Thread) : Bool := prog.length ≤ t.pc

def allDone (prog : Prog) (s : State) : Bool := s.ths.all (finished prog)

/-- a run executing alone (nobody else is scheduled) for at most `fuel` steps, as run number `i` -/
def solo (H : Nat → Nat) (prog : Prog) (i : Nat) : Nat → Thread → Shared → Thread × Shared
  | 0, t, sh => (t, sh)
  | f + 1, t, sh =>
    match stepT H prog i t sh with
    | none => (t, sh)
    | some (t', sh') => solo H prog i f t' sh'

/-- The repair round: one further stabilize run with view `v`, executed to its end after the others
(the pc only grows, so `prog.length` steps suffice). Result: the shared variables afterwards. -/
def repair (H : Nat → Nat) (prog : Prog) (s : State) (v : Nat) : Thread × Shared :=
  solo H prog s.ths.length prog.length { view := v, pc := 0 } s.sh

/-! ### Static lock discipline (decidable), the hypothesis of the general theorem in `UpdProps` -/

/-- abstract local state of a run at a program point: outside the lock, or inside it having already written the
hash (`wh`) / the list (`wl`) in this critical section -/
inductive Loc where
  | out
  | inn (wh wl : Bool)
deriving DecidableEq, Repr

/-- abstract successors `(pc', loc')` of executing `a` at `pc` in abstract state `l`; `none` = the discipline is
violated: a write outside the lock, locking twice, unlocking a lock that is not held, or leaving the critical
section with exactly one of hash / list written. -/
def transfer (a : Act) (pc : Nat) (l : Loc) : Option (List (Nat × Loc)) :=
  match a, l with
  | .loadHashCmp k, l => some [(pc + 1, l), (pc + 1 + k, l)]
  | .swapHashCmp k, .inn _ wl => some [(pc + 1, .inn true wl), (pc + 1 + k, .inn true wl)]
  | .swapHashCmp _, .out => none
  | .storeHash, .inn _ wl => some [(pc + 1, .inn true wl)]
  | .storeHash, .out => none
  | .assignList, .inn wh _ => some [(pc + 1, .inn wh true)]
  | .assignList, .out => none
  | .lock, .out => some [(pc + 1, .inn false false)]
  | .lock, .inn _ _ => none
  | .unlock, .inn wh wl => if wh = wl then some [(pc + 1, .out)] else none
  | .unlock, .out => none

abbrev Ann := List (List Loc)

def annAt (ann : Ann) (pc : Nat) : List Loc :=
  match ann[pc]? with
  | some ls => ls
  | none => []

/-- `ann` is an inductive annotation of `prog`: it contains the start, is closed under `transfer`, never meets a
violation, and a finished run is outside the lock. -/
def checkAnn (prog : Prog) (ann : Ann) : Bool :=
  (annAt ann 0).contains .out &&
  (List.range prog.length).all (fun pc =>
    match prog[pc]? with
    | none => true
    | some a => (annAt ann pc).all fun l =>
      match transfer a pc l with
      | none => false
      | some succs => succs.all fun (p : Nat × Loc) => p.1 ≤ prog.length && (annAt ann p.1).contains p.2) &&
  (annAt ann prog.length).all (· == .out)

def addLoc (ann : Ann) (p : Nat × Loc) : Ann :=
  ann.modify p.1 fun ls => if ls.contains p.2 then ls else ls ++ [p.2]

/-- forward propagation (jumps only go forward, so one pass in program order reaches the fixpoint) -/
def inferFrom (prog : Prog) : List Nat → Ann → Ann
  | [], ann => ann
  | pc :: rest, ann =>
    match prog[pc]? with
    | none => inferFrom prog rest ann
    | some a =>
      let ann' := (annAt ann pc).foldl (fun acc l =>
        match transfer a pc l with
        | none => acc
        | some succs => succs.foldl addLoc acc) ann
      inferFrom prog rest ann'

def infer (prog : Prog) : Ann :=
  inferFrom prog (List.range prog.length) ([Loc.out] :: List.replicate prog.length [])

/-- the lock discipline: hash and list are written only while the run holds the lock, and a critical section
that writes one of them writes both before the lock is released -/
def lockDiscipline (prog : Prog) : Bool := checkAnn prog (infer prog)

/-! ### A run executing alone converges (decidable): abstract execution over "the stored hash is mine / the
stored list is mine / I hold the lock", from both possible outcomes of the first comparison -/

structure SoloAbs where
  hm : Bool
  lm : Bool
  held : Bool
deriving DecidableEq, Repr

def soloStep (a : Act) (pc : Nat) (σ : SoloAbs) : Option (Nat × SoloAbs) :=
  match a with
  | .loadHashCmp k => some (if σ.hm then pc + 1 + k else pc + 1, σ)
  | .swapHashCmp k => some (if σ.hm then pc + 1 + k else pc + 1, { σ with hm := true })
  | .storeHash => some (pc + 1, { σ with hm := true })
  | .assignList => some (pc + 1, { σ with lm := true })
  | .lock => if σ.held then none else some (pc + 1, { σ with held := true })
  | .unlock => if σ.held then some (pc + 1, { σ with held := false }) else none

def soloRun (prog : Prog) : Nat → Nat → SoloAbs → Option SoloAbs
  | 0, pc, σ => if prog.length ≤ pc then some σ else none
  | f + 1, pc, σ =>
    match prog[pc]? with
    | none => some σ
    | some a =>
      match soloStep a pc σ with
      | none => none
      | some (pc', σ') => soloRun prog f pc' σ'

/-- started on a consistent state (hash = hash of the list, lock free) the run ends with its own list and hash
published and the lock free — whether the first comparison finds its hash or not -/
def soloConverges (prog : Prog) : Bool :=
  [true, false].all fun b =>
    match soloRun prog prog.length 0 { hm := b, lm := b, held := false } with
    | some σ => σ.hm && σ.lm && !σ.held
    | none => false

/-! ### Text form used on the harness lines -/

def Act.tok : Act → String
  | .loadHashCmp k => s!"load:{k}"
  | .swapHashCmp k => s!"swap:{k}"
  | .storeHash => "store"
  | .lock => "lock"
  | .unlock => "unlock"
  | .assignList => "assign"

def progTok (p : Prog) : String := if p.isEmpty then "-" else ",".intercalate (p.map Act.tok)

def parseAct (s : String) : Option Act :=
  match s.splitOn ":" with
  | ["load", k] => k.toNat?.map .loadHashCmp
  | ["swap", k] => k.toNat?.map .swapHashCmp
  | ["store"] => some .storeHash
  | ["lock"] => some .lock
  | ["unlock"] => some .unlock
  | ["assign"] => some .assignList
  | _ => none

def parseProg (s : String) : Option Prog :=
  if s == "-" then some [] else (s.splitOn ",").mapM parseAct

/-- the hash used on the harness lines (any injective function would do) -/
def lineHash (v : Nat) : Nat := v + 100

end Specter.C02.Upd
