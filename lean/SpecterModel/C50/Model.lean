/-!
C50 executable model of `(*Client).getConnectedNodes` (core Lean only).

`conns`: the connection map as (map key, node) pairs, any order — the code ranges a skipmap, i.e. ascending
key order, and keeps the first `NumRedundantLinks = 3` nodes. With a recorder, the kept nodes are stably sorted
by the code's comparator over `rttLookup` (measurement key ↦ average of the snapshot over the last 10 s; absent
when the snapshot is nil). The recorder (`rtt.Instrumentation`) is modelled too: `RecordLatency` keeps a sliding
slice of at most `capacity + 1` points, each with the time of its own recording, and `Snapshot` averages the
values of the retained points inside the window.
-/
namespace Specter.C50

structure Node where
  id : Nat
  key : String        -- key in the connections map
  addr : String       -- node.Address
  unknown : Bool      -- node.Unknown
deriving Repr, DecidableEq

/-- `rtt.MakeMeasurementKey` -/
def mkey (n : Node) : String := n.addr ++ "/" ++ (if n.unknown then "-1" else "PHY")

/-- one call `RecordLatency(key, val)`: `age` = how long before the snapshot it happened (ms), `val` = the
recorded round-trip time (ns; the code ignores negative values) -/
structure Sample where
  age : Nat
  val : Int
deriving Repr, DecidableEq

/-- everything known about one measurement key: all samples ever passed to `RecordLatency`, in recording order
(ground truth of the harness), and the average the implementation reported (`none` when its snapshot was nil).
The model does not read `avg`; the driver compares it with the model's own `snapshot`. -/
structure Entry where
  mkey : String
  samples : List Sample
  avg : Option Int
deriving Repr

def windowMs : Nat := 10000
def numRedundantLinks : Nat := 3
/-- `rtt.NewInstrumentation(20)` in cmd/client -/
def capacity : Nat := 20

/-- `RecordLatency`: negative values are dropped; when the slice already holds more than `cap` points the oldest
one is removed; the new point is appended WITH ITS OWN time. -/
def record (cap : Nat) (data : List Sample) (s : Sample) : List Sample :=
  if s.val < 0 then data
  else (if data.length > cap then data.drop 1 else data) ++ [s]

/-- the slice of a key after all its samples have been recorded -/
def recordAll (cap : Nat) (ss : List Sample) : List Sample := ss.foldl (record cap) []

/-- `Snapshot(…, 10s)` on one slice: nil when no retained point lies inside the window, else the mean of the
values inside the window (`time.Duration(stats.Mean(values))`: truncated; values are non-negative) -/
def snapAvg (data : List Sample) : Option Int :=
  let vs := (data.filter (fun p => decide (p.age ≤ windowMs))).map (·.val)
  if vs.isEmpty then none else some (vs.sum / (vs.length : Int))

/-- `Snapshot(key, 10s)`: nil when the key is unknown or no retained point lies inside the window -/
def snapshot (tab : List Entry) (k : String) : Option Int :=
  match tab.find? (·.mkey == k) with
  | none => none
  | some e => snapAvg (recordAll capacity e.samples)

/-- the comparator passed to `sort.SliceStable` -/
def less (look : Node → Option Int) (a b : Node) : Bool :=
  match look a, look b with
  | some _, none => true
  | none, some _ => false
  | some l, some r => decide (l < r)
  | none, none => false        -- `l < r` on two zero values

def le (look : Node → Option Int) (a b : Node) : Bool := !less look b a

/-- ascending map-key order (skipmap range) -/
def byKey (conns : List Node) : List Node := conns.mergeSort (fun a b => decide (a.key ≤ b.key))

def firstThree (conns : List Node) : List Node := (byKey conns).take numRedundantLinks

def connected (conns : List Node) (recorder : Bool) (look : Node → Option Int) : List Node :=
  let nodes := firstThree conns
  if !recorder then nodes else nodes.mergeSort (le look)

end Specter.C50
