import SpecterModel.C03.Drv

def main : IO Unit := Specter.C03.main
