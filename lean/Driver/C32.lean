import SpecterModel.C32.Drv

def main : IO Unit := Specter.C32.main
