// C46 correspondence: the real util/promise.All with 0..16 tasks (random delays, values, errors, both,
// context-respecting and context-ignoring tasks) and cancellation before / during / never. Each task records
// what it actually returned, its completion rank and a "finished" flag; the flags are read immediately after
// All returns. The Lean driver replays the slot writes in the observed completion order and applies the
// statement (every task finished; slot i = task i's value or error).
package main

import (
	"context"
	"errors"
	"strconv"
	"strings"
	"sync"
	"sync/atomic"
	"time"

	"go.miragespace.co/specter/util/promise"
	"verif/harness/hlib"
)

type codeErr struct{ code int }

func (e *codeErr) Error() string { return "e" + strconv.Itoa(e.code) }

type task struct {
	delayUs int
	mode    int // 0 ignores ctx; 1 on cancel returns (0, err 9); 2 on cancel returns (val, err 9)
	val     int
	err     int
}

type plan struct {
	cancel   int // 0 never, 1 already cancelled, 2 cancel after cancelUs, 3 deadline after cancelUs
	cancelUs int
	tasks    []task
}

func (p plan) token() string {
	c := []string{"nocancel", "precancel", "cancel@" + strconv.Itoa(p.cancelUs), "deadline@" + strconv.Itoa(p.cancelUs)}[p.cancel]
	ts := make([]string, len(p.tasks))
	for i, t := range p.tasks {
		ts[i] = hlib.F("%d:%d:%d:%d", t.delayUs, t.mode, t.val, t.err)
	}
	return c + "/" + hlib.Join(ts, ",")
}

func parsePlan(tok string) plan {
	var p plan
	parts := strings.SplitN(tok, "/", 2)
	switch {
	case parts[0] == "precancel":
		p.cancel = 1
	case strings.HasPrefix(parts[0], "cancel@"):
		p.cancel = 2
		p.cancelUs, _ = strconv.Atoi(parts[0][7:])
	case strings.HasPrefix(parts[0], "deadline@"):
		p.cancel = 3
		p.cancelUs, _ = strconv.Atoi(parts[0][9:])
	}
	if len(parts) == 2 && parts[1] != "-" {
		for _, s := range strings.Split(parts[1], ",") {
			f := strings.Split(s, ":")
			a := func(i int) int { v, _ := strconv.Atoi(f[i]); return v }
			p.tasks = append(p.tasks, task{a(0), a(1), a(2), a(3)})
		}
	}
	return p
}

type outcome struct{ lhs, rhs string }

func errCode(e error) int {
	if e == nil {
		return 0
	}
	var ce *codeErr
	if errors.As(e, &ce) {
		return ce.code
	}
	return 99
}

func runPlan(p plan) (o outcome) {
	n := len(p.tasks)
	actV := make([]atomic.Int64, n)
	actE := make([]atomic.Int64, n)
	rank := make([]atomic.Int64, n)
	fin := make([]atomic.Bool, n)
	var seq atomic.Int64
	fns := make([]func(context.Context) (int, error), n)
	for i, t := range p.tasks {
		i, t := i, t
		fns[i] = func(ctx context.Context) (int, error) {
			v, e := t.val, t.err
			d := time.Duration(t.delayUs) * time.Microsecond
			if t.mode == 0 {
				if d > 0 {
					time.Sleep(d)
				}
			} else {
				tm := time.NewTimer(d)
				select {
				case <-tm.C:
				case <-ctx.Done():
					tm.Stop()
					e = 9
					if t.mode == 1 {
						v = 0
					}
				}
			}
			actV[i].Store(int64(v))
			actE[i].Store(int64(e))
			rank[i].Store(seq.Add(1))
			fin[i].Store(true)
			if e != 0 {
				return v, &codeErr{e}
			}
			return v, nil
		}
	}
	ctx, cancel := context.WithCancel(context.Background())
	defer cancel()
	switch p.cancel {
	case 1:
		cancel()
	case 2:
		go func() { time.Sleep(time.Duration(p.cancelUs) * time.Microsecond); cancel() }()
	case 3:
		var c2 context.CancelFunc
		ctx, c2 = context.WithTimeout(ctx, time.Duration(p.cancelUs)*time.Microsecond)
		defer c2()
	}
	var res []int
	var errs []error
	flags := make([]byte, n)
	panicked, hung := false, false
	finished := make(chan struct{})
	go func() {
		defer close(finished)
		defer func() {
			if recover() != nil {
				panicked = true
			}
		}()
		res, errs = promise.All(ctx, fns...)
		for i := range flags { // read the flags before anything else
			if fin[i].Load() {
				flags[i] = '1'
			} else {
				flags[i] = '0'
			}
		}
	}()
	select {
	case <-finished:
	case <-time.After(5 * time.Second): // every task is done within a millisecond: All never returned
		hung = true
	}
	outs := make([]string, n)
	type rk struct{ i, r int }
	var order []string
	rs := make([]rk, 0, n)
	for i := 0; i < n; i++ {
		outs[i] = hlib.F("%d:%d", actV[i].Load(), actE[i].Load())
		if r := rank[i].Load(); r > 0 {
			rs = append(rs, rk{i, int(r)})
		}
	}
	for a := 1; a < len(rs); a++ { // insertion sort by rank
		for b := a; b > 0 && rs[b].r < rs[b-1].r; b-- {
			rs[b], rs[b-1] = rs[b-1], rs[b]
		}
	}
	for _, x := range rs {
		order = append(order, strconv.Itoa(x.i))
	}
	o.lhs = "all " + strconv.Itoa(n) + " " + p.token() + " " + hlib.Join(order, ",")
	if n > 0 {
		o.lhs += " " + strings.Join(outs, " ")
	}
	if hung {
		o.rhs = "hang"
		return
	}
	if panicked {
		o.rhs = "panic"
		return
	}
	r1 := make([]string, len(res))
	for i, v := range res {
		r1[i] = strconv.Itoa(v)
	}
	e1 := make([]string, len(errs))
	for i, e := range errs {
		e1[i] = strconv.Itoa(errCode(e))
	}
	f := string(flags)
	if n == 0 {
		f = "-"
	}
	o.rhs = hlib.Join(r1, ",") + " " + hlib.Join(e1, ",") + " " + f
	return
}

func main() {
	r := hlib.Start()
	r.Rule = "one case = one call of promise.All with 0..16 tasks; per task: delay 0..400us, value (0 = zero value included), error / both value and error, ctx-ignoring or ctx-respecting; cancellation never / before the call / after 0..500us / deadline; non-trivial = n >= 1 (distinct plan)"
	rng := hlib.NewRng(r.Seed)
	if r.Replay != "" {
		for _, t := range r.ReplayLines() {
			if t[0] != "all" {
				continue
			}
			p := parsePlan(t[2])
			for k := 0; k < 50; k++ {
				o := runPlan(p)
				r.Emit(o.lhs, o.rhs)
			}
		}
		r.Finish()
		return
	}
	ncase := 4000
	if r.Thorough() {
		ncase = 120000
	}
	plans := make([]plan, ncase)
	for c := range plans {
		var p plan
		n := rng.Intn(17)
		if c < 17 {
			n = c
		}
		maxd := []int{0, 20, 100, 400}[rng.Intn(4)]
		p.cancel = []int{0, 0, 1, 2, 2, 3}[rng.Intn(6)]
		p.cancelUs = rng.Intn(maxd + 100)
		for i := 0; i < n; i++ {
			t := task{delayUs: rng.Intn(maxd + 1), mode: rng.Intn(3)}
			switch rng.Intn(6) {
			case 0:
				t.val = 0 // zero value as a legitimate result
			case 1:
				t.err = 1 + rng.Intn(5)
			case 2:
				t.val, t.err = 1+rng.Intn(1000), 1+rng.Intn(5) // value AND error: only the error is kept
			default:
				t.val = 1 + rng.Intn(1_000_000)
			}
			p.tasks = append(p.tasks, t)
		}
		plans[c] = p
	}
	outs := make([]outcome, ncase)
	var wg sync.WaitGroup
	var next atomic.Int64
	for w := 0; w < 8; w++ {
		wg.Add(1)
		go func() {
			defer wg.Done()
			for {
				c := int(next.Add(1)) - 1
				if c >= ncase {
					return
				}
				outs[c] = runPlan(plans[c])
			}
		}()
	}
	wg.Wait()
	for c, o := range outs {
		r.Emit(o.lhs, o.rhs)
		p := plans[c]
		if len(p.tasks) == 0 {
			r.Case("")
		} else {
			r.Case(p.token())
		}
		r.Count("tasks=" + strconv.Itoa(len(p.tasks)))
		r.Count("cancel=" + []string{"never", "before", "during", "deadline"}[p.cancel])
		if strings.Contains(o.lhs, ":9") {
			r.Count("some-task-saw-cancellation")
		}
		if o.rhs == "panic" {
			r.Count("panic")
		}
	}
	r.Finish()
}
