import SpecterModel.C32.Model
import SpecterModel.C31.Props
/-!
# C32 — Client certificates carry a stable identity that only the key holder can renew

* `extract_makeV2`, `issued_subject_parses` — every subject built by `MakeSubjectV2` yields the identity (token = whole subject, id, v2), no panic
* `extract_makeV1`, `v1_token_roundtrip` — every subject built by `MakeSubjectV1` yields (the WHOLE legacy token, id, v1), separators inside the token included
* `issued_extract_ok`, `issued_identity_unique` — over all issued subjects (v1 or v2) the identity is a function of, and unique to, the subject
* `token_injective`, `identity_bound_to_key` — the token determines id and `b64(sha256 pubkey)`; with injective base64 it determines the key hash
* `request_identity` — what `RequestCertificate` issues
* `renew_iff` — exact success condition of `RenewCertificate`; `renew_preserves_identity`, `v1_rejected`, `foreign_ca_rejected`,
  `key_mismatch_rejected`, `bad_proof_rejected`
* trust pool (the `ClientCA` chain): `renewChain_iff` — renewal succeeds exactly when the presented certificate verifies under
  element 0 of the chain (the client CA itself) and the `renew_iff` conditions hold; `renewChain_tail_irrelevant` — certificates
  bundled behind the client CA never influence the outcome; `bundled_parent_rejected` — a certificate that chains to ANY bundled
  certificate other than the client CA is refused; `renewChain_single`, `renewChain_preserves_identity`
-/
namespace Specter.C32
open Specter.C31 (Bytes dec parseNat join colon parseNat_dec dec_digits isDigit colon_not_digit)

theorem cut_append (sep : Nat) (p rest : Bytes) (h : sep ∉ p) : cut sep (p ++ sep :: rest) = (p, some rest) := by
  induction p with
  | nil => simp [cut]
  | cons c cs ih =>
    have hc : c ≠ sep := fun e => h (by simp [e])
    have hcs : sep ∉ cs := fun m => h (by simp [m])
    simp [cut, hc, ih hcs]

theorem splitN3_join (a b c : Bytes) (ha : colon ∉ a) (hb : colon ∉ b) : splitN3 (join colon [a, b, c]) = [a, b, c] := by
  simp only [join, splitN3]
  rw [cut_append colon a _ ha]; simp only
  rw [cut_append colon b _ hb]

theorem dec_injective (a b : Nat) (h : dec a = dec b) : a = b := by
  have ha := parseNat_dec a; rw [h, parseNat_dec b] at ha; exact (Option.some.inj ha).symm

theorem v2_nocolon : colon ∉ v2 := by decide
theorem v1_nocolon : colon ∉ v1 := by decide

theorem parseUint64_dec (id : Nat) (h : id < 2^64) : parseUint64 (dec id) = some id := by
  simp [parseUint64, parseNat_dec, h]

/-- Every subject made by `MakeSubjectV2` (id a uint64) is parsed back: token = the whole subject, same id, version 2. -/
theorem extract_makeV2 (b64 : Bytes → Bytes) (id : Nat) (hid : id < 2^64) (hash : Bytes) :
    extract (makeSubjectV2 b64 id hash) =
      .ok { token := makeSubjectV2 b64 id hash, id := id, version := .v2 } := by
  unfold extract
  rw [show splitN3 (makeSubjectV2 b64 id hash) = [v2, dec id, b64 hash] from
    splitN3_join _ _ _ v2_nocolon (colon_not_digit id)]
  have h12 : v2 ≠ v1 := by decide
  simp [parseUint64_dec id hid, h12]

/-- the `util.Must` panic is unreachable for CA-issued (MakeSubjectV2) subjects -/
theorem issued_subject_parses (b64 : Bytes → Bytes) (id : Nat) (hid : id < 2^64) (hash : Bytes) :
    extract (makeSubjectV2 b64 id hash) ≠ .panic := by
  rw [extract_makeV2 b64 id hid hash]; intro h; cases h

/-- Every subject made by `MakeSubjectV1` (id a uint64, ANY legacy token — it may itself contain the separator) is parsed
back to exactly that token, that id, version 1: only the first two separators delimit fields. -/
theorem extract_makeV1 (id : Nat) (hid : id < 2^64) (tok : Bytes) :
    extract (makeSubjectV1 id tok) = .ok { token := tok, id := id, version := .v1 } := by
  unfold extract
  rw [show splitN3 (makeSubjectV1 id tok) = [v1, dec id, tok] from
    splitN3_join _ _ _ v1_nocolon (colon_not_digit id)]
  simp [parseUint64_dec id hid]

/-- the subjects the statement quantifies over: built by `MakeSubjectV1` / `MakeSubjectV2` with a uint64 id -/
inductive Issued (b64 : Bytes → Bytes) : Bytes → Prop
  | v1 (id : Nat) (hid : id < 2^64) (tok : Bytes) : Issued b64 (makeSubjectV1 id tok)
  | v2 (id : Nat) (hid : id < 2^64) (hash : Bytes) : Issued b64 (makeSubjectV2 b64 id hash)

/-- every issued subject yields an identity (no error, no panic) -/
theorem issued_extract_ok (b64 : Bytes → Bytes) (s : Bytes) (h : Issued b64 s) : ∃ i, extract s = .ok i := by
  cases h with
  | v1 id hid tok => exact ⟨_, extract_makeV1 id hid tok⟩
  | v2 id hid hash => exact ⟨_, extract_makeV2 b64 id hid hash⟩

/-- **The identity is unique to the subject**: two issued subjects (v1 or v2, any tokens — separators inside a legacy
token included) with the same extracted identity are the same subject. -/
theorem issued_identity_unique (b64 : Bytes → Bytes) (s s' : Bytes) (h : Issued b64 s) (h' : Issued b64 s')
    (e : extract s = extract s') : s = s' := by
  cases h with
  | v1 id hid tok =>
    cases h' with
    | v1 id' hid' tok' =>
      rw [extract_makeV1 id hid tok, extract_makeV1 id' hid' tok'] at e
      simp at e; rw [e.1, e.2]
    | v2 id' hid' hash' =>
      rw [extract_makeV1 id hid tok, extract_makeV2 b64 id' hid' hash'] at e
      simp at e
  | v2 id hid hash =>
    cases h' with
    | v1 id' hid' tok' =>
      rw [extract_makeV2 b64 id hid hash, extract_makeV1 id' hid' tok'] at e
      simp at e
    | v2 id' hid' hash' =>
      rw [extract_makeV2 b64 id hid hash, extract_makeV2 b64 id' hid' hash'] at e
      simp at e; exact e.1

/-- legacy tokens sharing a prefix up to a separator stay distinct: the v1 token is the WHOLE third field -/
theorem v1_token_roundtrip (id : Nat) (hid : id < 2^64) (tok : Bytes) (i : Identity)
    (h : extract (makeSubjectV1 id tok) = .ok i) : makeSubjectV1 i.id i.token = makeSubjectV1 id tok ∧ i.version = .v1 := by
  rw [extract_makeV1 id hid tok] at h; cases h; exact ⟨rfl, rfl⟩

/-- A v2 identity's token is the certificate subject itself: tokens coincide exactly when subjects do. -/
theorem v2_token_is_subject (cn : Bytes) (i : Identity) (h : extract cn = .ok i) (hv : i.version = .v2) : i.token = cn := by
  unfold extract at h
  split at h
  · split at h
    · split at h
      · cases h; cases hv
      · cases h
    · split at h
      · split at h
        · cases h; rfl
        · cases h
      · cases h
  · cases h

/-- The token determines the id and the encoded key hash. -/
theorem token_injective (b64 : Bytes → Bytes) (id id' : Nat) (h h' : Bytes)
    (e : makeSubjectV2 b64 id h = makeSubjectV2 b64 id' h') : id = id' ∧ b64 h = b64 h' := by
  have s1 := splitN3_join v2 (dec id) (b64 h) v2_nocolon (colon_not_digit id)
  have s2 := splitN3_join v2 (dec id') (b64 h') v2_nocolon (colon_not_digit id')
  unfold makeSubjectV2 at e
  rw [e, s2] at s1
  simp at s1
  exact ⟨(dec_injective _ _ s1.1).symm, s1.2.symm⟩

/-- With an injective base64 the token is bound to the SHA-256 of the proof-of-work key. -/
theorem identity_bound_to_key (sha b64 : Bytes → Bytes) (hinj : ∀ x y, b64 x = b64 y → x = y) (id id' : Nat) (pub pub' : Bytes)
    (e : makeSubjectV2 b64 id (sha pub) = makeSubjectV2 b64 id' (sha pub')) : id = id' ∧ sha pub = sha pub' := by
  have := token_injective b64 id id' _ _ e
  exact ⟨this.1, hinj _ _ this.2⟩

/-- `RequestCertificate` issues only after a valid proof, for the proof's key, with the v2 subject derived from that key. -/
theorem request_identity (sha b64 : Bytes → Bytes) (powRes : C31.Res) (pub : Bytes) (id : Nat) (hid : id < 2^64) (c : Cert)
    (h : request sha b64 powRes pub id = .issued c) :
    powRes = .ok ∧ c.key = pub ∧ c.cn = makeSubjectV2 b64 id (sha pub) ∧
      extract c.cn = .ok { token := c.cn, id := id, version := .v2 } := by
  unfold request at h
  by_cases hp : powRes = .ok
  · rw [if_neg (fun x => x hp)] at h; cases h
    exact ⟨hp, rfl, rfl, extract_makeV2 b64 id hid (sha pub)⟩
  · rw [if_pos hp] at h; cases h

/-- **Exact success condition of `RenewCertificate`.** -/
theorem renew_iff (derEmpty parseOK caVerified : Bool) (cn : Bytes) (powRes : C31.Res) (powKey : Bytes)
    (certKey : Option Bytes) (c : Cert) :
    renew derEmpty parseOK caVerified cn powRes powKey certKey = .ok c ↔
      derEmpty = false ∧ parseOK = true ∧ caVerified = true ∧ (∃ i, extract cn = .ok i ∧ i.version = .v2) ∧
      powRes = .ok ∧ certKey = some powKey ∧ c = { cn := cn, key := powKey } := by
  unfold renew
  cases derEmpty <;> cases parseOK <;> cases caVerified <;> simp
  cases he : extract cn with
  | format => simp
  | unknown => simp
  | panic => simp
  | ok ident =>
    simp only [ExtractRes.ok.injEq, exists_eq_left']
    cases hv : ident.version with
    | v1 => simp
    | v2 =>
      simp only [reduceCtorEq, if_false, true_and]
      by_cases hp : powRes = .ok
      case neg => simp [hp]
      cases certKey with
      | none => simp [hp]
      | some k =>
        by_cases hk : powKey = k
        · subst hk; simp [hp]; exact ⟨fun h => h.symm, fun h => h.symm⟩
        · simp [hp, hk]; intro h; exact absurd h.symm hk

/-- A renewed certificate keeps the exact subject, the key, and therefore the identity. -/
theorem renew_preserves_identity (derEmpty parseOK caVerified : Bool) (cn : Bytes) (powRes : C31.Res) (powKey : Bytes)
    (certKey : Option Bytes) (c : Cert) (h : renew derEmpty parseOK caVerified cn powRes powKey certKey = .ok c) :
    c.cn = cn ∧ certKey = some c.key ∧ extract c.cn = extract cn := by
  obtain ⟨_, _, _, _, _, hk, hc⟩ := (renew_iff _ _ _ _ _ _ _ _).mp h
  subst hc; exact ⟨rfl, hk, rfl⟩

theorem foreign_ca_rejected (cn : Bytes) (powRes : C31.Res) (powKey : Bytes) (certKey : Option Bytes) :
    renew false true false cn powRes powKey certKey = .error .notOurCA := by simp [renew]

theorem v1_rejected (cn : Bytes) (i : Identity) (he : extract cn = .ok i) (hv : i.version = .v1)
    (powRes : C31.Res) (powKey : Bytes) (certKey : Option Bytes) :
    renew false true true cn powRes powKey certKey = .error .v1 := by simp [renew, he, hv]

theorem bad_proof_rejected (cn : Bytes) (i : Identity) (he : extract cn = .ok i) (hv : i.version = .v2)
    (powRes : C31.Res) (hp : powRes ≠ .ok) (powKey : Bytes) (certKey : Option Bytes) :
    renew false true true cn powRes powKey certKey = .error (.pow powRes) := by simp [renew, he, hv, hp]

theorem key_mismatch_rejected (cn : Bytes) (i : Identity) (he : extract cn = .ok i) (hv : i.version = .v2)
    (powKey k : Bytes) (hk : powKey ≠ k) :
    renew false true true cn .ok powKey (some k) = .error .keyMismatch := by simp [renew, he, hv, hk]

/-! ## the trust pool: only `ClientCA.Certificate[0]` is a trust anchor -/

/-- With a one-certificate `ClientCA` (the configuration of the repository's tests) `renewChain` is `renew`. -/
theorem renewChain_single (derEmpty parseOK b : Bool) (cn : Bytes) (powRes : C31.Res) (powKey : Bytes) (certKey : Option Bytes) :
    renewChain derEmpty parseOK [some b] cn powRes powKey certKey =
      liftRenew (renew derEmpty parseOK b cn powRes powKey certKey) := by
  cases derEmpty
  · cases parseOK
    · simp [renewChain, renew, liftRenew]
    · simp [renewChain, trustVerdict]
  · simp [renewChain, renew, liftRenew]

/-- Whatever is bundled behind the client CA in `ClientCA.Certificate` (its issuer, the root, an unrelated certificate, garbage,
any number of them) has no influence on `RenewCertificate`. -/
theorem renewChain_tail_irrelevant (derEmpty parseOK : Bool) (e : ChainElem) (t t' : List ChainElem) (cn : Bytes)
    (powRes : C31.Res) (powKey : Bytes) (certKey : Option Bytes) :
    renewChain derEmpty parseOK (e :: t) cn powRes powKey certKey =
      renewChain derEmpty parseOK (e :: t') cn powRes powKey certKey := by
  cases e <;> simp [renewChain, trustVerdict]

/-- **Exact success condition over the whole `ClientCA` chain**: the presented certificate must verify with the FIRST chain
element (the client CA) as the only root; verifying under any later element does not help. -/
theorem renewChain_iff (derEmpty parseOK : Bool) (chain : List ChainElem) (cn : Bytes) (powRes : C31.Res) (powKey : Bytes)
    (certKey : Option Bytes) (c : Cert) :
    renewChain derEmpty parseOK chain cn powRes powKey certKey = .ok c ↔
      derEmpty = false ∧ parseOK = true ∧ chain.head? = some (some true) ∧ (∃ i, extract cn = .ok i ∧ i.version = .v2) ∧
      powRes = .ok ∧ certKey = some powKey ∧ c = { cn := cn, key := powKey } := by
  unfold renewChain
  cases derEmpty <;> cases parseOK <;> simp
  match chain with
  | [] => simp [trustVerdict]
  | none :: _ => simp [trustVerdict]
  | some b :: _ =>
    simp only [trustVerdict, liftRenew, List.head?_cons, Option.some.injEq]
    have hr := renew_iff false true b cn powRes powKey certKey c
    cases h : renew false true b cn powRes powKey certKey with
    | ok c' =>
      rw [h] at hr
      simp only [Except.ok.injEq]
      constructor
      · intro e; have := hr.mp (by rw [e]); exact ⟨this.2.2.1, this.2.2.2⟩
      · intro ⟨hb, rest⟩; exact Except.ok.inj (hr.mpr ⟨rfl, rfl, hb, rest⟩)
    | error e =>
      rw [h] at hr
      simp only [reduceCtorEq, false_iff]
      intro ⟨hb, rest⟩; exact absurd (hr.mpr ⟨rfl, rfl, hb, rest⟩) (by simp)

/-- A certificate that does not verify under the client CA is refused with "not issued by this CA" — even when it verifies
under certificates bundled behind the client CA (`t` is arbitrary: it may contain `some true`). -/
theorem bundled_parent_rejected (t : List ChainElem) (cn : Bytes) (powRes : C31.Res) (powKey : Bytes) (certKey : Option Bytes) :
    renewChain false true (some false :: t) cn powRes powKey certKey = .error (.renew .notOurCA) := by
  simp [renewChain, trustVerdict, renew, liftRenew]

/-- A renewed certificate keeps subject, key and identity, and the presented one was verified by the client CA itself. -/
theorem renewChain_preserves_identity (derEmpty parseOK : Bool) (chain : List ChainElem) (cn : Bytes) (powRes : C31.Res)
    (powKey : Bytes) (certKey : Option Bytes) (c : Cert)
    (h : renewChain derEmpty parseOK chain cn powRes powKey certKey = .ok c) :
    chain.head? = some (some true) ∧ c.cn = cn ∧ certKey = some c.key ∧ extract c.cn = extract cn := by
  obtain ⟨_, _, hh, _, _, hk, hc⟩ := (renewChain_iff _ _ _ _ _ _ _ _).mp h
  subst hc; exact ⟨hh, rfl, hk, rfl⟩

/-! ## non-vacuity -/
def b64I : Bytes → Bytes := fun x => x.map (· % 10 + 65)
def cnEx : Bytes := makeSubjectV2 b64I 42 [1, 2, 3]     -- "v2:42:BCD"
example : extract cnEx = .ok { token := cnEx, id := 42, version := .v2 } := extract_makeV2 b64I 42 (by omega) _
example : extract (makeSubjectV1 7 [120, 58, 121]) = .ok { token := [120, 58, 121], id := 7, version := .v1 } := by
  rw [makeSubjectV1, C31.dec_small 7 (by omega)]; decide
-- "v1:7:x:y" and "v1:7:x:z": tokens share the prefix up to the separator, identities stay distinct
example : extract (makeSubjectV1 7 [120, 58, 121]) ≠ extract (makeSubjectV1 7 [120, 58, 122]) := fun e => by
  have := issued_identity_unique b64I _ _ (.v1 7 (by omega) _) (.v1 7 (by omega) _) e
  rw [makeSubjectV1, makeSubjectV1, C31.dec_small 7 (by omega)] at this; revert this; decide
example : ∃ i, extract (makeSubjectV1 7 [58, 58]) = .ok i := issued_extract_ok b64I _ (.v1 7 (by omega) _)
example : makeSubjectV1 (⟨[120, 58, 121], 7, .v1⟩ : Identity).id [120, 58, 121] = makeSubjectV1 7 [120, 58, 121] :=
  (v1_token_roundtrip 7 (by omega) [120, 58, 121] ⟨[120, 58, 121], 7, .v1⟩ (extract_makeV1 7 (by omega) _)).1
example : extract [118, 50, 58, 120, 58, 121] = .panic := by decide
example : extract [118, 51, 58, 49, 58, 121] = .unknown := by decide
example : extract [118, 50, 58, 49] = .format := by decide
example : renew false true true cnEx .ok [9] (some [9]) = .ok { cn := cnEx, key := [9] } :=
  (renew_iff _ _ _ _ _ _ _ _).mpr ⟨rfl, rfl, rfl, ⟨_, extract_makeV2 b64I 42 (by omega) _, rfl⟩, rfl, rfl, rfl⟩
example : renew false true true cnEx .ok [9] (some [8]) = .error .keyMismatch :=
  key_mismatch_rejected _ _ (extract_makeV2 b64I 42 (by omega) _) rfl _ _ (by decide)
-- client CA is an intermediate, its root is bundled: issued by the client CA → renewed; issued by the bundled root → refused
example : renewChain false true [some true, some false] cnEx .ok [9] (some [9]) = .ok { cn := cnEx, key := [9] } :=
  (renewChain_iff _ _ _ _ _ _ _ _).mpr ⟨rfl, rfl, rfl, ⟨_, extract_makeV2 b64I 42 (by omega) _, rfl⟩, rfl, rfl, rfl⟩
example : renewChain false true [some false, some true] cnEx .ok [9] (some [9]) = .error (.renew .notOurCA) :=
  bundled_parent_rejected _ _ _ _ _
example : renewChain false true [some false, none, some true] cnEx .ok [9] (some [9]) =
    renewChain false true [some false] cnEx .ok [9] (some [9]) := renewChain_tail_irrelevant _ _ _ _ _ _ _ _ _
example : renewChain false true [] cnEx .ok [9] (some [9]) = .error .noChain := by simp [renewChain, trustVerdict]
example : renewChain false true [none, some true] cnEx .ok [9] (some [9]) = .error .caUnparsable := by
  simp [renewChain, trustVerdict]
example : request (fun x => x) b64I .ok [1, 2, 3] 42 = .issued { cn := cnEx, key := [1, 2, 3] } := by
  simp [request, cnEx]
example : makeSubjectV2 b64I 42 [1, 2, 3] ≠ makeSubjectV2 b64I 43 [1, 2, 3] := fun e => by
  have := (token_injective _ _ _ _ _ e).1; omega

end Specter.C32
