import SpecterModel.C02.Props
import SpecterModel.C06.Props
/-!
# C02 / C03 / C05 — the inductive step for a graceful departure

What a completed `Leave()` does to a stable quiescent ring (every ring size ≥ 2, every id layout,
including the two-member ring where predecessor = successor).

Result in one paragraph. `Leave()` ALONE does not give back a `Stable` ring — neither in the model nor in
the code it mirrors: the advisory `FinishLeave(stabilize)` reaches the predecessor while the leaver is still
`Leaving` and therefore still answers, so the predecessor keeps the leaver as first successor, and nobody
tells the successor to drop its predecessor pointer (`leave_breaks_stable`; a lookup then even returns the
departed node: `leave_lookup_returns_departed`). Exactly these two pointers are off (`leave_partial`), and
ONE further `stabilize` tick of the predecessor repairs both (its `Notify` makes the successor adopt it):
`leave_then_stabilize_partial` gives the predecessor/successor clauses of `Stable`, quiescence and the
membership "old minus leaver"; fingers are live members or the leaver (`FingersOr`) — if none names the
leaver the ring is `Stable` (`leave_then_stabilize_stable`); otherwise lookups are still never wrong but may
fail with `ErrNodeGone` (`lookup_after_leave_partial`, `lookup_tolerates_stale`). The leaver's data is at
its successor, the new owner (`leave_conserves`). Useful on its own: a `fixFinger` pass keeps a stable ring
stable (`fixFinger_keeps_stable`).

Proof architecture: `leave_shape` describes the net after the leave node by node as `Option.map (tr …)` of
the net before (`Shape`), following the seven steps of the code (locks, transfer, surrogate, advisory
stabilize + fixFinger, Left, release); `repair_shape` adds the predecessor's next `stabilize` (`rep`).
-/
namespace Specter.C02.Leave
open Specter.Ring Specter.C01 Specter.C03 Specter.C05 Specter.C06

/-! ### what `Mem` / `Stable` read of a node -/

/-- the part of a node that membership and stability depend on -/
def pview (x : Node) : Bool × Option Nat × Option Nat × List (Option Nat) :=
  ((checkNodeState x false).isNone, x.pred, x.succs.head?, x.fingers)

theorem view_some (a b : Net) (h : ∀ m, (b.get m).map pview = (a.get m).map pview) (m : Nat) (x : Node)
    (hx : b.get m = some x) : ∃ y, a.get m = some y ∧ pview x = pview y := by
  have := h m
  cases h2 : a.get m with
  | none => simp [hx, h2] at this
  | some y => simp [hx, h2] at this; exact ⟨y, rfl, this⟩

theorem live_of_pview (x y : Node) (h : pview x = pview y) (hc : checkNodeState x false = none) :
    checkNodeState y false = none := by
  have : (checkNodeState x false).isNone = (checkNodeState y false).isNone := congrArg (·.1) h
  rw [hc] at this
  exact Option.isNone_iff_eq_none.mp this.symm

theorem mem_congr (a b : Net) (h : ∀ m, (b.get m).map pview = (a.get m).map pview) (m : Nat) :
    Mem b m ↔ Mem a m := by
  constructor
  · rintro ⟨x, hx, hc⟩
    obtain ⟨y, hy, e⟩ := view_some a b h m x hx
    exact ⟨y, hy, live_of_pview x y e hc⟩
  · rintro ⟨x, hx, hc⟩
    obtain ⟨y, hy, e⟩ := view_some b a (fun m => (h m).symm) m x hx
    exact ⟨y, hy, live_of_pview x y e hc⟩

/-- `Stable` only depends on liveness, predecessor, first successor and fingers of every node -/
theorem stable_congr (a b : Net) (h : ∀ m, (b.get m).map pview = (a.get m).map pview) (hs : Stable a) :
    Stable b := by
  have memeq := mem_congr a b h
  constructor
  · intro m hm; exact hs.lt m ((memeq m).mp hm)
  · intro m x hx hcx
    obtain ⟨y, hy, e⟩ := view_some a b h m x hx
    obtain ⟨p, hp, hpm, hmin⟩ := hs.pred m y hy (live_of_pview x y e hcx)
    have e2 : x.pred = y.pred := congrArg (·.2.1) e
    exact ⟨p, by rw [e2]; exact hp, (memeq p).mpr hpm, fun q hq' => hmin q ((memeq q).mp hq')⟩
  · intro m x hx hcx
    obtain ⟨y, hy, e⟩ := view_some a b h m x hx
    obtain ⟨s, hsu, hsm, hmin⟩ := hs.succ m y hy (live_of_pview x y e hcx)
    have e3 : x.succs.head? = y.succs.head? := congrArg (·.2.2.1) e
    exact ⟨s, by rw [e3]; exact hsu, (memeq s).mpr hsm, fun q hq' => hmin q ((memeq q).mp hq')⟩
  · intro m x hx hcx f hf
    obtain ⟨y, hy, e⟩ := view_some a b h m x hx
    have e4 : x.fingers = y.fingers := congrArg (·.2.2.2) e
    exact (memeq f).mpr (hs.fingers m y hy (live_of_pview x y e hcx) f (by rw [← e4]; exact hf))

/-! ### finger repair keeps a stable ring stable -/

theorem found_is_member (net : Net) (hs : Stable net) (n key f : Nat) (fuel : Nat) (hn : Mem net n) (hk : key < M)
    (h : findSucc net fuel n key = .found f) : IsOwner net key f := by
  obtain ⟨fuel', o, hres, ho⟩ := lookup_correct net hs n key hn hk
  have := found_unique net n key fuel fuel' f o h hres
  rw [this]; exact ho

theorem moduloSum_lt (x y : Nat) : moduloSum x y < M := by
  unfold moduloSum; exact Nat.mod_lt _ (by simp [M])

theorem fixK_cases (net : Net) (n k : Nat) :
    fixK net n k = net ∨
    ∃ f, findSucc net FUEL n (moduloSum n (2^(k-1))) = .found f ∧
      fixK net n k = net.upd n (fun nd => { nd with fingers := nd.fingers.set (k-1) (some f) }) := by
  unfold fixK
  cases h : findSucc net FUEL n (moduloSum n (2^(k-1))) with
  | found f => right; exact ⟨f, rfl, rfl⟩
  | err e => left; rfl

/-- the nets that differ from `net` only in the finger table of `n`, all fingers members -/
def FingersSwapped (net cur : Net) (n : Nat) : Prop :=
  ∃ F : List (Option Nat), (∀ f, some f ∈ F → Mem net f) ∧
    ∀ m, cur.get m = if m = n then (net.get n).map (fun x => { x with fingers := F }) else net.get m

theorem fingersSwapped_stable (net cur : Net) (n : Nat) (hs : Stable net) (h : FingersSwapped net cur n) :
    Stable cur ∧ ∀ m, Mem cur m ↔ Mem net m := by
  obtain ⟨F, hF, hget⟩ := h
  have memeq : ∀ m, Mem cur m ↔ Mem net m := by
    intro m
    unfold Mem
    rw [hget m]
    by_cases e : m = n
    · subst e
      cases hg : net.get m with
      | none => simp
      | some x => simp [checkNodeState]
    · simp [e]
  refine ⟨?_, memeq⟩
  constructor
  · intro m hm; exact hs.lt m ((memeq m).mp hm)
  · intro m x hx hcx
    rw [hget m] at hx
    by_cases e : m = n
    · subst e
      cases hg : net.get m with
      | none => simp [hg] at hx
      | some y =>
        simp [hg] at hx; subst hx
        obtain ⟨p, hp, hpm, hmin⟩ := hs.pred m y hg (by simpa [checkNodeState] using hcx)
        exact ⟨p, hp, (memeq p).mpr hpm, fun q hq' => hmin q ((memeq q).mp hq')⟩
    · simp [e] at hx
      obtain ⟨p, hp, hpm, hmin⟩ := hs.pred m x hx hcx
      exact ⟨p, hp, (memeq p).mpr hpm, fun q hq' => hmin q ((memeq q).mp hq')⟩
  · intro m x hx hcx
    rw [hget m] at hx
    by_cases e : m = n
    · subst e
      cases hg : net.get m with
      | none => simp [hg] at hx
      | some y =>
        simp [hg] at hx; subst hx
        obtain ⟨s, hsu, hsm, hmin⟩ := hs.succ m y hg (by simpa [checkNodeState] using hcx)
        exact ⟨s, hsu, (memeq s).mpr hsm, fun q hq' => hmin q ((memeq q).mp hq')⟩
    · simp [e] at hx
      obtain ⟨s, hsu, hsm, hmin⟩ := hs.succ m x hx hcx
      exact ⟨s, hsu, (memeq s).mpr hsm, fun q hq' => hmin q ((memeq q).mp hq')⟩
  · intro m x hx hcx f hf
    rw [hget m] at hx
    by_cases e : m = n
    · subst e
      cases hg : net.get m with
      | none => simp [hg] at hx
      | some y =>
        simp [hg] at hx; subst hx
        exact (memeq f).mpr (hF f hf)
    · simp [e] at hx
      exact (memeq f).mpr (hs.fingers m x hx hcx f hf)

theorem fixK_swapped (net cur : Net) (n k : Nat) (hs : Stable net) (hn : Mem net n)
    (h : FingersSwapped net cur n) : FingersSwapped net (fixK cur n k) n := by
  obtain ⟨hsc, memeq⟩ := fingersSwapped_stable net cur n hs h
  rcases fixK_cases cur n k with e | ⟨f, hf, e⟩
  · rw [e]; exact h
  · rw [e]
    have hfm : Mem net f :=
      (memeq f).mp (found_is_member cur hsc n _ f FUEL ((memeq n).mpr hn) (moduloSum_lt _ _) hf).1
    obtain ⟨F, hF, hget⟩ := h
    refine ⟨F.set (k-1) (some f), ?_, ?_⟩
    · intro g hg
      rcases List.mem_or_eq_of_mem_set hg with h1 | h1
      · exact hF g h1
      · injection h1 with h1; rw [h1]; exact hfm
    · intro m
      rw [get_upd]
      by_cases e : m = n
      · subst e
        simp only [if_true]
        rw [hget m]; simp only [if_true]
        cases net.get m <;> simp
      · simp only [e, if_false]; rw [hget m]; simp [e]

/-- **Finger repair keeps stability.** On a stable ring a whole `fixFinger` pass at a member only
rewrites that member's finger table, and every finger it leaves is a live member. -/
theorem fixFinger_swapped (net : Net) (n : Nat) (hs : Stable net) (hn : Mem net n) :
    FingersSwapped net (fixFinger net n) n := by
  unfold fixFinger
  have init : FingersSwapped net net n := by
    obtain ⟨x, hx, hc⟩ := hn
    refine ⟨x.fingers, fun f hf => hs.fingers n x hx hc f hf, fun m => ?_⟩
    by_cases e : m = n
    · subst e; simp [hx]
    · simp [e]
  generalize List.range 48 = ks
  have : ∀ (ks : List Nat) (cur : Net), FingersSwapped net cur n →
      FingersSwapped net (ks.foldl (fun net i => fixK net n (i+1)) cur) n := by
    intro ks
    induction ks with
    | nil => intro cur h; exact h
    | cons k ks ih => intro cur h; exact ih _ (fixK_swapped net cur n (k+1) hs hn h)
  exact this ks net init

theorem fixFinger_keeps_stable (net : Net) (n : Nat) (hs : Stable net) (hn : Mem net n) :
    Stable (fixFinger net n) :=
  (fingersSwapped_stable net _ n hs (fixFinger_swapped net n hs hn)).1

/-! ### the two ways `stabilize` goes around a departure -/

/-- `stabilize` at `n` whose first successor `s` is live and already points back at `n`: only the
successor list of `n` is refreshed (no hypothesis on lifecycle states: `s` may be Leaving). -/
theorem stabilize_live_head (net : Net) (n s : Nat) (nd nds : Node) (rest : List Nat)
    (hg : net.get n = some nd) (hl : nd.succs = s :: rest)
    (hgs : net.get s = some nds) (hcs : checkNodeState nds false = none) (hpn : nds.pred = some n) :
    stabilize net n =
      net.upd n (fun x => { x with succs := cutAfterSelf n (makeSuccList s nds.succs succEntries) }) := by
  have hgps : getPredSuccs net s = some (some n, nds.succs) := by
    unfold getPredSuccs; simp [hgs, hcs, hpn]
  have hbn : between n n s false = false := by unfold between; simp
  have hlist : stabilizeList net n (s :: rest) = some (makeSuccList s nds.succs succEntries) := by
    rw [stabilizeList]; simp [hgps, hbn]
  have hhead : (cutAfterSelf n (makeSuccList s nds.succs succEntries)).head? = some s :=
    cutAfterSelf_head n _ s (makeSuccList_head s nds.succs succEntries)
  unfold stabilize
  simp only [hg, hl, hlist, Option.map_some]
  simp only [hhead]
  have hnot : ∀ (net1 : Net), (∃ y, net1.get s = some y ∧ checkNodeState y false = none ∧ y.pred = some n) →
      notify net1 s n = net1 := by
    intro net1 ⟨y, h1, h2, h3⟩
    unfold notify
    simp [h1, h2, h3]
  split
  · apply hnot
    rw [get_upd]
    by_cases e : s = n
    · subst e
      rw [hg] at hgs; injection hgs with hgs; subst hgs
      exact ⟨{ nd with succs := cutAfterSelf s (makeSuccList s nd.succs succEntries) }, by simp [hg],
        by simpa [checkNodeState] using hcs, hpn⟩
    · exact ⟨nds, by simp [e, hgs], hcs, hpn⟩
  · rfl

/-- `stabilize` at `n` whose first successor `d` has departed (it no longer answers) and whose second
list entry `s` is live and still names `d` as predecessor: `n` adopts `s` and notifies it; `s`, finding
its old predecessor dead, adopts `n`. -/
theorem stabilize_dead_head (net : Net) (n d s : Nat) (nd nds : Node) (rest : List Nat)
    (hg : net.get n = some nd) (hcn : checkNodeState nd true = none) (hl : nd.succs = d :: s :: rest)
    (hdn : d ≠ n)
    (hgd : getPredSuccs net d = none) (hping : ping net d = false)
    (hgs : net.get s = some nds) (hcs : checkNodeState nds false = none) (hpd : nds.pred = some d)
    (hb : between n d s false = true) :
    stabilize net n =
      (net.upd n (fun x => { x with succs := cutAfterSelf n (makeSuccList s nds.succs succEntries) })).upd s
        (fun x => { x with surrogate := if n == s then none else some n, pred := some n }) := by
  have hgps : getPredSuccs net s = some (some d, nds.succs) := by
    unfold getPredSuccs; simp [hgs, hcs, hpd]
  have hlist : stabilizeList net n (d :: s :: rest) = some (makeSuccList s nds.succs succEntries) := by
    rw [stabilizeList]; simp only [hgd]
    rw [stabilizeList]; simp [hgps, hb, hgd]
  have hhead : (cutAfterSelf n (makeSuccList s nds.succs succEntries)).head? = some s :=
    cutAfterSelf_head n _ s (makeSuccList_head s nds.succs succEntries)
  unfold stabilize
  simp only [hg, hl, hlist, Option.map_some]
  simp only [hhead, hcn, Option.isNone_none, if_true]
  -- the notification
  have hnot : ∀ (net1 : Net), (∃ y, net1.get s = some y ∧ checkNodeState y false = none ∧ y.pred = some d) →
      ping net1 d = false →
      notify net1 s n = net1.upd s (fun x => { x with surrogate := if n == s then none else some n, pred := some n }) := by
    intro net1 ⟨y, h1, h2, h3⟩ hp
    unfold notify
    have : (d == n) = false := by simpa using hdn
    simp [h1, h2, h3, this, hp]
  apply hnot
  · rw [get_upd]
    by_cases e : s = n
    · subst e
      rw [hg] at hgs; injection hgs with hgs; subst hgs
      exact ⟨{ nd with succs := cutAfterSelf s (makeSuccList s nd.succs succEntries) }, by simp [hg],
        by simpa [checkNodeState] using hcs, hpd⟩
    · exact ⟨nds, by simp [e, hgs], hcs, hpd⟩
  · unfold ping at hping ⊢
    rw [get_upd_other _ _ _ _ hdn]; exact hping

/-! ### clockwise distance: additivity (keeps `omega` goals linear in `dist` atoms) -/

theorem dist_self (a : Nat) (ha : a < M) : dist a a = 0 := by
  have := dist_cases a a ha ha; omega

theorem dist_pos (a b : Nat) (ha : a < M) (hb : b < M) (h : a ≠ b) : 0 < dist a b := by
  have := dist_cases a b ha hb; have := M_val; omega

theorem dist_anti (a b : Nat) (ha : a < M) (hb : b < M) (h : a ≠ b) : dist a b + dist b a = M := by
  have := dist_cases a b ha hb; have := dist_cases b a hb ha; omega

theorem dist_add (a b c : Nat) (ha : a < M) (hb : b < M) (hc : c < M) :
    dist a b ≤ dist a c → dist a b + dist b c = dist a c := by
  have := dist_cases a b ha hb; have := dist_cases b c hb hc; have := dist_cases a c ha hc
  have := M_val; omega

/-! ### ring facts used below -/

/-- the true predecessor's first successor is the node itself (converse of `succ_pred_inverse`) -/
theorem pred_succ_inverse (net : Net) (hs : Stable net) (n p : Nat) (nd ndp : Node)
    (hg : net.get n = some nd) (hc : checkNodeState nd false = none) (hp : nd.pred = some p)
    (hgp : net.get p = some ndp) (hcp : checkNodeState ndp false = none) : ndp.succs.head? = some n := by
  obtain ⟨p', hp', hpm, hpmin⟩ := hs.pred n nd hg hc
  rw [hp] at hp'; injection hp' with hp'; subst hp'
  obtain ⟨s, hsu, hsm, hsmin⟩ := hs.succ p ndp hgp hcp
  have hn : Mem net n := ⟨nd, hg, hc⟩
  have hnM := hs.lt n hn; have hsM := hs.lt s hsm; have hpM := hs.lt p hpm
  have h1 := hpmin s hsm
  have h2 := hsmin n hn
  rw [hsu]; congr 1
  have := dist_cases p n hpM hnM; have := dist_cases p s hpM hsM; have := M_val
  omega

theorem makeSuccList_go_prefix (maxLen : Nat) : ∀ (cands acc : List Nat),
    ∃ r, makeSuccList.go maxLen acc cands = acc ++ r := by
  intro cands
  induction cands with
  | nil => intro acc; exact ⟨[], by simp [makeSuccList.go]⟩
  | cons c cs ih =>
    intro acc
    rw [makeSuccList.go]
    split
    · exact ⟨[], by simp⟩
    · split
      · exact ih acc
      · obtain ⟨r, hr⟩ := ih (acc ++ [c])
        exact ⟨c :: r, by rw [hr]; simp⟩

/-- the list a predecessor builds from a live successor `a` whose own first successor is `b ≠ a` -/
theorem makeSuccList_two (a b : Nat) (tl : List Nat) (hab : b ≠ a) :
    ∃ r, makeSuccList a (b :: tl) succEntries = a :: b :: r := by
  unfold makeSuccList
  rw [makeSuccList.go]
  have h1 : ¬ ([a].length ≥ succEntries) := by simp [succEntries]
  have h2 : [a].contains b = false := by simpa using hab
  simp only [h1, if_false, h2]
  obtain ⟨r, hr⟩ := makeSuccList_go_prefix succEntries tl ([a] ++ [b])
  exact ⟨r, by rw [hr]; simp⟩

theorem cutAfterSelf_two (n a b : Nat) (r : List Nat) (han : a ≠ n) :
    ∃ r', cutAfterSelf n (a :: b :: r) = a :: b :: r' := by
  have : (a == n) = false := by simpa using han
  by_cases hb : (b == n) = true
  · exact ⟨[], by simp [cutAfterSelf, this, hb]⟩
  · exact ⟨cutAfterSelf n r, by simp [cutAfterSelf, this, hb]⟩

theorem removeKeys_nil (st : List KEntry) : removeKeys st [] = st := by
  unfold removeKeys; simp

theorem importEntries_nil (st : List KEntry) : importEntries st [] = st := rfl

/-! ### the net during and after a leave, node by node -/

/-- Node `m` of the ring while / after `l` (predecessor `pre`, successor `succ`) leaves, as a function
of its node `x` before: `sl`, `ss` are the lifecycle states of leaver and successor, `mv` the entries
handed down, `sur` whether the leaver's surrogate is set, `L` / `F` the successor list / finger table
the predecessor rebuilt on the advisory. -/
def tr (l pre succ : Nat) (sl ss : St) (mv : List KEntry) (sur : Bool)
    (L : Option (List Nat)) (F : Option (List (Option Nat))) (m : Nat) (x : Node) : Node :=
  { x with
    state := if m = l then sl else if m = succ then ss else x.state
    store := if m = l then removeKeys x.store mv else if m = succ then importEntries x.store mv else x.store
    surrogate := if m = l ∧ sur = true then some l else x.surrogate
    succs := if m = pre then L.getD x.succs else x.succs
    fingers := if m = pre then F.getD x.fingers else x.fingers }

def Shape (net cur : Net) (T : Nat → Node → Node) : Prop := ∀ m, cur.get m = (net.get m).map (T m)

theorem shape_step (net cur cur' : Net) (T T' : Nat → Node → Node) (k : Nat) (f : Node → Node)
    (h : Shape net cur T)
    (hget : ∀ m, cur'.get m = if m = k then (cur.get k).map f else cur.get m)
    (hT : ∀ m x, net.get m = some x → T' m x = if m = k then f (T m x) else T m x) :
    Shape net cur' T' := by
  intro m
  rw [hget m]
  by_cases e : m = k
  · subst e; simp only [if_true]; rw [h m]
    cases hx : net.get m with
    | none => rfl
    | some x => simp [hT m x hx]
  · simp only [e, if_false]; rw [h m]
    cases hx : net.get m with
    | none => rfl
    | some x => simp [hT m x hx, e]

theorem shape_upd (net cur : Net) (T T' : Nat → Node → Node) (k : Nat) (f : Node → Node)
    (h : Shape net cur T)
    (hT : ∀ m x, net.get m = some x → T' m x = if m = k then f (T m x) else T m x) :
    Shape net (cur.upd k f) T' :=
  shape_step net cur _ T T' k f h (fun m => get_upd cur k m f) hT

/-- the situation of a leave: `l` is a live member of a stable quiescent ring with predecessor `pre ≠ l`
and successor `succ ≠ l` -/
structure Ctx (net : Net) (l pre succ : Nat) (nd ndp nds : Node) : Prop where
  hs : Stable net
  hq : Quiescent net
  hg : net.get l = some nd
  hc : checkNodeState nd false = none
  hp : nd.pred = some pre
  hsu : nd.succs.head? = some succ
  hpl : pre ≠ l
  hsl : succ ≠ l
  hgp : net.get pre = some ndp
  hcp : checkNodeState ndp false = none
  hgs : net.get succ = some nds
  hcs : checkNodeState nds false = none

theorem ctx_of (net : Net) (hs : Stable net) (hq : Quiescent net) (l : Nat) (hl : Mem net l)
    (hmore : ∃ m, Mem net m ∧ m ≠ l) : ∃ pre succ nd ndp nds, Ctx net l pre succ nd ndp nds := by
  obtain ⟨nd, hg, hc⟩ := hl
  obtain ⟨m, hm, hml⟩ := hmore
  obtain ⟨pre, hp, ⟨ndp, hgp, hcp⟩, hpmin⟩ := hs.pred l nd hg hc
  obtain ⟨succ, hsu, ⟨nds, hgs, hcs⟩, hsmin⟩ := hs.succ l nd hg hc
  exact ⟨pre, succ, nd, ndp, nds, hs, hq, hg, hc, hp, hsu, fun e => hml ((hpmin m hm).2 e),
    fun e => hml ((hsmin m hm).2 e), hgp, hcp, hgs, hcs⟩

namespace Ctx
variable {net : Net} {l pre succ : Nat} {nd ndp nds : Node}

theorem l_active (c : Ctx net l pre succ nd ndp nds) : nd.state = .active ∧ nd.crashed = false := c.hq.active l nd c.hg c.hc
theorem s_active (c : Ctx net l pre succ nd ndp nds) : nds.state = .active ∧ nds.crashed = false := c.hq.active succ nds c.hgs c.hcs
theorem p_active (c : Ctx net l pre succ nd ndp nds) : ndp.state = .active ∧ ndp.crashed = false := c.hq.active pre ndp c.hgp c.hcp
theorem s_pred (c : Ctx net l pre succ nd ndp nds) : nds.pred = some l :=
  succ_pred_inverse net c.hs l succ nd nds c.hg c.hc c.hsu c.hgs c.hcs
theorem p_succ (c : Ctx net l pre succ nd ndp nds) : ndp.succs.head? = some l :=
  pred_succ_inverse net c.hs l pre nd ndp c.hg c.hc c.hp c.hgp c.hcp

end Ctx

theorem requestToLeave_succeeds (net : Net) (s : Nat) (y : Node) (hg : net.get s = some y)
    (hup : y.crashed = false) (ha : y.state = .active) :
    requestToLeave net s = (net.upd s (fun nd => { nd with state := .transferring }), none) := by
  unfold requestToLeave; simp [hg, hup, ha]

theorem leaveLocks_succeeds (net : Net) (l succ : Nat) (nd nds : Node) (hls : l ≠ succ)
    (hg : net.get l = some nd) (ha : nd.state = .active)
    (hgs : net.get succ = some nds) (hups : nds.crashed = false) (has : nds.state = .active) :
    ∃ n1, leaveLocks net l succ = (n1, none) := by
  unfold leaveLocks
  by_cases hgt : l > succ
  · simp only [hgt, if_true]
    rw [requestToLeave_succeeds net succ nds hgs hups has]
    simp only [get_upd_other _ _ _ _ hls, hg, Option.map_some, ha]
    exact ⟨_, by simp; rfl⟩
  · simp only [hgt, if_false, hg, Option.map_some, ha]
    have hgs' : (net.upd l fun nd => { nd with state := .leaving }).get succ = some nds := by
      rw [get_upd_other _ _ _ _ (Ne.symm hls)]; exact hgs
    rw [requestToLeave_succeeds _ succ nds hgs' hups has]
    exact ⟨_, by simp; rfl⟩

section steps
variable {net : Net} {l pre succ : Nat} {nd ndp nds : Node}

/-- step 1: both membership locks are taken -/
theorem step_locks (c : Ctx net l pre succ nd ndp nds) :
    ∃ n1, leaveLocks net l succ = (n1, none) ∧
      Shape net n1 (tr l pre succ .leaving .transferring [] false none none) := by
  obtain ⟨n1, h1⟩ := leaveLocks_succeeds net l succ nd nds (Ne.symm c.hsl) c.hg c.l_active.1 c.hgs
    c.s_active.2 c.s_active.1
  refine ⟨n1, h1, ?_⟩
  obtain ⟨_, _, nds', hgs', _, _, hget⟩ := leaveLocks_ok net n1 l succ h1
  rw [c.hgs] at hgs'; injection hgs' with hgs'; subst hgs'
  intro m
  rw [hget m]
  by_cases e1 : m = l
  · subst e1; simp [c.hg, tr, removeKeys_nil]
  · by_cases e2 : m = succ
    · subst e2; simp [e1, c.hgs, tr, importEntries_nil]
    · simp only [e1, e2, if_false]
      cases hx : net.get m with
      | none => rfl
      | some x => simp [tr, e1, e2]

/-- step 2: everything the leaver holds is handed down to the successor -/
theorem step_transfer (c : Ctx net l pre succ nd ndp nds) (n1 : Net)
    (h1 : Shape net n1 (tr l pre succ .leaving .transferring [] false none none)) :
    ∃ n2, transferDown n1 l succ nd.store = some n2 ∧
      Shape net n2 (tr l pre succ .leaving .transferring (rangeKeys nd.store 0 0) false none none) := by
  unfold transferDown
  simp only
  by_cases hem : (rangeKeys nd.store 0 0).isEmpty = true
  · simp only [hem, if_true]
    rw [List.isEmpty_iff] at hem
    rw [hem]
    exact ⟨n1, rfl, h1⟩
  · simp only [hem]
    have hgs1 : n1.get succ = some (tr l pre succ .leaving .transferring [] false none none succ nds) := by
      rw [h1 succ, c.hgs]; rfl
    have himp : importAt n1 succ (rangeKeys nd.store 0 0) =
        some (n1.upd succ (fun x => { x with store := importEntries x.store (rangeKeys nd.store 0 0) })) := by
      unfold importAt
      simp [hgs1, tr, c.hsl, c.s_active.2]
    rw [himp]
    refine ⟨_, rfl, ?_⟩
    apply shape_upd net _ (fun m x => if m = succ then
        { (tr l pre succ .leaving .transferring [] false none none m x) with
          store := importEntries (tr l pre succ .leaving .transferring [] false none none m x).store (rangeKeys nd.store 0 0) }
        else tr l pre succ .leaving .transferring [] false none none m x)
    · exact shape_upd net n1 _ _ succ _ h1 (fun m x _ => rfl)
    · intro m x hx
      by_cases e1 : m = l
      · subst e1
        rw [c.hg] at hx; injection hx with hx; subst hx
        simp [tr, removeKeys_nil, Ne.symm c.hsl]
      · by_cases e2 : m = succ
        · subst e2; simp [tr, e1, importEntries_nil]
        · simp [tr, e1, e2]

/-- `executeLeave` succeeds and hands back predecessor and successor -/
theorem exec_leave (c : Ctx net l pre succ nd ndp nds) :
    ∃ n3, executeLeave net l = (n3, .ok (some (pre, succ))) ∧
      Shape net n3 (tr l pre succ .leaving .transferring (rangeKeys nd.store 0 0) true none none) := by
  obtain ⟨n1, hl1, h1⟩ := step_locks c
  obtain ⟨n2, ht2, h2⟩ := step_transfer c n1 h1
  refine ⟨n2.upd l (fun nd => { nd with surrogate := some l }), ?_, ?_⟩
  · unfold executeLeave
    have : (pre == l && succ == l) = false := by simp [c.hpl]
    simp only [c.hg, c.hp, c.hsu, this, hl1, ht2]
    rfl
  · apply shape_upd net n2 _ _ l _ h2
    intro m x _
    by_cases e1 : m = l
    · subst e1; simp [tr]
    · simp [tr, e1]

/-- the successor list the predecessor rebuilds on the advisory: it still starts with the leaver
(who is `Leaving`, hence still answering), followed by the leaver's successor -/
def advisedList (l pre : Nat) (nd : Node) : List Nat :=
  cutAfterSelf pre (makeSuccList l nd.succs succEntries)

theorem advisedList_head (l pre : Nat) (nd : Node) : (advisedList l pre nd).head? = some l :=
  cutAfterSelf_head pre _ l (makeSuccList_head l nd.succs succEntries)

theorem advisedList_two (c : Ctx net l pre succ nd ndp nds) : ∃ r, advisedList l pre nd = l :: succ :: r := by
  have hsu := c.hsu
  cases hl : nd.succs with
  | nil => rw [hl] at hsu; simp at hsu
  | cons a tl =>
    rw [hl] at hsu; simp at hsu; subst hsu
    obtain ⟨r, hr⟩ := makeSuccList_two l a tl c.hsl
    obtain ⟨r', hr'⟩ := cutAfterSelf_two pre l a r (Ne.symm c.hpl)
    exact ⟨r', by unfold advisedList; rw [hl, hr, hr']⟩

/-- step 4: the advisory's `stabilize` at the predecessor only refreshes its successor list, whose head
is still the leaver -/
theorem step_stabilize (c : Ctx net l pre succ nd ndp nds) (n3 : Net)
    (h3 : Shape net n3 (tr l pre succ .leaving .transferring (rangeKeys nd.store 0 0) true none none)) :
    Shape net (stabilize n3 pre)
      (tr l pre succ .leaving .transferring (rangeKeys nd.store 0 0) true (some (advisedList l pre nd)) none) := by
  have hps := c.p_succ
  cases hl : ndp.succs with
  | nil => rw [hl] at hps; simp at hps
  | cons a rest =>
    rw [hl] at hps; simp at hps; subst hps
    have hgp3 := h3 pre; rw [c.hgp] at hgp3
    have hgl3 := h3 a; rw [c.hg] at hgl3
    have e := stabilize_live_head n3 pre a _ _ rest hgp3 (by simp [tr, hl]) hgl3
      (by simp [tr, checkNodeState, c.l_active.2]) (by simp [tr, c.hp])
    rw [e]
    apply shape_upd net n3 _ _ pre _ h3
    intro m x _
    by_cases e1 : m = pre
    · subst e1; simp [tr, advisedList, c.hpl]
    · simp [tr, e1]

/-- while the leave is in flight (leaver `Leaving`, successor `Transferring`, both still answering)
every node shows the same liveness, predecessor, first successor and fingers as before -/
theorem inflight_view (c : Ctx net l pre succ nd ndp nds) (cur : Net) (mv : List KEntry) (sur : Bool)
    (h : Shape net cur (tr l pre succ .leaving .transferring mv sur (some (advisedList l pre nd)) none)) :
    ∀ m, (cur.get m).map pview = (net.get m).map pview := by
  intro m
  rw [h m]
  cases hx : net.get m with
  | none => rfl
  | some x =>
    simp only [Option.map_some, Option.some.injEq]
    by_cases e1 : m = l
    · subst e1
      rw [c.hg] at hx; injection hx with hx; subst hx
      have := c.hc
      simp [pview, tr, checkNodeState, c.l_active.2, c.l_active.1, Ne.symm c.hpl]
    · by_cases e2 : m = succ
      · subst e2
        rw [c.hgs] at hx; injection hx with hx; subst hx
        by_cases e3 : m = pre
        · subst e3
          have hh := c.p_succ
          have : ndp = nds := by have := c.hgp; rw [c.hgs] at this; injection this with this; exact this.symm
          subst this
          simp [pview, tr, checkNodeState, c.s_active.2, c.s_active.1, e1, advisedList_head, hh]
        · simp [pview, tr, checkNodeState, c.s_active.2, c.s_active.1, e1, e3]
      · by_cases e3 : m = pre
        · subst e3
          rw [c.hgp] at hx; injection hx with hx; subst hx
          simp [pview, tr, checkNodeState, e1, e2, advisedList_head, c.p_succ]
        · simp [pview, tr, e1, e2, e3]

/-- steps 4–5: the advisory `FinishLeave(stabilize)` at the predecessor -/
theorem step_advisory (c : Ctx net l pre succ nd ndp nds) (n3 : Net)
    (h3 : Shape net n3 (tr l pre succ .leaving .transferring (rangeKeys nd.store 0 0) true none none)) :
    ∃ F : List (Option Nat), (∀ f, some f ∈ F → Mem net f) ∧
      Shape net (finish n3 pre true false)
        (tr l pre succ .leaving .transferring (rangeKeys nd.store 0 0) true (some (advisedList l pre nd)) (some F)) := by
  have h4 := step_stabilize c n3 h3
  have hview := inflight_view c _ _ _ h4
  have hst : Stable (stabilize n3 pre) := stable_congr net _ hview c.hs
  have hpm : Mem (stabilize n3 pre) pre := (mem_congr net _ hview pre).mpr ⟨ndp, c.hgp, c.hcp⟩
  obtain ⟨F, hF, hget⟩ := fixFinger_swapped _ pre hst hpm
  refine ⟨F, fun f hf => (mem_congr net _ hview f).mp (hF f hf), ?_⟩
  have hfin : finish n3 pre true false = fixFinger (stabilize n3 pre) pre := by
    unfold finish
    have hgp3 := h3 pre; rw [c.hgp] at hgp3
    simp [hgp3, tr, c.p_active.2]
  rw [hfin]
  apply shape_step net _ _ _ _ pre _ h4 hget
  intro m x _
  by_cases e1 : m = pre
  · subst e1; simp [tr, c.hpl]
  · simp [tr, e1]

/-- **What a completed `Leave()` does, node by node.** The leaver ends `Left` with its data handed down and
its surrogate pointing at itself; the successor has imported the data and is `Active` again; the
predecessor has a refreshed successor list (STILL headed by the leaver) and a refreshed finger table
(all old members); every other field of every node is as before. -/
theorem leave_shape (c : Ctx net l pre succ nd ndp nds) :
    ∃ F : List (Option Nat), (∀ f, some f ∈ F → Mem net f) ∧
      (leave net l).2 = none ∧
      Shape net (leave net l).1
        (tr l pre succ .left .active (rangeKeys nd.store 0 0) true (some (advisedList l pre nd)) (some F)) := by
  obtain ⟨n3, hex, h3⟩ := exec_leave c
  obtain ⟨F, hF, h4⟩ := step_advisory c n3 h3
  refine ⟨F, hF, ?_⟩
  -- the leaver's own state change
  have h5 : Shape net ((finish n3 pre true false).upd l (fun nd => { nd with state := .left }))
      (tr l pre succ .left .transferring (rangeKeys nd.store 0 0) true (some (advisedList l pre nd)) (some F)) := by
    apply shape_upd net _ _ _ l _ h4
    intro m x _
    by_cases e1 : m = l
    · subst e1; simp [tr]
    · simp [tr, e1]
  -- the release of the successor's lock
  have hgs5 := h5 succ; rw [c.hgs] at hgs5
  have hrel := finish_release _ succ _ hgs5 (by simp [tr, c.s_active.2])
  have h6 : Shape net (finish ((finish n3 pre true false).upd l (fun nd => { nd with state := .left })) succ false true)
      (tr l pre succ .left .active (rangeKeys nd.store 0 0) true (some (advisedList l pre nd)) (some F)) := by
    rw [hrel]
    apply shape_upd net _ _ _ succ _ h5
    intro m x _
    by_cases e1 : m = succ
    · subst e1; simp [tr, c.hsl]
    · simp [tr, e1]
  have hlv : leave net l =
      (finish ((finish n3 pre true false).upd l (fun nd => { nd with state := .left })) succ false true, none) := by
    unfold leave
    have p1 : (pre != l) = true := by simpa using c.hpl
    have p2 : (succ != l) = true := by simpa using c.hsl
    simp only [c.hg, c.l_active.1, hex, p1, p2, if_true]
  rw [hlv]
  exact ⟨rfl, h6⟩

end steps

/-! ### pointer stability (Stable without the finger clause) -/

/-- the predecessor / successor clauses of `Stable`: every live member knows its true predecessor and
its true first successor -/
structure PtrStable (net : Net) : Prop where
  lt : ∀ n, Mem net n → n < M
  pred : ∀ n nd, net.get n = some nd → checkNodeState nd false = none →
      ∃ p, nd.pred = some p ∧ Mem net p ∧
        ∀ m, Mem net m → ¬ (0 < dist p m ∧ dist p m < dist p n) ∧ (p = n → m = n)
  succ : ∀ n nd, net.get n = some nd → checkNodeState nd false = none →
      ∃ s, nd.succs.head? = some s ∧ Mem net s ∧
        ∀ m, Mem net m → ¬ (0 < dist n m ∧ dist n m < dist n s) ∧ (s = n → m = n)

/-- every finger of every live member is a live member or the departed node `l` -/
def FingersOr (net : Net) (l : Nat) : Prop :=
  ∀ n nd, net.get n = some nd → checkNodeState nd false = none →
    ∀ f, some f ∈ nd.fingers → Mem net f ∨ f = l

theorem Stable.ptr {net : Net} (h : Stable net) : PtrStable net := ⟨h.lt, h.pred, h.succ⟩

/-- pointer stability + no finger to the departed node = `Stable` -/
theorem stable_of_ptrStable (net : Net) (l : Nat) (hp : PtrStable net) (hf : FingersOr net l)
    (hno : ∀ n nd, net.get n = some nd → checkNodeState nd false = none → some l ∉ nd.fingers) :
    Stable net :=
  ⟨hp.lt, hp.pred, hp.succ, fun n nd hg hc f hfm => by
    rcases hf n nd hg hc f hfm with h | h
    · exact h
    · subst h; exact absurd hfm (hno n nd hg hc)⟩

namespace Ctx
variable {net : Net} {l pre succ : Nat} {nd ndp nds : Node}

theorem lM (c : Ctx net l pre succ nd ndp nds) : l < M := c.hs.lt l ⟨nd, c.hg, c.hc⟩
theorem pM (c : Ctx net l pre succ nd ndp nds) : pre < M := c.hs.lt pre ⟨ndp, c.hgp, c.hcp⟩
theorem sM (c : Ctx net l pre succ nd ndp nds) : succ < M := c.hs.lt succ ⟨nds, c.hgs, c.hcs⟩

/-- going clockwise from the predecessor one meets `l`, then the successor -/
theorem gap_sum (c : Ctx net l pre succ nd ndp nds) (hne : pre ≠ succ) :
    dist pre succ = dist pre l + dist l succ := by
  obtain ⟨s', hs', _, hsmin⟩ := c.hs.succ l nd c.hg c.hc
  rw [c.hsu] at hs'; injection hs' with hs'; subst hs'
  have hlM := c.lM; have hpM := c.pM; have hsM := c.sM
  have h3 := (hsmin _ ⟨ndp, c.hgp, c.hcp⟩).1
  have := dist_pos l pre hlM hpM (Ne.symm c.hpl)
  have := dist_anti l pre hlM hpM (Ne.symm c.hpl)
  have := dist_anti pre succ hpM hsM hne
  have := dist_add l succ pre hlM hsM hpM
  omega

/-- once `l` is gone nobody lies strictly between its predecessor and its successor -/
theorem gap (c : Ctx net l pre succ nd ndp nds) (q : Nat) (hq : Mem net q) (hql : q ≠ l) :
    ¬ (0 < dist pre q ∧ dist pre q < dist pre succ) ∧ (pre = succ → q = succ) := by
  obtain ⟨p', hp', _, hpmin⟩ := c.hs.pred l nd c.hg c.hc
  rw [c.hp] at hp'; injection hp' with hp'; subst hp'
  obtain ⟨s', hs', _, hsmin⟩ := c.hs.succ l nd c.hg c.hc
  rw [c.hsu] at hs'; injection hs' with hs'; subst hs'
  have hqM := c.hs.lt q hq
  have hlM := c.lM; have hpM := c.pM; have hsM := c.sM
  have h1 := (hpmin q hq).1
  have h2 := (hsmin q hq).1
  have hlq := dist_pos l q hlM hqM (Ne.symm hql)
  have hadd := dist_add pre l q hpM hlM hqM
  constructor
  · intro ⟨a, b⟩
    have hne : pre ≠ succ := by
      intro e; rw [← e, dist_self pre hpM] at b; omega
    have := c.gap_sum hne
    omega
  · intro e
    subst e
    apply Classical.byContradiction
    intro hne
    have := dist_pos pre q hpM hqM (Ne.symm hne)
    have := dist_anti pre l hpM hlM c.hpl
    have := dist_lt pre q
    omega

theorem between_l (c : Ctx net l pre succ nd ndp nds) : between pre l succ false = true := by
  have hlM := c.lM; have hpM := c.pM; have hsM := c.sM
  rw [between_open_iff pre l succ hpM hlM hsM]
  have := dist_pos pre l hpM hlM c.hpl
  have := dist_pos l succ hlM hsM (Ne.symm c.hsl)
  by_cases hne : pre = succ
  · exact ⟨by omega, Or.inr hne⟩
  · have := c.gap_sum hne
    exact ⟨by omega, Or.inl (by omega)⟩

/-- only the successor has `l` as predecessor -/
theorem pred_l_unique (c : Ctx net l pre succ nd ndp nds) (m : Nat) (x : Node) (hx : net.get m = some x)
    (hcx : checkNodeState x false = none) (h : x.pred = some l) : m = succ := by
  have := pred_succ_inverse net c.hs m l x nd hx hcx h c.hg c.hc
  rw [c.hsu] at this; injection this with this; exact this.symm

/-- only the predecessor has `l` as first successor -/
theorem succ_l_unique (c : Ctx net l pre succ nd ndp nds) (m : Nat) (x : Node) (hx : net.get m = some x)
    (hcx : checkNodeState x false = none) (h : x.succs.head? = some l) : m = pre := by
  have := succ_pred_inverse net c.hs m l x nd hx hcx h c.hg c.hc
  rw [c.hp] at this; injection this with this; exact this.symm

end Ctx

/-! ### the ring right after the leave -/

/-- node transformer of a completed leave (`F` = the finger table the predecessor rebuilt) -/
abbrev leftT (l pre succ : Nat) (nd : Node) (F : List (Option Nat)) : Nat → Node → Node :=
  tr l pre succ .left .active (rangeKeys nd.store 0 0) true (some (advisedList l pre nd)) (some F)

section after
variable {net : Net} {l pre succ : Nat} {nd ndp nds : Node}

/-- a surviving node after the leave: everything but store (successor), successor-list tail and fingers
(predecessor) is as before -/
theorem left_fields (c : Ctx net l pre succ nd ndp nds) (F : List (Option Nat)) (m : Nat) (x : Node)
    (hx : net.get m = some x) (hm : m ≠ l) :
    (leftT l pre succ nd F m x).state = x.state ∧ (leftT l pre succ nd F m x).crashed = x.crashed ∧
    (leftT l pre succ nd F m x).pred = x.pred ∧ (leftT l pre succ nd F m x).surrogate = x.surrogate ∧
    (leftT l pre succ nd F m x).succs.head? = x.succs.head? ∧
    (leftT l pre succ nd F m x).fingers = (if m = pre then F else x.fingers) := by
  have hst : (if m = succ then St.active else x.state) = x.state := by
    by_cases e : m = succ
    · subst e; rw [c.hgs] at hx; injection hx with hx; subst hx; simp [c.s_active.1]
    · simp [e]
  have hhd : (if m = pre then advisedList l pre nd else x.succs).head? = x.succs.head? := by
    by_cases e : m = pre
    · subst e; rw [c.hgp] at hx; injection hx with hx; subst hx; simp [advisedList_head, c.p_succ]
    · simp [e]
  refine ⟨?_, rfl, rfl, ?_, ?_, ?_⟩
  · simpa [tr, hm] using hst
  · simp [tr, hm]
  · simpa [tr] using hhd
  · simp [tr]

theorem left_live (c : Ctx net l pre succ nd ndp nds) (F : List (Option Nat)) (m : Nat) (x : Node)
    (hx : net.get m = some x) (hm : m ≠ l) (b : Bool) :
    checkNodeState (leftT l pre succ nd F m x) b = checkNodeState x b := by
  obtain ⟨h1, h2, _⟩ := left_fields c F m x hx hm
  unfold checkNodeState; rw [h1, h2]

theorem left_dead (F : List (Option Nat)) (x : Node) (b : Bool) :
    ∃ e, checkNodeState (leftT l pre succ nd F l x) b = some e := by
  unfold checkNodeState
  by_cases hcr : x.crashed = true
  · exact ⟨.unreachable, by simp [tr, hcr]⟩
  · exact ⟨.gone, by simp [tr, hcr]⟩

/-- membership after the leave: the old members without the leaver -/
theorem after_mem (c : Ctx net l pre succ nd ndp nds) (F : List (Option Nat)) (net' : Net)
    (h : Shape net net' (leftT l pre succ nd F)) (m : Nat) : Mem net' m ↔ (Mem net m ∧ m ≠ l) := by
  unfold Mem
  rw [h m]
  cases hx : net.get m with
  | none => simp
  | some x =>
    by_cases e : m = l
    · subst e
      obtain ⟨err, he⟩ := left_dead (l := m) (pre := pre) (succ := succ) (nd := nd) F x false
      simp [he]
    · simp [left_live c F m x hx e, e]

theorem after_quiescent (c : Ctx net l pre succ nd ndp nds) (F : List (Option Nat)) (net' : Net)
    (h : Shape net net' (leftT l pre succ nd F)) : Quiescent net' := by
  have key : ∀ m y, net'.get m = some y → checkNodeState y false = none →
      ∃ x, net.get m = some x ∧ checkNodeState x false = none ∧ m ≠ l ∧ y = leftT l pre succ nd F m x := by
    intro m y hy hcy
    rw [h m] at hy
    cases hx : net.get m with
    | none => simp [hx] at hy
    | some x =>
      simp [hx] at hy
      have hml : m ≠ l := by
        intro e; subst e
        obtain ⟨err, he⟩ := left_dead (l := m) (pre := pre) (succ := succ) (nd := nd) F x false
        rw [← hy, he] at hcy; simp at hcy
      exact ⟨x, rfl, by rw [← left_live c F m x hx hml false, hy]; exact hcy, hml, hy.symm⟩
  constructor
  · intro m y hy hcy
    obtain ⟨x, hx, hcx, hml, rfl⟩ := key m y hy hcy
    obtain ⟨h1, h2, _⟩ := left_fields c F m x hx hml
    rw [h1, h2]; exact c.hq.active m x hx hcx
  · intro m y hy hcy
    obtain ⟨x, hx, hcx, hml, rfl⟩ := key m y hy hcy
    obtain ⟨_, _, h3, h4, _⟩ := left_fields c F m x hx hml
    rw [h3, h4]; exact c.hq.surrogate m x hx hcx

end after

/-! ### … and after the predecessor's next `stabilize` -/

/-- what the predecessor's next `stabilize` changes: its own successor list (now headed by `succ`) and,
through `Notify`, predecessor and surrogate of `succ` -/
def rep (pre succ : Nat) (L2 : List Nat) (m : Nat) (x : Node) : Node :=
  { x with
    succs := if m = pre then L2 else x.succs
    pred := if m = succ then some pre else x.pred
    surrogate := if m = succ then (if pre == succ then none else some pre) else x.surrogate }

section repair
variable {net : Net} {l pre succ : Nat} {nd ndp nds : Node}

theorem repair_shape (c : Ctx net l pre succ nd ndp nds) (F : List (Option Nat)) (net' : Net)
    (h : Shape net net' (leftT l pre succ nd F)) :
    ∃ L2 : List Nat, L2.head? = some succ ∧
      Shape net (stabilize net' pre) (fun m x => rep pre succ L2 m (leftT l pre succ nd F m x)) := by
  obtain ⟨r, hr⟩ := advisedList_two c
  have hgp' := h pre; rw [c.hgp] at hgp'
  have hgs' := h succ; rw [c.hgs] at hgs'
  have hgl' := h l; rw [c.hg] at hgl'
  obtain ⟨err, hdead⟩ := left_dead (l := l) (pre := pre) (succ := succ) (nd := nd) F nd false
  obtain ⟨err2, hdead2⟩ := left_dead (l := l) (pre := pre) (succ := succ) (nd := nd) F nd true
  have hcn : checkNodeState (leftT l pre succ nd F pre ndp) true = none := by
    rw [left_live c F pre ndp c.hgp c.hpl true]; simp [checkNodeState, c.p_active.1, c.p_active.2]
  have hsuccs : (leftT l pre succ nd F pre ndp).succs = l :: succ :: r := by simp [tr, hr]
  have hgd : getPredSuccs net' l = none := by
    unfold getPredSuccs; simp [hgl', hdead]
  have hping : ping net' l = false := by
    unfold ping; simp [hgl', hdead2]
  have hcs' : checkNodeState (leftT l pre succ nd F succ nds) false = none := by
    rw [left_live c F succ nds c.hgs c.hsl false]; exact c.hcs
  have hpd : (leftT l pre succ nd F succ nds).pred = some l := c.s_pred
  have e := stabilize_dead_head net' pre l succ _ _ r hgp' hcn hsuccs (Ne.symm c.hpl) hgd hping hgs' hcs' hpd
    c.between_l
  refine ⟨cutAfterSelf pre (makeSuccList succ (leftT l pre succ nd F succ nds).succs succEntries),
    cutAfterSelf_head pre _ succ (makeSuccList_head succ _ succEntries), ?_⟩
  rw [e]
  apply shape_upd net _ (fun m x => if m = pre then
      { (leftT l pre succ nd F m x) with
        succs := cutAfterSelf pre (makeSuccList succ (leftT l pre succ nd F succ nds).succs succEntries) }
      else leftT l pre succ nd F m x)
  · exact shape_upd net net' _ _ pre _ h (fun m x _ => rfl)
  · intro m x _
    by_cases e1 : m = succ
    · subst e1
      by_cases e2 : m = pre
      · subst e2; simp [rep]
      · simp [rep, e2]
    · by_cases e2 : m = pre
      · subst e2; simp [rep, e1]
      · simp [rep, e1, e2]

theorem rep_live (L2 : List Nat) (m : Nat) (y : Node) (b : Bool) :
    checkNodeState (rep pre succ L2 m y) b = checkNodeState y b := rfl

/-- **The ring after a leave and the predecessor's next `stabilize`.** -/
theorem repaired (c : Ctx net l pre succ nd ndp nds) (F : List (Option Nat)) (hF : ∀ f, some f ∈ F → Mem net f)
    (L2 : List Nat) (hL2 : L2.head? = some succ) (net2 : Net)
    (h : Shape net net2 (fun m x => rep pre succ L2 m (leftT l pre succ nd F m x))) :
    PtrStable net2 ∧ Quiescent net2 ∧ (∀ m, Mem net2 m ↔ (Mem net m ∧ m ≠ l)) ∧ FingersOr net2 l := by
  have memeq : ∀ m, Mem net2 m ↔ (Mem net m ∧ m ≠ l) := by
    intro m
    unfold Mem
    rw [h m]
    cases hx : net.get m with
    | none => simp
    | some x =>
      by_cases e : m = l
      · subst e
        obtain ⟨err, he⟩ := left_dead (l := m) (pre := pre) (succ := succ) (nd := nd) F x false
        simp [rep_live, he]
      · simp [rep_live, left_live c F m x hx e, e]
  have key : ∀ m y, net2.get m = some y → checkNodeState y false = none →
      ∃ x, net.get m = some x ∧ checkNodeState x false = none ∧ m ≠ l ∧
        y = rep pre succ L2 m (leftT l pre succ nd F m x) := by
    intro m y hy hcy
    rw [h m] at hy
    cases hx : net.get m with
    | none => simp [hx] at hy
    | some x =>
      simp [hx] at hy
      have hml : m ≠ l := by
        intro e; subst e
        obtain ⟨err, he⟩ := left_dead (l := m) (pre := pre) (succ := succ) (nd := nd) F x false
        rw [← hy, rep_live, he] at hcy; simp at hcy
      exact ⟨x, rfl, by rw [← left_live c F m x hx hml false, ← rep_live (pre := pre) (succ := succ) L2 m, hy]; exact hcy,
        hml, hy.symm⟩
  have hpm : Mem net2 pre := (memeq pre).mpr ⟨⟨ndp, c.hgp, c.hcp⟩, c.hpl⟩
  have hsm : Mem net2 succ := (memeq succ).mpr ⟨⟨nds, c.hgs, c.hcs⟩, c.hsl⟩
  refine ⟨⟨?_, ?_, ?_⟩, ⟨?_, ?_⟩, memeq, ?_⟩
  · intro m hm; exact c.hs.lt m ((memeq m).mp hm).1
  · -- predecessors
    intro m y hy hcy
    obtain ⟨x, hx, hcx, hml, rfl⟩ := key m y hy hcy
    obtain ⟨_, _, h3, _⟩ := left_fields c F m x hx hml
    by_cases e : m = succ
    · subst e
      refine ⟨pre, by simp [rep], hpm, fun q hq => ?_⟩
      obtain ⟨hq1, hq2⟩ := (memeq q).mp hq
      exact c.gap q hq1 hq2
    · obtain ⟨p, hp, hpmem, hmin⟩ := c.hs.pred m x hx hcx
      have hpl : p ≠ l := fun e' => e (c.pred_l_unique m x hx hcx (by rw [hp, e']))
      refine ⟨p, by simp [rep, e, h3, hp], (memeq p).mpr ⟨hpmem, hpl⟩, fun q hq => hmin q ((memeq q).mp hq).1⟩
  · -- successors
    intro m y hy hcy
    obtain ⟨x, hx, hcx, hml, rfl⟩ := key m y hy hcy
    obtain ⟨_, _, _, _, h5, _⟩ := left_fields c F m x hx hml
    by_cases e : m = pre
    · subst e
      refine ⟨succ, by simp [rep, hL2], hsm, fun q hq => ?_⟩
      obtain ⟨hq1, hq2⟩ := (memeq q).mp hq
      have := c.gap q hq1 hq2
      exact ⟨this.1, fun e' => by rw [← e']; exact this.2 e'.symm⟩
    · obtain ⟨s, hsu, hsmem, hmin⟩ := c.hs.succ m x hx hcx
      have hsl : s ≠ l := fun e' => e (c.succ_l_unique m x hx hcx (by rw [hsu, e']))
      refine ⟨s, ?_, (memeq s).mpr ⟨hsmem, hsl⟩, fun q hq => hmin q ((memeq q).mp hq).1⟩
      have : (rep pre succ L2 m (leftT l pre succ nd F m x)).succs = (leftT l pre succ nd F m x).succs := by
        simp [rep, e]
      rw [this, h5, hsu]
  · -- all members Active and up
    intro m y hy hcy
    obtain ⟨x, hx, hcx, hml, rfl⟩ := key m y hy hcy
    obtain ⟨h1, h2, _⟩ := left_fields c F m x hx hml
    have := c.hq.active m x hx hcx
    exact ⟨by show (leftT l pre succ nd F m x).state = _; rw [h1]; exact this.1,
           by show (leftT l pre succ nd F m x).crashed = _; rw [h2]; exact this.2⟩
  · -- surrogates
    intro m y hy hcy
    obtain ⟨x, hx, hcx, hml, rfl⟩ := key m y hy hcy
    obtain ⟨_, _, h3, h4, _⟩ := left_fields c F m x hx hml
    by_cases e : m = succ
    · subst e
      by_cases e2 : pre = m
      · left; simp [rep, e2]
      · right; simp [rep, e2]
    · have := c.hq.surrogate m x hx hcx
      simpa [rep, e, h3, h4] using this
  · -- fingers
    intro m y hy hcy f hf
    obtain ⟨x, hx, hcx, hml, rfl⟩ := key m y hy hcy
    obtain ⟨_, _, _, _, _, h6⟩ := left_fields c F m x hx hml
    have hf' : some f ∈ (leftT l pre succ nd F m x).fingers := hf
    rw [h6] at hf'
    have hold : Mem net f := by
      by_cases e : m = pre
      · simp only [e, if_true] at hf'; exact hF f hf'
      · simp only [e, if_false] at hf'; exact c.hs.fingers m x hx hcx f hf'
    by_cases e : f = l
    · right; exact e
    · left; exact (memeq f).mpr ⟨hold, e⟩

end repair

/-! ### lookups on a pointer-stable ring that still has fingers to a departed node -/

/-- Lookups with stale fingers: on a ring whose predecessor/successor pointers are right and whose
fingers name live members or one departed node `l` (present, answering `ErrNodeGone`), a lookup from any
member for any key returns the key's owner, or — when the route uses a stale finger — fails with the
(retryable at the KV layer) `ErrNodeGone`. It never returns a wrong node and never diverges. -/
theorem lookup_tolerates_stale_aux (net : Net) (l : Nat) (hp : PtrStable net) (hf : FingersOr net l) (hlM : l < M)
    (hdead : ∃ ndl, net.get l = some ndl ∧ checkNodeState ndl false = some .gone) :
    ∀ (d n key : Nat), cw key n = d → Mem net n → key < M →
      ∃ fuel, (∃ o, findSucc net fuel n key = .found o ∧ IsOwner net key o) ∨
              findSucc net fuel n key = .err .gone := by
  intro d
  induction d using Nat.strongRecOn with
  | ind d ih =>
    intro n key hd hn hk
    have hnM := hp.lt n hn
    obtain ⟨nd, hg, hc⟩ := hn
    have hn : Mem net n := ⟨nd, hg, hc⟩
    obtain ⟨p, hpp, hpm, hpmin⟩ := hp.pred n nd hg hc
    obtain ⟨s, hsu, hsm, hsmin⟩ := hp.succ n nd hg hc
    have hpM := hp.lt p hpm
    have hsM := hp.lt s hsm
    by_cases c1 : between p key n true = true
    · refine ⟨1, Or.inl ⟨n, findSucc_pred net 0 n key nd hg hc (by simp [inPredRange, hpp, c1]), hn, ?_⟩⟩
      intro m hm
      have hmM := hp.lt m hm
      have := hpmin m hm
      rw [between_closed_iff p key n hpM hk hnM] at c1
      have := dist_cases p key hpM hk; have := dist_cases p n hpM hnM
      have := dist_cases p m hpM hmM; have := dist_cases key n hk hnM
      have := dist_cases key m hk hmM; have := M_val
      omega
    · have hpr : inPredRange nd.pred key n = false := by simp [inPredRange, hpp, c1]
      by_cases c2 : between n key s true = true
      · refine ⟨1, Or.inl ⟨s, findSucc_succ_found net 0 n key s nd hg hc hpr hsu c2, hsm, ?_⟩⟩
        intro m hm
        have hmM := hp.lt m hm
        have := hsmin m hm
        rw [between_closed_iff n key s hnM hk hsM] at c2
        have := dist_cases n key hnM hk; have := dist_cases n s hnM hsM
        have := dist_cases n m hnM hmM; have := dist_cases key s hk hsM
        have := dist_cases key m hk hmM; have := M_val
        omega
      · have c2' : between n key s true = false := by simpa using c2
        have hfM : ∀ f, some f ∈ nd.fingers → f < M := by
          intro f hfm
          rcases hf n nd hg hc f hfm with h | h
          · exact hp.lt f h
          · rw [h]; exact hlM
        obtain ⟨_, hlt⟩ := hop_decreases n key s nd.fingers hnM hk hsM hfM c2'
        have hcm : Mem net (hop n key s nd.fingers) ∨ hop n key s nd.fingers = l := by
          rcases hop_cases n key s nd.fingers with h | ⟨hm, _⟩
          · rw [h]; exact Or.inl hsm
          · exact hf n nd hg hc _ hm
        rcases hcm with hcm | hcm
        · obtain ⟨fuel, hres⟩ := ih _ (by rw [← hd]; exact hlt) _ key rfl hcm hk
          refine ⟨fuel + 1, ?_⟩
          rw [findSucc_hop net fuel n key s nd hg hc hpr hsu c2']; exact hres
        · obtain ⟨ndl, hgl, hcl⟩ := hdead
          refine ⟨2, Or.inr ?_⟩
          rw [findSucc_hop net 1 n key s nd hg hc hpr hsu c2', hcm]
          exact findSucc_dead net 0 l key ndl .gone hgl hcl

theorem lookup_tolerates_stale (net : Net) (l : Nat) (hp : PtrStable net) (hf : FingersOr net l) (hlM : l < M)
    (hdead : ∃ ndl, net.get l = some ndl ∧ checkNodeState ndl false = some .gone)
    (n key : Nat) (hn : Mem net n) (hk : key < M) :
    ∃ fuel, (∃ o, findSucc net fuel n key = .found o ∧ IsOwner net key o) ∨
            findSucc net fuel n key = .err .gone :=
  lookup_tolerates_stale_aux net l hp hf hlM hdead _ n key rfl hn hk

/-! ### the theorems -/

/-
FULL STATEMENT (the wished-for inductive step) — FALSE of the model and of the code it mirrors:

  theorem leave_preserves_stable (net : Net) (hs : Stable net) (hq : Quiescent net) (l : Nat) (hl : Mem net l)
      (hmore : ∃ m, Mem net m ∧ m ≠ l) (net' : Net) (h : leave net l = (net', none)) :
      Stable net' ∧ Quiescent net' ∧ ¬ Mem net' l ∧ (∀ m, Mem net' m ↔ (Mem net m ∧ m ≠ l))

`Leave()` sends the advisory `FinishLeave(stabilize)` to the predecessor while the leaver is still
`Leaving`; a `Leaving` node still answers `GetPredecessor`/`GetSuccessors`, so the predecessor's
`stabilize` keeps the leaver as first successor (and its `fixFinger` may re-learn the leaver as finger);
nothing tells the successor to drop its predecessor pointer. Right after `Leave()` returns, the
predecessor's successor and the successor's predecessor are the departed node: `leave_breaks_stable`,
`leave_lookup_returns_departed` below are the machine-checked witnesses. What IS true:

* `leave_partial`: the leave succeeds, the leaver is gone, membership is "old minus leaver", the ring is
  quiescent, every surviving node keeps state, predecessor, first successor and surrogate, and every
  finger names an old member;
* `leave_then_stabilize_partial`: ONE `stabilize` at the predecessor (its next periodic tick) restores the
  predecessor/successor clauses of `Stable` (`PtrStable`) and quiescence. The finger clause holds in the
  weakened form "live member or the departed node" (`FingersOr`);
* `leave_then_stabilize_stable`: if no survivor holds a finger to the leaver, that ring is `Stable`;
* `lookup_after_leave_partial`: on that ring every lookup returns the owner or fails with `ErrNodeGone`.
-/

/-- **Leave, part 1 (PARTIAL: `Stable net'` itself is false, see above).** On a stable quiescent ring
with at least two members a graceful leave of any member succeeds at the first attempt; afterwards the
leaver is no member, all other members still are, the ring is quiescent, every surviving node has the
state, predecessor, first successor and surrogate it had before (so exactly two pointers are off: the
predecessor's successor and the successor's predecessor still name the leaver), and every finger of a
live node is a live node or the leaver.
Hypothesis added to the wish: none. Missing: `Stable net'`. -/
theorem leave_partial (net : Net) (hs : Stable net) (hq : Quiescent net) (l : Nat) (hl : Mem net l)
    (hmore : ∃ m, Mem net m ∧ m ≠ l) :
    (leave net l).2 = none ∧
    Quiescent (leave net l).1 ∧ ¬ Mem (leave net l).1 l ∧
    (∀ m, Mem (leave net l).1 m ↔ (Mem net m ∧ m ≠ l)) ∧
    (∀ m x, net.get m = some x → m ≠ l → ∃ x', (leave net l).1.get m = some x' ∧
        x'.state = x.state ∧ x'.crashed = x.crashed ∧ x'.pred = x.pred ∧ x'.surrogate = x.surrogate ∧
        x'.succs.head? = x.succs.head?) ∧
    FingersOr (leave net l).1 l := by
  obtain ⟨pre, succ, nd, ndp, nds, c⟩ := ctx_of net hs hq l hl hmore
  obtain ⟨F, hF, hok, hsh⟩ := leave_shape c
  have memeq := after_mem c F _ hsh
  refine ⟨hok, after_quiescent c F _ hsh, fun h => ((memeq l).mp h).2 rfl, memeq, ?_, ?_⟩
  · intro m x hx hml
    obtain ⟨h1, h2, h3, h4, h5, _⟩ := left_fields c F m x hx hml
    exact ⟨_, by rw [hsh m, hx]; rfl, h1, h2, h3, h4, h5⟩
  · intro m y hy hcy f hf
    rw [hsh m] at hy
    cases hx : net.get m with
    | none => simp [hx] at hy
    | some x =>
      simp [hx] at hy
      subst hy
      have hml : m ≠ l := by
        intro e; subst e
        obtain ⟨err, he⟩ := left_dead (l := m) (pre := pre) (succ := succ) (nd := nd) F x false
        have := he.symm.trans hcy; simp at this
      have hcx : checkNodeState x false = none := (left_live c F m x hx hml false).symm.trans hcy
      obtain ⟨_, _, _, _, _, h6⟩ := left_fields c F m x hx hml
      have hf : some f ∈ (leftT l pre succ nd F m x).fingers := hf
      rw [h6] at hf
      have hold : Mem net f := by
        by_cases e : m = pre
        · simp only [e, if_true] at hf; exact hF f hf
        · simp only [e, if_false] at hf; exact hs.fingers m x hx hcx f hf
      by_cases e : f = l
      · right; exact e
      · left; exact (memeq f).mpr ⟨hold, e⟩

/-- `leave_partial` in the shape of the wished-for theorem -/
theorem leave_partial' (net : Net) (hs : Stable net) (hq : Quiescent net) (l : Nat) (hl : Mem net l)
    (hmore : ∃ m, Mem net m ∧ m ≠ l) (net' : Net) (h : leave net l = (net', none)) :
    Quiescent net' ∧ ¬ Mem net' l ∧ (∀ m, Mem net' m ↔ (Mem net m ∧ m ≠ l)) ∧ FingersOr net' l := by
  have := leave_partial net hs hq l hl hmore
  rw [h] at this
  exact ⟨this.2.1, this.2.2.1, this.2.2.2.1, this.2.2.2.2.2⟩

/-- the leaver's predecessor pointer (the node whose next `stabilize` completes the repair) -/
def predOf (net : Net) (l : Nat) : Nat := ((net.get l).bind (·.pred)).getD l

/-- **Leave, part 2 (PARTIAL: finger clause weakened).** After a graceful leave and ONE further
`stabilize` at the leaver's predecessor, the ring is pointer-stable (every member knows its true
predecessor and true first successor — the `lt`/`pred`/`succ` clauses of `Stable`), quiescent, its
members are the old members without the leaver, and every finger names a live member or the leaver.
Missing for `Stable`: fingers to the leaver held by survivors are not yet replaced (that is the job of
later `fixFinger` rounds; under `Stable`'s weak finger hypothesis a stale finger can even persist
through any number of rounds, see `stale_finger_persists`). -/
theorem leave_then_stabilize_partial (net : Net) (hs : Stable net) (hq : Quiescent net) (l : Nat) (hl : Mem net l)
    (hmore : ∃ m, Mem net m ∧ m ≠ l) (net' : Net) (h : leave net l = (net', none)) :
    PtrStable (stabilize net' (predOf net l)) ∧ Quiescent (stabilize net' (predOf net l)) ∧
    ¬ Mem (stabilize net' (predOf net l)) l ∧
    (∀ m, Mem (stabilize net' (predOf net l)) m ↔ (Mem net m ∧ m ≠ l)) ∧
    FingersOr (stabilize net' (predOf net l)) l := by
  obtain ⟨pre, succ, nd, ndp, nds, c⟩ := ctx_of net hs hq l hl hmore
  obtain ⟨F, hF, _, hsh⟩ := leave_shape c
  rw [h] at hsh
  have hpre : predOf net l = pre := by unfold predOf; simp [c.hg, c.hp]
  rw [hpre]
  obtain ⟨L2, hL2, hsh2⟩ := repair_shape c F net' hsh
  obtain ⟨h1, h2, h3, h4⟩ := repaired c F hF L2 hL2 _ hsh2
  exact ⟨h1, h2, fun hm => ((h3 l).mp hm).2 rfl, h3, h4⟩

/-- **Leave, full strength when no stale finger remains**: if in that ring no live node holds a finger
to the leaver, the ring is `Stable` (and quiescent, with the leaver gone) — the inductive step of
C02/C03 for departures. -/
theorem leave_then_stabilize_stable (net : Net) (hs : Stable net) (hq : Quiescent net) (l : Nat) (hl : Mem net l)
    (hmore : ∃ m, Mem net m ∧ m ≠ l) (net' : Net) (h : leave net l = (net', none))
    (hno : ∀ n nd, (stabilize net' (predOf net l)).get n = some nd → checkNodeState nd false = none →
      some l ∉ nd.fingers) :
    Stable (stabilize net' (predOf net l)) ∧ Quiescent (stabilize net' (predOf net l)) ∧
    ¬ Mem (stabilize net' (predOf net l)) l ∧
    (∀ m, Mem (stabilize net' (predOf net l)) m ↔ (Mem net m ∧ m ≠ l)) := by
  obtain ⟨h1, h2, h3, h4, h5⟩ := leave_then_stabilize_partial net hs hq l hl hmore net' h
  exact ⟨stable_of_ptrStable _ l h1 h5 hno, h2, h3, h4⟩

/-- **Lookups after a leave (PARTIAL: may fail with `ErrNodeGone`, never wrong).** On the ring after the
leave and the predecessor's `stabilize`, a lookup from any remaining member for any key returns the
key's owner among the remaining members, or fails with `ErrNodeGone` when the route crosses a finger
that still names the leaver. -/
theorem lookup_after_leave_partial (net : Net) (hs : Stable net) (hq : Quiescent net) (l : Nat) (hl : Mem net l)
    (hmore : ∃ m, Mem net m ∧ m ≠ l) (net' : Net) (h : leave net l = (net', none))
    (n key : Nat) (hn : Mem net n) (hnl : n ≠ l) (hk : key < M) :
    ∃ fuel, (∃ o, findSucc (stabilize net' (predOf net l)) fuel n key = .found o ∧
                  IsOwner (stabilize net' (predOf net l)) key o) ∨
            findSucc (stabilize net' (predOf net l)) fuel n key = .err .gone := by
  obtain ⟨h1, _, _, h4, h5⟩ := leave_then_stabilize_partial net hs hq l hl hmore net' h
  obtain ⟨pre, succ, nd, ndp, nds, c⟩ := ctx_of net hs hq l hl hmore
  obtain ⟨F, hF, _, hsh⟩ := leave_shape c
  rw [h] at hsh
  have hpre : predOf net l = pre := by unfold predOf; simp [c.hg, c.hp]
  rw [hpre] at h1 h4 h5 ⊢
  obtain ⟨L2, hL2, hsh2⟩ := repair_shape c F net' hsh
  refine lookup_tolerates_stale _ l h1 h5 c.lM ?_ n key ((h4 n).mpr ⟨hn, hnl⟩) hk
  refine ⟨_, by rw [hsh2 l, c.hg]; rfl, ?_⟩
  rw [rep_live]
  simp [checkNodeState, tr, c.l_active.2]

/-! ### C03 / C05: the leaver's data ends up at its successor -/

theorem between_zero (h : Nat) : between 0 h 0 true = true := by
  unfold between; simp; omega

/-- **Conservation of a leave.** After a graceful leave on a stable quiescent ring:
(1) the leaver's store holds no data any more (only tombstones may remain);
(2) the store of its successor `succ` — the new owner of the leaver's range, a live member — is exactly
    `Import(old store, data entries of the leaver)`: every entry there was there before or carries key
    and hash of a data entry of the leaver; and when keys are distinct within the leaver's store and no
    key lives on both nodes (the placement invariant of C05: each key lives only on its owner), every
    data entry of the leaver is present at the successor with the same key, hash, simple value and
    children set (`importedEntry`, `importedEntry_faithful`), and every old entry of the successor is
    still there unchanged;
(3) no other node's store changes. -/
theorem leave_conserves (net : Net) (hs : Stable net) (hq : Quiescent net) (l : Nat) (hl : Mem net l)
    (hmore : ∃ m, Mem net m ∧ m ≠ l) (net' : Net) (h : leave net l = (net', none)) :
    ∃ succ nd nds, net.get l = some nd ∧ nd.succs.head? = some succ ∧ succ ≠ l ∧ net.get succ = some nds ∧
      (∃ ndl', net'.get l = some ndl' ∧ ∀ e ∈ ndl'.store, e.isDeleted = true) ∧
      (∃ nds', net'.get succ = some nds' ∧ checkNodeState nds' false = none ∧
        nds'.store = importEntries nds.store (rangeKeys nd.store 0 0) ∧
        (∀ e ∈ nds'.store, (∃ e0 ∈ nds.store, e0.key = e.key ∧ e0.hash = e.hash) ∨
            (∃ m ∈ nd.store, m.isDeleted = false ∧ m.key = e.key ∧ m.hash = e.hash)) ∧
        ((nd.store.map (·.key)).Nodup →
          (∀ e ∈ nds.store, ∀ m ∈ nd.store, m.isDeleted = false → e.key ≠ m.key) →
          (∀ e ∈ nd.store, e.isDeleted = false → importedEntry e ∈ nds'.store) ∧
          (∀ e ∈ nds.store, e ∈ nds'.store))) ∧
      (∀ m, m ≠ l → m ≠ succ → (net'.get m).map (·.store) = (net.get m).map (·.store)) := by
  obtain ⟨pre, succ, nd, ndp, nds, c⟩ := ctx_of net hs hq l hl hmore
  obtain ⟨F, hF, _, hsh⟩ := leave_shape c
  rw [h] at hsh
  refine ⟨succ, nd, nds, c.hg, c.hsu, c.hsl, c.hgs, ?_, ?_, ?_⟩
  · refine ⟨_, by rw [hsh l, c.hg]; rfl, ?_⟩
    intro e he
    have he' : e ∈ removeKeys nd.store (rangeKeys nd.store 0 0) := by simpa [tr] using he
    cases hd : e.isDeleted with
    | true => rfl
    | false =>
      have := remaining_outside_range nd.store 0 0 e he' hd
      rw [between_zero] at this; simp at this
  · have hst : (leftT l pre succ nd F succ nds).store = importEntries nds.store (rangeKeys nd.store 0 0) := by
      simp [tr, c.hsl]
    refine ⟨_, by rw [hsh succ, c.hgs]; rfl, (left_live c F succ nds c.hgs c.hsl false).trans c.hcs, hst, ?_, ?_⟩
    · intro e he
      rw [hst] at he
      rcases mem_importEntries _ _ e he with h1 | ⟨m, hm, hk, hh⟩
      · left; exact h1
      · right
        obtain ⟨hm1, _, hm3⟩ := (mem_rangeKeys _ _ _ _).mp hm
        exact ⟨m, hm1, hm3, hk, hh⟩
    · intro hnd hfresh
      have hmovednd : ((rangeKeys nd.store 0 0).map (·.key)).Nodup := by
        unfold rangeKeys
        exact List.Nodup.sublist (List.Sublist.map _ List.filter_sublist) hnd
      have hfresh' : ∀ e ∈ nds.store, ∀ m ∈ rangeKeys nd.store 0 0, e.key ≠ m.key := by
        intro e he m hm
        obtain ⟨hm1, _, hm3⟩ := (mem_rangeKeys _ _ _ _).mp hm
        exact hfresh e he m hm1 hm3
      constructor
      · intro e he hd
        rw [hst]
        exact import_delivers _ _ hmovednd hfresh' e
          ((mem_rangeKeys _ _ _ _).mpr ⟨he, between_zero _, hd⟩)
      · intro e he
        rw [hst]
        exact import_keeps_others _ _ e he (fun m hm hk => hfresh' e he m hm hk.symm)
  · intro m hml hms
    rw [hsh m]
    cases net.get m with
    | none => rfl
    | some x => simp [tr, hml, hms]

/-! ### witnesses and non-vacuity -/

/-- a stable quiescent three-node ring with data on every node; node 20 holds one data key ("b", with a
child) and one tombstone ("d") -/
def ringL : Net :=
  [(10, { state := .active, pred := some 30, succs := [20, 30, 10], fingers := List.replicate 48 (some 20),
          store := [⟨"a", 5, some "v", []⟩] }),
   (20, { state := .active, pred := some 10, succs := [30, 10, 20], fingers := List.replicate 48 (some 30),
          store := [⟨"b", 15, some "w", ["c"]⟩, ⟨"d", 18, none, []⟩] }),
   (30, { state := .active, pred := some 20, succs := [10, 20, 30], fingers := List.replicate 48 (some 10),
          store := [⟨"e", 25, some "x", []⟩] })]

/-- the hypotheses of all theorems above hold for `ringL` and the leaver 20, and the leave succeeds -/
example : Stable ringL ∧ Quiescent ringL ∧ Mem ringL 20 ∧ (∃ m, Mem ringL m ∧ m ≠ 20) ∧ (leave ringL 20).2 = none :=
  ⟨stable_of_stableB _ (by decide +kernel), quiescent_of_quiescentB _ (by decide +kernel), (memB_iff _ _).mp (by decide +kernel),
   ⟨10, (memB_iff _ _).mp (by decide +kernel), by decide +kernel⟩, by decide +kernel⟩

/-- the data of 20 arrives at 30, the tombstone stays behind, 10 is untouched -/
example : ((leave ringL 20).1.get 30).map (·.store) =
    some [⟨"e", 25, some "x", []⟩, ⟨"b", 15, some "w", ["c"]⟩] := by decide +kernel
example : ((leave ringL 20).1.get 20).map (·.store) = some [⟨"d", 18, none, []⟩] := by decide +kernel
example : ((leave ringL 20).1.get 10).map (·.store) = some [⟨"a", 5, some "v", []⟩] := by decide +kernel

/-- the freshness hypotheses of `leave_conserves` hold in `ringL` -/
example : ((([⟨"b", 15, some "w", ["c"]⟩, ⟨"d", 18, none, []⟩] : List KEntry).map (·.key)).Nodup) := by decide +kernel

/-- **Witness 1: `Stable` is NOT preserved by `Leave()` alone.** Right after node 20 has left `ringL`,
node 10 (its predecessor) still has the departed node 20 as first successor. -/
theorem leave_breaks_stable : ¬ Stable (leave ringL 20).1 := by
  intro hs
  have hm : Mem (leave ringL 20).1 10 := (memB_iff _ _).mp (by decide +kernel)
  obtain ⟨x, hg, hc⟩ := hm
  obtain ⟨s, hsu, hsm, _⟩ := hs.succ 10 x hg hc
  have h20 : ((leave ringL 20).1.get 10).bind (·.succs.head?) = some 20 := by decide +kernel
  rw [hg] at h20
  simp only [Option.bind_some] at h20
  rw [hsu] at h20; injection h20 with h20; subst h20
  have : memB (leave ringL 20).1 20 = false := by decide +kernel
  have h2 := (memB_iff _ _).mpr hsm
  rw [this] at h2; simp at h2

/-- … and node 30 (its successor) still has it as predecessor -/
example : ((leave ringL 20).1.get 30).bind (·.pred) = some 20 := by decide +kernel

/-- **Witness 2: a lookup right after the leave returns the departed node.** Asked for key 15 (owned by
node 30 once 20 is gone), node 10 answers "20" — a node that is `Left` and fails every request. -/
theorem leave_lookup_returns_departed :
    findSucc (leave ringL 20).1 FUEL 10 15 = .found 20 ∧ stateOf (leave ringL 20).1 20 = some .left := by
  decide +kernel

/-- after the predecessor's next `stabilize` the pointers are right again (and in this small ring one
`fixFinger` at the predecessor makes the ring `Stable`) -/
example : stableB (fixFinger (stabilize (leave ringL 20).1 10) 10) = true := by decide +kernel
example : findSucc (stabilize (leave ringL 20).1 10) FUEL 10 15 = .found 30 := by decide +kernel

/-- non-vacuity of the two-member case (`pre = succ`): node 100 leaves the ring {100, 200}; after 200's
next `stabilize` and `fixFinger` the one-node ring is `Stable` -/
def ring2 : Net :=
  [(100, { state := .active, pred := some 200, succs := [200, 100], fingers := List.replicate 48 (some 200) }),
   (200, { state := .active, pred := some 100, succs := [100, 200], fingers := List.replicate 48 (some 100) })]

example : Stable ring2 ∧ Quiescent ring2 ∧ (leave ring2 100).2 = none :=
  ⟨stable_of_stableB _ (by decide +kernel), quiescent_of_quiescentB _ (by decide +kernel), by decide +kernel⟩
example : stableB (leave ring2 100).1 = false := by decide +kernel
example : stableB (fixFinger (stabilize (leave ring2 100).1 200) 200) = true := by decide +kernel

/-- **Witness 3: why the finger clause stays weakened.** `Stable` only asks fingers to be live members,
not to be exact. In `ringS` (ids 10, 20, 30, 2^40) node 10 holds 30 in every finger slot — admissible for
`Stable`, although no `fixFinger` run would produce it. After 30 has left and 20 has stabilized, node 10's
lookups for far keys hop to the highest finger preceding the key — the departed 30 — and fail with
`ErrNodeGone`; `fixFinger` therefore can never replace those fingers: after two full repair rounds at
every node, node 10 still holds 30, its table is a fixpoint of `fixFinger`, the ring is not `Stable`,
and node 10's lookup for key 45 still fails (node 2^40 answers it correctly). -/
def ringS : Net :=
  [(10, { state := .active, pred := some (2^40), succs := [20, 30, 2^40], fingers := List.replicate 48 (some 30) }),
   (20, { state := .active, pred := some 10, succs := [30, 2^40, 10], fingers := List.replicate 48 (some 30) }),
   (30, { state := .active, pred := some 20, succs := [2^40, 10, 20], fingers := List.replicate 48 (some (2^40)) }),
   (2^40, { state := .active, pred := some 30, succs := [10, 20, 30], fingers := List.replicate 48 (some 10) })]

def repairRound (net : Net) : Net :=
  [10, 20, 2^40].foldl (fun net n => fixFinger (checkPredecessor (stabilize net n) n) n) net

def ringS' : Net := repairRound (repairRound (stabilize (leave ringS 30).1 20))

example : Stable ringS ∧ Quiescent ringS := ⟨stable_of_stableB _ (by decide +kernel), quiescent_of_quiescentB _ (by decide +kernel)⟩

theorem stale_finger_persists :
    (ringS'.get 10).map (·.fingers.contains (some 30)) = some true ∧
    ((repairRound ringS').get 10).map (·.fingers) = (ringS'.get 10).map (·.fingers) ∧
    stableB ringS' = false ∧
    findSucc ringS' FUEL 10 45 = .err .gone ∧ findSucc ringS' FUEL (2^40) 45 = .found (2^40) := by
  decide +kernel

end Specter.C02.Leave
