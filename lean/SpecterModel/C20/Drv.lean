import SpecterModel.Util
import SpecterModel.C20.Model
import SpecterModel.C21.Drv
/-!
C20 line-protocol driver.

`<mutation> => result` / `snap keys => state` : reference run of the whole history (model correspondence).
`crash keys acked issued w tag => recovered|error|panic` : a crash image of that history, reopened by the real
`aof.New`. Oracle (property statement): the recovered state is the reference state (`specStep` fold: rejected
mutations contribute nothing) of a prefix `p` of the issued mutations with `acked ≤ p ≤ issued`.
Model prediction (when `w`, the number of completed WAL frame writes, is known): replay of the first `w`
logged mutations.

Runs with concurrent callers (2–4 goroutines calling the store at the same time) are event streams, in
the order the kernel completed the events:
`cplan …` (the callers' programs; for replay only) · `cnolog` (SIGKILL run: WAL writes are not observed) ·
`cissue t <mutation>` (caller `t` is about to call) · `cwal <mutation>` (a frame `write(2)` to the tail segment
completed, decoded) · `cack t => result` · `ccrash keys tag => recovered|error|panic` (image of the process
stopped at this point of the stream, reopened by the real `aof.New`).
Oracle (property statement; uses only issue/ack events, never the log or the results): reopening succeeds
and the recovered state is `specStep` folded (rejected mutations contribute nothing) over SOME sequence of
issued mutations that contains every acknowledged one and in which a mutation acknowledged before another
was issued comes first. `OConf` = one such sequence so far (its state + which outstanding calls it already
contains); all of them are kept.
Model: the observer of `Model.lean` (`obsIssue/obsWal/obsAck/obsRecover`): results, logged frames and the
recovered state must be explained by the single writer loop receiving the requests in some order.
-/
namespace Specter.C20
open Specter.Util Specter.Aof Specter.Aof.Proto

/-! canonical memory (absent = empty entry; children are a set; key order is immaterial) -/

def bytesLt : Bytes → Bytes → Bool
  | [], [] => false
  | [], _ :: _ => true
  | _ :: _, [] => false
  | a :: as, b :: bs => a < b || (a == b && bytesLt as bs)

def insertBy {α : Type} (lt : α → α → Bool) (x : α) : List α → List α
  | [] => [x]
  | y :: ys => if lt y x then y :: insertBy lt x ys else x :: y :: ys

def sortBy {α : Type} (lt : α → α → Bool) (xs : List α) : List α := xs.foldl (fun acc x => insertBy lt x acc) []

def canonMem (m : Mem) : Mem :=
  sortBy (fun a b => bytesLt a.1 b.1)
    ((m.filter (fun p => p.2 ≠ {})).map (fun p => (p.1, { p.2 with children := sortBy bytesLt p.2.children })))

/-- one admissible sequence of issued mutations: its reference state and the outstanding calls it contains -/
structure OConf where
  mem : Mem := Mem.empty
  lin : List Nat := []          -- sorted
deriving DecidableEq, Inhabited

def dedupO (cs : List OConf) : List OConf :=
  cs.foldl (fun acc c => if acc.contains c then acc else acc ++ [c]) []

/-- extend by one outstanding call that the sequence does not contain yet -/
def OConf.extend (pend : List Req) (c : OConf) : List OConf :=
  pend.filterMap fun r =>
    if c.lin.contains r.1 then none
    else some { mem := canonMem (specStep c.mem r.2), lin := insertBy (fun a b => a < b) r.1 c.lin }

/-- all sequences obtained by appending outstanding calls, in every order -/
def closeO (pend : List Req) : Nat → List OConf → List OConf
  | 0, cs => cs
  | fuel + 1, cs =>
    let cs' := dedupO (cs ++ cs.flatMap (OConf.extend pend))
    if cs'.length = cs.length then cs else closeO pend fuel cs'

structure CSt where
  pend : List Req := []                 -- outstanding calls (issued, not acknowledged)
  oconfs : List OConf := [{}]
  mconfs : List CConf := [{}]
  modelOn : Bool := true
  issued : Nat := 0
  acked : Nat := 0
deriving Inhabited

structure St where
  store : Store := {}
  mems : Array Mem := #[Mem.empty]     -- reference state after every prefix of the history
  c : CSt := {}
deriving Inhabited

def parseRes (s : String) : Option (Option Err) :=
  if s = "ok" then some none else if s = "conflict" then some (some .conflict)
  else if s = "panic" then some (some .panic) else none

def renderReq (r : Req) : String := s!"{r.1}:{repr r.2.type}/{renderBytes r.2.key}/{renderBytes r.2.value}"

def stepC (st : St) (toks : List String) (rhs : String) : Option (St × Verdict) :=
  let c := st.c
  match toks with
  | "cplan" :: _ => some (st, .ok)
  | ["cnolog"] => some ({ st with c := { c with modelOn := false } }, .ok)
  | "cissue" :: t :: mt =>
    match t.toNat?, parseMutation mt with
    | some t, some mu =>
      if ¬ mu.WF then some (st, .bad "ill-formed import") else
      if c.pend.any (·.1 = t) then some (st, .bad "caller already has an outstanding call") else
      let pend := c.pend ++ [(t, mu)]
      let oconfs := closeO pend (pend.length + 1) c.oconfs
      if oconfs.length > 20000 then some (st, .bad "oracle: too many admissible sequences") else
      some ({ st with c := { c with pend := pend, oconfs := oconfs, issued := c.issued + 1,
                                    mconfs := if c.modelOn then obsIssue pend c.mconfs else c.mconfs } }, .ok)
    | _, _ => some (st, .bad "cissue args")
  | "cwal" :: mt =>
    match parseMutation mt with
    | none => some ({ st with c := { c with mconfs := [] } }, .diff "model: every logged frame is a well-formed issued mutation")
    | some mu =>
      if ¬ c.modelOn then some (st, .bad "cwal in a run without log observation") else
      let m' := obsWal c.pend mu c.mconfs
      some ({ st with c := { c with mconfs := m' } },
        if m'.isEmpty then .diff "model: no outstanding request can be appended here (not issued, already logged, or the writer rejects it before logging)"
        else .ok)
  | ["cack", t] =>
    match t.toNat? with
    | some t =>
      if ¬ c.pend.any (·.1 = t) then some (st, .bad "ack without outstanding call") else
      let oconfs := dedupO ((c.oconfs.filter (·.lin.contains t)).map fun o => { o with lin := o.lin.filter (· ≠ t) })
      -- a result the writer-loop model never produces (log-error, closed, …) has no explanation
      let m' := if c.modelOn then (match parseRes rhs with | some res => obsAck t res c.mconfs | none => []) else c.mconfs
      some ({ st with c := { c with pend := c.pend.filter (·.1 ≠ t), oconfs := oconfs, mconfs := m', acked := c.acked + 1 } },
        if c.modelOn ∧ m'.isEmpty then
          .diff ("model: " ++ (match c.mconfs with
            | [] => "no explanation left"
            | m :: _ => s!"the writer loop cannot answer {rhs} to caller {t} here; log has {m.store.log.length} entries"))
        else .ok)
    | none => some (st, .bad "cack args")
  | ["ccrash", ks, _tag] =>
    match parseList ks with
    | none => some (st, .bad "ccrash keys")
    | some keys =>
      let admissible := (c.oconfs.map (fun o => renderMem keys o.mem)).eraseDups
      let ctx := s!"issued={c.issued} acknowledged={c.acked} outstanding=[{", ".intercalate (c.pend.map renderReq)}]"
      if rhs = "error" ∨ rhs = "panic" then
        some (st, .spec s!"reopening the crash image failed ({rhs}): aof.New must succeed at every crash point; {ctx}; admissible={admissible}")
      else if ¬ admissible.contains rhs then
        some (st, .spec s!"recovered state is not the result of any sequence of issued mutations containing every acknowledged one; {ctx}; admissible={admissible}")
      else if ¬ c.modelOn then some (st, .ok)
      else
        let preds := ((obsRecover c.mconfs).map fun
          | .ok s' => renderMem keys s'.mem
          | .error _ => "error").eraseDups
        some (st, if preds.contains rhs then .ok else .diff (match preds with | [] => "no-explanation" | p :: _ => p))
  | _ => none

def step (st : St) (toks : List String) (rhs : String) : St × Verdict :=
  match toks with
  | ["reset"] => ({}, .ok)
  | ["snap", ks] =>
    match parseList ks with
    | none => (st, .bad "snap keys")
    | some keys =>
      let m := renderMem keys st.store.mem
      (st, if m = rhs then .ok else .diff m)
  | ["crash", ks, a, i, w, _tag] =>
    match parseList ks, a.toNat?, i.toNat? with
    | some keys, some acked, some issued =>
      let n := st.mems.size - 1
      let hi := min issued n
      let admissible := (List.range (hi + 1)).filter (fun p => acked ≤ p) |>.map
        (fun p => renderMem keys (st.mems.getD p Mem.empty))
      if ¬ admissible.contains rhs then
        (st, .spec s!"recovered state is not the state of any prefix p with {acked} ≤ p ≤ {hi}: admissible={admissible}")
      else
        match w.toNat? with
        | none => (st, .ok)
        | some w =>
          let m := match recover { seg := some (st.store.log.take w) } with
            | .ok s' => renderMem keys s'.mem
            | .error _ => "error"
          (st, if m = rhs then .ok else .diff m)
    | _, _, _ => (st, .bad "crash args")
  | _ =>
    match stepC st toks rhs with
    | some r => r
    | none =>
    match parseMutation toks with
    | none => (st, .bad "unknown op")
    | some mu =>
      if ¬ mu.WF then (st, .bad "ill-formed import") else
      let (s', r) := submit st.store mu
      let last := st.mems.getD (st.mems.size - 1) Mem.empty
      ({ store := s', mems := st.mems.push (specStep last mu) },
        if renderErr r = rhs then .ok else .diff (renderErr r))

def main : IO Unit := runLoop ({} : St) step

end Specter.C20
