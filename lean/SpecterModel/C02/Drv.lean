import SpecterModel.C03.Churn
/-!
C02 driver: ring model + SPEC at quiescent points (after repair to a fixpoint) on the
IMPLEMENTATION's dump: predecessor exact, successor list = the true successors in ring order
(then the node itself when the ring is smaller than the list), fingers = true owners of their targets.
-/
namespace Specter.C02
open Specter.Util Specter.Ring Specter.Churn

structure PNode where
  id : Nat
  state : String
  pred : Option Nat
  succs : List Nat
  fingers : List (Option Nat)
deriving Repr

def expandRle (s : String) : List (Option Nat) :=
  (s.splitOn ",").flatMap fun part =>
    match part.splitOn "*" with
    | [v, c] => List.replicate (c.toNat?.getD 0) v.toNat?
    | _ => []

def parseNodes (d : String) : List PNode :=
  (d.splitOn " ; ").filterMap fun part =>
    match part.trimAscii.toString.splitOn ":" with
    | [id, st, pred, succs, _sur, fing, _store] =>
      id.toNat?.map fun id =>
        { id := id, state := st, pred := pred.toNat?,
          succs := if succs == "" then [] else (succs.splitOn ",").filterMap (·.toNat?),
          fingers := expandRle fing }
    | _ => none

def sortNats (l : List Nat) : List Nat := (l.toArray.qsort (· < ·)).toList

/-- true successors of `n` in ring order (members sorted ascending, rotated after `n`, without `n`) -/
def trueSuccs (ms : List Nat) (n : Nat) : List Nat := (ms.filter (· > n)) ++ (ms.filter (· < n))

def ownerIn (ms : List Nat) (key : Nat) : Option Nat :=
  match ms.find? (fun m => key ≤ m) with
  | some m => some m
  | none => ms.head?

def convergedCheck (d : String) : Option String :=
  let nodes := parseNodes d
  let live := nodes.filter (·.state == "Active")
  let ms := sortNats (live.map (·.id))
  live.findSome? fun nd =>
    let ts := trueSuccs ms nd.id
    let wantPred := match ts.getLast? with | some p => p | none => nd.id
    let wantList := (ts ++ [nd.id]).take succEntries
    if nd.pred != some wantPred then
      some s!"pred: node {nd.id} has predecessor {optStr nd.pred}, true predecessor is {wantPred}"
    else if nd.succs != wantList then
      if wantList.isPrefixOf nd.succs && (nd.succs.drop wantList.length).all (fun x => !ms.contains x) then
        some s!"stale-tail: node {nd.id} lists departed node(s) {nd.succs.drop wantList.length} after its true successors {wantList}"
      else
        some s!"succs: node {nd.id} has successor list {nd.succs}, true successors in ring order are {wantList}"
    else
      ((List.range 48).findSome? fun i =>
        let target := moduloSum nd.id (2^i)
        match nd.fingers[i]?, ownerIn ms target with
        | some (some f), some o => if f == o then none else some s!"finger: node {nd.id} finger {i+1} is {f}, owner of {target} is {o}"
        | some none, some o => some s!"finger: node {nd.id} finger {i+1} is nil, owner of {target} is {o}"
        | _, _ => none)

def step (s : DState) (toks : List String) (rhs : String) : DState × Verdict :=
  match toks with
  | ["quiet"] =>
    let (_, d) := splitRhs rhs
    match convergedCheck d with
    | some w => (s, .spec w)
    | none => let m := "ok | " ++ dump s.net; (s, if m == rhs then .ok else .diff m)
  | _ => Churn.step false true s toks rhs     -- placement is not judged here ("quiet" handled above)

def main : IO Unit := runLoop ({} : DState) step

end Specter.C02
