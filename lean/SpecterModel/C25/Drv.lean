import SpecterModel.Util
import SpecterModel.C25.Model
/-!
C25 line-protocol driver.
`call <Method> <caller> <tokenRecord> <body> <datagram> => <code> <changed 0|1>`
caller      : nodeleg | nocert | badsubject | badversion | panicid | tok
tokenRecord : what the DHT holds under the caller's token key: absent | empty | undecodable | kverr | client | oldclient | na
body        : valid | empty | garbage | json       (ignored by the model: the gate never reads it)
datagram    : ok | fail                            (outcome of the RegisterIdentity test datagram)
code        : ok | <twirp code> | panic (HTTP 500 without twirp body);  changed: DHT snapshot differs or a mutating KV call was made
-/
namespace Specter.C25
open Specter.Util

def parseCaller (c : String) : Option Caller :=
  match c with
  | "nodeleg" => some .noDelegation
  | "nocert" => some .noCert
  | "badsubject" => some .badSubject
  | "badversion" => some .badSubject
  | "panicid" => some .panicSubject
  | "tok" => some (.token "t")
  | _ => none

def parseRec (r : String) : Option TokenRec :=
  match r with
  | "absent" | "empty" | "na" => some .absent
  | "undecodable" => some .undecodable
  | "kverr" => some .kvError
  | "kverr-retryable" => some .kvError      -- a retryable lookup failure is still a failed lookup: refused
  | "client" => some (.client false)
  | "oldclient" => some (.client true)
  | _ => none

/-- the driver's DHT: just the record of the single caller token plus a dirty flag. -/
structure DSt where
  trec : TokenRec
  dirty : Bool
deriving DecidableEq

def DW : World DSt where
  tokenRec st _ := st.trec
  saveToken _ _ := { trec := .client false, dirty := true }

/-- expected observable outcome; `none` = an authorized call reached a handler the model does not describe. -/
def expected (m : String) (c : Caller) (rec : TokenRec) (dgramOk : Bool) : Option String :=
  let st0 : DSt := ⟨rec, false⟩
  if m ∉ allMethods then some "bad_route 0"
  else match gate DW Gen.C25.allowList m c st0 with
    | (_, some code) => some (code ++ " 0")
    | (st1, none) =>
      if m = "Ping" then some "ok 0"
      else if m = "RegisterIdentity" then
        match registerIdentity DW dgramOk true c st1 with
        | (_, .err code) => some (code ++ " 0")
        | (_, _) => some "ok 1"
      else none

/-- the property statement: apart from Ping and RegisterIdentity, a caller without verified certificate
(or no delegation) or with a never-registered token gets an error and the DHT does not change. -/
def specCheck (m caller rec code changed : String) : Option String :=
  let gated := m ∈ allMethods ∧ m ≠ "Ping" ∧ m ≠ "RegisterIdentity"
  let unauth := caller = "nodeleg" ∨ caller = "nocert" ∨ caller = "badsubject" ∨ caller = "badversion" ∨ caller = "panicid"
      ∨ (caller = "tok" ∧ (rec = "absent" ∨ rec = "empty"
          -- the token was never registered and, on top, the lookup itself fails (hard or retryable error)
          ∨ rec = "kverr" ∨ rec = "kverr-retryable"))
  if gated ∧ unauth then
    if code = "ok" then some "an unauthenticated / unregistered caller was served"
    else if changed ≠ "0" then some "a refused call changed the DHT"
    else none
  else none

def step (_ : Unit) (toks : List String) (rhs : String) : Unit × Verdict :=
  match toks with
  | ["reset"] => ((), .ok)
  | ["call", m, caller, rec, body, dgram] =>
    match parseCaller caller, parseRec rec, rhs.splitOn " " with
    | some c, some r, [code, changed] =>
      match specCheck m caller rec code changed with
      | some why => ((), .spec why)
      | none =>
        match expected m c r (dgram == "ok") with
        | some e =>
          -- a garbage body that reaches the (allow-listed) handler stage is rejected by twirp as `malformed`
          -- unless it happens to decode; the gate itself never looks at the body
          let passed := (gate DW Gen.C25.allowList m c ⟨r, false⟩).2.isNone ∧ m ∈ allMethods
          if e = rhs ∨ (passed ∧ body = "garbage" ∧ rhs = "malformed 0") then ((), .ok) else ((), .diff e)
        | none => ((), .ok)
    | _, _, _ => ((), .bad "call args")
  | _ => ((), .bad "unknown op")

def main : IO Unit := runLoop () step

end Specter.C25
