import SpecterModel.C03.Churn
namespace Specter.C03
def main : IO Unit := Specter.Util.runLoop ({} : Specter.Churn.DState) (Specter.Churn.step true false)
end Specter.C03
