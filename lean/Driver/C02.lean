import SpecterModel.C02.Drv

def main : IO Unit := Specter.C02.main
