//go:build verif

package overlay

import (
	"context"
	"errors"

	"github.com/quic-go/quic-go"
	"go.miragespace.co/specter/spec/protocol"
)

// VerifCachedConn describes one entry of the connection cache of a transport.
type VerifCachedConn struct {
	Key       string
	Local     string
	Remote    string
	Direction string
	Closed    bool
	CloseCode uint64 // application error code the connection was closed with (0 if open / other)
	CloseByUs bool
}

// VerifCached lists the cache entries (read-only accessor).
func (t *QUIC) VerifCached() []VerifCachedConn {
	var out []VerifCachedConn
	t.cachedConnections.Range(func(key string, c *nodeConnection) bool {
		v := VerifCachedConn{Key: key, Local: c.quic.LocalAddr().String(), Remote: c.quic.RemoteAddr().String(), Direction: c.direction.String()}
		if err := c.quic.Context().Err(); err != nil {
			v.Closed = true
			var ae *quic.ApplicationError
			if errors.As(context.Cause(c.quic.Context()), &ae) {
				v.CloseCode = uint64(ae.ErrorCode)
				v.CloseByUs = !ae.Remote
			}
		}
		out = append(out, v)
		return true
	})
	return out
}

// VerifQuicConfig is the package's quic configuration (needed to listen with the same settings).
func VerifQuicConfig() *quic.Config { return quicConfig }

// VerifCachedQuic returns the connection cached for the peer (nil if none): read-only accessor.
func (t *QUIC) VerifCachedQuic(peer *protocol.Node) *quic.Conn {
	c, ok := t.cachedConnections.Load(t.makeCachedKey(peer))
	if !ok {
		return nil
	}
	return c.quic
}

// VerifReapPeer runs reapPeer(q, peer), as reaper() does for a candidate it collected (accessor for the
// unexported method; reaper() itself is driven by timers of tens of seconds).
func (t *QUIC) VerifReapPeer(q *quic.Conn, peer *protocol.Node) { t.reapPeer(q, peer) }

// VerifNegotiate runs reuseConnection for the connection q over the negotiation stream s and then does what
// handleOutgoing / handleIncoming do with the result: a connection that comes back as new gets its per-connection
// goroutines (handlePeer, including the close-watcher that reaps it). Accessor for the unexported methods: the
// harness supplies the stream (a relayed one), so that it controls when the cache-status reports are delivered.
// Returns the connection reuseConnection returned, whether it was reused, and its error.
func (t *QUIC) VerifNegotiate(ctx context.Context, q *quic.Conn, s *quic.Stream, outgoing bool) (*quic.Conn, bool, error) {
	dir := directionIncoming
	if outgoing {
		dir = directionOutgoing
	}
	c, reused, err := t.reuseConnection(ctx, q, s, dir)
	if err != nil {
		return nil, false, err
	}
	if !reused {
		t.handlePeer(ctx, c.quic, c.peer, dir)
	}
	return c.quic, reused, nil
}

// VerifHandleOutgoing runs the real handleOutgoing for a connection the caller dialed to the peer's listener: what
// getCachedConnection does after DialEarly (accessor for the unexported method; the peer's accept loop runs the real
// handleIncoming for the other end).
func (t *QUIC) VerifHandleOutgoing(ctx context.Context, q *quic.Conn) (*quic.Conn, error) {
	return t.handleOutgoing(ctx, q)
}
