//go:build verif

package server

import "context"

// VerifHook calls the real (unexported) twirp RequestRouted hook directly; used only for contexts that the
// HTTP stack can never produce (no delegation in the context).
func VerifHook(s *Server, ctx context.Context) error {
	_, err := s.verifyClientIdentity(ctx)
	return err
}
