import SpecterModel.C26.Gen
/-!
# C26 — model of PublishTunnel / UnpublishTunnel / ReleaseTunnel (+ GenerateHostname and the outcome of
AcmeValidate) of tun/server/client_rpc.go over ONE abstract DHT.

The DHT is a finite map; it is represented by its lookup functions per key family
(`ClientHostnamesPrefix token` children, `RoutingKey(hostname,k)`, `CustomHostnameKey`,
`DestinationByTunnelKey`, `ClientLeaseKey`). The caller is the VERIFIED identity from the certificate
(`extractAuthenticated`): requests carry no client identity at all, only a hostname and server nodes of
which only the address is read. Injected KV failures (`Faults`) model failing Put/Delete calls.

The transport hands every handler a `transport.StreamDelegate` with TWO identities: `Certificate` (verified by
mTLS) and `Identity`, the node the peer merely CLAIMS to be (`Caller` below). The handlers read the certificate
only (`extractAuthenticated`); the claimed identity is used for logging and nothing else. `Req` / `stepReq`
are the calls as they arrive (with the claimed identity), `Req.op` is what the handlers make of them.
Core Lean only.
-/
namespace Specter.C26

structure Client where
  token : String
  id : Nat
deriving DecidableEq, Repr

/-- a node identity in wire form (`protocol.Node`): Id, Address, Rendezvous. -/
structure Ident where
  id : Nat
  address : String
  rendezvous : Bool
deriving DecidableEq, Repr

/-- the wire form of the certificate identity (`pki.Identity.NodeIdentity`): the address is the client token and the
node is a rendezvous (client) node. This is the `ClientDestination` of every route a publish stores. -/
def Client.node (c : Client) : Ident := ⟨c.id, c.token, true⟩

/-- who is calling, as the transport presents it (`transport.StreamDelegate`): the identity on the verified
certificate, and the identity the peer claims on the stream (absent, honest, or spoofed in any way — in
particular with the caller's own Id and somebody else's Address). -/
structure Caller where
  verified : Client
  claimed : Option Ident
deriving DecidableEq, Repr

structure Dest where
  chord : String
  tunnel : String
deriving DecidableEq, Repr

structure Route where
  client : Client
  chord : String
  tunnel : String
  hostname : String
deriving DecidableEq, Repr

structure St where
  owns : String → String → Bool          -- token → hostname → child of ClientHostnamesPrefix token
  route : String → Nat → Option Route    -- hostname → slot → value under RoutingKey
  custom : String → Option Client        -- hostname → CustomHostnameKey binding
  dest : String → Option Dest            -- tunnel address → published destination record
  leased : String → Bool                 -- token → ClientLeaseKey currently held (by a concurrent call)

def init (dest : String → Option Dest) : St :=
  { owns := fun _ _ => false, route := fun _ _ => none, custom := fun _ => none, dest := dest, leased := fun _ => false }

structure Faults where
  failRoute : String → Nat → Bool := fun _ _ => false   -- Put/Delete of RoutingKey(h,k) fails
  failCustomDel : String → Bool := fun _ => false       -- Delete of CustomHostnameKey fails

inductive Out where
  | ok (published : List String)     -- tunnel addresses in the response (publish) / [] otherwise
  | invalidArgument | permissionDenied | internal | unavailable | conflict
deriving DecidableEq, Repr

def numLinks : Nat := Gen.C26.NumRedundantLinks.toNat

/-- `uniqueNodes`: first occurrence per address, nil nodes skipped (`acc` = list so far; the Go `seen` map
holds exactly its addresses). -/
def uniqAux : List (Option String) → List String → List String
  | [], acc => acc
  | none :: r, acc => uniqAux r acc
  | some a :: r, acc => if a ∈ acc then uniqAux r acc else uniqAux r (acc ++ [a])

def uniq (servers : List (Option String)) : List String := uniqAux servers []

/-- the destination lookups of the requested servers, in order; `none` when any record is missing. -/
def destAll (d : String → Option Dest) : List String → Option (List Dest)
  | [] => some []
  | a :: r =>
    match d a, destAll d r with
    | some x, some xs => some (x :: xs)
    | _, _ => none

def setRoute (st : St) (h : String) (k : Nat) (v : Option Route) : St :=
  { st with route := fun h' k' => if h' = h ∧ k' = k then v else st.route h' k' }

/-- the publish jobs: slot `k`, `k+1`, … for the destinations in order; a failing Put is logged and skipped. -/
def putAll (f : Faults) (c : Client) (h : String) : List Dest → Nat → St → St × List String
  | [], _, st => (st, [])
  | d :: ds, k, st =>
    if f.failRoute h k then putAll f c h ds (k + 1) st
    else
      let (st', p) := putAll f c h ds (k + 1) (setRoute st h k (some ⟨c, d.chord, d.tunnel, h⟩))
      (st', d.tunnel :: p)

def publish (f : Faults) (c : Client) (h : String) (servers : List (Option String)) (st : St) : St × Out :=
  let req := uniq servers
  if req.length > numLinks then (st, .invalidArgument)
  else if req.length < 1 then (st, .invalidArgument)
  else if st.leased c.token then (st, .internal)            -- Acquire fails: lease conflict
  else if !st.owns c.token h then (st, .permissionDenied)
  else match destAll st.dest req with
    | none => (st, .internal)                                -- some destination record is missing
    | some dsts =>
      let (st', p) := putAll f c h dsts 1 st
      if p.isEmpty then (st', .unavailable) else (st', .ok p)

/-- the unpublish jobs for slots k..numLinks; returns whether any Delete failed. -/
def delAll (f : Faults) (h : String) : List Nat → St → St × Bool
  | [], st => (st, false)
  | k :: ks, st =>
    if f.failRoute h k then let (st', _) := delAll f h ks st; (st', true)
    else delAll f h ks (setRoute st h k none)

def slots : List Nat := (List.range numLinks).map (· + 1)

def unadvertise (f : Faults) (c : Client) (h : String) (st : St) : St × Option Out :=
  if !st.owns c.token h then (st, some .permissionDenied)
  else
    let (st', failed) := delAll f h slots st
    if failed then (st', some .internal) else (st', none)

def unpublish (f : Faults) (c : Client) (h : String) (st : St) : St × Out :=
  if st.leased c.token then (st, .internal)
  else match unadvertise f c h st with
    | (st', some e) => (st', e)
    | (st', none) => (st', .ok [])

def release (f : Faults) (c : Client) (h : String) (st : St) : St × Out :=
  if st.leased c.token then (st, .internal)
  else match unadvertise f c h st with
    | (st', some e) => (st', e)
    | (st', none) =>
      let st1 : St := { st' with owns := fun t h' => if t = c.token ∧ h' = h then false else st'.owns t h' }
      let st2 : St := if f.failCustomDel h then st1
                      else { st1 with custom := fun h' => if h' = h then none else st1.custom h' }
      (st2, .ok [])

/-- GenerateHostname: the generated name `h` is appended under the caller's prefix. -/
def generate (c : Client) (h : String) (st : St) : St × Out :=
  if st.owns c.token h then (st, .conflict)
  else ({ st with owns := fun t h' => if t = c.token ∧ h' = h then true else st.owns t h' }, .ok [])

/-- the DHT effect of a successful AcmeValidate (C29): binding + registration. -/
def bindCustom (c : Client) (h : String) (st : St) : St × Out :=
  ({ st with owns := fun t h' => if t = c.token ∧ h' = h then true else st.owns t h',
             custom := fun h' => if h' = h then some c else st.custom h' }, .ok [])

inductive Op where
  | generate (c : Client) (h : String)
  | bindCustom (c : Client) (h : String)
  | publish (f : Faults) (c : Client) (h : String) (servers : List (Option String))
  | unpublish (f : Faults) (c : Client) (h : String)
  | release (f : Faults) (c : Client) (h : String)
  | hold (token : String) (held : Bool)       -- a concurrent call of the same client takes / drops the lease

def step (st : St) : Op → St × Out
  | .generate c h => generate c h st
  | .bindCustom c h => bindCustom c h st
  | .publish f c h s => publish f c h s st
  | .unpublish f c h => unpublish f c h st
  | .release f c h => release f c h st
  | .hold t b => ({ st with leased := fun t' => if t' = t then b else st.leased t' }, .ok [])

def run (st : St) (ops : List Op) : St := ops.foldl (fun s o => (step s o).1) st

/-! ## requests as they arrive: with the identity the peer claims on the stream -/

inductive Req where
  | generate (who : Caller) (h : String)
  | bindCustom (c : Client) (h : String)
  | publish (f : Faults) (who : Caller) (h : String) (servers : List (Option String))
  | unpublish (f : Faults) (who : Caller) (h : String)
  | release (f : Faults) (who : Caller) (h : String)
  | hold (token : String) (held : Bool)

/-- what the handlers make of a request: `extractAuthenticated` reads `delegation.Certificate` only, the claimed
`delegation.Identity` never reaches the DHT. -/
def Req.op : Req → Op
  | .generate who h => .generate who.verified h
  | .bindCustom c h => .bindCustom c h
  | .publish f who h s => .publish f who.verified h s
  | .unpublish f who h => .unpublish f who.verified h
  | .release f who h => .release f who.verified h
  | .hold t b => .hold t b

/-- the same request with another claimed identity on the stream. -/
def Req.withClaim (cl : Option Ident) : Req → Req
  | .generate who h => .generate { who with claimed := cl } h
  | .publish f who h s => .publish f { who with claimed := cl } h s
  | .unpublish f who h => .unpublish f { who with claimed := cl } h
  | .release f who h => .release f { who with claimed := cl } h
  | r => r

def stepReq (st : St) (r : Req) : St × Out := step st r.op

def runReq (st : St) (rs : List Req) : St := rs.foldl (fun s r => (stepReq s r).1) st

end Specter.C26
