import SpecterModel.Util
import SpecterModel.C32.Model
/-! C32 line-protocol driver.  See harness/cmd/c32/main.go for the op lines. -/
namespace Specter.C32
open Specter.Util
open Specter.C31 (Bytes)

def verTok : Version → String
  | .v1 => "v1" | .v2 => "v2"

def ExtractRes.tok : ExtractRes → String
  | .ok i => s!"ok,{i.id},{bytesToHex i.token},{verTok i.version}"
  | .format => "err,format" | .unknown => "err,unknown" | .panic => "panic"

/-- pow verdict token → (is it ok?) ; the model only needs ok / not ok and echoes the token -/
def powOk (t : String) : Bool := t == "ok"

/-- `-` = empty chain; otherwise comma-separated, one letter per element of `ClientCA.Certificate`:
`n` not a parseable certificate, `t` / `f` the presented certificate verifies / does not verify with that element as the only root -/
def parseChain (t : String) : Option (List ChainElem) :=
  if t = "-" then some [] else
  (t.splitOn ",").mapM fun
    | "n" => some none | "t" => some (some true) | "f" => some (some false) | _ => none

/-- explanation appended to the SPEC reason: which bundled (non-first) chain elements the presented certificate chains to -/
def notIssuedWhy (chain : List ChainElem) : String :=
  let idx := (List.range chain.length).filter fun i => i ≠ 0 ∧ chain[i]? = some (some true)
  if idx.isEmpty then ""
  else s!": it verifies only under ClientCA.Certificate[{",".intercalate (idx.map toString)}], bundled behind the client CA (= ClientCA.Certificate[0]) in the server's CA chain, which is not the client CA"

/-- how the harness built the subject of an `extract` / `uniq` line: not by a `MakeSubject…` call, by
`MakeSubjectV2(id, hash)` (token `<id>`), or by `MakeSubjectV1(id, token)` (token `v1,<id>,<hex token>`) -/
inductive IssuedBy
  | no | v2 (id : Nat) | v1 (id : Nat) (tok : Bytes)
  deriving DecidableEq

def parseIssued (t : String) : Option IssuedBy :=
  if t = "-" then some .no else
  match t.splitOn "," with
  | [id] => id.toNat?.map .v2
  | ["v1", id, tok] => match id.toNat?, hexToBytes tok with
    | some id, some tok => some (.v1 id tok)
    | _, _ => none
  | _ => none

/-- statement oracle for an issued subject: the identity it must yield, and the SPEC reason if it does not.
v2: token = the whole subject.  v1: token = the whole legacy token the subject was issued for (so that the identity
determines the subject: (v1, id, token) ↦ "v1:id:token"), whatever bytes the token contains. -/
def issuedWant (cn : Bytes) : IssuedBy → Option (String × String)
  | .no => none
  | .v2 id =>
    let want := s!"ok,{id},{bytesToHex cn},v2"
    some (want, s!"issued subject must yield identity {want}")
  | .v1 id tok =>
    let want := s!"ok,{id},{bytesToHex tok},v1"
    some (want, s!"subject issued by MakeSubjectV1 for legacy token {bytesToHex tok} must yield identity {want} (the whole token: otherwise the identity is not unique to the certificate subject)")

def step (_ : Unit) (toks : List String) (rhs : String) : Unit × Verdict :=
  match toks with
  | ["mk2", id, hash, b64] =>
    match id.toNat?, hexToBytes hash, hexToBytes b64, hexToBytes rhs with
    | some id, some hash, some b64, some r =>
      let m := makeSubjectV2 (fun _ => b64) id hash
      if m ≠ r then ((), .diff (bytesToHex m)) else ((), .ok)
    | _, _, _, _ => ((), .bad "mk2 args")
  | ["mk1", id, tok] =>
    match id.toNat?, hexToBytes tok, hexToBytes rhs with
    | some id, some tok, some r =>
      let m := makeSubjectV1 id tok
      if m ≠ r then ((), .diff (bytesToHex m)) else ((), .ok)
    | _, _, _ => ((), .bad "mk1 args")
  | ["extract", cn, issued] =>
    match hexToBytes cn, parseIssued issued with
    | some cn, some iss =>
      let m := (extract cn).tok
      match issuedWant cn iss with
      | some why => if rhs ≠ why.1 then ((), .spec why.2) else if m ≠ rhs then ((), .diff m) else ((), .ok)
      | none => if m ≠ rhs then ((), .diff m) else ((), .ok)
    | _, _ => ((), .bad "extract args")
  | ["uniq", cnA, issA, cnB, issB] =>
    -- two ISSUED subjects (each built by MakeSubjectV1 / MakeSubjectV2 with a uint64 id): the identity must be a function of
    -- the subject and unique to it
    match hexToBytes cnA, parseIssued issA, hexToBytes cnB, parseIssued issB, rhs.splitOn ";" with
    | some a, some ia, some b, some ib, [ra, rb] =>
      if ia = .no ∨ ib = .no then ((), .bad "uniq needs issued subjects") else
      if ¬ ra.startsWith "ok," ∨ ¬ rb.startsWith "ok," then ((), .spec "an issued subject yields no identity")
      else if a ≠ b ∧ ra = rb then
        ((), .spec s!"two distinct issued subjects yield the same identity {ra}: the token is not unique to the certificate subject")
      else if a = b ∧ ra ≠ rb then ((), .spec "the same subject yields two different identities")
      else
        match issuedWant a ia, issuedWant b ib with
        | some wa, some wb =>
          if ra ≠ wa.1 then ((), .spec wa.2) else if rb ≠ wb.1 then ((), .spec wb.2)
          else
            let m := (extract a).tok ++ ";" ++ (extract b).tok
            if m ≠ rhs then ((), .diff m) else ((), .ok)
        | _, _ => ((), .bad "uniq issued")
    | _, _, _, _, _ => ((), .bad "uniq args")
  | ["req", pow, pub, shaPub, b64] =>
    match hexToBytes pub, hexToBytes shaPub, hexToBytes b64 with
    | some pub, some shaPub, some b64 =>
      match rhs.splitOn "," with
      | ["ok", cn, key, caOK, xid, xtok, xver] =>
        match hexToBytes cn, hexToBytes key, parseBool caOK, xid.toNat?, hexToBytes xtok with
        | some cn, some key, some caOK, some xid, some xtok =>
          let bound := C31.join C31.colon [v2, C31.dec xid, b64]   -- "v2:<id>:<base64url(sha256 pub)>"
          if ¬ powOk pow then ((), .spec s!"certificate issued although the proof of work was rejected ({pow})")
          else if key ≠ pub then ((), .spec "issued certificate does not carry the proof-of-work key")
          else if ¬ caOK then ((), .spec "issued certificate does not verify against the client CA")
          else if xver ≠ "v2" ∨ xtok ≠ cn then ((), .spec "identity token is not the certificate subject (v2)")
          else if cn ≠ bound ∨ ¬ xid < 2^64 then ((), .spec "subject is not v2:<id>:<base64url(sha256(pow key))>")
          else
            match request (fun _ => shaPub) (fun _ => b64) .ok pub xid with
            | .issued c => if c.cn ≠ cn ∨ c.key ≠ key then ((), .diff s!"ok,{bytesToHex c.cn},{bytesToHex c.key}") else ((), .ok)
            | .powErr _ => ((), .diff "err")
        | _, _, _, _, _ => ((), .bad "req rhs")
      | ["err", e] =>
        if powOk pow then ((), .diff "ok") else if e ≠ pow then ((), .diff ("err," ++ pow)) else ((), .ok)
      | _ => ((), .bad "req rhs")
    | _, _, _ => ((), .bad "req args")
  | ["renew", der, caOK, cn, xver, pow, powKey, certKey, chainTok] =>
    match parseBool caOK, hexToBytes cn, hexToBytes powKey,
          (if certKey = "none" then some none else (hexToBytes certKey).map some), parseChain chainTok with
    | some caOK, some cn, some powKey, some certKey, some chain =>
      -- `caOK` is the statement's "issued by the client CA": the presented certificate verifies (ClientAuth) with the client CA
      -- certificate — element 0 of the server's ClientCA chain — as the only root.  It must agree with the chain token.
      if der = "p" ∧ chain.head? ≠ none ∧ chain.head? ≠ some none ∧ chain.head? ≠ some (some caOK) then
        ((), .bad "caOK disagrees with the verdict of chain element 0")
      else
      -- the model's C31.Res carries only ok / not-ok here: any error token is echoed
      let powRes : C31.Res := if powOk pow then .ok else .badSig
      let m : String := match renewChain (der == "e") (der == "p") chain cn powRes powKey certKey with
        | .ok c => s!"ok,{bytesToHex c.cn},{bytesToHex c.key}"
        | .error .noChain => "panic" | .error .caUnparsable => "err,caparse"
        | .error (.renew .required) => "err,required" | .error (.renew .parse) => "err,parse"
        | .error (.renew .notOurCA) => "err,notourca"
        | .error (.renew .identity) => "err,identity" | .error (.renew .panic) => "panic" | .error (.renew .v1) => "err,v1"
        | .error (.renew (.pow _)) => "err,pow-" ++ pow | .error (.renew .notEd25519) => "err,noted25519"
        | .error (.renew .keyMismatch) => "err,keymismatch"
      match rhs.splitOn "," with
      | ["ok", ncn, nkey, ncaOK, nsame] =>
        match hexToBytes ncn, hexToBytes nkey, parseBool ncaOK, parseBool nsame with
        | some ncn, some nkey, some ncaOK, some nsame =>
          if der ≠ "p" ∨ ¬ caOK then ((), .spec ("renewed a certificate that was not issued by the client CA" ++ notIssuedWhy chain))
          else if xver ≠ "v2" then ((), .spec s!"renewed a certificate whose subject is not version 2 ({xver})")
          else if ¬ powOk pow then ((), .spec s!"renewed although the proof of work was rejected ({pow})")
          else if certKey ≠ some powKey then ((), .spec "renewed with a proof made by a key that is not the certificate's key")
          else if ncn ≠ cn ∨ ¬ nsame then ((), .spec "renewed certificate does not keep the subject")
          else if some nkey ≠ certKey then ((), .spec "renewed certificate does not keep the key")
          else if ¬ ncaOK then ((), .spec "renewed certificate does not verify against the client CA")
          else if m ≠ s!"ok,{bytesToHex ncn},{bytesToHex nkey}" then ((), .diff m) else ((), .ok)
        | _, _, _, _ => ((), .bad "renew rhs")
      | _ => if m ≠ rhs then ((), .diff m) else ((), .ok)
    | _, _, _, _, _ => ((), .bad "renew args")
  | _ => ((), .bad "unknown op")

def main : IO Unit := runLoop () step

end Specter.C32
