import SpecterModel.C03.Props
import SpecterModel.C08.Props
/-!
# C04 — DHT KV operations stay linearizable while the ring changes

In the ring model a routed KV operation is ONE atomic step (`kvAt`; the Go handler runs under
`surrogateMu.RLock`, transfers under `surrogateMu.Lock`). Proved for EVERY net (any churn state):

* `kvAt_atomic`: the step either fails in routing and leaves the whole net unchanged, or applies
  `kvLocal` to the store of exactly ONE node and changes nothing else — an operation never takes effect
  at two places or partially;
* `kvAt_routing_errors`: a routing failure is `ErrKVStaleOwnership` (retryable) or a lookup error
  (the request could not be routed at all); no other error can be produced outside the store itself;
* on a stable quiescent ring the executing node is the key's owner (`C03.kv_at_owner`), so all entry
  nodes act on one sequential object per key.

PARTIAL: that the interleaving of real goroutines is equivalent to a sequence of such atomic steps is
the Go mutex / CAS assumption (C13, C18) and is validated, not proved: client goroutines issue operations
through random entry nodes of real LocalNodes with real timers while joins and leaves run; the recorded
invoke/return history of every key is decided linearizable by the Wing–Gong search written in Lean
against the sequential register / set specification (`C18.linearizable`), failed operations must carry a
retryable error and are given no linearization point.
-/
namespace Specter.C04
open Specter.Ring

def isRoutingError : Err → Bool
  | .kvStale | .notStarted | .noSuccessor | .unreachable | .fuel => true
  | _ => false

/-- **Atomicity.** A routed KV operation either changes nothing (routing failure) or is `kvLocal` applied
to the store of exactly one node. -/
theorem kvAt_atomic (net : Net) : ∀ (fuel n : Nat) (k : String) (h : Nat) (op : KvOp),
    (∃ e, isRoutingError e = true ∧ kvAt net fuel n k h op = (net, .err e)) ∨
    (∃ o nd, net.get o = some nd ∧
      kvAt net fuel n k h op =
        (net.upd o (fun nd' => { nd' with store := (kvLocal nd.store k h op).1 }), (kvLocal nd.store k h op).2)) := by
  intro fuel
  induction fuel with
  | zero => intro n k h op; left; exact ⟨.fuel, rfl, rfl⟩
  | succ f ih =>
    intro n k h op
    rw [kvAt]
    cases hg : net.get n with
    | none => left; exact ⟨.unreachable, rfl, by simp⟩
    | some nd0 =>
      simp only
      by_cases hcr : nd0.crashed = true
      · left; exact ⟨.unreachable, rfl, by simp [hcr]⟩
      · simp only [hcr, Bool.false_eq_true, if_false]
        cases hf : findSucc net FUEL n h with
        | err e =>
          have hl := Specter.C08.findSucc_err_isLookupError net _ _ _ _ hf
          cases e <;> simp [Specter.C08.isLookupError] at hl
          · left; exact ⟨.notStarted, rfl, rfl⟩
          · left; exact ⟨.kvStale, rfl, rfl⟩
          · left; exact ⟨.kvStale, rfl, rfl⟩
          · left; exact ⟨.unreachable, rfl, rfl⟩
          · left; exact ⟨.fuel, rfl, rfl⟩
        | found succ =>
          simp only
          by_cases hs : (succ != n) = true
          · simp only [hs, if_true]; exact ih succ k h op
          · simp only [hs, Bool.false_eq_true, if_false]
            by_cases hst : (nd0.state != .active) = true
            · left; exact ⟨.kvStale, rfl, by simp [hst]⟩
            · simp only [hst, Bool.false_eq_true, if_false]
              have localCase : ∀ (c : Bool),
                  (if c = true then (net, KvOut.err Err.kvStale)
                   else ((net.upd n fun nd => { nd with store := (kvLocal nd0.store k h op).1 }), (kvLocal nd0.store k h op).2)) =
                   (net, KvOut.err Err.kvStale) ∨
                  (if c = true then (net, KvOut.err Err.kvStale)
                   else ((net.upd n fun nd => { nd with store := (kvLocal nd0.store k h op).1 }), (kvLocal nd0.store k h op).2)) =
                   ((net.upd n fun nd => { nd with store := (kvLocal nd0.store k h op).1 }), (kvLocal nd0.store k h op).2) := by
                intro c; cases c <;> simp
              cases hsg : nd0.surrogate with
              | none =>
                simp only
                rcases localCase (match nd0.pred with | some p => !between p h n true | none => false) with e | e
                · left; exact ⟨.kvStale, rfl, e⟩
                · right; exact ⟨n, nd0, hg, e⟩
              | some sg =>
                simp only
                by_cases hb : between n h sg true = true
                · simp only [hb, if_true]; exact ih sg k h op
                · simp only [hb, Bool.false_eq_true, if_false]
                  rcases localCase (match nd0.pred with | some p => !between p h n true | none => false) with e | e
                  · left; exact ⟨.kvStale, rfl, e⟩
                  · right; exact ⟨n, nd0, hg, e⟩

/-- the store operation itself only ever fails with the documented prefix conflict -/
theorem kvLocal_errors (st : List KEntry) (k : String) (h : Nat) (op : KvOp) (e : Err)
    (he : (kvLocal st k h op).2 = .err e) : e = .kvPrefixConflict ∧ (kvLocal st k h op).1 = st := by
  cases op <;> simp [kvLocal] at he ⊢
  rename_i c
  cases hf : kvFind st k with
  | none => simp [hf] at he
  | some x =>
    simp [hf] at he ⊢
    split at he
    · simp at he; rename_i hc; simp [hc]; exact he.symm
    · simp at he

/-- **Error classification.** Whatever a routed operation returns as an error is a routing error
(retryable `ErrKVStaleOwnership`, or the request could not be routed) or the documented KV conflict, and
in the conflict case the store is unchanged too. -/
theorem kv_errors_classified (net : Net) (fuel n : Nat) (k : String) (h : Nat) (op : KvOp) (e : Err)
    (hout : (kvAt net fuel n k h op).2 = .err e) : isRoutingError e = true ∨ e = .kvPrefixConflict := by
  rcases kvAt_atomic net fuel n k h op with ⟨e', hr, h1⟩ | ⟨o, nd, hg, h1⟩
  · rw [h1] at hout; simp at hout; subst hout; exact Or.inl hr
  · rw [h1] at hout; exact Or.inr (kvLocal_errors nd.store k h op e hout).1

example : Err.kvStale.retryable = true := rfl

end Specter.C04
