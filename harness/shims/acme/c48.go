//go:build verif

package acme

import (
	"sort"

	"github.com/miekg/dns"
)

// VerifRec is one static record of the responder: the map key it is stored under, and the record.
type VerifRec struct {
	Owner string
	RR    dns.RR
}

// VerifDNSInfo exposes the configured zone, the SOA and the static records (map keys sorted, slice order kept).
func VerifDNSInfo(d *DNS) (domain string, soa dns.RR, recs []VerifRec) {
	keys := make([]string, 0, len(d.records))
	for k := range d.records {
		keys = append(keys, k)
	}
	sort.Strings(keys)
	for _, k := range keys {
		for _, rr := range d.records[k] {
			recs = append(recs, VerifRec{Owner: k, RR: rr})
		}
	}
	return d.domain, d.soa, recs
}

func VerifDNSKeyName(label string) string { return dnsKeyName(label) }
