package main

import (
	"fmt"

	"go.miragespace.co/specter/spec/acme"
)

func main() {
	for _, z := range []string{"8.8.8.8", "1.1.1.1", "10.0.0.1", "2001:db8::1", "[2001:db8::1]", "localhost", "foo.local", "Example.com", "example.com.", "8.8.8.8:80", "0x8.8.8.8", "8.8.8", "intranet", "foo.internal", "a.home.arpa", "xn--a.com", "a_b.com", "８.８.８.８", "1.2.3.４"} {
		s, err := acme.Normalize(z)
		fmt.Printf("%q => %q %v\n", z, s, err)
	}
}
