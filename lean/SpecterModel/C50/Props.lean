import SpecterModel.C50.Model
/-!
# C50 — Clients use at most three gateways, fastest measured first

The model sorts with core's `List.mergeSort`, which is proved stable; since the comparator is a total
preorder (`le_total`, `le_trans`), *the* stable sort of a list is unique, so any stable sort
(`sort.SliceStable` — library hypothesis, validated differentially on every run) produces this list.
-/
namespace Specter.C50

variable (look : Node → Option Int)

/-- the comparator is a strict weak order: its negation-flip `le` is total … -/
theorem le_total (a b : Node) : (le look a b || le look b a) = true := by
  unfold le less
  cases look a <;> cases look b <;> simp
  omega

/-- … and transitive -/
theorem le_trans (a b c : Node) (h1 : le look a b = true) (h2 : le look b c = true) : le look a c = true := by
  unfold le less at *
  cases ha : look a <;> cases hb : look b <;> cases hc : look c <;> simp [ha, hb, hc] at h1 h2 ⊢
  omega

theorem less_irrefl (a : Node) : less look a a = false := by
  unfold less; cases look a <;> simp

/-- C50 `at_most_three`: the client uses at most three gateways. -/
theorem at_most_three (conns : List Node) (rec : Bool) : (connected conns rec look).length ≤ 3 := by
  unfold connected
  have : (firstThree conns).length ≤ 3 := by simp [firstThree, numRedundantLinks]; omega
  split
  · exact this
  · rw [List.length_mergeSort]; exact this

/-- C50 `perm_first_three`: the gateways used are exactly the first three connections in map order. -/
theorem perm_first_three (conns : List Node) (rec : Bool) :
    (connected conns rec look).Perm ((byKey conns).take 3) ∧ (byKey conns).Perm conns := by
  refine ⟨?_, List.mergeSort_perm _ _⟩
  unfold connected
  split
  · exact List.Perm.refl _
  · exact List.mergeSort_perm _ _

/-- what `le` means -/
theorem le_iff (a b : Node) : le look a b = true ↔
    match look a, look b with
    | some l, some r => l ≤ r
    | some _, none => True
    | none, some _ => False
    | none, none => True := by
  unfold le less
  cases look a <;> cases look b <;> simp

/-- C50 `measured_first_ascending`: with a recorder, for any two positions i < j of the result: if the later node
has a recent measurement then so has the earlier one and its average is not larger — i.e. all measured nodes
come first, in ascending order of average round-trip time, and unmeasured ones after them. -/
theorem measured_first_ascending (conns : List Node) :
    (connected conns true look).Pairwise (fun a b =>
      match look a, look b with
      | some l, some r => l ≤ r
      | some _, none => True
      | none, some _ => False
      | none, none => True) := by
  unfold connected
  simp only [Bool.not_true, Bool.false_eq_true, if_false]
  have := List.pairwise_mergeSort (le_trans look) (le_total look) (firstThree conns)
  exact this.imp (fun {a b} h => (le_iff look a b).mp h)

/-- C50 `ties_keep_map_order`: two nodes that the comparator does not order strictly the other way round
(equal averages, or both unmeasured, or already in order) keep their map order. -/
theorem ties_keep_map_order (conns : List Node) (a b : Node)
    (hab : [a, b].Sublist (firstThree conns)) (hle : less look b a = false) :
    [a, b].Sublist (connected conns true look) := by
  unfold connected
  simp only [Bool.not_true, Bool.false_eq_true, if_false]
  exact List.pair_sublist_mergeSort (le_trans look) (le_total look) (by simp [le, hle]) hab

/-- C50 `no_recorder_map_order`: without a recorder the first three connections are returned in map order. -/
theorem no_recorder_map_order (conns : List Node) : connected conns false look = (byKey conns).take 3 := by
  simp [connected, firstThree, numRedundantLinks]

/-- map order: keys ascending -/
theorem byKey_sorted (conns : List Node) : (byKey conns).Pairwise (fun a b => a.key ≤ b.key) := by
  have := List.pairwise_mergeSort (le := fun (a b : Node) => decide (a.key ≤ b.key))
    (by intro a b c h1 h2; simp at *; exact String.le_trans h1 h2)
    (by intro a b; simp; exact String.le_total _ _) conns
  exact this.imp (fun {a b} h => by simpa using h)

/-- C50 `snapshot_window`: a key contributes an average only if it has a point recorded within the last 10 s. -/
theorem snapshot_window (tab : List Entry) (k : String) (v : Int) (h : snapshot tab k = some v) :
    ∃ e ∈ tab, e.mkey = k ∧ (∃ a ∈ e.ages, a ≤ 10000) ∧ e.avg = some v := by
  unfold snapshot at h
  cases hf : tab.find? (·.mkey == k) with
  | none => rw [hf] at h; cases h
  | some e =>
    rw [hf] at h; simp only at h
    split at h
    · next hany =>
      refine ⟨e, List.mem_of_find?_eq_some hf, ?_, ?_, h⟩
      · have := List.find?_some hf; simpa using this
      · obtain ⟨x, hx, hd⟩ := List.any_eq_true.mp hany
        exact ⟨x, hx, by simpa [windowMs] using of_decide_eq_true hd⟩
    · cases h

/-! ### non-vacuity -/
section NonVacuity
def n1 : Node := ⟨1, "a", "10.0.0.1:1", false⟩
def n2 : Node := ⟨2, "b", "10.0.0.2:1", false⟩
def n3 : Node := ⟨3, "c", "10.0.0.3:1", true⟩
def n4 : Node := ⟨4, "d", "10.0.0.4:1", false⟩
def tab : List Entry := [⟨"10.0.0.1:1/PHY", [100, 20000], some 5⟩, ⟨"10.0.0.2:1/PHY", [3000], some 9⟩,
  ⟨"10.0.0.3:1/-1", [20000], some 7⟩, ⟨"10.0.0.4:1/PHY", [1], some 1⟩]
def lk (n : Node) : Option Int := snapshot tab (mkey n)
-- n3's only point is stale: unmeasured although the table holds an average
example : lk n1 = some 5 ∧ lk n2 = some 9 ∧ lk n3 = none ∧ lk n4 = some 1 := by decide
theorem ex_byKey : byKey [n1, n2, n3, n4] = [n1, n2, n3, n4] := List.mergeSort_of_pairwise (by decide)
theorem ex_first : firstThree [n1, n2, n3, n4] = [n1, n2, n3] := by simp [firstThree, ex_byKey, numRedundantLinks]
-- n4 (fastest) is cut off because it is fourth in map order; measured n1 (5), n2 (9) precede unmeasured n3
example : connected [n1, n2, n3, n4] true lk = [n1, n2, n3] := by
  simp only [connected, ex_first, Bool.not_true, Bool.false_eq_true, if_false]
  exact List.mergeSort_of_pairwise (by decide)
/-- hypotheses of `ties_keep_map_order` are satisfiable -/
example : [n1, n2].Sublist (firstThree [n1, n2, n3, n4]) ∧ less lk n2 n1 = false := by
  rw [ex_first]; decide
end NonVacuity

end Specter.C50
