import SpecterModel.C39.Model
/-!
# C39 — the in-memory stream pipe is a faithful byte stream
-/
namespace Specter.C39

/-! ### list slices and splicing -/

def slice (l : List Nat) (a b : Nat) : List Nat := (l.drop a).take (b - a)

def splice (l : List Nat) (w : Nat) (ys : List Nat) : List Nat := l.take w ++ ys ++ l.drop (w + ys.length)

theorem splice_length (l ys : List Nat) (w : Nat) (h : w + ys.length ≤ l.length) :
    (splice l w ys).length = l.length := by
  unfold splice; simp; omega

theorem splice_get (l ys : List Nat) (w i : Nat) (h : w + ys.length ≤ l.length) :
    (splice l w ys)[i]? = if i < w then l[i]? else if i < w + ys.length then ys[i - w]? else l[i]? := by
  unfold splice
  by_cases h1 : i < w
  · simp [h1, List.getElem?_append, List.getElem?_take]
    intro h2; omega
  · by_cases h2 : i < w + ys.length
    · simp [h1, h2, List.getElem?_append, List.getElem?_take, List.length_take]
      have : min w l.length = w := by omega
      simp [this, h1, h2]
    · simp [h1, h2, List.getElem?_append, List.getElem?_take, List.length_take]
      have : min w l.length = w := by omega
      simp [this, h1, h2]
      congr 1; omega

theorem slice_get (l : List Nat) (a b i : Nat) :
    (slice l a b)[i]? = if i < b - a then l[a + i]? else none := by
  unfold slice; simp [List.getElem?_take, List.getElem?_drop]

end Specter.C39
