import SpecterModel.C11.Props
import SpecterModel.C12.Props
import SpecterModel.C28.Props
import SpecterModel.C34.Props
