import SpecterModel.C01.Sim
/-! C09 driver: every lookup must end with a node or an error (never crash / time out). -/
namespace Specter.C09Drv
open Specter.Util Specter.Ring

def spec (_net _net' : Net) (toks : List String) (ires : String) : Option String :=
  match toks with
  | "lookup" :: _ =>
    if ires.startsWith "crash" || ires == "timeout" || ires == "err:PANIC" then
      some s!"lookup did not return a node or an error: {ires}"
    else none
  | "joinprobe" :: _ =>
    if (ires.splitOn "timeout").length > 1 || (ires.splitOn "PANIC").length > 1 || ires.startsWith "crash" then
      some s!"a lookup at a joining node / the join it belongs to did not return: {ires}"
    else none
  | _ => none

end Specter.C09Drv

namespace Specter.C09
def main : IO Unit := Specter.Util.runLoop ([] : Specter.Ring.Net) (Specter.Ring.ringStep Specter.C09Drv.spec)
end Specter.C09
