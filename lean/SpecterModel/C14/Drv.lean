import SpecterModel.Util
import SpecterModel.C14.Model
/-!
C14 line-protocol driver. Model = `acrossRPC` over the GENERATED registry / externals / error-map / handler table.
SPEC (from the statement): a registry error must arrive as the same registry variable with the origin's
retryability; an unknown (arbitrary / canceled) error must arrive non-retryable; `context.DeadlineExceeded` — which
the origin itself classifies as retryable (it is in `retryableErrs`, the wire code is failed_precondition) and which
nodes do return to remote callers (timeouts of forwarded operations) — must keep its retryability.
A TEXT-PRESERVING wrapper around a known sentinel e (kind `same:<shape>`: `fmt.Errorf("%w", e)`, `errors.Join(e)`, a
wrapper type whose `Error()` is the inner one's, nested as `<shape>` says) IS that error for the origin
(`errors.Is`) and is indistinguishable from it on the wire, so the statement applies to it as it stands: the caller
must see e, and must classify it retryable exactly when the origin's own `ErrorIsRetryable` did.
KEYS: the KV / lease methods carry a key / prefix / lease name chosen by the caller (6th token: `a<n>` = n ASCII bytes,
`u<n>` = n bytes of UTF-8 with multi-byte and escaped characters; `-` for methods without one). The statement does not
mention the key: the verdicts above are demanded for EVERY key, of any length, and say so in the SPEC reason.
LIVE lines (`live <method> <node state> <scenario> <ttl ns|-> <origin> <origin retryable> <key token>`): the handler's
local node is a REAL `chord.LocalNode` (active single-node ring / never started / left) over the real in-memory KV
provider; `<origin>` is what the node ITSELF answered to the request (called directly: a registry variable, `noerror`, or
`x<hex text>` for any other error), the right-hand side is what the remote caller got for the same request in the same
state through the real handler. The statement is judged on these lines as it stands: a registry error the node answers
must be the same error at the caller, with the node's own retryability; any other error must arrive non-retryable.
The model additionally predicts the node's answer to lease requests (`leaseOutcome`) and the caller's whole view.
`%w`-wrapped registry errors whose text is CHANGED and fresh errors carrying a registry message are outside the
reachable domain (no handler returns them): compared with the model only.
-/
namespace Specter.C14
open Specter.Util

def entryOf (name : String) : Option Entry := known.find? (fun e => e.name == name)

/-- an external sentinel: the known entry if the source mentions it, else just an error with that message -/
def extOf (name msg : String) : GoErr := match entryOf name with | some e => .reg e | none => .opaque msg

/-- the wrapper shape of a `same:<shape>` kind: one letter per nesting level (f = fmt.Errorf("%w"), j = errors.Join,
t = text-preserving wrapper type); all of them are `wrap <inner text> inner` for the model -/
def sameShape (kind : String) : Option Nat :=
  if kind.startsWith "same:" then
    let sh := (kind.drop 5).toString.toList
    if sh ≠ [] ∧ sh.all (fun c => c == 'f' || c == 'j' || c == 't') then some sh.length else none
  else none

def nest (x : GoErr) : Nat → GoErr
  | 0 => x
  | n + 1 => .wrap x.msg (nest x n)

def originOf (kind arg : String) : Option GoErr :=
  match sameShape kind with
  | some n =>
    match entryOf arg with
    | some e => some (sameText e n)
    | none => if arg = "context.DeadlineExceeded" then some (nest (.opaque "context deadline exceeded") n) else none
  | none =>
  match kind with
  | "reg" => (entryOf arg).map .reg
  | "wrapped" => (entryOf arg).map (fun e => .wrap ("storing KV to successor: " ++ e.msg) (.reg e))
  | "alias" => (entryOf arg).map (fun e => .opaque e.msg)
  | "deadline" => some (extOf "context.DeadlineExceeded" "context deadline exceeded")
  | "deadlinewrapped" => some (.wrap "forwarding: context deadline exceeded" (extOf "context.DeadlineExceeded" "context deadline exceeded"))
  | "canceled" => some (extOf "context.Canceled" "context canceled")
  | "opaque" => (hexToAscii arg).map .opaque
  | _ => none

/-- the key the harness sent, rebuilt from its token (the harness's `makeKey`) -/
def keyUnits : List String := ["é", "\"", "\\", "\n", "\x00", "日", "<", "k"]

def keyOf (tok : String) : Option String :=
  if tok = "-" then some "" else
  match (tok.drop 1).toString.toNat? with
  | none => none
  | some n =>
    if tok.startsWith "a" then
      some (String.ofList ((List.range n).map fun i => Char.ofNat ('a'.toNat + i % 26)))
    else if tok.startsWith "u" then
      let rec go (fuel i : Nat) (acc : String) : String :=
        match fuel with
        | 0 => acc
        | fuel + 1 =>
          let u := keyUnits.getD (i % keyUnits.length) "k"
          if acc.utf8ByteSize + u.utf8ByteSize ≤ n then go fuel (i + 1) (acc ++ u)
          else acc ++ String.ofList (List.replicate (n - acc.utf8ByteSize) 'x')
      some (go (n + 1) 0 "")
    else none

def keyDesc (tok : String) : String :=
  if tok = "-" then "" else s!" (request key of {(tok.drop 1).toString} bytes)"

def render (x : GoErr) (origin : GoErr) (key : String) : String :=
  match x with
  | .reg e => s!"id={e.name} retry={boolStr (retryable known x)} msgsame=- kv=-"
  | .twirp c m kv =>
    let k := match kv with | none => "none" | some k => if k == key then "same" else "diff"
    s!"id=tw:{c} retry={boolStr (retryable known x)} msgsame={boolStr (m == origin.msg)} kv={k}"
  | _ => "other"

def field (rhs key : String) : String :=
  match (rhs.splitOn " ").find? (·.startsWith (key ++ "=")) with
  | some t => (t.drop (key.length + 1)).toString
  | none => ""

def step (_ : Unit) (toks : List String) (rhs : String) : Unit × Verdict :=
  match toks with
  | ["reset"] => ((), .ok)
  | ["reg", name, msg, r] =>
    match entryOf name, hexToAscii msg, parseBool r with
    | some e, some m, some r =>
      -- the harness's table, the running program and the extracted registry must agree
      if e.msg = m ∧ e.retryable = r then ((), .ok)
      else ((), .diff s!"registry entry {name}: message/retryable differ from the extracted registry")
    | none, _, _ => ((), .diff s!"{name} is not in the extracted registry")
    | _, _, _ => ((), .bad "reg args")
  | ["regcount", n] =>
    if n.toNat? = some known.length then ((), .ok)
    else ((), .diff s!"extracted registry + externals have {known.length} entries (harness table out of date?)")
  | ["rpc", method, kind, arg, oretry, ktok] =>
    match originOf kind arg, parseBool oretry, keyOf ktok with
    | some x, some oretry, some key =>
      let how := howOf Gen.C14.handlers method
      if (how == "WrapErrorKV") ≠ (ktok ≠ "-") then ((), .bad "a key token goes with the WrapErrorKV handlers exactly") else
      let got := acrossRPC known mapped how key x
      let kd := keyDesc ktok
      let id := field rhs "id"
      let retry := field rhs "retry"
      let sp : Option String :=
        if (sameShape kind).isSome then
          if id ≠ arg then
            some s!"{arg} inside a text-preserving wrapper ({kind}) is not recognised by the caller as the same error (caller sees {id}){kd}"
          else if retry ≠ boolStr oretry then
            some s!"{arg} inside a text-preserving wrapper ({kind}): retryable at the origin = {oretry}, at the caller = {retry}{kd}"
          else none
        else
        match kind with
        | "reg" =>
          if id ≠ arg then some s!"{arg} is not recognised by the caller as the same error (caller sees {id}){kd}"
          else if retry ≠ boolStr oretry then some s!"{arg}: retryable at the origin = {oretry}, at the caller = {retry}{kd}"
          else none
        | "opaque" | "canceled" => if retry ≠ "false" then some s!"an unknown error became retryable at the caller{kd}" else none
        | "deadline" =>
          if retry ≠ boolStr oretry then
            some s!"context.DeadlineExceeded: retryable at the origin = {oretry}, at the caller = {retry}{kd}"
          else none
        | _ => none
      match sp with
      | some w => ((), .spec w)
      | none =>
        if retryable known x ≠ oretry then ((), .diff s!"model: retryable at the origin = {retryable known x}")
        else if render got x key ≠ rhs then ((), .diff (render got x key))
        else ((), .ok)
    | _, _, _ => ((), .bad "rpc args")
  | ["live", method, ns, sc, ttl, oid, oretry, ktok] =>
    let origin : Option (Option GoErr) :=
      if oid = "noerror" then some none
      else match entryOf oid with
        | some e => some (some (.reg e))
        | none => if oid.startsWith "x" then (hexToAscii (oid.drop 1).toString).map (fun m => some (.opaque m)) else none
    let ttlv : Option (Option Int) := if ttl = "-" then some none else ttl.toInt?.map some
    match origin, parseBool oretry, keyOf ktok, ttlv with
    | some origin, some oretry, some key, some ttlv =>
      let how := howOf Gen.C14.handlers method
      if (how == "WrapErrorKV") ≠ (ktok ≠ "-") then ((), .bad "a key token goes with the WrapErrorKV handlers exactly") else
      let id := if rhs = "noerror" then "no error at all" else field rhs "id"
      let retry := if rhs = "noerror" then "-" else field rhs "retry"
      let what := s!"{method} on a real node ({ns}, lease/prefix {sc}" ++
        (match ttlv with | some t => s!", ttl {t} ns" | none => "") ++ ")" ++ keyDesc ktok
      let sp : Option String :=
        match origin with
        | some (.reg e) =>
          if id ≠ e.name then
            some s!"{what}: the node itself answers {e.name}; the remote caller does not recognise it as the same error (caller sees {id})"
          else if retry ≠ boolStr oretry then
            some s!"{what}: {e.name} retryable at the origin = {oretry}, at the caller = {retry}"
          else none
        | some _ => if retry = "true" then some s!"{what}: an unknown error became retryable at the caller" else none
        | none => none
      match sp with
      | some w => ((), .spec w)
      | none =>
        -- the model: the node's answer to a lease request, then the handler (adds nothing) and the error path
        let op : Option LeaseOp := match method with
          | "Acquire" => some .acquire | "Renew" => some .renew | "Release" => some .release | _ => none
        let st : Option LeaseSt := match sc with
          | "free" => some .free | "held" => some .heldOther | "heldother" => some .heldOther
          | "heldmine" => some .heldMine | "lapsed" => some .lapsed | _ => none
        let predicted : Option (Option GoErr) :=
          if ns = "active" then
            match op, st, ttlv with
            | some .release, some st, _ => some (leaseOutcome known .release 0 st)
            | some op, some st, some t => some (leaseOutcome known op t st)
            | _, _, _ => none
          else none
        let descr (o : Option GoErr) : String := match o with
          | none => "noerror" | some (.reg e) => e.name | some x => x.msg
        match predicted with
        | some p =>
          if p ≠ origin then ((), .diff s!"model: the node answers {descr p}") else
          judge how key origin oretry
        | none => judge how key origin oretry
    | _, _, _, _ => ((), .bad "live args")
  | _ => ((), .bad "unknown op")
where
  judge (how key : String) (origin : Option GoErr) (oretry : Bool) : Unit × Verdict :=
    let want := match callerSees known mapped how key origin, origin with
      | some got, some x => render got x key
      | _, _ => "noerror"
    let r0 := match origin with | some x => retryable known x | none => false
    if r0 ≠ oretry then ((), .diff s!"model: retryable at the origin = {r0}")
    else if want ≠ rhs then ((), .diff want)
    else ((), .ok)

def main : IO Unit := runLoop () step

end Specter.C14
