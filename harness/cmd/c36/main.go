// C36 correspondence: the real errorHandler (directly and behind the whole proxy chain), forwardTCP and
// httpConnect are driven with every dial error class under stacks of fmt %w / net.OpError / url.Error wrappers by a scripted
// tun.Server; what the caller receives (HTTP status, status frames, close, relayed bytes) is printed per case.
package main

import (
	"bufio"
	"bytes"
	"context"
	"errors"
	"fmt"
	"io"
	"net"
	"net/http"
	"net/http/httptest"
	"net/url"
	"os"
	"strings"
	"sync"
	"time"

	"go.miragespace.co/specter/gateway"
	"go.miragespace.co/specter/spec/protocol"
	"go.miragespace.co/specter/spec/rpc"
	"go.miragespace.co/specter/spec/transport"
	"go.miragespace.co/specter/spec/tun"
	"verif/harness/hlib"
)

// ---------- error values ----------
type netErr struct{ timeout bool }

func (e netErr) Error() string {
	if e.timeout {
		return "verif: i/o timeout"
	}
	return "verif: connection refused"
}
func (e netErr) Timeout() bool   { return e.timeout }
func (e netErr) Temporary() bool { return false }

var leaves = []string{"nf", "nc", "nd", "ca", "eof", "dl", "nt", "osdl", "no", "ot", "ueof"}

func leafErr(k string) error {
	switch k {
	case "nf":
		return tun.ErrDestinationNotFound
	case "nc":
		return tun.ErrTunnelClientNotConnected
	case "nd":
		return transport.ErrNoDirect
	case "ca":
		return context.Canceled
	case "eof":
		return io.EOF
	case "dl":
		return context.DeadlineExceeded
	case "nt":
		return netErr{timeout: true}
	case "osdl":
		return os.ErrDeadlineExceeded
	case "no":
		return netErr{timeout: false}
	case "ueof":
		return io.ErrUnexpectedEOF
	}
	return errors.New("verif: boom")
}

// mkErr builds the real error for a token `w1.w2.…leaf` (wrappers outermost first); "-" = nil.
func mkErr(tok string) error {
	if tok == "-" {
		return nil
	}
	parts := strings.Split(tok, ".")
	return wrapErr(parts[:len(parts)-1], leafErr(parts[len(parts)-1]))
}

// wrapErr puts the wrappers (outermost first) around e: f = fmt.Errorf %w, o = *net.OpError, u = *url.Error.
func wrapErr(wraps []string, e error) error {
	for i := len(wraps) - 1; i >= 0; i-- {
		switch wraps[i] {
		case "f":
			e = fmt.Errorf("layer %d: %w", i, e)
		case "o":
			e = &net.OpError{Op: "dial", Net: "tcp", Err: e}
		case "u":
			e = &url.Error{Op: "Get", URL: "https://app.example.com/x", Err: e}
		}
	}
	return e
}

// ---------- scripted tunnel server ----------
type script struct {
	mu      sync.Mutex
	dialErr error
	mkConn  func() net.Conn // called when dialErr == nil
	dials   int
	block   bool     // wait for the context to end and return its error ...
	blockWr []string // ... inside these wrappers (outermost first), the way a transport reports "opening stream: %w"
}

func (s *script) Identity() *protocol.Node { return &protocol.Node{Address: "gateway.internal:1"} }
func (s *script) DialClient(ctx context.Context, link *protocol.Link) (net.Conn, error) {
	s.mu.Lock()
	s.dials++
	s.mu.Unlock()
	if s.block {
		<-ctx.Done()
		return nil, wrapErr(s.blockWr, ctx.Err())
	}
	if s.dialErr != nil {
		return nil, s.dialErr
	}
	return s.mkConn(), nil
}
func (s *script) DialInternal(ctx context.Context, n *protocol.Node) (net.Conn, error) {
	return nil, errors.New("unexpected DialInternal")
}

var r *hlib.Run

// ---------- lib: the real predicates ----------
func doLib(tok string) {
	e := mkErr(tok)
	fl := []bool{errors.Is(e, tun.ErrDestinationNotFound), errors.Is(e, tun.ErrTunnelClientNotConnected), errors.Is(e, transport.ErrNoDirect),
		errors.Is(e, context.Canceled), errors.Is(e, io.EOF), errors.Is(e, context.DeadlineExceeded), tun.IsTimeout(e), tun.IsNoDirect(e)}
	xs := make([]string, len(fl))
	for i, b := range fl {
		xs[i] = hlib.B(b)
	}
	r.Emit("lib "+tok, strings.Join(xs, " "))
	r.Case("lib " + tok)
	r.Count("op:lib")
}

// ---------- http ----------
type trackWriter struct {
	h       http.Header
	code    int
	written bool
}

func (t *trackWriter) Header() http.Header { return t.h }
func (t *trackWriter) WriteHeader(c int) {
	if !t.written {
		t.code, t.written = c, true
	}
}
func (t *trackWriter) Write(b []byte) (int, error) {
	if !t.written {
		t.code, t.written = 200, true
	}
	return len(b), nil
}

var chainHandler http.Handler
var chainScript = &script{}
var hostSeq int

func doHTTP(mode, tok string) {
	e := mkErr(tok)
	tw := &trackWriter{h: http.Header{}}
	res := func() (out string) {
		defer func() {
			if p := recover(); p != nil {
				out = "panic"
			}
		}()
		switch mode {
		case "direct":
			req := httptest.NewRequest("GET", "https://app.example.com/x", nil)
			gateway.VerifErrorHandler(tw, req, e)
		case "chain", "chain-live":
			if chainHandler == nil {
				chainHandler = gateway.VerifProxyHandler(chainScript, []string{"example.com"}, 443)
			}
			hostSeq++
			req := httptest.NewRequest("GET", fmt.Sprintf("https://app%d.example.com/x", hostSeq), nil)
			req.Proto, req.ProtoMajor, req.ProtoMinor = "HTTP/2.0", 2, 0
			req.RemoteAddr = "198.51.100.7:4711"
			chainScript.dialErr, chainScript.block, chainScript.blockWr = e, false, nil
			if mode == "chain-live" { // the dial really blocks until the request deadline; the token's leaf is `dl`
				ctx, cancel := context.WithTimeout(req.Context(), 30*time.Millisecond)
				defer cancel()
				req = req.WithContext(ctx)
				parts := strings.Split(tok, ".")
				chainScript.block, chainScript.blockWr = true, parts[:len(parts)-1]
			}
			chainHandler.ServeHTTP(tw, req)
		}
		return ""
	}()
	if res == "" {
		if tw.written {
			res = fmt.Sprint(tw.code)
		} else {
			res = "silent"
		}
	}
	r.Emit("http "+mode+" "+tok, res)
	r.Case("http " + mode + " " + tok)
	r.Count("op:http-" + mode)
	r.Count("http-result:" + res)
}

// ---------- tcp ----------
const marker = "VERIF-PAYLOAD-FROM-TUNNEL-CLIENT"

type callerConn struct {
	mu      sync.Mutex
	readErr error // error of the first Read (drain failure); nil = deliver the 4-byte poke
	poked   bool
	closed  chan struct{}
	once    sync.Once
	events  []string
	wbuf    bytes.Buffer
}

func (c *callerConn) Read(p []byte) (int, error) {
	c.mu.Lock()
	if !c.poked {
		c.poked = true
		if c.readErr != nil {
			c.mu.Unlock()
			return 0, c.readErr
		}
		c.mu.Unlock()
		return copy(p, []byte{0, 0, 0, 0}), nil
	}
	c.mu.Unlock()
	<-c.closed
	return 0, io.EOF
}
func (c *callerConn) Write(p []byte) (int, error) {
	c.mu.Lock()
	defer c.mu.Unlock()
	c.wbuf.Write(p)
	return len(p), nil
}
func (c *callerConn) Close() error {
	c.once.Do(func() {
		c.mu.Lock()
		c.events = append(c.events, "close@"+fmt.Sprint(c.wbuf.Len()))
		c.mu.Unlock()
		close(c.closed)
	})
	return nil
}
func (c *callerConn) SetReadDeadline(time.Time) error { return nil }

func frameName(st *protocol.TunnelStatus) string {
	switch st.GetStatus() {
	case protocol.TunnelStatusCode_STATUS_OK:
		return "OK"
	case protocol.TunnelStatusCode_NO_DIRECT:
		return "NO_DIRECT"
	case protocol.TunnelStatusCode_UNKNOWN_ERROR:
		return "UNKNOWN_ERROR"
	}
	return "OTHER"
}

func doTCP(drainTok string, hostOk bool, dialTok string) {
	cc := &callerConn{readErr: mkErr(drainTok), closed: make(chan struct{})}
	var clientEnd net.Conn
	sc := &script{dialErr: mkErr(dialTok), mkConn: func() net.Conn {
		a, b := net.Pipe()
		clientEnd = b
		return a
	}}
	host := "app.example.com"
	if !hostOk {
		host = "example.com"
	}
	var ev []string
	func() {
		defer func() {
			if p := recover(); p != nil {
				ev = append(ev, "panic")
			}
		}()
		gateway.VerifForwardTCP(context.Background(), sc, host, "198.51.100.7:4711", cc)
	}()
	if sc.dials > 0 {
		ev = append(ev, "dial")
	}
	if clientEnd != nil { // a client connection exists: let it talk, then hang up
		go func() {
			clientEnd.Write([]byte(marker))
			clientEnd.Close()
		}()
		select {
		case <-cc.closed:
		case <-time.After(3 * time.Second):
			ev = append(ev, "hang")
		}
	}
	cc.mu.Lock()
	written := append([]byte{}, cc.wbuf.Bytes()...)
	closedAt := -1
	for _, e := range cc.events {
		fmt.Sscanf(e, "close@%d", &closedAt)
	}
	cc.mu.Unlock()
	// decode what the caller received: status frames originated by the gateway, or relayed client bytes
	rest := written
	for len(rest) > 0 {
		if bytes.HasPrefix(rest, []byte(marker)) {
			ev = append(ev, "pipe")
			rest = rest[len(marker):]
			continue
		}
		st := &protocol.TunnelStatus{}
		rd := bytes.NewReader(rest)
		if err := rpc.BoundedReceive(rd, st, 4096); err != nil {
			ev = append(ev, "garbage")
			break
		}
		ev = append(ev, "send:"+frameName(st))
		rest = rest[len(rest)-rd.Len():]
	}
	if closedAt >= 0 {
		if closedAt == len(written) {
			ev = append(ev, "close")
		} else {
			ev = append(ev, "close-before-last-write")
		}
	}
	lhs := "tcp " + drainTok + " " + hlib.B(hostOk) + " " + dialTok
	r.Emit(lhs, hlib.Join(ev, ","))
	r.Case(lhs)
	r.Count("op:tcp")
	r.Count("tcp-result:" + hlib.Join(ev, ","))
}

// ---------- connect ----------
type closeTracker struct {
	net.Conn
	closed *bool
	mu     *sync.Mutex
}

func (c closeTracker) Close() error {
	c.mu.Lock()
	*c.closed = true
	c.mu.Unlock()
	return c.Conn.Close()
}

type hijackWriter struct {
	trackWriter
	local net.Conn // gateway side of the caller connection
}

func (h *hijackWriter) Hijack() (net.Conn, *bufio.ReadWriter, error) {
	return h.local, bufio.NewReadWriter(bufio.NewReader(h.local), bufio.NewWriter(h.local)), nil
}

func doConnect(addrOk bool, dialTok string, recvOk bool, st string, hijackOk bool) {
	var mu sync.Mutex
	remoteClosed := false
	var clientEnd net.Conn
	sc := &script{dialErr: mkErr(dialTok), mkConn: func() net.Conn {
		a, b := net.Pipe()
		clientEnd = b
		go func() { // the tunnel client: report its status (or hang up / talk garbage), then wait
			if !recvOk {
				b.Close()
				return
			}
			code := protocol.TunnelStatusCode_STATUS_OK
			switch st {
			case "NO_DIRECT":
				code = protocol.TunnelStatusCode_NO_DIRECT
			case "UNKNOWN_ERROR":
				code = protocol.TunnelStatusCode_UNKNOWN_ERROR
			}
			rpc.Send(b, &protocol.TunnelStatus{Status: code, Error: "verif"})
		}()
		return closeTracker{Conn: a, closed: &remoteClosed, mu: &mu}
	}}
	hostport := "app.example.com:443"
	if !addrOk {
		hostport = "example.com:443" // too few labels: parseAddr fails
	}
	req := httptest.NewRequest("CONNECT", "http://"+hostport, nil)
	req.Host = hostport
	req.RemoteAddr = "198.51.100.7:4711"
	var w http.ResponseWriter
	tw := &trackWriter{h: http.Header{}}
	var callerSide net.Conn
	if hijackOk {
		local, remoteSide := net.Pipe()
		callerSide = remoteSide
		w = &hijackWriter{trackWriter: trackWriter{h: http.Header{}}, local: local}
	} else {
		w = tw
	}
	type resp struct {
		code int
		body string
	}
	got := make(chan resp, 1)
	if hijackOk { // the caller reads whatever arrives on its connection
		go func() {
			br := bufio.NewReader(callerSide)
			rs, err := http.ReadResponse(br, req)
			if err != nil {
				got <- resp{code: -1}
				return
			}
			callerSide.SetReadDeadline(time.Now().Add(2 * time.Second))
			b, _ := io.ReadAll(br)
			got <- resp{code: rs.StatusCode, body: string(b)}
		}()
	}
	res := ""
	func() {
		defer func() {
			if p := recover(); p != nil {
				res = "panic"
			}
		}()
		gateway.VerifHTTPConnect(sc, w, req)
	}()
	mu.Lock()
	closedAtReturn := remoteClosed
	mu.Unlock()
	status, piped := 0, false
	if hw, ok := w.(*hijackWriter); ok && hw.written { // answered through the ResponseWriter: not taken over
		status = hw.code
		callerSide.Close()
	} else if ok {
		// taken over: the tunnel client now talks, then hangs up
		if clientEnd != nil {
			go func() {
				clientEnd.Write([]byte(marker))
				clientEnd.Close()
			}()
		}
		select {
		case g := <-got:
			status = g.code
			piped = g.body == marker
		case <-time.After(4 * time.Second):
			status = -2
		}
	} else if tw.written {
		status = tw.code
	}
	if clientEnd != nil {
		clientEnd.Close()
	}
	if res == "" {
		res = fmt.Sprintf("%d %s %s %s", status, hlib.B(sc.dials > 0), hlib.B(closedAtReturn), hlib.B(piped))
	}
	lhs := fmt.Sprintf("connect %s %s %s %s %s", hlib.B(addrOk), dialTok, hlib.B(recvOk), st, hlib.B(hijackOk))
	r.Emit(lhs, res)
	r.Case(lhs)
	r.Count("op:connect")
	r.Count("connect-result:" + strings.SplitN(res, " ", 2)[0])
}

// ---------- enumeration ----------
func stacks(maxDepth int) []string {
	out := []string{""}
	prev := []string{""}
	for d := 0; d < maxDepth; d++ {
		var next []string
		for _, p := range prev {
			next = append(next, p+"f.", p+"o.", p+"u.")
		}
		out = append(out, next...)
		prev = next
	}
	return out
}

func main() {
	r = hlib.Start()
	r.Rule = "cases = (error value, protocol path): error values are every stack of fmt %w / net.OpError / url.Error wrappers (depth <= 3 quick, <= 6 + random deeper thorough) around each of 11 innermost errors (not-found, not-connected, no-direct, canceled, EOF, context deadline, net timeout, os deadline, net non-timeout, other, unexpected EOF); paths: real errors.Is/IsTimeout/IsNoDirect, errorHandler directly, errorHandler behind chi+ReverseProxy+Transport+overlayDialer (scripted dial error; and a dial that really blocks until the request deadline and reports it bare or wrapped), forwardTCP (failing drain / hostname / dial, success with a talking client), httpConnect (bad address, dial error, silent or failing client, each client status, with/without Hijack); non-trivial = distinct line"
	rng := hlib.NewRng(r.Seed)
	if r.Replay != "" {
		for _, t := range r.ReplayLines() {
			switch t[0] {
			case "lib":
				doLib(t[1])
			case "http":
				doHTTP(t[1], t[2])
			case "tcp":
				doTCP(t[1], t[2] == "true", t[3])
			case "connect":
				doConnect(t[1] == "true", t[2], t[3] == "true", t[4], t[5] == "true")
			}
		}
		r.Finish()
		return
	}
	depth, chainDepth := 3, 2
	if r.Thorough() {
		depth, chainDepth = 6, 4
	}
	var errs []string
	for _, s := range stacks(depth) {
		for _, l := range leaves {
			errs = append(errs, s+l)
		}
	}
	nrand := 300
	if r.Thorough() {
		nrand = 5000
	}
	for i := 0; i < nrand; i++ { // deeper random stacks
		n := depth + 1 + rng.Intn(6)
		s := ""
		for j := 0; j < n; j++ {
			switch rng.Intn(5) {
			case 0:
				s += "o."
			case 1:
				s += "u."
			default:
				s += "f."
			}
		}
		errs = append(errs, s+hlib.Pick(rng, leaves))
	}
	for _, e := range errs {
		doLib(e)
		doHTTP("direct", e)
		if strings.Count(e, ".") <= chainDepth || rng.Intn(8) == 0 {
			doHTTP("chain", e)
		}
	}
	for i := 0; i < 3; i++ {
		doHTTP("chain-live", "dl")
	}
	for _, s := range stacks(2)[1:] { // the live deadline, reported the way transports do ("opening stream: %w", OpError, url.Error)
		doHTTP("chain-live", s+"dl")
	}
	// stream paths
	var some []string
	for _, s := range stacks(2) {
		for _, l := range leaves {
			some = append(some, s+l)
		}
	}
	for i := 0; i < 40; i++ {
		some = append(some, errs[len(errs)-1-i])
	}
	for _, e := range some {
		doTCP("-", true, e)
		doTCP(e, true, "-")
		doTCP(e, false, hlib.Pick(rng, some))
		doTCP("-", false, e)
	}
	for i := 0; i < 25; i++ { // the success path is concurrent code (tun.Pipe): repeat it
		doTCP("-", true, "-")
		doTCP("-", false, "-")
		doConnect(true, "-", true, "OK", true)
	}
	for _, addrOk := range []bool{true, false} {
		for _, recvOk := range []bool{true, false} {
			for _, st := range []string{"OK", "NO_DIRECT", "UNKNOWN_ERROR"} {
				for _, hj := range []bool{true, false} {
					doConnect(addrOk, "-", recvOk, st, hj)
					doConnect(addrOk, "-", recvOk, st, hj) // repeated: the relay is concurrent code
					doConnect(addrOk, hlib.Pick(rng, some), recvOk, st, hj)
				}
			}
		}
	}
	for _, e := range some {
		doConnect(true, e, true, "OK", true)
	}
	r.Finish()
}
