/-!
# C40 — model of `spec/tun/pipe.go` (`Pipe` / `pipe`)

`pipe(wg, errChan, dst, src)` runs `io.CopyBuffer(src, dst, buf)` (reads `dst`, writes `src` — the parameter
names are swapped in the Go source), then `src.Close(); dst.Close()`, then sends a non-nil error, then
(deferred) `wg.Done()`. `Pipe` starts two of them in opposite directions plus a goroutine that closes the
channel after `wg.Wait()`.

Streams are external: a reader is a script of `Read` results, a writer a script of `Write` results
(arbitrary, including misbehaving ones). Core Lean only.
-/
namespace Specter.C40

inductive Err where
  | eof | shortWrite | invalidWrite | other (k : Nat)
deriving DecidableEq, Repr

/-- result of one `Read(buf)`: `buf[:nr]` and the error -/
structure ReadRes where
  data : List Nat
  err : Option Err
deriving DecidableEq, Repr

/-- result of one `Write(p)`: `(nw, ew)`; `nw` may be anything a broken writer returns -/
structure WriteRes where
  n : Int
  err : Option Err
deriving DecidableEq, Repr

structure CopyOut where
  calls : List (List Nat)      -- argument of every `Write` call made, in order
  taken : List (List Nat)      -- data returned by every `Read` call made, in order
  written : Int                -- io.CopyBuffer's `written`
  err : Option Err             -- io.CopyBuffer's error
deriving DecidableEq, Repr

/-- a writer script that ran out accepts everything -/
def nextWrite (ws : List WriteRes) (len : Nat) : WriteRes × List WriteRes :=
  match ws with
  | [] => ({ n := len, err := none }, [])
  | w :: ws' => (w, ws')

/-- `nw, ew := dst.Write(buf[0:nr]); if nw < 0 || nr < nw { nw = 0; if ew == nil { ew = errInvalidWrite } }` -/
def judge (nr : Nat) (w : WriteRes) : Int × Option Err :=
  if w.n < 0 ∨ (nr : Int) < w.n then (0, if w.err = none then some .invalidWrite else w.err) else (w.n, w.err)

/-- The loop of `io.copyBuffer` (go1.26 `io/io.go`) over scripted streams. A reader script that ran out
answers `(0, EOF)`. Accumulators: calls, taken (reversed), written. -/
def copyLoop : List ReadRes → List WriteRes → List (List Nat) → List (List Nat) → Int → CopyOut
  | [], _, calls, taken, written => ⟨calls.reverse, ([] :: taken).reverse, written, none⟩
  | r :: rs, ws, calls, taken, written =>
    let taken' := r.data :: taken
    if r.data ≠ [] then                                           -- if nr > 0
      let q := nextWrite ws r.data.length                         -- dst.Write(buf[0:nr])
      let calls' := r.data :: calls
      let j := judge r.data.length q.1
      let written' := written + j.1                               -- written += int64(nw)
      if j.2 ≠ none then ⟨calls'.reverse, taken'.reverse, written', j.2⟩            -- ew != nil
      else if (r.data.length : Int) ≠ j.1 then ⟨calls'.reverse, taken'.reverse, written', some .shortWrite⟩
      else match r.err with                                       -- if er != nil
        | none => copyLoop rs q.2 calls' taken' written'
        | some .eof => ⟨calls'.reverse, taken'.reverse, written', none⟩
        | some e => ⟨calls'.reverse, taken'.reverse, written', some e⟩
    else match r.err with
      | none => copyLoop rs ws calls taken' written
      | some .eof => ⟨calls.reverse, taken'.reverse, written, none⟩
      | some e => ⟨calls.reverse, taken'.reverse, written, some e⟩

def copy (rs : List ReadRes) (ws : List WriteRes) : CopyOut := copyLoop rs ws [] [] 0

/-! ## `Pipe`: two copiers, wait group, error channel — small-step, all interleavings -/

/-- program counter of one `pipe` goroutine -/
inductive PC where
  | copying                       -- inside io.CopyBuffer
  | closing1 (e : Option Err)     -- about to `src.Close()`  (the stream it writes to)
  | closing2 (e : Option Err)     -- about to `dst.Close()`  (the stream it reads from)
  | reporting (e : Option Err)    -- about to `if err != nil { errChan <- err }`
  | exiting (e : Option Err)      -- about to run the deferred `wg.Done()`
  | exited (e : Option Err)
deriving DecidableEq, Repr

structure PState where
  pcA : PC := .copying            -- copier A: reads X, writes Y
  pcB : PC := .copying            -- copier B: reads Y, writes X
  closesX : Nat := 0              -- number of `Close()` calls received by stream X
  closesY : Nat := 0
  chan : List Err := []           -- buffered channel, capacity 2
  chanClosed : Bool := false
  wg : Nat := 2
  blocked : Bool := false         -- a send found the buffer full (never happens: theorem)
  panicked : Bool := false        -- a send on a closed channel (never happens: theorem)
deriving DecidableEq, Repr

inductive PEv where
  | finishA (e : Option Err) | finishB (e : Option Err)   -- io.CopyBuffer returns (any error, any time)
  | stepA | stepB                                         -- next statement of the goroutine
  | closer                                                -- `wg.Wait()` returned: `close(err)`
deriving DecidableEq, Repr

def send (s : PState) (e : Option Err) : PState :=
  match e with
  | none => s
  | some e =>
    if s.chanClosed then { s with panicked := true }
    else if s.chan.length ≥ 2 then { s with blocked := true }
    else { s with chan := s.chan ++ [e] }

def pstep (s : PState) : PEv → PState
  | .finishA e => match s.pcA with
    | .copying => { s with pcA := .closing1 e }
    | _ => s
  | .finishB e => match s.pcB with
    | .copying => { s with pcB := .closing1 e }
    | _ => s
  | .stepA => match s.pcA with
    | .closing1 e => { s with pcA := .closing2 e, closesY := s.closesY + 1 }
    | .closing2 e => { s with pcA := .reporting e, closesX := s.closesX + 1 }
    | .reporting e => { send s e with pcA := .exiting e }
    | .exiting e => { s with pcA := .exited e, wg := s.wg - 1 }
    | _ => s
  | .stepB => match s.pcB with
    | .closing1 e => { s with pcB := .closing2 e, closesX := s.closesX + 1 }
    | .closing2 e => { s with pcB := .reporting e, closesY := s.closesY + 1 }
    | .reporting e => { send s e with pcB := .exiting e }
    | .exiting e => { s with pcB := .exited e, wg := s.wg - 1 }
    | _ => s
  | .closer => if s.wg = 0 ∧ !s.chanClosed then { s with chanClosed := true } else s

def prun (evs : List PEv) : PState := evs.foldl pstep {}

/-! ## Both directions at the same time: the copy buffers, and writes that are consumed piece by piece

`pipe` obtains its buffer INSIDE the goroutine (`buf := pool.Get(BufferSize)`, put back by a deferred `pool.Put`),
so each direction copies through a buffer of its own. A `Read(buf)` stores the chunk at the start of the
direction's buffer; `Write(buf[0:nr])` hands that very memory to the destination, which (a synchronous pipe, a
flow-controlled stream, a slow peer) consumes it piece by piece, looking at the memory at the moment it takes
each piece, while the opposite direction keeps running. -/

inductive Dir where
  | ab      -- reads stream X (side A), writes stream Y
  | ba      -- reads stream Y (side B), writes stream X
deriving DecidableEq, Repr

/-- `BufferSize = 1024 * 16` -/
def bufferSize : Nat := 16384

/-- which buffer a direction copies through: each `pipe` goroutine holds its own `pool.Get` result -/
def codeBufOf : Dir → Nat
  | .ab => 0
  | .ba => 1

/-- one direction of a running `Pipe` -/
structure Half where
  taken : List Nat := []        -- bytes returned by the source's `Read` calls so far, in order
  delivered : List Nat := []    -- bytes the destination has consumed so far, in order
  off : Nat := 0                -- `Write(buf[0:nr])` in flight: the destination has consumed `buf[0:off]`
  nr : Nat := 0                 -- (`off = nr`: no write in flight, the copier is at / in `Read`)
deriving DecidableEq, Repr

structure DState where
  mem : Nat → List Nat          -- buffer id ↦ current content of that buffer
  ab : Half := {}
  ba : Half := {}

def DState.half (s : DState) : Dir → Half
  | .ab => s.ab
  | .ba => s.ba

def DState.setHalf (s : DState) (d : Dir) (h : Half) : DState :=
  match d with
  | .ab => { s with ab := h }
  | .ba => { s with ba := h }

inductive DEv where
  | read (d : Dir) (chunk : List Nat)   -- the source of direction `d` returns `chunk` (nil error) from `Read(buf)`
  | drain (d : Dir) (k : Nat)           -- the destination of direction `d` consumes the next `k` bytes of the write in flight
deriving DecidableEq, Repr

/-- what the two goroutines allow next: a copier calls `Read` only when its previous `Write` has returned, a
`Read` returns at most `len(buf)` bytes, and a destination can only consume what is left of the write in flight -/
def enabled (s : DState) : DEv → Bool
  | .read d chunk => !decide ((s.half d).off < (s.half d).nr) && decide (chunk.length ≤ bufferSize)
  | .drain d k => decide (0 < k) && decide ((s.half d).off + k ≤ (s.half d).nr)

def dstep (bufOf : Dir → Nat) (s : DState) (ev : DEv) : DState :=
  if enabled s ev then
    match ev with
    | .read d chunk =>
      let i := bufOf d
      let m := fun j => if j = i then chunk ++ (s.mem i).drop chunk.length else s.mem j     -- nr, er = src.Read(buf)
      ({ s with mem := m }).setHalf d { s.half d with taken := (s.half d).taken ++ chunk, off := 0, nr := chunk.length }
    | .drain d k =>
      let h := s.half d
      s.setHalf d { h with delivered := h.delivered ++ ((s.mem (bufOf d)).drop h.off).take k, off := h.off + k }
  else s

/-- all interleavings: any event list; `m0` = what the pooled buffers contain initially (anything) -/
def drun (bufOf : Dir → Nat) (m0 : Nat → List Nat) (evs : List DEv) : DState :=
  evs.foldl (dstep bufOf) { mem := m0 }

end Specter.C40
