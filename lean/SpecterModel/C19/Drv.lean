import SpecterModel.C16.Drv
/-! C19 line-protocol driver: the shared KV driver (`SpecterModel/C16/Drv.lean`) judging the C19 operations. -/
namespace Specter.C19

def main : IO Unit := Specter.C16.mainFor .c19

end Specter.C19
