import SpecterModel.Util
import SpecterModel.C49.Model
/-!
C49 line-protocol driver.

File store: model = `step` on the KV model; SPEC = history oracle (`lastWrite`, `listSpecOk`) — independent of the
KV/list modelling. Locks: the harness logs every KV lease call the storage instances make (with the wall-clock
window around it) and the Lock/Unlock markers; the lease model is replayed with the observed times
(token − ttl is the exact clock reading of kv/memory), SPEC = "nobody obtains the lock while another instance
holds it": an instance holds the lock from its `locked … => ok` to its `unlocking`; another instance's `Lock`
returning in between is a violation when the holder's lease is unexpired (observed tokens only) AND ALSO when that
lease has run out although the KV never failed one of the holder's renewals — a live holder renews (ticker every
ttl/4, explicit `RenewLockLease`), so its lease does not expire on its own (`held_until_unlock_or_expiry`); only an
injected KV failure (recorded per instance) excuses the loss.
Explicit renewals: `renewing i key dur` … `renewedlock i key dur => ok|notholder|expired|err` bracket a
`RenewLockLease(key, dur)` call; the KV renewal it makes is replayed as the model's `renewLock i dur ttl`.
Renewal goroutines and acquiring contexts (model part 3): the replay runs on `RSt` — a ticker renewal
(`kvrenew` outside a `renewing … renewedlock` bracket) is the model's "ticker period elapses" and is only possible
while the model's goroutine of that instance runs (DIFF otherwise); a failed one (KV refusal or injected fault) ends
the goroutine. `ctxdone i key kind t` says that the context instance `i` called `Lock(ctx, key)` with has ended
(`cancel` = cancelled by the caller after Lock returned, `timeout` = its deadline passed, `parent` = an ancestor was
cancelled, `late` = cancelled after Unlock): the model's `ctxDone i`, which changes nothing — the holder still holds.
The SPEC rule above is unchanged and says so: the end of the acquiring context is not an unlock, not a lease
expiry and not a KV failure. `unlocking` additionally compares with the model: a holder whose goroutine runs in the
model and whom the KV never failed cannot find its lease run out at its own Unlock (DIFF).
Slow renewal requests: `renewslow i key lat t` says that a renewal request instance `i` made at `t` needs `lat` ns to
reach the KV (transport latency injected by the wrapper). In the model that is time passing before the renewal
(`slowRenew`): the goroutine renews with `context.Background()` and waits, and `slow_renewal_keeps` says the holder
loses nothing as long as the answer comes inside the lease. A latency that reaches the expiry of the holder's current
lease is a failure of the KV side and excuses a lapse like an injected fault; a shorter one excuses nothing.
`kvrenew … => gaveup` says that the storage abandoned such a request before the KV saw it: the model's ticker never
does that (DIFF), and it is NOT a KV failure — the holder is still held to the statement.
-/
namespace Specter.C49
open Specter.Util

structure OEntry where
  key : String
  inst : Nat
  holding : Bool := false      -- between `locked … => ok` and `unlocking`
  lastTok : Nat := 0           -- last token this instance obtained from the KV (acquire/renew)
  rel : Option String := none  -- result of the KV release since the last `unlocked`
  fault : Bool := false        -- the KV failed a renewal of this instance since it locked (injected by the wrapper)
  cfgTtl : Nat := 0            -- lease TTL this instance acquires with (its configured `LeaseTTL`), 0 = not seen yet
  expl : Option Int := none    -- a `RenewLockLease(key, dur)` call is in progress (`renewing` seen): its `dur`
  explRes : Option String := none  -- what the KV renewal made by that call returned
  acqDone : Option (String × Nat) := none  -- the context this instance's `Lock` was called with ended (kind, when), since it locked
  slow : Option (Nat × Nat) := none    -- the last slow renewal request since it locked: (latency, when it was made); it was answerable inside the lease
  gaveUp : Option Nat := none          -- the storage abandoned a renewal request before the KV saw it (when), since it locked

structure DState where
  kv : Kv := []
  hist : List Op := []
  locks : List (String × RSt) := []
  orc : List OEntry := []

def hexPath (s : String) : Option Path := (hexToBytes s).map (·.map Char.ofNat)
def pathHex (p : Path) : String := bytesToHex (p.map Char.toNat)

def renderKeys (ks : List Path) : String :=
  let hs := (ks.map pathHex).mergeSort (fun a b => decide (a ≤ b))
  if hs.isEmpty then "-" else ",".intercalate hs

def parseKeys (s : String) : Option (List Path) :=
  if s = "-" then some [] else (s.splitOn ",").mapM hexPath

def renderOut : Out → String
  | .ok => "ok"
  | .notExist => "notexist"
  | .val b => "v:" ++ bytesToHex b
  | .bool b => boolStr b
  | .size n => s!"size:{n}"
  | .keys ks => renderKeys ks

def lockOf (d : DState) (k : String) : RSt := (d.locks.lookup k).getD {}
def setLock (d : DState) (k : String) (s : RSt) : DState :=
  { d with locks := (k, s) :: d.locks.filter (·.1 != k) }

def orcOf (d : DState) (k : String) (i : Nat) : OEntry :=
  (d.orc.find? (fun e => e.key == k && e.inst == i)).getD { key := k, inst := i }
def setOrc (d : DState) (e : OEntry) : DState :=
  { d with orc := e :: d.orc.filter (fun x => !(x.key == e.key && x.inst == e.inst)) }

def tickTo (s : RSt) (t : Nat) : RSt := if t > s.lock.now then (rstep s (.ev (.tick (t - s.lock.now)))).1 else s

def renderL : LOut → String
  | .none => "none"
  | .acquired t => s!"tok:{t}"
  | .conflict => "conflict"
  | .invalidTTL => "invalidttl"
  | .renewed t => s!"tok:{t}"
  | .expired => "expired"
  | .notHolder => "notholder"
  | .released => "ok"

def parseTok (s : String) : Option Nat :=
  if s.startsWith "tok:" then (s.drop 4).toString.toNat? else none

/-- file-store operation: model output, then the history oracle -/
def fileOp (d : DState) (op : Op) (rhs : String) : DState × Verdict :=
  let (kv', out) := step d.kv op
  let d' := { d with kv := kv', hist := op :: d.hist }
  let specFail : Option String :=
    match op with
    | .load k =>
      let want := match lastWrite [] d.hist k with | some v => "v:" ++ bytesToHex v | none => "notexist"
      if rhs ≠ want then some s!"load must return the last stored value: {want}" else none
    | .exists_ k =>
      let want := boolStr (lastWrite [] d.hist k).isSome
      if rhs ≠ want then some s!"exists={want} by the history" else none
    | .stat k =>
      let want := match lastWrite [] d.hist k with | some v => s!"size:{v.length}" | none => "notexist"
      if rhs ≠ want then some s!"stat={want} by the history" else none
    | .list p false =>
      let live := liveKeys d.hist
      let pOk := p == [] || wfKey p || (p.getLast? == some '/' && wfKey p.dropLast)
      if live.all wfKey && pOk then
        match parseKeys rhs with
        | some r => if listSpecOk live p r then none
                    else some "non-recursive listing is not exactly the immediate children, each once"
        | none => some "listing failed"
      else none
    | _ => none
  match specFail with
  | some w => (d', .spec w)
  | none => if renderOut out ≠ rhs then (d', .diff (renderOut out)) else (d', .ok)

def dstep (d : DState) (toks : List String) (rhs : String) : DState × Verdict :=
  match toks with
  | ["reset"] => ({}, .ok)
  | ["store", k, v] =>
    match hexPath k, hexToBytes v with
    | some k, some v => fileOp d (.store k v) rhs
    | _, _ => (d, .bad "store args")
  | ["load", k] => match hexPath k with | some k => fileOp d (.load k) rhs | none => (d, .bad "load args")
  | ["delete", k] => match hexPath k with | some k => fileOp d (.delete k) rhs | none => (d, .bad "delete args")
  | ["exists", k] => match hexPath k with | some k => fileOp d (.exists_ k) rhs | none => (d, .bad "exists args")
  | ["stat", k] => match hexPath k with | some k => fileOp d (.stat k) rhs | none => (d, .bad "stat args")
  | ["list", p, r] =>
    match hexPath p, parseBool r with
    | some p, some r => fileOp d (.list p r) rhs
    | _, _ => (d, .bad "list args")
  -- ---- KV lease calls made by storage instance `i` (serialised by the recording wrapper) ----
  | ["kvacq", i, key, ttl, tb, ta] =>
    match i.toNat?, ttl.toNat?, tb.toNat?, ta.toNat? with
    | some i, some ttl, some tb, some ta =>
      let s := lockOf d key
      match parseTok rhs with
      | some tok =>
        -- kv/memory computes the token as (clock reading) + ttl: the reading is recovered exactly
        match durationGuard ttl with
        | none => (d, .diff "invalidttl")
        | some td =>
          let now := tok - td
          if tok < td ∨ now < tb ∨ ta < now then (d, .diff s!"token {tok} is not clock+ttl within the call window")
          else
            let (s', out) := rstep (tickTo s now) (.ev (.lockTry i ttl))
            let e := orcOf d key i
            let d' := setOrc (setLock d key s') { e with lastTok := tok, cfgTtl := ttl, acqDone := none, slow := none, gaveUp := none }
            if out = .acquired tok then (d', .ok) else (d', .diff (renderL out))
      | none =>
        -- refused: admissible iff the model refuses at the start of the window (conflict is monotone in time)
        let (s', out) := rstep (tickTo s tb) (.ev (.lockTry i ttl))
        if renderL out = rhs then (setLock d key s', .ok) else (setLock d key (tickTo s tb), .diff (renderL out))
    | _, _, _, _ => (d, .bad "kvacq args")
  | ["kvrenew", i, key, ttl, prev, tb, ta] =>
    match i.toNat?, ttl.toNat?, prev.toNat?, tb.toNat?, ta.toNat? with
    | some i, some ttl, some prev, some tb, some ta =>
      let s := lockOf d key
      let e := orcOf d key i
      -- the result an explicit `RenewLockLease` in progress will report
      let noted (r : String) : OEntry := { e with expl := none, explRes := if e.expl.isSome then some r else e.explRes }
      if rhs = "injected" then    -- fault injected by the wrapper before the KV was called: the KV failed this holder
        if e.expl.isSome then (setOrc d { noted "err" with fault := true }, .ok)   -- the error goes to the caller of RenewLockLease
        else
          -- the ticker's renewal failed: the goroutine returns (model `kvFault i`)
          let d' := setOrc (setLock d key (rstep s (.kvFault i)).1) { noted "err" with fault := true }
          if s.tickers.contains i then (d', .ok)
          else (d', .diff s!"model: the renewal goroutine of instance {i} is not running, its ticker makes no KV call")
      else if rhs = "gaveup" then
        -- the request was abandoned by its caller before the KV saw it. Not a KV failure: `fault` stays as it is.
        if e.expl.isSome then (setOrc d (noted "err"), .ok)      -- the context passed to `RenewLockLease` ended: its caller is told
        else
          (setOrc d { noted "err" with gaveUp := some ta },
           .diff s!"model: the renewal goroutine of instance {i} renews with context.Background() and waits for the KV's answer; it never abandons a request")
      else if s.lock.holder i ≠ some prev then
        (setOrc d (noted (if (parseTok rhs).isSome then "ok" else rhs)), .diff s!"model holder token {repr (s.lock.holder i)} ≠ {prev}")
      else if e.expl.isNone && !s.tickers.contains i then
        (setOrc d (noted rhs), .diff s!"model: the renewal goroutine of instance {i} is not running (it ended at its Unlock or at its first failed renewal), its ticker makes no KV call")
      else
        -- ticker renewal, or the renewal made by `RenewLockLease(key, dur)`: both ask for the CONFIGURED ttl
        let ev : REv := .ev (match e.expl with | some dur => .renewLock i dur ttl | none => .renew i ttl)
        let ttlOk := e.cfgTtl = 0 ∨ ttl = e.cfgTtl
        let fin (v : Verdict) : Verdict :=
          if ttlOk then v else .diff s!"the storage renews with its configured lease TTL {e.cfgTtl}, the KV was asked for {ttl}"
        match parseTok rhs with
        | some tok =>
          match durationGuard ttl with
          | none => (setOrc d (noted "ok"), .diff "invalidttl")
          | some td =>
            let now2 := tok - td
            if tok < td ∨ now2 < tb ∨ ta < now2 then
              (setOrc d (noted "ok"), .diff s!"token {tok} is not clock+ttl within the call window")
            else
              -- Renew reads the clock twice (check, then new token): check at the window start, token at now2;
              -- two successive model renewals are exactly that
              let (s1, o1) := rstep (tickTo s tb) ev
              match o1 with
              | .renewed _ =>
                let (s2, o2) := rstep (tickTo s1 now2) ev
                let d' := setOrc (setLock d key s2) { noted "ok" with lastTok := tok }
                if o2 = .renewed tok then (d', fin .ok) else (d', .diff (renderL o2))
              | o => (setOrc (setLock d key s1) { noted "ok" with lastTok := tok }, .diff (renderL o))
        | none =>
          let (s', out) := rstep (tickTo s ta) ev
          let d' := setOrc (setLock d key s') (noted rhs)
          if renderL out = rhs then (d', fin .ok) else (d', .diff (renderL out))
    | _, _, _, _, _ => (d, .bad "kvrenew args")
  | ["kvrel", i, key, tok, tb, _ta] =>
    match i.toNat?, tok.toNat?, tb.toNat? with
    | some i, some tok, some tb =>
      let s := tickTo (lockOf d key) tb
      if s.lock.holder i ≠ some tok then (d, .diff s!"model holder token {repr (s.lock.holder i)} ≠ released {tok}")
      else
        let (s', out) := rstep s (.ev (.unlock i))
        let e := orcOf d key i
        let d' := setOrc (setLock d key s') { e with rel := some rhs }
        if renderL out = rhs then (d', .ok) else (d', .diff (renderL out))
    | _, _, _ => (d, .bad "kvrel args")
  -- ---- storage-level markers ----
  | ["locked", j, key, t] =>
    match j.toNat?, t.toNat? with
    | some j, some t =>
      if rhs ≠ "ok" then (d, .diff "ok")     -- Lock only fails on KV errors, which the memory KV never returns
      else
        -- SPEC (from the statement, observed tokens only): nobody else holds it with an unexpired lease
        let clash := d.orc.find? (fun e => e.key == key && e.inst != j && e.holding && e.lastTok > t)
        -- … nor while somebody holds it (locked, not unlocking) whose lease ran out although the KV never failed
        -- one of its renewals: a live holder keeps its lease (ticker / RenewLockLease), so nothing released the lock
        let lost := d.orc.find? (fun e => e.key == key && e.inst != j && e.holding && !e.fault)
        let e := orcOf d key j
        let d' := setOrc d { e with holding := true }
        -- what became of the context the holder called `Lock` with is reported, it never excuses anything
        let ctxNote (c : OEntry) : String :=
          (match c.acqDone with
            | some (kind, td) => s!"; the context its Lock was called with ended at {td} ({kind}): not an unlock"
            | none => "") ++
          (match c.slow with
            | some (lat, ts) => s!"; its renewal request at {ts} needed {lat} ns to reach the KV, inside its lease: slow is not failed"
            | none => "") ++
          (match c.gaveUp with
            | some tg => s!"; the storage abandoned a renewal request at {tg} before the KV saw it and stopped renewing"
            | none => "")
        match clash, lost with
        | some c, _ => (d', .spec s!"instance {j} obtained the lock at {t} while instance {c.inst} holds it with lease until {c.lastTok}{ctxNote c}")
        | none, some c => (d', .spec s!"instance {j} obtained the lock at {t} while instance {c.inst} still holds it (locked, never unlocked, no KV failure): its lease was not kept alive and ran out at {c.lastTok}{ctxNote c}")
        | none, none =>
          let m := lockOf d key
          if (m.lock.holder j).isNone then (d', .diff "model: not a holder")
          else if !m.tickers.contains j then (d', .diff "model: Lock starts the renewal goroutine")
          else (d', .ok)
    | _, _ => (d, .bad "locked args")
  | ["unlocking", i, key, t] =>
    match i.toNat?, t.toNat? with
    | some i, some t =>
      let e := orcOf d key i
      let d' := setOrc d { e with holding := false, rel := none, fault := false }
      -- model: the goroutine of a holder runs until its Unlock or its first failed renewal and renews every ttl/4
      if e.holding && !e.fault && (lockOf d key).tickers.contains i && e.lastTok < t then
        (d', .diff s!"model: the renewal goroutine of instance {i} runs (no Unlock, no failed renewal) and keeps the lease alive; observed: its lease ran out at {e.lastTok}, before its Unlock at {t}")
      else (d', .ok)
    | _, _ => (d, .bad "unlocking args")
  -- ---- the context `Lock(ctx, key)` was called with has ended ----
  | ["ctxdone", i, key, kind, t] =>
    match i.toNat?, t.toNat? with
    | some i, some t =>
      if !(kind = "cancel" || kind = "timeout" || kind = "parent" || kind = "late") then (d, .bad "ctxdone kind") else
      let s := tickTo (lockOf d key) t
      let (s', _) := rstep s (.ctxDone i)
      let e := orcOf d key i
      let d' := setOrc (setLock d key s') { e with acqDone := if e.holding || (s.lock.holder i).isSome then some (kind, t) else e.acqDone }
      -- nothing to compare on this line itself: the call has no result; the model keeps holder and goroutine
      if s'.tickers.contains i = s.tickers.contains i && s'.lock.holder i = s.lock.holder i then (d', .ok)
      else (d', .diff "model: the end of the acquiring context changes nothing")
    | _, _ => (d, .bad "ctxdone args")
  -- ---- a renewal request of instance `i` needs `lat` ns to reach the KV ----
  | ["renewslow", i, key, lat, t] =>
    match i.toNat?, lat.toNat?, t.toNat? with
    | some i, some lat, some t =>
      let e := orcOf d key i
      -- model: time passes, then the renewal (`slowRenew`); the `kvrenew` line that follows replays it at its own time.
      -- A request kept until the holder's current lease is over is a failure of the KV side (excuses the lapse);
      -- one that is answerable inside the lease excuses nothing
      if !e.holding then (d, .ok)
      else if t + lat ≥ e.lastTok then (setOrc d { e with fault := true }, .ok)
      else (setOrc d { e with slow := some (lat, t) }, .ok)
    | _, _, _ => (d, .bad "renewslow args")
  -- ---- explicit `RenewLockLease(key, dur)` ----
  | ["renewing", i, key, dur, _t] =>
    match i.toNat?, dur.toInt? with
    | some i, some dur => let e := orcOf d key i; (setOrc d { e with expl := some dur, explRes := none }, .ok)
    | _, _ => (d, .bad "renewing args")
  | ["renewedlock", i, key, dur, t] =>
    match i.toNat?, dur.toInt?, t.toNat? with
    | some i, some dur, some t =>
      let e := orcOf d key i
      let d1 := setOrc d { e with expl := none, explRes := none }
      match e.explRes with
      | some r => if r = rhs then (d1, .ok) else (d1, .diff r)    -- the error of the KV renewal, nil when it succeeded
      | none =>
        -- no KV call was made: only for an instance that is not a holder
        let (_, out) := rstep (tickTo (lockOf d key) t) (.ev (.renewLock i dur e.cfgTtl))
        if out = .notHolder then (if rhs = "notholder" then (d1, .ok) else (d1, .diff "notholder"))
        else (d1, .diff "model: RenewLockLease of a holder renews the lease in the KV")
    | _, _, _ => (d, .bad "renewedlock args")
  | ["unlocked", i, key, t] =>
    match i.toNat?, t.toNat? with
    | some i, some t =>
      let e := orcOf d key i
      let d1 := setOrc d { e with rel := none }
      if rhs = "notholder" then
        let (s', out) := rstep (tickTo (lockOf d key) t) (.ev (.unlock i))
        if out = .notHolder then (setLock d1 key s', .ok) else (setLock d1 key s', .diff (renderL out))
      else
        match e.rel with
        | some r => if r = rhs then (d1, .ok) else (d1, .diff r)
        | none => (d1, .diff "model: Unlock of a holder releases the lease in the KV")
    | _, _ => (d, .bad "unlocked args")
  | _ => (d, .bad "unknown op")

def main : IO Unit := runLoop ({} : DState) dstep

end Specter.C49
