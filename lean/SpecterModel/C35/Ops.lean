/-! C35: vocabulary of the statements that the fact extractor recognises in `proxyRewrite`:
the host-selection chain (`if … { out.URL.Host = … } else if …`) and the header operations. -/
namespace Specter.C35

/-- One header-affecting statement of `(*Gateway).proxyRewrite`. -/
inductive HOp where
  | delList (ks : List String)            -- for _, h := range ks { out.Header.Del(h) }
  | del (k : String)                      -- out.Header.Del(k)
  | setXForwarded                         -- preq.SetXForwarded()   (net/http/httputil)
  | setHostPort (k : String) (std : Nat)  -- if g.GatewayPort == std { Set(k, out.URL.Host) } else { Set(k, "%s:%d" out.URL.Host g.GatewayPort) }
  | setConst (k v : String)               -- out.Header.Set(k, v)
  deriving Repr

/-- A condition of the host-selection chain of `proxyRewrite` (what decides where `out.URL.Host` comes from). -/
inductive HostCond where
  | protoAtLeast (major minor : Nat)      -- in.ProtoAtLeast(major, minor)
  | protoMajorEq (n : Nat)                -- in.ProtoMajor == n
  | protoMajorGe (n : Nat)                -- in.ProtoMajor >= n
  | tlsPresent                            -- in.TLS != nil
  deriving Repr

/-- Where a branch of the host-selection chain takes `out.URL.Host` from. -/
inductive HostSrc where
  | inHost                                -- in.Host   (Host header / :authority)
  | sni                                   -- in.TLS.ServerName   (nil dereference when in.TLS == nil)
  deriving Repr

end Specter.C35
