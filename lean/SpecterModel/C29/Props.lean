import SpecterModel.C29.Model
/-!
# C29 — A custom hostname is bound to one client, only after DNS proof

Theorems over the model of `AcmeValidate` / `checkAcme` / `ReleaseTunnel` (Model.lean), for all
configurations, KV states, requests and operation histories. Tie: harness/cmd/c29 runs the real RPC
handlers on an in-memory KV in random histories and compares every result, the name handed to the
resolver, the number of KV reads and the stored binding with the model.
-/
namespace Specter.C29

/-! ### `strings.Contains` -/

theorem hasInfix_iff (p s : List Char) : hasInfix p s = true ↔ ∃ a b, s = a ++ p ++ b := by
  induction s with
  | nil =>
    simp only [hasInfix, List.isEmpty_iff]
    constructor
    · rintro rfl; exact ⟨[], [], rfl⟩
    · rintro ⟨a, b, h⟩
      have := congrArg List.length h; simp at this
      exact List.eq_nil_of_length_eq_zero (by omega)
  | cons c cs ih =>
    simp only [hasInfix, Bool.or_eq_true, ih, List.isPrefixOf_iff_prefix]
    constructor
    · rintro (⟨t, ht⟩ | ⟨a, b, h⟩)
      · exact ⟨[], t, by simpa using ht.symm⟩
      · exact ⟨c :: a, b, by simp [h]⟩
    · rintro ⟨a, b, h⟩
      cases a with
      | nil => left; exact ⟨b, by simpa using h.symm⟩
      | cons x a => right; simp at h; exact ⟨a, b, by simpa using h.2⟩

/-- a zone itself and every name that ends with it (all its subdomains) contain it -/
theorem contains_of_suffix (pre zone : String) : contains (pre ++ zone) zone = true := by
  unfold contains
  rw [hasInfix_iff]
  exact ⟨pre.toList, [], by simp [String.toList_append]⟩

/-! ### single requests -/

theorem save_res (st : State) (h : String) (r : Req) (a : Option String) :
    ((save st h r a).2.res = .ok → (save st h r a).1 = bind st h r.caller)
      ∧ ((save st h r a).2.res ≠ .ok → (save st h r a).1 = st) := by
  unfold save; split <;> simp

/-- a request only ever changes the binding of its own (normalised) hostname, and only to the caller,
and only when it is answered `ok` -/
theorem validate_frame (cfg : Cfg) (st : State) (r : Req) (x : String) :
    (validate cfg st r).1.bound x = st.bound x
      ∨ (r.norm = some x ∧ (validate cfg st r).1.bound x = some r.caller ∧ (validate cfg st r).2.res = .ok) := by
  unfold validate
  cases hn : r.norm with
  | none => simp
  | some h =>
    simp only
    have key : ∀ a, (save st h r a).1.bound x = st.bound x ∨
        (some h = some x ∧ (save st h r a).1.bound x = some r.caller ∧ (save st h r a).2.res = .ok) := by
      intro a; unfold save; split
      · simp
      · by_cases hx : x = h
        · right; simp [bind, hx]
        · left; simp [bind, hx]
    split
    · simp
    · exact key _
    · split
      · simp
      · split
        · simp
        · exact key _

/-- **bind requires proof**: a validation that succeeds for a hostname not already bound to the caller
saw the challenge CNAME equal to the caller's token-specific target (and a valid proof of work, an
acceptable hostname, and no binding by anybody else). -/
theorem bind_requires_proof (cfg : Cfg) (st : State) (r : Req) (h : String)
    (hn : r.norm = some h) (hok : (validate cfg st r).2.res = .ok) (hnb : st.bound h ≠ some r.caller) :
    r.cname = some r.target ∧ r.powOk = true ∧ st.bound h = none
      ∧ contains h cfg.acme = false ∧ contains h cfg.apex = false ∧ 2 ≤ dots h := by
  unfold validate at hok
  simp only [hn] at hok
  unfold checkAcme at hok
  by_cases hp : r.powOk <;> simp only [hp, Bool.not_true, Bool.not_false, Bool.false_eq_true, if_true, if_false] at hok
  · by_cases hz : (contains h cfg.acme || contains h cfg.apex) = true
    · simp [hz] at hok
    · by_cases hd : dots h < 2
      · simp [hz, hd] at hok
      · by_cases hg : r.kvGetFail
        · simp [hz, hd, hg] at hok
        · simp only [hz, hd, hg, Bool.false_eq_true, if_false] at hok
          cases hb : st.bound h with
          | some c =>
            simp only [hb] at hok
            by_cases hc : c = r.caller
            · exact absurd (by rw [hb, hc]) hnb
            · simp [hc] at hok
          | none =>
            simp only [hb] at hok
            cases hcn : r.cname with
            | none => simp [hcn] at hok
            | some a =>
              simp only [hcn] at hok
              by_cases ha : a = r.target
              · simp at hz; exact ⟨by rw [ha], hp, rfl, hz.1, hz.2, by omega⟩
              · simp [ha] at hok
  · simp at hok

theorem checkAcme_other (cfg : Cfg) (st : State) (caller c : Client) (h : String) (p g : Bool)
    (hb : st.bound h = some c) (hc : c ≠ caller) : ∃ code n, checkAcme cfg st caller h p g = .refused code n := by
  unfold checkAcme
  simp only [hb, hc, if_false]
  split
  · exact ⟨_, _, rfl⟩
  · split
    · exact ⟨_, _, rfl⟩
    · split
      · exact ⟨_, _, rfl⟩
      · split <;> exact ⟨_, _, rfl⟩

/-- **another client is refused**: while a hostname is bound to `c`, a validation by anybody else fails
and leaves the whole KV state untouched. -/
theorem other_client_refused (cfg : Cfg) (st : State) (r : Req) (h : String) (c : Client)
    (hn : r.norm = some h) (hb : st.bound h = some c) (hc : c ≠ r.caller) :
    (validate cfg st r).2.res ≠ .ok ∧ (validate cfg st r).1 = st := by
  obtain ⟨code, n, e⟩ := checkAcme_other cfg st r.caller c h r.powOk r.kvGetFail hb hc
  unfold validate
  simp [hn, e]

/-- **apex / acme / bare refused**: hostnames containing the apex or the ACME zone, or with fewer than
two dots, are refused whatever else the request carries; nothing is stored. -/
theorem apex_acme_bare_refused (cfg : Cfg) (st : State) (r : Req) (h : String) (hn : r.norm = some h)
    (hbad : contains h cfg.apex = true ∨ contains h cfg.acme = true ∨ dots h < 2) :
    (validate cfg st r).2.res ≠ .ok ∧ (validate cfg st r).1 = st
      ∧ (instruction cfg st r).1 ≠ .ok := by
  unfold validate instruction
  simp only [hn]
  unfold checkAcme
  by_cases hp : r.powOk
  · rcases hbad with h1 | h1 | h1
    · simp [hp, h1]
    · simp [hp, h1]
    · by_cases hz : (contains h cfg.acme || contains h cfg.apex) = true
      · simp [hp, hz]
      · simp [hp, hz, h1]
  · simp [hp]

/-- corollary in the property's wording: the apex, the ACME zone and all their subdomains are refused -/
theorem zone_and_subdomains_refused (cfg : Cfg) (st : State) (r : Req) (pre : String)
    (hn : r.norm = some (pre ++ cfg.apex) ∨ r.norm = some (pre ++ cfg.acme)) :
    (validate cfg st r).2.res ≠ .ok ∧ (validate cfg st r).1 = st := by
  rcases hn with hn | hn
  · have := apex_acme_bare_refused cfg st r _ hn (Or.inl (contains_of_suffix pre cfg.apex))
    exact ⟨this.1, this.2.1⟩
  · have := apex_acme_bare_refused cfg st r _ hn (Or.inr (Or.inl (contains_of_suffix pre cfg.acme)))
    exact ⟨this.1, this.2.1⟩

/-- **proof of work required**: without a valid proof the request is refused before the KV is read or
the resolver asked, and nothing is stored. -/
theorem pow_required (cfg : Cfg) (st : State) (r : Req) (h : String) (hn : r.norm = some h)
    (hp : r.powOk = false) :
    validate cfg st r = (st, ⟨.refused .invPow, none, 0⟩) ∧ (instruction cfg st r).1 = .refused .invPow := by
  unfold validate instruction checkAcme; simp [hn, hp]

/-- **normalise first**: a hostname rejected by `acme.Normalize` is refused without any further step -/
theorem normalize_first (cfg : Cfg) (st : State) (r : Req) (hn : r.norm = none) :
    validate cfg st r = (st, ⟨.refused .invHost, none, 0⟩) ∧ instruction cfg st r = (.refused .invHost, none) := by
  unfold validate instruction; simp [hn]

/-- validation by the owner again keeps the binding (idempotent, no DNS needed) -/
theorem owner_revalidates (cfg : Cfg) (st : State) (r : Req) (h : String) (hn : r.norm = some h)
    (hb : st.bound h = some r.caller) (x : String) :
    (validate cfg st r).1.bound x = st.bound x := by
  rcases validate_frame cfg st r x with e | ⟨e1, e2, -⟩
  · exact e
  · rw [hn] at e1; injection e1 with e1; subst e1; rw [e2, hb]

/-! ### histories -/

/-- one operation changes the binding of `x` only in two ways: (none or anything →) `some caller` by a
successful validation of `x`, which `other_client_refused` restricts to an unbound or own hostname; or
(→ `none`) by a release of `x` by a holder of a token whose list contains `x`. -/
theorem step_binding (cfg : Cfg) (st : State) (op : Op) (x : String) (c : Client)
    (hb : st.bound x = some c) :
    (step cfg st op).bound x = some c
      ∨ (∃ caller, op = .release caller x ∧ st.lists caller.token x = true ∧ (step cfg st op).bound x = none) := by
  cases op with
  | instruction r => left; exact hb
  | validate r =>
    left
    simp only [step]
    rcases validate_frame cfg st r x with e | ⟨e1, e2, e3⟩
    · rw [e, hb]
    · by_cases hc : c = r.caller
      · rw [e2, hc]
      · exact absurd e3 (other_client_refused cfg st r x c e1 hb hc).1
  | release caller host =>
    simp only [step, release]
    by_cases hl : st.lists caller.token host = true
    · simp only [hl, if_true]
      by_cases hx : x = host
      · right; subst hx; exact ⟨caller, rfl, hl, by simp⟩
      · left; simp [hx, hb]
    · left; simp [hl, hb]

def isReleaseOf (x : String) : Op → Bool
  | .release _ h => h == x
  | _ => false

/-- **never rebinds**: once `x` is bound to `c`, no history of validations and instructions by any
clients (and releases of other hostnames) with any proofs, CNAME answers and KV failures changes that. -/
theorem never_rebinds (cfg : Cfg) (ops : List Op) (st : State) (x : String) (c : Client)
    (hb : st.bound x = some c) (hno : ∀ op ∈ ops, isReleaseOf x op = false) :
    (run cfg st ops).bound x = some c := by
  induction ops generalizing st with
  | nil => exact hb
  | cons op ops ih =>
    simp only [run, List.foldl_cons]
    apply ih
    · rcases step_binding cfg st op x c hb with e | ⟨caller, e, -, -⟩
      · exact e
      · have := hno op (List.mem_cons_self ..); simp [e, isReleaseOf] at this
    · intro o ho; exact hno o (List.mem_cons_of_mem _ ho)

/-- in arbitrary histories (releases included) the binding of `x` is at every moment the one `c` it had
or `none`, until a validation with DNS proof binds it again: stated for the first change. -/
theorem first_change_is_release (cfg : Cfg) (st : State) (op : Op) (x : String) (c : Client)
    (hb : st.bound x = some c) : (step cfg st op).bound x = some c ∨ (step cfg st op).bound x = none := by
  rcases step_binding cfg st op x c hb with e | ⟨_, _, _, e⟩
  · exact Or.inl e
  · exact Or.inr e

/-- a release by a client that does not hold a token whose list contains the hostname does nothing -/
theorem release_requires_listed (st : State) (caller : Client) (h : String)
    (hl : st.lists caller.token h = false) : release st caller h = (st, .refused .denied) := by
  unfold release; simp [hl]

/-! ### non-vacuity -/

def cfgEx : Cfg := ⟨"hello.com", "acme.example.com"⟩
def alice : Client := ⟨1, "A"⟩
def bob : Client := ⟨2, "B"⟩
def reqEx (c : Client) (h : String) (cname : Option String) : Req := ⟨c, some h, true, cname, "t" ++ c.token, false, false⟩

example : (validate cfgEx State.init (reqEx alice "app.customer.org" (some "tA"))).2.res = .ok := by decide
example : (validate cfgEx State.init (reqEx alice "app.customer.org" (some "tB"))).2.res = .refused .failedPre := by decide
example : (validate cfgEx State.init (reqEx alice "x.hello.com" (some "tA"))).2.res = .refused .invHost := by decide
example : (validate cfgEx State.init (reqEx alice "customer.org" (some "tA"))).2.res = .refused .invHost := by decide
example :
    let st := (validate cfgEx State.init (reqEx alice "app.customer.org" (some "tA"))).1
    st.bound "app.customer.org" = some alice
      ∧ (validate cfgEx st (reqEx bob "app.customer.org" (some "tB"))).2.res = .refused .invHost
      ∧ (validate cfgEx st (reqEx alice "app.customer.org" none)).2.res = .ok
      ∧ (release st bob "app.customer.org").2 = .refused .denied
      ∧ ((release st alice "app.customer.org").1.bound "app.customer.org") = none := by decide

end Specter.C29
