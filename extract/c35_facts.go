package main

// c35-facts: extracts from gateway/proxy_handler.go
//   * the `delHeaders` list (canonicalised with net/textproto, as http.Header.Del does), and
//   * the host-selection chain of (*Gateway).proxyRewrite (`if <cond> { out.URL.Host = <src> } else if …`,
//     followed by `out.URL.Host = out.URL.Hostname()` and `out.Host = out.URL.Host`), and
//   * the ordered header operations of (*Gateway).proxyRewrite,
// as Lean text. A host or header statement of an unknown shape fails loudly; statements that touch neither
// (`in := preq.In`, `out.URL.Scheme = …`) are not part of the extracted facts.
//
// usage: extract c35-facts <namespace> <proxy_handler.go>

import (
	"bytes"
	"fmt"
	"go/ast"
	"go/parser"
	"go/printer"
	"go/token"
	"net/textproto"
	"strconv"
	"strings"
)

func init() { factCmds["c35-facts"] = runC35Facts }

func c35Src(fset *token.FileSet, n ast.Node) string {
	var b bytes.Buffer
	printer.Fprint(&b, fset, n)
	return b.String()
}

func c35Str(e ast.Expr) (string, bool) {
	bl, ok := e.(*ast.BasicLit)
	if !ok || bl.Kind != token.STRING {
		return "", false
	}
	s, err := strconv.Unquote(bl.Value)
	return s, err == nil
}

// headerCall recognises <x>.Header.<Method>(args…)
func c35HeaderCall(e ast.Expr) (method string, args []ast.Expr, ok bool) {
	c, isCall := e.(*ast.CallExpr)
	if !isCall {
		return
	}
	sel, isSel := c.Fun.(*ast.SelectorExpr)
	if !isSel {
		return
	}
	in, isSel2 := sel.X.(*ast.SelectorExpr)
	if !isSel2 || in.Sel.Name != "Header" {
		return
	}
	return sel.Sel.Name, c.Args, true
}

func leanStr(s string) string { return strconv.Quote(s) }

// c35HostCond recognises one condition of the host-selection chain.
func c35HostCond(fset *token.FileSet, e ast.Expr) (string, bool) {
	intLit := func(x ast.Expr) (string, bool) {
		bl, ok := x.(*ast.BasicLit)
		if !ok || bl.Kind != token.INT {
			return "", false
		}
		n, err := strconv.ParseUint(bl.Value, 0, 31)
		return strconv.FormatUint(n, 10), err == nil
	}
	switch x := e.(type) {
	case *ast.CallExpr:
		if c35Src(fset, x.Fun) == "in.ProtoAtLeast" && len(x.Args) == 2 {
			a, ok1 := intLit(x.Args[0])
			b, ok2 := intLit(x.Args[1])
			if ok1 && ok2 {
				return fmt.Sprintf(".protoAtLeast %s %s", a, b), true
			}
		}
	case *ast.BinaryExpr:
		l := c35Src(fset, x.X)
		if l == "in.ProtoMajor" {
			if n, ok := intLit(x.Y); ok {
				switch x.Op {
				case token.EQL:
					return ".protoMajorEq " + n, true
				case token.GEQ:
					return ".protoMajorGe " + n, true
				}
			}
		}
		if l == "in.TLS" && x.Op == token.NEQ && c35Src(fset, x.Y) == "nil" {
			return ".tlsPresent", true
		}
	}
	return "", false
}

// c35HostAssign recognises a block consisting of the single statement `out.URL.Host = <source>`.
func c35HostAssign(fset *token.FileSet, b *ast.BlockStmt) (string, bool) {
	if b == nil || len(b.List) != 1 {
		return "", false
	}
	as, ok := b.List[0].(*ast.AssignStmt)
	if !ok || as.Tok != token.ASSIGN || len(as.Lhs) != 1 || len(as.Rhs) != 1 || c35Src(fset, as.Lhs[0]) != "out.URL.Host" {
		return "", false
	}
	switch c35Src(fset, as.Rhs[0]) {
	case "in.Host":
		return ".inHost", true
	case "in.TLS.ServerName":
		return ".sni", true
	}
	return "", false
}

// c35HostChain recognises `if c1 { out.URL.Host = s1 } else if c2 { … } else { out.URL.Host = sd }`.
func c35HostChain(fset *token.FileSet, st *ast.IfStmt) (rule []string, def string, ok bool) {
	for cur := st; ; {
		if cur.Init != nil {
			return nil, "", false
		}
		c, ok1 := c35HostCond(fset, cur.Cond)
		s, ok2 := c35HostAssign(fset, cur.Body)
		if !ok1 || !ok2 {
			return nil, "", false
		}
		rule = append(rule, fmt.Sprintf("(%s, %s)", c, s))
		switch e := cur.Else.(type) {
		case *ast.IfStmt:
			cur = e
		case *ast.BlockStmt:
			d, ok3 := c35HostAssign(fset, e)
			return rule, d, ok3
		default: // no final else: out.URL.Host would keep whatever ReverseProxy put there
			return nil, "", false
		}
	}
}

func runC35Facts(args []string) {
	if len(args) != 2 {
		fail("usage: c35-facts <namespace> <proxy_handler.go>")
	}
	ns, path := args[0], args[1]
	fset := token.NewFileSet()
	f, err := parser.ParseFile(fset, path, nil, 0)
	if err != nil {
		fail("c35-facts: %v", err)
	}
	var del []string
	foundDel := false
	var rewrite *ast.FuncDecl
	for _, d := range f.Decls {
		switch x := d.(type) {
		case *ast.GenDecl:
			for _, sp := range x.Specs {
				vs, ok := sp.(*ast.ValueSpec)
				if !ok || len(vs.Names) != 1 || vs.Names[0].Name != "delHeaders" || len(vs.Values) != 1 {
					continue
				}
				cl, ok := vs.Values[0].(*ast.CompositeLit)
				if !ok {
					fail("c35-facts: delHeaders is not a composite literal")
				}
				for _, el := range cl.Elts {
					s, ok := c35Str(el)
					if !ok {
						fail("c35-facts: delHeaders element is not a string literal")
					}
					del = append(del, textproto.CanonicalMIMEHeaderKey(s))
				}
				foundDel = true
			}
		case *ast.FuncDecl:
			if x.Name.Name == "proxyRewrite" {
				rewrite = x
			}
		}
	}
	if !foundDel || rewrite == nil || rewrite.Body == nil {
		fail("c35-facts: delHeaders / proxyRewrite not found")
	}
	var ops []string
	var hostRule []string
	hostDefault := ""
	// host statements must come in this order: 0 selection chain, 1 `out.URL.Host = out.URL.Hostname()`,
	// 2 `out.Host = out.URL.Host`; 3 = host fixed (only then may a header statement read out.URL.Host)
	hostPhase := 0
	aliasIn, aliasOut := false, false
	for _, st := range rewrite.Body.List {
		src := c35Src(fset, st)
		oneLine := strings.ReplaceAll(src, "\n", " ")
		switch src {
		case "in := preq.In":
			aliasIn = true
			continue
		case "out := preq.Out":
			aliasOut = true
			continue
		}
		touches := strings.Contains(src, "Header") || strings.Contains(src, "SetXForwarded")
		if !touches {
			if !strings.Contains(src, "Host") {
				continue // e.g. out.URL.Scheme = "https"
			}
			if !aliasIn || !aliasOut {
				fail("c35-facts: proxyRewrite does not start with `in := preq.In` / `out := preq.Out`")
			}
			switch {
			case hostPhase == 0:
				if is, ok := st.(*ast.IfStmt); ok {
					if rule, def, ok := c35HostChain(fset, is); ok {
						hostRule, hostDefault, hostPhase = rule, def, 1
						continue
					}
				}
			case hostPhase == 1 && src == "out.URL.Host = out.URL.Hostname()":
				hostPhase = 2
				continue
			case hostPhase == 2 && src == "out.Host = out.URL.Host":
				hostPhase = 3
				continue
			}
			fail("c35-facts: host statement of unknown shape (or order) in proxyRewrite: %s", oneLine)
		}
		if strings.Contains(src, "URL.Host") && hostPhase != 3 {
			fail("c35-facts: header statement reads out.URL.Host before the host statements are complete: %s", oneLine)
		}
		switch x := st.(type) {
		case *ast.ExprStmt:
			if c, ok := x.X.(*ast.CallExpr); ok {
				if sel, ok := c.Fun.(*ast.SelectorExpr); ok && sel.Sel.Name == "SetXForwarded" && len(c.Args) == 0 {
					ops = append(ops, ".setXForwarded")
					continue
				}
			}
			if m, a, ok := c35HeaderCall(x.X); ok {
				if m == "Set" && len(a) == 2 {
					k, ok1 := c35Str(a[0])
					v, ok2 := c35Str(a[1])
					if ok1 && ok2 {
						ops = append(ops, fmt.Sprintf(".setConst %s %s", leanStr(textproto.CanonicalMIMEHeaderKey(k)), leanStr(v)))
						continue
					}
				}
				if m == "Del" && len(a) == 1 {
					if k, ok := c35Str(a[0]); ok {
						ops = append(ops, fmt.Sprintf(".del %s", leanStr(textproto.CanonicalMIMEHeaderKey(k))))
						continue
					}
				}
			}
		case *ast.RangeStmt:
			// for _, header := range delHeaders { out.Header.Del(header) }
			if id, ok := x.X.(*ast.Ident); ok && id.Name == "delHeaders" && len(x.Body.List) == 1 {
				if es, ok := x.Body.List[0].(*ast.ExprStmt); ok {
					if m, a, ok := c35HeaderCall(es.X); ok && m == "Del" && len(a) == 1 {
						if v, ok := x.Value.(*ast.Ident); ok {
							if av, ok := a[0].(*ast.Ident); ok && av.Name == v.Name {
								ops = append(ops, ".delList delHeaders")
								continue
							}
						}
					}
				}
			}
		case *ast.IfStmt:
			// if g.GatewayPort == <std> { Set(k, out.URL.Host) } else { Set(k, fmt.Sprintf("%s:%d", out.URL.Host, g.GatewayPort)) }
			if be, ok := x.Cond.(*ast.BinaryExpr); ok && be.Op == token.EQL && x.Init == nil {
				lit, isLit := be.Y.(*ast.BasicLit)
				if isLit && lit.Kind == token.INT && c35Src(fset, be.X) == "g.GatewayPort" && len(x.Body.List) == 1 {
					if eb, ok := x.Else.(*ast.BlockStmt); ok && len(eb.List) == 1 {
						t, ok1 := x.Body.List[0].(*ast.ExprStmt)
						e, ok2 := eb.List[0].(*ast.ExprStmt)
						if ok1 && ok2 {
							m1, a1, o1 := c35HeaderCall(t.X)
							m2, a2, o2 := c35HeaderCall(e.X)
							if o1 && o2 && m1 == "Set" && m2 == "Set" && len(a1) == 2 && len(a2) == 2 {
								k1, s1 := c35Str(a1[0])
								k2, s2 := c35Str(a2[0])
								if s1 && s2 && k1 == k2 && c35Src(fset, a1[1]) == "out.URL.Host" &&
									c35Src(fset, a2[1]) == `fmt.Sprintf("%s:%d", out.URL.Host, g.GatewayPort)` {
									ops = append(ops, fmt.Sprintf(".setHostPort %s %s", leanStr(textproto.CanonicalMIMEHeaderKey(k1)), lit.Value))
									continue
								}
							}
						}
					}
				}
			}
		}
		fail("c35-facts: header statement of unknown shape in proxyRewrite: %s", strings.ReplaceAll(src, "\n", " "))
	}
	if hostPhase != 3 {
		fail("c35-facts: proxyRewrite lacks the host statements (selection chain; out.URL.Host = out.URL.Hostname(); out.Host = out.URL.Host)")
	}
	var sb strings.Builder
	sb.WriteString("import SpecterModel.C35.Ops\n")
	sb.WriteString("/-! GENERATED by `extract c35-facts` from gateway/proxy_handler.go — do not edit. -/\n")
	fmt.Fprintf(&sb, "namespace %s\nopen Specter.C35\n\n", ns)
	qs := make([]string, len(del))
	for i, d := range del {
		qs[i] = leanStr(d)
	}
	fmt.Fprintf(&sb, "/-- `delHeaders`, canonicalised as `http.Header.Del` does -/\ndef delHeaders : List String := [%s]\n\n", strings.Join(qs, ", "))
	fmt.Fprintf(&sb, "/-- host-selection chain of `proxyRewrite`: the first condition that holds decides where `out.URL.Host`\n(then reduced by `.Hostname()` and copied to `out.Host`) is taken from -/\ndef hostRule : List (HostCond × HostSrc) := [%s]\n\n", strings.Join(hostRule, ", "))
	fmt.Fprintf(&sb, "/-- the final `else` of the chain -/\ndef hostDefault : HostSrc := %s\n\n", hostDefault)
	fmt.Fprintf(&sb, "/-- header operations of `proxyRewrite`, in source order -/\ndef rewriteOps : List HOp := [\n  %s]\n\n", strings.Join(ops, ",\n  "))
	fmt.Fprintf(&sb, "end %s\n", ns)
	fmt.Print(sb.String())
}
