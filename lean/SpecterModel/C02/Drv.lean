import SpecterModel.C03.Churn
import SpecterModel.C02.Upd
import SpecterModel.C02.GenUpd
/-!
C02 driver: ring model + SPEC at quiescent points (after repair to a fixpoint) on the
IMPLEMENTATION's dump: predecessor exact, successor list = the true successors in ring order
(then the node itself when the ring is smaller than the list), fingers = true owners of their targets.

`upd` lines: overlapping stabilize runs on ONE node publishing their successor lists (model `C02.Upd`, program =
the accesses of the CURRENT source as extracted by `extract c02-lines`, executed by the harness-side simulator
under an explicit schedule). SPEC is decided from the reported outcome alone: after the overlapping runs have
finished, one further stabilize run that computed the newest (= true) successor list must leave that list
published; the model comparison (DIFF) comes second.
-/
namespace Specter.C02
open Specter.Util Specter.Ring Specter.Churn

structure PNode where
  id : Nat
  state : String
  pred : Option Nat
  succs : List Nat
  fingers : List (Option Nat)
deriving Repr

def expandRle (s : String) : List (Option Nat) :=
  (s.splitOn ",").flatMap fun part =>
    match part.splitOn "*" with
    | [v, c] => List.replicate (c.toNat?.getD 0) v.toNat?
    | _ => []

def parseNodes (d : String) : List PNode :=
  (d.splitOn " ; ").filterMap fun part =>
    match part.trimAscii.toString.splitOn ":" with
    | [id, st, pred, succs, _sur, fing, _store] =>
      id.toNat?.map fun id =>
        { id := id, state := st, pred := pred.toNat?,
          succs := if succs == "" then [] else (succs.splitOn ",").filterMap (·.toNat?),
          fingers := expandRle fing }
    | _ => none

def sortNats (l : List Nat) : List Nat := (l.toArray.qsort (· < ·)).toList

/-- true successors of `n` in ring order (members sorted ascending, rotated after `n`, without `n`) -/
def trueSuccs (ms : List Nat) (n : Nat) : List Nat := (ms.filter (· > n)) ++ (ms.filter (· < n))

def ownerIn (ms : List Nat) (key : Nat) : Option Nat :=
  match ms.find? (fun m => key ≤ m) with
  | some m => some m
  | none => ms.head?

def convergedCheck (d : String) : Option String :=
  let nodes := parseNodes d
  let live := nodes.filter (·.state == "Active")
  let ms := sortNats (live.map (·.id))
  live.findSome? fun nd =>
    let ts := trueSuccs ms nd.id
    let wantPred := match ts.getLast? with | some p => p | none => nd.id
    let wantList := (ts ++ [nd.id]).take succEntries
    if nd.pred != some wantPred then
      some s!"pred: node {nd.id} has predecessor {optStr nd.pred}, true predecessor is {wantPred}"
    else if nd.succs != wantList then
      if wantList.isPrefixOf nd.succs && (nd.succs.drop wantList.length).all (fun x => !ms.contains x) then
        some s!"stale-tail: node {nd.id} lists departed node(s) {nd.succs.drop wantList.length} after its true successors {wantList}"
      else
        some s!"succs: node {nd.id} has successor list {nd.succs}, true successors in ring order are {wantList}"
    else
      ((List.range 48).findSome? fun i =>
        let target := moduloSum nd.id (2^i)
        match nd.fingers[i]?, ownerIn ms target with
        | some (some f), some o => if f == o then none else some s!"finger: node {nd.id} finger {i+1} is {f}, owner of {target} is {o}"
        | some none, some o => some s!"finger: node {nd.id} finger {i+1} is nil, owner of {target} is {o}"
        | _, _ => none)

/-! ### overlapping publications of the successor list (`upd` lines) -/

def parseNats (s : String) : Option (List Nat) :=
  if s == "-" then some [] else (s.splitOn ",").mapM (·.toNat?)

/-- after the explicit schedule the remaining runs are executed to their end: always the lowest enabled run -/
def updDrain (prog : Upd.Prog) : Nat → Upd.State → Upd.State
  | 0, s => s
  | f + 1, s =>
    match (List.range s.ths.length).find? (fun i =>
        match s.ths[i]? with
        | some t => (Upd.stepT Upd.lineHash prog i t s.sh).isSome
        | none => false) with
    | none => s
    | some i => updDrain prog f (Upd.step Upd.lineHash prog s i)

/-- model outcome of an `upd` line, in the text form of the harness -/
def updModel (prog : Upd.Prog) (v0 : Nat) (views : List Nat) (rv : Nat) (sched : List Nat) : String :=
  let s := Upd.run Upd.lineHash prog (Upd.init Upd.lineHash v0 views) sched
  let s := updDrain prog (views.length * (prog.length + 1)) s
  if Upd.allDone prog s && s.sh.owner.isNone then
    let r := (Upd.repair Upd.lineHash prog s rv).2
    s!"{s.sh.hashVar} {s.sh.listVar} done | {r.hashVar} {r.listVar}"
  else
    s!"{s.sh.hashVar} {s.sh.listVar} stuck | - -"

/-- the property, judged on the reported outcome only -/
def updSpec (views : List Nat) (rv : Nat) (rhs : String) : Option String :=
  match (rhs.splitOn " ").filter (· ≠ "") with
  | [_, l, "stuck", "|", _, _] =>
    some s!"stuck: overlapping stabilize runs with successor-list views {views} never all finish (a run waits for ever for the successor lock); published list stays {l}"
  | [_, _, "done", "|", h', l'] =>
    if l'.toNat? == some rv then none
    else some s!"frozen: after the overlapping stabilize runs (successor-list views {views}) have finished, one further stabilize run that computed the true successor list {rv} leaves list {l'} published (stored hash {h'}, hash of list {rv} is {Upd.lineHash rv}): the node never converges to its true successors"
  | _ => some s!"unreadable outcome {rhs}"

def updStep (toks : List String) (rhs : String) : Verdict :=
  match toks with
  | ["updprog"] =>
    let m := Upd.progTok Gen.C02.updateProg
    if rhs == m then .ok else .diff m
  | ["upd", p, v0, vs, rv, sc] =>
    match Upd.parseProg p, v0.toNat?, parseNats vs, rv.toNat?, parseNats sc with
    | some prog, some v0, some views, some rv, some sched =>
      match updSpec views rv rhs with
      | some w => .spec w
      | none =>
        let m := updModel prog v0 views rv sched
        if m == rhs then .ok else .diff m
    | _, _, _, _, _ => .bad "upd: unparsable arguments"
  | _ => .bad "upd: arity"

def step (s : DState) (toks : List String) (rhs : String) : DState × Verdict :=
  match toks with
  | "upd" :: _ => (s, updStep toks rhs)
  | ["updprog"] => (s, updStep toks rhs)
  | ["quiet"] =>
    let (_, d) := splitRhs rhs
    match convergedCheck d with
    | some w => (s, .spec w)
    | none => let m := "ok | " ++ dump s.net; (s, if m == rhs then .ok else .diff m)
  | _ => Churn.step false true s toks rhs     -- placement is not judged here ("quiet" handled above)

def main : IO Unit := runLoop ({} : DState) step

end Specter.C02
