import SpecterModel.C30.Model
/-!
# C30 — Keyless TLS serves only the bound client, with valid inputs

Theorems over the model of `getCertificate` / `Sign` (reusing C29's `checkAcme` model) and over the TTL
chain of `computeKeylessTTL` with the constants GENERATED from tun/server/keyless_cache.go (Gen.lean,
regenerated and re-checked on every run). Tie: harness/cmd/c30 runs the real RPCs, the real
`computeKeylessTTL` and the real cache loader against these definitions.
-/
namespace Specter.C30
open Specter.C29 (Cfg State Client Code Chk checkAcme)

/-! ### who gets certificates and signatures -/

theorem checkAcme_found {cfg : Cfg} {kv : State} {caller : Client} {h : String} {p g : Bool}
    (hf : checkAcme cfg kv caller h p g = .found) :
    p = true ∧ kv.bound h = some caller ∧ g = false
      ∧ C29.contains h cfg.acme = false ∧ C29.contains h cfg.apex = false ∧ 2 ≤ C29.dots h := by
  unfold checkAcme at hf
  by_cases hp : p = true
  · by_cases hz : (C29.contains h cfg.acme || C29.contains h cfg.apex) = true
    · simp [hp, hz] at hf
    · by_cases hd : C29.dots h < 2
      · simp [hp, hz, hd] at hf
      · by_cases hg : g = true
        · simp [hp, hz, hd, hg] at hf
        · simp only [hp, hz, hd, hg, Bool.not_true, Bool.false_eq_true, if_false] at hf
          cases hb : kv.bound h with
          | none => simp [hb] at hf
          | some c =>
            simp only [hb] at hf
            by_cases hc : c = caller
            · simp at hz hg; exact ⟨hp, by rw [hc], hg, hz.1, hz.2, by omega⟩
            · simp [hc] at hf
  · simp [hp] at hf

/-- the provider is consulted, the cache touched, or a certificate returned only after `checkAcme`
answered *found* -/
theorem getCertificate_guard (cfg : Cfg) (kv : State) (cache : Cache) (r : Req)
    (h : (getCertificate cfg kv cache r).res = none ∨ (getCertificate cfg kv cache r).called = true
          ∨ (getCertificate cfg kv cache r).res = some .provider) :
    ∃ hn, r.norm = some hn ∧ checkAcme cfg kv r.caller hn r.powOk r.kvGetFail = .found := by
  unfold getCertificate at h
  cases hn : r.norm with
  | none => simp [hn] at h
  | some hh =>
    refine ⟨hh, rfl, ?_⟩
    simp only [hn] at h
    cases hc : checkAcme cfg kv r.caller hh r.powOk r.kvGetFail with
    | found => rfl
    | notFound => simp [hc] at h
    | refused c n => cases c <;> simp [hc, ofCode] at h

/-- **certificates only for the bound client**: a certificate chain is returned only when the
normalised hostname is bound to the caller and the proof of work is valid. -/
theorem cert_only_for_bound (cfg : Cfg) (kv : State) (cache : Cache) (r : Req)
    (h : (getCertificate cfg kv cache r).res = none) :
    ∃ hn, r.norm = some hn ∧ kv.bound hn = some r.caller ∧ r.powOk = true := by
  obtain ⟨hn, e, hf⟩ := getCertificate_guard cfg kv cache r (Or.inl h)
  have := checkAcme_found hf
  exact ⟨hn, e, this.2.1, this.1⟩

/-- the certificate provider (and the cache) is never even consulted for anybody else -/
theorem provider_only_for_bound (cfg : Cfg) (kv : State) (cache : Cache) (r : Req)
    (h : (getCertificate cfg kv cache r).called = true) :
    ∃ hn, r.norm = some hn ∧ kv.bound hn = some r.caller ∧ r.powOk = true := by
  obtain ⟨hn, e, hf⟩ := getCertificate_guard cfg kv cache r (Or.inr (Or.inl h))
  have := checkAcme_found hf
  exact ⟨hn, e, this.2.1, this.1⟩

/-- other client / unbound hostname / no proof: refused, cache untouched, provider not called -/
theorem not_entitled_refused (cfg : Cfg) (kv : State) (cache : Cache) (r : Req)
    (h : r.powOk = false ∨ r.norm = none ∨ ∃ hn, r.norm = some hn ∧ kv.bound hn ≠ some r.caller) :
    (getCertificate cfg kv cache r).res ≠ none ∧ (getCertificate cfg kv cache r).called = false
      ∧ (getCertificate cfg kv cache r).cache = cache := by
  have key : ¬ ∃ hn, r.norm = some hn ∧ checkAcme cfg kv r.caller hn r.powOk r.kvGetFail = .found := by
    rintro ⟨hn, e, hf⟩
    have := checkAcme_found hf
    rcases h with h | h | ⟨x, hx, hb⟩
    · rw [h] at this; exact absurd this.1 (by simp)
    · rw [h] at e; cases e
    · rw [e] at hx; injection hx with hx; subst hx; exact hb this.2.1
  refine ⟨fun hres => key (getCertificate_guard cfg kv cache r (Or.inl hres)), ?_, ?_⟩
  · cases hc : (getCertificate cfg kv cache r).called with
    | false => rfl
    | true => exact absurd (getCertificate_guard cfg kv cache r (Or.inr (Or.inl hc))) key
  · unfold getCertificate
    cases hn : r.norm with
    | none => rfl
    | some hh =>
      simp only
      cases hc : checkAcme cfg kv r.caller hh r.powOk r.kvGetFail with
      | found => exact absurd ⟨hh, hn, hc⟩ key
      | notFound => rfl
      | refused c n => rfl

/-- **sign guards**: a signature is returned only to the bound client with a valid proof, for a
supported hash (SHA-256/384/512) and a digest of exactly that hash's length, by a real signer. -/
theorem sign_guards (cfg : Cfg) (kv : State) (cache : Cache) (r : Req) (algo dlen : Nat) (isSigner signOk : Bool)
    (h : (sign cfg kv cache r algo dlen isSigner signOk).res = none) :
    (∃ hn, r.norm = some hn ∧ kv.bound hn = some r.caller ∧ r.powOk = true)
      ∧ ((algo = 1 ∧ dlen = 32) ∨ (algo = 2 ∧ dlen = 48) ∨ (algo = 3 ∧ dlen = 64))
      ∧ isSigner = true ∧ signOk = true := by
  unfold sign at h
  simp only at h
  cases hg : (getCertificate cfg kv cache r).res with
  | some e => simp [hg] at h
  | none =>
    refine ⟨cert_only_for_bound cfg kv cache r hg, ?_⟩
    simp only [hg] at h
    cases hs : hashSize algo with
    | none => simp [hs] at h
    | some n =>
      simp only [hs] at h
      by_cases h1 : isSigner = true
      · by_cases h2 : dlen = n
        · by_cases h3 : signOk = true
          · refine ⟨?_, h1, h3⟩
            subst h2
            unfold hashSize at hs
            split at hs <;> simp_all
          · simp [h1, h2, h3] at h
        · simp [h1, h2] at h
      · simp [h1] at h

/-- the guards are evaluated before the signer is touched: when algorithm or digest length is wrong the
answer does not depend on what the signer would do -/
theorem sign_guards_before_signer (cfg : Cfg) (kv : State) (cache : Cache) (r : Req) (algo dlen : Nat)
    (isSigner : Bool) (hbad : hashSize algo ≠ some dlen) :
    sign cfg kv cache r algo dlen isSigner true = sign cfg kv cache r algo dlen isSigner false := by
  unfold sign
  simp only
  cases (getCertificate cfg kv cache r).res with
  | some e => rfl
  | none =>
    cases hs : hashSize algo with
    | none => rfl
    | some n =>
      have : dlen ≠ n := fun e => hbad (by rw [hs, e])
      simp [this]

/-- wrong algorithm / wrong digest length are invalid-argument refusals for the owner -/
theorem sign_bad_input_refused (cfg : Cfg) (kv : State) (cache : Cache) (r : Req) (algo dlen : Nat)
    (isSigner signOk : Bool) (hbad : hashSize algo ≠ some dlen) :
    (sign cfg kv cache r algo dlen isSigner signOk).res ≠ none := by
  intro h
  obtain ⟨-, hsz, -, -⟩ := sign_guards cfg kv cache r algo dlen isSigner signOk h
  rcases hsz with ⟨rfl, rfl⟩ | ⟨rfl, rfl⟩ | ⟨rfl, rfl⟩ <;> simp [hashSize] at hbad

/-! ### cache TTL (over the generated constants) -/

theorem skew_pos : 0 < Gen.C30.keylessExpirySkew := by decide
theorem pos_gt_second : second < Gen.C30.keylessPositiveTTL := by decide
theorem failed_pos : 0 < Gen.C30.keylessFailedTTL := by decide

/-- closed form: remaining validity after the skew, clamped to [.., 5 min], floor 1 s when nothing remains -/
theorem ttlOf_eq (d : Int) :
    ttlOf d = if d - Gen.C30.keylessExpirySkew ≤ 0 then second
              else min (d - Gen.C30.keylessExpirySkew) Gen.C30.keylessPositiveTTL := by
  unfold ttlOf
  simp only
  have e : d + -Gen.C30.keylessExpirySkew = d - Gen.C30.keylessExpirySkew := by omega
  rw [e]
  split
  · rfl
  · split <;> omega

theorem ttl_pos (leaf : Option Int) : 0 < computeTTL leaf := by
  have := pos_gt_second
  cases leaf with
  | none => simp only [computeTTL]; unfold second at this; omega
  | some d =>
    simp only [computeTTL, ttlOf]
    unfold second at *
    split
    · omega
    · split <;> omega

theorem ttl_le_positive (leaf : Option Int) : computeTTL leaf ≤ Gen.C30.keylessPositiveTTL := by
  have := pos_gt_second
  cases leaf with
  | none => simp [computeTTL]
  | some d =>
    simp only [computeTTL, ttlOf]
    split
    · omega
    · split <;> omega

/-- **never cached past expiry − skew**: with `d = NotAfter − now`, the entry expires no later than
`NotAfter − skew`; the only exception is the 1 s floor used when that moment is already reached (a TTL ≤ 0
would mean "no expiry" to the cache). -/
theorem never_cached_past_expiry (d : Int) :
    ttlOf d ≤ d - Gen.C30.keylessExpirySkew ∨ (ttlOf d = second ∧ d - Gen.C30.keylessExpirySkew ≤ 0) := by
  unfold ttlOf
  simp only
  split
  · right; exact ⟨rfl, by omega⟩
  · left; split <;> omega

theorem ttl_bound (d : Int) : ttlOf d ≤ max (d - Gen.C30.keylessExpirySkew) second := by
  rcases never_cached_past_expiry d with h | ⟨h, -⟩ <;> omega

/-- the TTL is NOT monotone in the remaining validity (1 s floor vs. a few ns left); the exact set of
TTLs the loader can produce when it reads the clock somewhere in a bracket is decided by `ttlReachable` -/
theorem ttlReachable_iff (d1 d0 t : Int) (h : d1 ≤ d0) :
    ttlReachable d1 d0 t = true ↔ ∃ d, d1 ≤ d ∧ d ≤ d0 ∧ ttlOf d = t := by
  have hps := pos_gt_second
  have hsk := skew_pos
  have hpp : 0 < Gen.C30.keylessPositiveTTL := by decide
  unfold ttlReachable
  simp only [Bool.or_eq_true, Bool.and_eq_true, decide_eq_true_eq, beq_iff_eq]
  constructor
  · rintro ((⟨rfl, h1⟩ | ⟨⟨⟨h1, h2⟩, h3⟩, h4⟩) | ⟨rfl, h1⟩)
    · exact ⟨d1, Int.le_refl _, h, by unfold ttlOf; simp only; split <;> omega⟩
    · refine ⟨t + Gen.C30.keylessExpirySkew, h3, h4, ?_⟩
      unfold ttlOf; simp only; split
      · omega
      · split <;> omega
    · refine ⟨d0, h, Int.le_refl _, ?_⟩
      unfold ttlOf; simp only; split
      · omega
      · split <;> omega
  · rintro ⟨d, h1, h2, rfl⟩
    unfold ttlOf; simp only
    unfold second at *
    split
    · left; left; exact ⟨rfl, by omega⟩
    · split
      · left; right; omega
      · right; exact ⟨rfl, by omega⟩

theorem ttl_mono_of_pos (d₁ d₂ : Int) (h : d₁ ≤ d₂) (hp : 0 < d₁ - Gen.C30.keylessExpirySkew) :
    ttlOf d₁ ≤ ttlOf d₂ := by
  unfold ttlOf
  simp only
  split <;> split <;> (try split) <;> (try split) <;> omega

/-- the loader's `if ret.TTL <= 0` fallback is dead: it always stores the computed TTL for a certificate,
hence the bound above applies to what the cache is told -/
theorem loader_ttl (leaf : Option Int) :
    loaderTTL .cert leaf = computeTTL leaf ∧ loaderTTL .fail leaf = Gen.C30.keylessFailedTTL
      ∧ loaderTTL .empty leaf = Gen.C30.keylessFailedTTL ∧ Gen.C30.keylessFailedTTL < Gen.C30.keylessPositiveTTL := by
  have := ttl_pos leaf
  refine ⟨?_, rfl, rfl, by decide⟩
  simp only [loaderTTL]
  split
  · omega
  · rfl

/-! ### non-vacuity -/

def cfgEx : Cfg := ⟨"hello.com", "acme.example.com"⟩
def alice : Client := ⟨1, "A"⟩
def bob : Client := ⟨2, "B"⟩
def kvEx : State := ⟨fun x => if x = "app.customer.org" then some alice else none, fun _ _ => false⟩
def reqEx (c : Client) : Req := ⟨c, some "app.customer.org", true, false, .cert⟩

example : (getCertificate cfgEx kvEx (fun _ => none) (reqEx alice)).res = none
    ∧ (getCertificate cfgEx kvEx (fun _ => none) (reqEx alice)).called = true := by decide
example : (getCertificate cfgEx kvEx (fun _ => none) (reqEx bob)).res = some .invHost := by decide
example : (getCertificate cfgEx kvEx (fun _ => none) ⟨alice, some "www.customer.org", true, false, .cert⟩).res = some .denied := by decide
example : (sign cfgEx kvEx (fun _ => none) (reqEx alice) 2 48 true true).res = none := by decide
example : (sign cfgEx kvEx (fun _ => none) (reqEx alice) 2 32 true true).res = some .invDigest := by decide
example : (sign cfgEx kvEx (fun _ => none) (reqEx alice) 0 32 true true).res = some .invAlgo := by decide
example : ttlOf (Gen.C30.keylessExpirySkew + 7) = 7 ∧ ttlOf Gen.C30.keylessExpirySkew = second
    ∧ ttlOf (Gen.C30.keylessExpirySkew + 2 * Gen.C30.keylessPositiveTTL) = Gen.C30.keylessPositiveTTL := by decide

end Specter.C30
