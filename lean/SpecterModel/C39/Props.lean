import SpecterModel.C39.Lemmas
/-!
# C39 — the in-memory stream pipe is a faithful byte stream

Theorems about the model of `util/bufconn/bufconn.go` in `Model.lean` (ring buffer exactly as coded +
small-step layer with the two condition variables), for ALL capacities ≥ 1 and ALL event sequences
(= all write chunkings, read sizes and reader/writer interleavings at mutex granularity).
`cap = 0` is a stated exclusion (`Write` of a non-empty slice would spin; the transport uses 8192).
-/
namespace Specter.C39

/-- The global invariant of the small-step system (with ghost trace). -/
structure SInv (c : Nat) (t : Trace) : Prop where
  inv : Inv t.s.p
  cap_eq : t.s.p.cap = c
  /-- conservation: delivered ++ buffered = copied in -/
  conserve : t.got ++ t.s.p.abs = t.put
  /-- a reader parked in `rwait` has nothing to return: no lost wake-up -/
  rwait : ∀ n, t.s.rt = .waiting n →
    t.s.p.abs = [] ∧ t.s.p.closed = false ∧ t.s.p.writeClosed = false ∧ t.s.p.rtimedout = false
  /-- a writer parked in `wwait` cannot make progress: no lost wake-up -/
  wwait : ∀ rest n, t.s.wt = .waiting rest n →
    rest ≠ [] ∧ t.s.p.full = true ∧ t.s.p.closed = false ∧ t.s.p.writeClosed = false ∧ t.s.p.wtimedout = false
  /-- a writer that was woken still has bytes to write -/
  wwoken : ∀ rest n, t.s.wt = .woken rest n → rest ≠ []

theorem wakeR_not_waiting (t : RTh) (n : Nat) : wakeR t ≠ .waiting n := by cases t <;> simp [wakeR]
theorem wakeW_not_waiting (t : WTh) (r : List Nat) (n : Nat) : wakeW t ≠ .waiting r n := by cases t <;> simp [wakeW]
theorem wakeW_woken (t : WTh) (r : List Nat) (n : Nat) (h : wakeW t = .woken r n) : t = .waiting r n ∨ t = .woken r n := by
  cases t <;> simp_all [wakeW]
theorem wwoken_wake {c : Nat} (t : Trace) (h : SInv c t) (r : List Nat) (n : Nat) (hw : wakeW t.s.wt = .woken r n) : r ≠ [] := by
  rcases wakeW_woken _ _ _ hw with a | a
  · exact (h.wwait r n a).1
  · exact h.wwoken r n a

theorem sinv_rAttempt {c : Nat} (t : Trace) (n : Nat) (h : SInv c t) :
    let q := rAttempt t.s n
    SInv c { s := q.1, got := t.got ++ q.2.2.1, put := t.put ++ q.2.2.2 } := by
  have rs := readStep_spec t.s.p n h.inv
  unfold rAttempt
  generalize readStep t.s.p n = q at rs
  obtain ⟨qp, qo, qs⟩ := q
  obtain ⟨i, f, m⟩ := rs
  unfold sameFlags at f
  simp only at i f m
  cases qo <;> simp only at m ⊢
  · -- data
    obtain ⟨m1, m2, m3, m4, m5⟩ := m
    refine ⟨i, by rw [← h.cap_eq]; exact f.2.2.2.2, ?_, ?_, ?_, ?_⟩
    · simp only [List.append_nil, List.append_assoc]; rw [← m2]; exact h.conserve
    · intro k hk; simp at hk
    · intro rest k hk
      simp only at hk
      by_cases cs : qs = true
      · simp only [cs, if_true] at hk; exact absurd hk (wakeW_not_waiting _ _ _)
      · simp only [cs, if_false, Bool.false_eq_true] at hk
        have := (h.wwait rest k hk).2.1
        rw [m5] at cs; exact absurd this cs
    · intro rest k hk
      simp only at hk
      by_cases cs : qs = true
      · simp only [cs, if_true] at hk; exact wwoken_wake t h rest k hk
      · simp only [cs, if_false, Bool.false_eq_true] at hk; exact h.wwoken rest k hk
  · obtain ⟨m1, _, _, _, hq⟩ := m
    subst m1; subst hq
    exact ⟨i, h.cap_eq, by simpa using h.conserve, by intro k hk; simp at hk, fun rest k hk => h.wwait rest k (by simpa using hk), fun rest k hk => h.wwoken rest k (by simpa using hk)⟩
  · obtain ⟨m1, _, hq⟩ := m
    subst m1; subst hq
    exact ⟨i, h.cap_eq, by simpa using h.conserve, by intro k hk; simp at hk, fun rest k hk => h.wwait rest k (by simpa using hk), fun rest k hk => h.wwoken rest k (by simpa using hk)⟩
  · obtain ⟨m1, _, _, _, _, hq⟩ := m
    subst m1; subst hq
    exact ⟨i, h.cap_eq, by simpa using h.conserve, by intro k hk; simp at hk, fun rest k hk => h.wwait rest k (by simpa using hk), fun rest k hk => h.wwoken rest k (by simpa using hk)⟩
  · obtain ⟨m1, b1, b2, b3, b4, hq⟩ := m
    subst m1
    exact ⟨i, h.cap_eq, by simpa using h.conserve, fun k _ => ⟨b2, b1, b3, b4⟩, fun rest k hk => h.wwait rest k (by simpa using hk), fun rest k hk => h.wwoken rest k (by simpa using hk)⟩

theorem sinv_wFinish {c : Nat} (t : Trace) (bs : List Nat) (n : Nat) (q : Pipe × WOut × Bool × List Nat)
    (h : SInv c t) (ws : WriteSpec t.s.p bs n false [] q) :
    SInv c { s := (wFinish t.s q).1, got := t.got ++ (wFinish t.s q).2.2.1, put := t.put ++ (wFinish t.s q).2.2.2 } := by
  obtain ⟨qp, qo, qs, qc⟩ := q
  obtain ⟨i, f, k, hk, a, cp, sg, m⟩ := ws
  unfold sameFlags at f
  simp only at i f a cp sg m
  have hcap : qp.cap = c := by rw [← h.cap_eq]; exact f.2.2.2.2
  have hcons : t.got ++ [] ++ qp.abs = t.put ++ qc := by
    rw [a, cp, ← h.conserve]; simp
  have hrw : ∀ m, (if qs = true then wakeR t.s.rt else t.s.rt) = RTh.waiting m →
      qp.abs = [] ∧ qp.closed = false ∧ qp.writeClosed = false ∧ qp.rtimedout = false := by
    intro m hm
    by_cases cs : qs = true
    · simp only [cs, if_true] at hm; exact absurd hm (wakeR_not_waiting _ _)
    · simp only [cs] at hm
      obtain ⟨r1, r2, r3, r4⟩ := h.rwait m hm
      have he := (empty_iff _ h.inv).mpr r1
      rw [he] at sg
      have hk0 : k = 0 := by
        cases hq : qs
        · rw [hq] at sg; simp at sg; exact sg
        · exact absurd hq cs
      subst hk0
      refine ⟨by rw [a, r1]; simp, by rw [f.1]; exact r2, by rw [f.2.1]; exact r3, by rw [f.2.2.1]; exact r4⟩
  unfold wFinish
  cases qo <;> simp only at m ⊢
  case block rest mm =>
    obtain ⟨m1, m2, m3, m4, m5, m6, m7⟩ := m
    refine ⟨i, hcap, hcons, hrw, ?_, by intro r' n' hw; simp at hw⟩
    intro r' n' hw
    simp only [WTh.waiting.injEq] at hw
    obtain ⟨e1, e2⟩ := hw
    subst e1
    exact ⟨m2, m4, by rw [f.1]; exact m5, by rw [f.2.1]; exact m6, by rw [f.2.2.2.1]; exact m7⟩
  all_goals exact ⟨i, hcap, hcons, hrw, by intro r' n' hw; simp at hw, by intro r' n' hw; simp at hw⟩

theorem sinv_flag {c : Nat} (t : Trace) (p' : Pipe) (rt' : RTh) (wt' : WTh) (h : SInv c t)
    (hd : p'.arr = t.s.p.arr ∧ p'.len = t.s.p.len ∧ p'.w = t.s.p.w ∧ p'.r = t.s.p.r)
    (hr : ∀ n, rt' = .waiting n → t.s.rt = .waiting n ∧ p'.closed = t.s.p.closed ∧
        p'.writeClosed = t.s.p.writeClosed ∧ (p'.rtimedout = t.s.p.rtimedout ∨ p'.rtimedout = false))
    (hw : ∀ r n, wt' = .waiting r n → t.s.wt = .waiting r n ∧ p'.closed = t.s.p.closed ∧
        p'.writeClosed = t.s.p.writeClosed ∧ (p'.wtimedout = t.s.p.wtimedout ∨ p'.wtimedout = false))
    (hk : wt' = t.s.wt ∨ wt' = wakeW t.s.wt) :
    SInv c { s := { p := p', rt := rt', wt := wt' }, got := t.got ++ [], put := t.put ++ [] } := by
  obtain ⟨d1, d2, d3, d4⟩ := sameData t.s.p p' hd
  refine ⟨d1 h.inv, by rw [← h.cap_eq]; simp only [Pipe.cap, hd.1], by simp only [List.append_nil, d2]; exact h.conserve, ?_, ?_, ?_⟩
  · intro n hn
    obtain ⟨a, b, c, d⟩ := hr n hn
    obtain ⟨r1, r2, r3, r4⟩ := h.rwait n a
    refine ⟨by simp only [d2]; exact r1, by simp only [b]; exact r2, by simp only [c]; exact r3, ?_⟩
    simp only; cases d with
    | inl d => rw [d]; exact r4
    | inr d => exact d
  · intro r n hn
    obtain ⟨a, b, c, d⟩ := hw r n hn
    obtain ⟨r0, r1, r2, r3, r4⟩ := h.wwait r n a
    refine ⟨r0, by simp only [d3]; exact r1, by simp only [b]; exact r2, by simp only [c]; exact r3, ?_⟩
    simp only; cases d with
    | inl d => rw [d]; exact r4
    | inr d => exact d
  · intro r n hn
    simp only at hn
    rcases hk with e | e
    · rw [e] at hn; exact h.wwoken r n hn
    · rw [e] at hn; exact wwoken_wake t h r n hn

theorem sinv_id {c : Nat} (t : Trace) (h : SInv c t) : SInv c { s := t.s, got := t.got ++ [], put := t.put ++ [] } := by
  simpa using h

/-- Every atomic step preserves the invariant. -/
theorem sinv_step {c : Nat} (t : Trace) (e : Ev) (h : SInv c t) : SInv c (t.step e) := by
  unfold Trace.step step
  cases e with
  | read n =>
    simp only
    cases hrt : t.s.rt <;> simp only
    · exact sinv_rAttempt t n h
    · exact sinv_id t h
    · exact sinv_id t h
  | rresume =>
    simp only
    cases hrt : t.s.rt <;> simp only
    · exact sinv_id t h
    · exact sinv_id t h
    · exact sinv_rAttempt t _ h
  | write bs =>
    simp only
    cases hwt : t.s.wt <;> simp only
    · rcases writeStart_spec t.s.p bs h.inv with ⟨c, e⟩ | ⟨c, ws⟩
      · rw [e]; unfold wFinish; simp only [Bool.false_eq_true, if_false]
        exact sinv_flag t t.s.p t.s.rt .idle h ⟨rfl, rfl, rfl, rfl⟩
          (fun n hn => ⟨hn, rfl, rfl, Or.inl rfl⟩) (fun r n hn => by simp at hn) (Or.inl hwt.symm)
      · exact sinv_wFinish t bs 0 _ h ws
    · exact sinv_id t h
    · exact sinv_id t h
  | wresume =>
    simp only
    cases hwt : t.s.wt <;> simp only
    · exact sinv_id t h
    · exact sinv_id t h
    · exact sinv_wFinish t _ _ _ h (writeResume_spec t.s.p _ _ h.inv)
  | close =>
    exact sinv_flag t _ _ _ h ⟨rfl, rfl, rfl, rfl⟩
      (fun n hn => absurd hn (wakeR_not_waiting _ _)) (fun r n hn => absurd hn (wakeW_not_waiting _ _ _)) (Or.inr rfl)
  | closeWrite =>
    exact sinv_flag t _ _ _ h ⟨rfl, rfl, rfl, rfl⟩
      (fun n hn => absurd hn (wakeR_not_waiting _ _)) (fun r n hn => absurd hn (wakeW_not_waiting _ _ _)) (Or.inr rfl)
  | rtimer =>
    exact sinv_flag t _ _ _ h ⟨rfl, rfl, rfl, rfl⟩
      (fun n hn => absurd hn (wakeR_not_waiting _ _)) (fun r n hn => ⟨hn, rfl, rfl, Or.inl rfl⟩) (Or.inl rfl)
  | wtimer =>
    exact sinv_flag t _ _ _ h ⟨rfl, rfl, rfl, rfl⟩
      (fun n hn => ⟨hn, rfl, rfl, Or.inl rfl⟩) (fun r n hn => absurd hn (wakeW_not_waiting _ _ _)) (Or.inr rfl)
  | rclear =>
    exact sinv_flag t _ _ _ h ⟨rfl, rfl, rfl, rfl⟩
      (fun n hn => ⟨hn, rfl, rfl, Or.inr rfl⟩) (fun r n hn => ⟨hn, rfl, rfl, Or.inl rfl⟩) (Or.inl rfl)
  | wclear =>
    exact sinv_flag t _ _ _ h ⟨rfl, rfl, rfl, rfl⟩
      (fun n hn => ⟨hn, rfl, rfl, Or.inl rfl⟩) (fun r n hn => ⟨hn, rfl, rfl, Or.inr rfl⟩) (Or.inl rfl)

theorem sinv_init (sz : Nat) (h : 0 < sz) : SInv sz { s := init sz } := by
  refine ⟨inv_new sz h, by simp [init, newPipe, Pipe.cap], by simp [init, abs_new], ?_, ?_, ?_⟩ <;> intros <;> simp_all [init]

theorem sinv_foldl {c : Nat} (evs : List Ev) : ∀ t, SInv c t → SInv c (evs.foldl Trace.step t) := by
  induction evs with
  | nil => intro t h; exact h
  | cons e es ih => intro t h; exact ih _ (sinv_step t e h)

/-- The invariant holds in every reachable state, for every capacity ≥ 1 and every event sequence. -/
theorem sinv_run (sz : Nat) (evs : List Ev) (h : 0 < sz) : SInv sz (run sz evs) :=
  sinv_foldl evs _ (sinv_init sz h)

/-! ## The property theorems (all capacities ≥ 1, all event sequences = all chunkings and interleavings) -/

/-- **Refinement to a bounded FIFO / conservation.** After any event sequence: what the reader got,
followed by the buffered content, is exactly what writes copied in — no loss, duplication or reordering —
and the buffered content never exceeds the capacity. -/
theorem stream_faithful (sz : Nat) (evs : List Ev) (h : 0 < sz) :
    (run sz evs).got ++ (run sz evs).s.p.abs = (run sz evs).put ∧ (run sz evs).s.p.abs.length ≤ sz := by
  have hi := sinv_run sz evs h
  refine ⟨hi.conserve, ?_⟩
  have := abs_length_le _ hi.inv
  rw [hi.cap_eq] at this; exact this

/-- The reader always holds a prefix of what was written. -/
theorem reads_prefix_of_writes (sz : Nat) (evs : List Ev) (h : 0 < sz) :
    (run sz evs).got <+: (run sz evs).put :=
  ⟨_, (stream_faithful sz evs h).1⟩

theorem rAttempt_out (s : Sys) (n : Nat) : (rAttempt s n).2.1 = .r (readStep s.p n).2.1 := by
  unfold rAttempt; dsimp only; generalize readStep s.p n = q; obtain ⟨a, o, b⟩ := q; cases o <;> rfl

theorem wFinish_out (s : Sys) (q : Pipe × WOut × Bool × List Nat) : (wFinish s q).2.1 = .w q.2.1 := by
  unfold wFinish; obtain ⟨a, o, b⟩ := q; cases o <;> rfl

/-- a step that answers a read outcome is a read attempt on the current pipe -/
theorem step_read_out (s : Sys) (e : Ev) (o : ROut) (h : (step s e).2.1 = .r o) :
    ∃ n, o = (readStep s.p n).2.1 := by
  unfold step at h
  cases e <;> simp only at h
  case read n =>
    cases hrt : s.rt <;> rw [hrt] at h <;> simp only at h
    · rw [rAttempt_out] at h; exact ⟨n, by injection h with h; exact h.symm⟩
    all_goals exact absurd h (by simp)
  case rresume =>
    cases hrt : s.rt <;> rw [hrt] at h <;> simp only at h
    case woken n => rw [rAttempt_out] at h; exact ⟨n, by injection h with h; exact h.symm⟩
    all_goals exact absurd h (by simp)
  case write bs =>
    cases hwt : s.wt <;> rw [hwt] at h <;> simp only at h
    · rw [wFinish_out] at h; exact absurd h (by simp)
    all_goals exact absurd h (by simp)
  case wresume =>
    cases hwt : s.wt <;> rw [hwt] at h <;> simp only at h
    case woken r n => rw [wFinish_out] at h; exact absurd h (by simp)
    all_goals exact absurd h (by simp)
  all_goals exact absurd h (by simp)

/-- **End-of-stream only after drain.** Whenever a read answers EOF, the writer side is closed and the
reader has received every byte that was ever copied into the pipe. -/
theorem eof_only_after_drain (sz : Nat) (evs : List Ev) (e : Ev) (h : 0 < sz)
    (he : (step (run sz evs).s e).2.1 = .r .eof) :
    (run sz evs).got = (run sz evs).put ∧ (run sz evs).s.p.writeClosed = true := by
  have hi := sinv_run sz evs h
  obtain ⟨n, hn⟩ := step_read_out _ _ _ he
  have rs := readStep_spec (run sz evs).s.p n hi.inv
  unfold ReadSpec at rs
  rw [← hn] at rs
  obtain ⟨_, _, _, _, ha, hw, _⟩ := rs
  have hc := hi.conserve
  rw [ha, List.append_nil] at hc
  exact ⟨hc, hw⟩

/-- a step that answers a write outcome is a write attempt (fresh or resumed) on the current pipe -/
theorem step_write_out (s : Sys) (e : Ev) (o : WOut) (h : (step s e).2.1 = .w o) :
    (∃ bs, e = .write bs ∧ s.wt = .idle ∧ o = (writeStart s.p bs).2.1) ∨
    (∃ rest n, s.wt = .woken rest n ∧ o = (writeResume s.p rest n).2.1) := by
  unfold step at h
  cases e <;> simp only at h
  case read n =>
    cases hrt : s.rt <;> rw [hrt] at h <;> simp only at h
    · rw [rAttempt_out] at h; exact absurd h (by simp)
    all_goals exact absurd h (by simp)
  case rresume =>
    cases hrt : s.rt <;> rw [hrt] at h <;> simp only at h
    case woken n => rw [rAttempt_out] at h; exact absurd h (by simp)
    all_goals exact absurd h (by simp)
  case write bs =>
    cases hwt : s.wt <;> rw [hwt] at h <;> simp only at h
    · rw [wFinish_out] at h; exact Or.inl ⟨bs, rfl, rfl, by injection h with h; exact h.symm⟩
    all_goals exact absurd h (by simp)
  case wresume =>
    cases hwt : s.wt <;> rw [hwt] at h <;> simp only at h
    case woken r n => rw [wFinish_out] at h; exact Or.inr ⟨r, n, rfl, by injection h with h; exact h.symm⟩
    all_goals exact absurd h (by simp)
  all_goals exact absurd h (by simp)

/-- what a write attempt can answer, from the pipe flags -/
theorem write_out_cases {c : Nat} (t : Trace) (hi : SInv c t) (e : Ev) (o : WOut) (h : (step t.s e).2.1 = .w o) :
    o ≠ .spin ∧
    (t.s.p.closed = true → o = .errClosed) ∧
    (∀ r n, o = .block r n → t.s.p.closed = false ∧ t.s.p.writeClosed = false ∧ t.s.p.wtimedout = false) ∧
    (∀ bs, e = .write bs → bs ≠ [] → t.s.p.writeClosed = true → o = .errClosed) ∧
    (∀ bs n, e = .write bs → o = .ok n → n = bs.length) := by
  have key : ∀ (bs : List Nat) (n0 : Nat) (q : Pipe × WOut × Bool × List Nat), WriteSpec t.s.p bs n0 false [] q → bs ≠ [] ∨ t.s.p.closed = false →
      q.2.1 ≠ .spin ∧ (t.s.p.closed = true → q.2.1 = .errClosed) ∧
      (∀ r n, q.2.1 = .block r n → t.s.p.closed = false ∧ t.s.p.writeClosed = false ∧ t.s.p.wtimedout = false) ∧
      (bs ≠ [] → t.s.p.writeClosed = true → q.2.1 = .errClosed) ∧ (∀ n, q.2.1 = .ok n → n = n0 + bs.length) := by
    intro bs n0 q ws hbs
    obtain ⟨qp, qo, qs, qc⟩ := q
    obtain ⟨_, _, k, _, _, _, _, m⟩ := ws
    cases qo <;> simp only at m ⊢
    case ok n =>
      obtain ⟨m1, m2, m3⟩ := m
      have hcl : bs = [] ∨ (t.s.p.closed = false ∧ t.s.p.writeClosed = false) := by
        rcases m3 with m3 | m3
        · exact Or.inl m3
        · right; simpa using m3
      refine ⟨by simp, ?_, by simp, ?_, by intro n' hn; injection hn with hn; omega⟩
      · intro hc; exfalso
        rcases hcl with e | e
        · rcases hbs with b | b
          · exact b e
          · rw [hc] at b; exact absurd b (by simp)
        · rw [hc] at e; exact absurd e.1 (by simp)
      · intro hne hw; exfalso
        rcases hcl with e | e
        · exact hne e
        · rw [hw] at e; exact absurd e.2 (by simp)
    case errClosed => simp
    case timeout =>
      refine ⟨by simp, ?_, by simp, ?_, by simp⟩
      · intro hc; rw [hc] at m; exact absurd m.2.2.1 (by simp)
      · intro _ hw; rw [hw] at m; exact absurd m.2.2.2.1 (by simp)
    case block r n =>
      obtain ⟨_, _, _, _, b1, b2, b3⟩ := m
      refine ⟨by simp, ?_, fun _ _ _ => ⟨b1, b2, b3⟩, ?_, by simp⟩
      · intro hc; rw [hc] at b1; exact absurd b1 (by simp)
      · intro _ hw; rw [hw] at b2; exact absurd b2 (by simp)
  rcases step_write_out _ _ _ h with ⟨bs, he, _, ho⟩ | ⟨rest, n, hw, ho⟩
  · subst he
    rcases writeStart_spec t.s.p bs hi.inv with ⟨c1, e1⟩ | ⟨c1, ws⟩
    · rw [e1] at ho; simp only at ho; subst ho
      refine ⟨by simp, fun _ => rfl, by simp, fun _ _ _ _ => rfl, by simp⟩
    · obtain ⟨k1, k2, k3, k4, k5⟩ := key bs 0 _ ws (Or.inr c1)
      rw [← ho] at k1 k2 k3 k4 k5
      refine ⟨k1, k2, k3, ?_, ?_⟩
      · intro bs' hb hne hw; injection hb with hb; subst hb; exact k4 hne hw
      · intro bs' n hb hn; injection hb with hb; subst hb; have := k5 n hn; omega
  · have hne := hi.wwoken rest n hw
    obtain ⟨k1, k2, k3, k4, k5⟩ := key rest n _ (writeResume_spec t.s.p rest n hi.inv) (Or.inl hne)
    rw [← ho] at k1 k2 k3 k4 k5
    refine ⟨k1, k2, k3, ?_, ?_⟩
    · intro bs' hb; subst hb
      unfold step at h; simp only [hw] at h; exact absurd h (by simp)
    · intro bs' n' hb; subst hb
      unfold step at h; simp only [hw] at h; exact absurd h (by simp)

theorem read_out_cases (p : Pipe) (n : Nat) :
    (p.closed = true → (readStep p n).2.1 = .errClosed) ∧
    ((readStep p n).2.1 = .block → p.closed = false ∧ p.writeClosed = false ∧ p.rtimedout = false) := by
  unfold readStep
  refine ⟨fun h => by simp [h], ?_⟩
  intro h
  cases hc : p.closed <;> cases he : p.empty <;> cases hw : p.writeClosed <;> cases ht : p.rtimedout <;>
    simp [hc, he, hw, ht] at h ⊢

/-- **Reads and writes on a closed end fail.** In any reachable state with `closed` set, every read
attempt (fresh or resumed) answers `ErrClosedPipe` and so does every write attempt; and once the write side
is closed (`closeWrite`, i.e. the peer `conn` was closed) a non-empty `Write` answers `ErrClosedPipe`. -/
theorem closed_ops_fail (sz : Nat) (evs : List Ev) (e : Ev) (h : 0 < sz) :
    ((run sz evs).s.p.closed = true →
      (∀ o, (step (run sz evs).s e).2.1 = .r o → o = .errClosed) ∧
      (∀ o, (step (run sz evs).s e).2.1 = .w o → o = .errClosed)) ∧
    ((run sz evs).s.p.writeClosed = true → ∀ bs o, e = .write bs → bs ≠ [] →
      (step (run sz evs).s e).2.1 = .w o → o = .errClosed) := by
  have hi := sinv_run sz evs h
  refine ⟨fun hc => ⟨?_, ?_⟩, ?_⟩
  · intro o ho
    obtain ⟨n, hn⟩ := step_read_out _ _ _ ho
    rw [hn]; exact (read_out_cases _ n).1 hc
  · intro o ho; exact (write_out_cases _ hi e o ho).2.1 hc
  · intro hw bs o he hne ho; exact (write_out_cases _ hi e o ho).2.2.2.1 bs he hne hw

/-- **No lost wake-up** (one reader, one writer): in every reachable state a reader parked in `rwait`
really has nothing to return (buffer empty, neither closed, nor write-closed, nor timed out), and a writer
parked in `wwait` really cannot proceed (buffer full, not closed, not write-closed, not timed out). -/
theorem no_lost_wakeup (sz : Nat) (evs : List Ev) (h : 0 < sz) :
    (∀ n, (run sz evs).s.rt = .waiting n →
      (run sz evs).s.p.abs = [] ∧ (run sz evs).s.p.closed = false ∧
      (run sz evs).s.p.writeClosed = false ∧ (run sz evs).s.p.rtimedout = false) ∧
    (∀ rest n, (run sz evs).s.wt = .waiting rest n →
      rest ≠ [] ∧ (run sz evs).s.p.abs.length = sz ∧ (run sz evs).s.p.closed = false ∧
      (run sz evs).s.p.writeClosed = false ∧ (run sz evs).s.p.wtimedout = false) := by
  have hi := sinv_run sz evs h
  refine ⟨hi.rwait, ?_⟩
  intro rest n hw
  obtain ⟨a, b, c⟩ := hi.wwait rest n hw
  refine ⟨a, ?_, c⟩
  have := (full_iff _ hi.inv).mp b
  rw [hi.cap_eq] at this; exact this

/-- **No call blocks forever once an end closes.** In every reachable state where the pipe is closed
(reader side `Close`) or write-closed (writer side closed): nobody is parked in a condition variable
(they have been woken) and no read or write attempt — fresh or resumed — parks again. -/
theorem close_unblocks (sz : Nat) (evs : List Ev) (h : 0 < sz)
    (hc : (run sz evs).s.p.closed = true ∨ (run sz evs).s.p.writeClosed = true) :
    (∀ n, (run sz evs).s.rt ≠ .waiting n) ∧ (∀ r n, (run sz evs).s.wt ≠ .waiting r n) ∧
    (∀ e, (step (run sz evs).s e).2.1 ≠ .r .block ∧ ∀ r n, (step (run sz evs).s e).2.1 ≠ .w (.block r n)) := by
  have hi := sinv_run sz evs h
  refine ⟨?_, ?_, ?_⟩
  · intro n hn; obtain ⟨_, a, b, _⟩ := hi.rwait n hn
    rcases hc with c | c <;> simp_all
  · intro r n hn; obtain ⟨_, _, a, b, _⟩ := hi.wwait r n hn
    rcases hc with c | c <;> simp_all
  · intro e; refine ⟨?_, ?_⟩
    · intro hb
      obtain ⟨n, hn⟩ := step_read_out _ _ _ hb
      obtain ⟨a, b, _⟩ := (read_out_cases _ n).2 hn.symm
      rcases hc with c | c <;> simp_all
    · intro r n hb
      obtain ⟨a, b, _⟩ := (write_out_cases _ hi e _ hb).2.2.1 r n rfl
      rcases hc with c | c <;> simp_all

/-- **Deadlines unblock waiting calls.** Once the read (write) deadline timer has fired and until the
deadline is reset, the reader (writer) is not parked and no read (write) attempt parks. -/
theorem deadline_unblocks (sz : Nat) (evs : List Ev) (h : 0 < sz) :
    ((run sz evs).s.p.rtimedout = true →
      (∀ n, (run sz evs).s.rt ≠ .waiting n) ∧ ∀ e, (step (run sz evs).s e).2.1 ≠ .r .block) ∧
    ((run sz evs).s.p.wtimedout = true →
      (∀ r n, (run sz evs).s.wt ≠ .waiting r n) ∧ ∀ e r n, (step (run sz evs).s e).2.1 ≠ .w (.block r n)) := by
  have hi := sinv_run sz evs h
  refine ⟨fun ht => ⟨?_, ?_⟩, fun ht => ⟨?_, ?_⟩⟩
  · intro n hn; obtain ⟨_, _, _, a⟩ := hi.rwait n hn; simp_all
  · intro e hb
    obtain ⟨n, hn⟩ := step_read_out _ _ _ hb
    obtain ⟨_, _, a⟩ := (read_out_cases _ n).2 hn.symm
    simp_all
  · intro r n hn; obtain ⟨_, _, _, _, a⟩ := hi.wwait r n hn; simp_all
  · intro e r n hb
    obtain ⟨_, _, a⟩ := (write_out_cases _ hi e _ hb).2.2.1 r n rfl
    simp_all

/-- A `Write` that returns without error has accepted every byte, and `Write` never spins (cap ≥ 1). -/
theorem write_ok_complete (sz : Nat) (evs : List Ev) (bs : List Nat) (h : 0 < sz) :
    (step (run sz evs).s (.write bs)).2.1 ≠ .w .spin ∧
    ∀ n, (step (run sz evs).s (.write bs)).2.1 = .w (.ok n) → n = bs.length := by
  have hi := sinv_run sz evs h
  refine ⟨?_, ?_⟩
  · intro hb; exact (write_out_cases _ hi _ _ hb).1 rfl
  · intro n hb; exact (write_out_cases _ hi _ _ hb).2.2.2.2 bs n rfl rfl

/-! ### non-vacuity: concrete runs (cap 3: wrap-around, partial write that parks, wake-up, EOF) -/

/-- write 5 bytes into cap 3 parks after 3; the read wakes the writer; it finishes; close-write; drain; EOF -/
def demo : List Ev :=
  [.write [1,2,3,4,5], .read 2, .wresume, .read 8, .read 8, .closeWrite, .read 8]

example : (run 3 demo).got = [1,2,3,4,5] ∧ (run 3 demo).put = [1,2,3,4,5] ∧ (run 3 demo).s.p.abs = [] := by decide
example : (step (run 3 [.write [1,2,3,4,5]]).s (.read 2)).2.1 = .r (.data [1,2]) ∧
    (run 3 [.write [1,2,3,4,5]]).s.wt = .waiting [4,5] 3 ∧
    (run 3 [.write [1,2,3,4,5], .read 2]).s.wt = .woken [4,5] 3 := by decide
example : (step (run 3 demo).s (.read 4)).2.1 = .r .eof := by decide
example : (run 3 [.read 1]).s.rt = .waiting 1 ∧ (run 3 [.read 1, .close]).s.rt = .woken 1 ∧
    (step (run 3 [.read 1, .close]).s .rresume).2.1 = .r .errClosed := by decide
example : (run 2 [.read 1, .rtimer]).s.p.rtimedout = true ∧
    (step (run 2 [.read 1, .rtimer]).s .rresume).2.1 = .r .timeout := by decide
example : (step (run 2 [.closeWrite]).s (.write [7])).2.1 = .w .errClosed := by decide

end Specter.C39
