import SpecterModel.C14.Gen
/-!
# C14 model — chord errors across RPC (spec/chord/errors.go, spec/rpc/error.go, chord/server_rpc.go, chord/remote.go)

Parametric in the registry (`List Entry`); `Props.lean` instantiates it with the GENERATED `Gen.C14.registry`.

origin error value  --rpc.WrapError*-->  twirp error (code, msg, meta kv)  --wire-->  client twirp error (code, msg,
meta; the Go identity of the cause is gone)  --chord.ErrorMapper-->  caller's error value  --chord.ErrorIsRetryable-->  Bool

The KV / lease handlers wrap with `rpc.WrapErrorKV(key, err)`, `key` being the request's key / prefix / lease name: a
byte string CHOSEN BY THE CALLER, of any length. The model takes it as a parameter: it is echoed in the meta entry
"kv" and has NO influence on the code or on the message (`twirp.NewError(code, err.Error())`), whatever its length.
-/
namespace Specter.C14

/-- one known sentinel error — an `errorDef` of the registry or an external sentinel such as
context.DeadlineExceeded: (Go variable, message, member of `retryableErrs`) -/
abbrev Entry := String × String × Bool
def Entry.name (e : Entry) : String := e.1
def Entry.msg (e : Entry) : String := e.2.1
def Entry.retryable (e : Entry) : Bool := e.2.2

/-- Go error values, up to what `errors.Is`, `Error()` and the twirp client can observe -/
inductive GoErr where
  | reg (e : Entry)                       -- a known sentinel itself (pointer identity)
  | opaque (msg : String)                 -- any other error, `Error() = msg`, unwraps to nothing
  | wrap (msg : String) (inner : GoErr)   -- fmt.Errorf("…%w", inner) with `Error() = msg`
  | twirp (code msg : String) (kv : Option String)  -- a twirp error as decoded by the client (no cause; meta "kv")
  deriving DecidableEq, Repr

/-- `Error()` -/
def GoErr.msg : GoErr → String
  | .reg e => e.msg
  | .opaque m => m
  | .wrap m _ => m
  | .twirp c m _ => "twirp error " ++ c ++ ": " ++ m

/-- `ErrorIsRetryable`: some element of `retryableErrs` (the retryable known sentinels) is reached by
`errors.Is` (identity along the unwrap chain). `known` = external sentinels ++ registry. -/
def retryable (known : List Entry) : GoErr → Bool
  | .reg e => known.contains e && e.retryable
  | .opaque _ => false
  | .wrap _ inner => retryable known inner
  | .twirp _ _ _ => false

/-- `errors.Is(x, e)` for a known sentinel `e`: pointer identity somewhere along the unwrap chain -/
def GoErr.is : GoErr → Entry → Bool
  | .reg e', e => decide (e' = e)
  | .opaque _, _ => false
  | .wrap _ inner, e => inner.is e
  | .twirp _ _ _, _ => false

/-- a TEXT-PRESERVING wrapper chain around a known sentinel: `fmt.Errorf("%w", e)`, `errors.Join(e)`, a wrapper type
whose `Error()` is the inner one's, nested `n` times — `Error()` is the sentinel's message, `errors.Is(·, e)` holds -/
def sameText (e : Entry) : Nat → GoErr
  | 0 => .reg e
  | n + 1 => .wrap e.msg (sameText e n)

/-- NOT the code: the classification obtained by comparing with `err == e` instead of `errors.Is(err, e)`
(only the sentinel itself is recognised). Used by the regression witness `unwrap_is_needed` only. -/
def retryableEq (known : List Entry) : GoErr → Bool
  | .reg e => known.contains e && e.retryable
  | _ => false

structure Wire where
  code : String
  msg : String
  kv : Option String := none   -- meta entry "kv" (absent unless the handler wraps with WrapErrorKV)
  deriving DecidableEq, Repr

/-- `rpc.WrapError(err)` / `rpc.WrapErrorKV(key, err)` (same code selection, the WHOLE `err.Error()` as the message,
`key` only in the meta entry "kv"), or a raw return (twirp then wraps any non-twirp error as `internal`).
`key` = the request's key / prefix / lease name (ignored by the handlers that do not wrap with WrapErrorKV). -/
def wrapErr (known : List Entry) (how : String) (key : String) (x : GoErr) : Wire :=
  if how = "raw" then { code := "internal", msg := x.msg }
  else { code := if retryable known x then "failed_precondition" else "internal", msg := x.msg,
         kv := if how = "WrapErrorKV" then some key else none }

/-- `ErrorMapper` on the client's twirp error: `errorStrMap[Msg()]`; `mapped` = the entries of that Go map in
insertion order (its initial literal, then the registry; a later entry with the same message overwrites) -/
def mapper (mapped : List Entry) (w : Wire) : GoErr :=
  match mapped.reverse.find? (fun e => e.msg == w.msg) with
  | some e => .reg e
  | none => .twirp w.code w.msg w.kv

/-- what the remote caller ends up with -/
def acrossRPC (known mapped : List Entry) (how : String) (key : String) (x : GoErr) : GoErr :=
  mapper mapped (wrapErr known how key x)

/-- instantiation with the generated facts -/
def registry : List Entry := Gen.C14.registry
def externals : List Entry := Gen.C14.externals
def known : List Entry := externals ++ registry
def mapped : List Entry := externals.filter (fun e => Gen.C14.mapInit.contains e.name) ++ registry
/-- the error map before the repair "remote callers recognise a deadline error as retryable" -/
def mappedPreFix : List Entry := registry

def howOf (handlers : List (String × String)) (method : String) : String := (handlers.lookup method).getD "WrapError"

/-! ## the handler as a whole, and the lease requests of a real node

A handler of `chord.Server` hands the request to the local node (`r.LocalNode.<op>(…request fields…)`, or to the node
factory for the peer argument) and performs NO check of its own: it answers with an error exactly when that call
returned one, and the error is that very error through the handler's wrapping (`Gen.C14.handlerReturns`: every error
return of every handler has the handler's form and returns the `err` of such a call). -/

/-- what the handler puts on the wire when the local node's call returned `loc` (`none` = success) -/
def serve (known : List Entry) (how key : String) (loc : Option GoErr) : Option Wire :=
  loc.map (wrapErr known how key)

/-- what the remote caller gets for that request (`none` = no error) -/
def callerSees (known mapped : List Entry) (how key : String) (loc : Option GoErr) : Option GoErr :=
  (serve known how key loc).map (mapper mapped)

/-- a known sentinel by its Go name (an error with that name as its text if the source no longer has it) -/
def errNamed (known : List Entry) (name : String) : GoErr :=
  match known.find? (fun e => e.name == name) with
  | some e => .reg e
  | none => .opaque name

/-- one second, in nanoseconds (`time.Duration` is an int64 count of nanoseconds) -/
def second : Int := 1000000000

/-- `durationGuard` of the KV providers (kv/memory/lease.go, kv/sqlite3/lease.go): `t.Truncate(time.Second)` — rounds
toward zero — must be at least a second -/
def ttlOk (ttl : Int) : Bool := decide (second ≤ ttl.tdiv second * second)

inductive LeaseOp where
  | acquire | renew | release
  deriving DecidableEq, Repr

/-- the lease as the request finds it: not held; held and the request presents the current token; held and the
request presents another token (`Acquire` presents none); held once with the presented token but its time is up -/
inductive LeaseSt where
  | free | heldMine | heldOther | lapsed
  deriving DecidableEq, Repr

/-- the error a node that owns the lease answers a lease request with (kv/memory/lease.go behind
`LocalNode.Acquire/Renew/Release`), `none` = granted. The ttl is checked FIRST, by the provider, for Acquire and Renew. -/
def leaseOutcome (known : List Entry) (op : LeaseOp) (ttl : Int) (st : LeaseSt) : Option GoErr :=
  match op with
  | .acquire =>
    if !ttlOk ttl then some (errNamed known "ErrKVLeaseInvalidTTL") else
    match st with
    | .heldMine | .heldOther => some (errNamed known "ErrKVLeaseConflict")
    | .free | .lapsed => none
  | .renew =>
    if !ttlOk ttl then some (errNamed known "ErrKVLeaseInvalidTTL") else
    match st with
    | .heldMine => none
    | .free | .heldOther | .lapsed => some (errNamed known "ErrKVLeaseExpired")
  | .release =>
    match st with
    | .heldMine | .lapsed => none
    | .free | .heldOther => some (errNamed known "ErrKVLeaseExpired")

end Specter.C14
