import SpecterModel.C34.Model
/-!
# C34 — The gateway maps a request host to the right tunnel name

All theorems are over the model `extract` of `extractHostname` (Model.lean), for ALL byte strings,
root lists and `net.ParseIP` answers. `net.ParseIP` is an input (`isIP`); its case-insensitivity
(`isIP h₁ = isIP h₂` when the hosts differ only in letter case) is an explicit hypothesis of
`case_insensitive`, validated against the real library on every run (op `pair`).
-/
namespace Specter.C34

theorem lowerChar_idem (c : Nat) : lowerChar (lowerChar c) = lowerChar c := by
  unfold lowerChar; split <;> (try split) <;> omega

theorem lowerChar_eq_dot (c : Nat) : lowerChar c = dot ↔ c = dot := by
  unfold lowerChar dot; split <;> omega

theorem lower_idem (s : Str) : lower (lower s) = lower s := by
  unfold lower; rw [List.map_map]; apply List.map_congr_left; intro c _; exact lowerChar_idem c

theorem lower_append (a b : Str) : lower (a ++ b) = lower a ++ lower b := by simp [lower]

theorem dots_lower (s : Str) : dots (lower s) = dots s := by
  induction s with
  | nil => rfl
  | cons c t ih =>
    unfold dots lower at *
    simp only [List.map_cons, List.count_cons, ih]
    have := lowerChar_eq_dot c
    by_cases h : c = dot <;> simp_all

theorem dot_mem_lower (s : Str) : dot ∈ lower s ↔ dot ∈ s := by
  unfold lower; simp only [List.mem_map]
  constructor
  · rintro ⟨c, hc, e⟩; rw [(lowerChar_eq_dot c).1 e] at hc; exact hc
  · intro h; exact ⟨dot, h, by decide⟩

/-- `SplitN(s, ".", 2)` cuts at the FIRST dot. -/
theorem split_at_first_dot (l r : Str) (hl : dot ∉ l) : splitFirstDot (l ++ dot :: r) = some (l, r) := by
  induction l with
  | nil => simp [splitFirstDot]
  | cons c t ih =>
    have hc : c ≠ dot := fun e => hl (by simp [e])
    have ht : dot ∉ t := fun m => hl (List.mem_cons_of_mem _ m)
    simp [splitFirstDot, hc, ih ht]

theorem split_some (s a b : Str) (h : splitFirstDot s = some (a, b)) : s = a ++ dot :: b ∧ dot ∉ a := by
  induction s generalizing a b with
  | nil => simp [splitFirstDot] at h
  | cons c t ih =>
    unfold splitFirstDot at h
    split at h
    · next e => simp at h; obtain ⟨rfl, rfl⟩ := h; simp [e]
    · next e =>
      split at h
      · simp at h
      · next a' b' e' =>
        simp at h; obtain ⟨rfl, rfl⟩ := h
        obtain ⟨rfl, hn⟩ := ih a' b' e'
        refine ⟨by simp, ?_⟩
        intro m; rcases List.mem_cons.1 m with m | m
        · exact e m.symm
        · exact hn m

theorem split_none (s : Str) (h : splitFirstDot s = none) : dots s = 0 := by
  induction s with
  | nil => rfl
  | cons c t ih =>
    unfold splitFirstDot at h
    split at h
    · simp at h
    · next e =>
      split at h
      · next e' => unfold dots at *; simp [List.count_cons, ih e']; exact e
      · simp at h

/-- The third error branch (`len(parts) != 2`) is dead code: it is never taken after the label count check. -/
theorem invalid_unreachable (roots : List Str) (host : Str) (isIP : Bool) :
    extract roots host isIP ≠ .error .invalid := by
  unfold extract
  split; · simp
  split; · simp
  next h2 =>
    simp only
    split
    · next e => have := split_none _ e; rw [dots_lower] at this; omega
    · split <;> simp

/-- C34 (a): `label.root` for a configured root resolves to the (lower-cased) label, whatever the
letter case of the host. -/
theorem root_label (roots : List Str) (l r : Str) (hl : dot ∉ l) (hr : lower r ∈ roots)
    (h3 : 2 ≤ dots (l ++ dot :: r)) :
    extract roots (l ++ dot :: r) false = .ok (lower l) := by
  unfold extract
  have hs : splitFirstDot (lower (l ++ dot :: r)) = some (lower l, lower r) := by
    have : lower (l ++ dot :: r) = lower l ++ dot :: lower r := by
      rw [lower_append]; show lower l ++ lowerChar dot :: lower r = _; rfl
    rw [this]; exact split_at_first_dot _ _ (by rw [dot_mem_lower]; exact hl)
  simp [Nat.not_lt.2 h3, hs, hr]

/-- C34 (b): any other host with at least three labels resolves to the whole (lower-cased) host.
"Other" = the part after the first dot is not a configured root, ignoring case. -/
theorem other_three_labels (roots : List Str) (host : Str) (h3 : 2 ≤ dots host)
    (hno : ∀ l r, host = l ++ dot :: r → dot ∉ l → lower r ∉ roots) :
    extract roots host false = .ok (lower host) := by
  unfold extract
  simp only [Bool.false_eq_true, if_false, Nat.not_lt.2 h3]
  split
  · next e => have := split_none _ e; rw [dots_lower] at this; omega
  · next a b e =>
    have ⟨he, hn⟩ := split_some _ _ _ e
    -- recover the split of the original host
    have : ∃ l r, host = l ++ dot :: r ∧ dot ∉ l ∧ lower r = b := by
      clear e h3 hno
      induction host generalizing a with
      | nil => simp [lower] at he
      | cons c t ih =>
        cases a with
        | nil =>
          simp [lower] at he
          refine ⟨[], t, ?_, by simp, ?_⟩
          · rw [(lowerChar_eq_dot c).1 he.1]; rfl
          · exact he.2
        | cons a0 a' =>
          simp [lower] at he
          have hn' : dot ∉ a' := fun m => hn (List.mem_cons_of_mem _ m)
          obtain ⟨l, r, e1, e2, e3⟩ := ih a' (by simp [lower]; exact he.2) hn'
          refine ⟨c :: l, r, by rw [e1]; rfl, ?_, e3⟩
          intro m; rcases List.mem_cons.1 m with m | m
          · have : lowerChar c = dot := by rw [← m]; decide
            rw [he.1] at this; exact hn (by simp [this])
          · exact e2 m
    obtain ⟨l, r, e1, e2, e3⟩ := this
    have hb : b ∉ roots := by have := hno l r e1 e2; rwa [e3] at this
    simp [hb]

/-- C34 (c): IP literals and hosts with fewer than three labels are refused. -/
theorem ip_or_short_refused (roots : List Str) (host : Str) (isIP : Bool)
    (h : isIP = true ∨ dots host < 2) :
    extract roots host isIP = .error .ip ∨ extract roots host isIP = .error .fewLabels := by
  unfold extract
  rcases h with h | h
  · simp [h]
  · by_cases i : isIP = true <;> simp [i, h]

/-- … and nothing else is refused. -/
theorem accepted_iff (roots : List Str) (host : Str) (isIP : Bool) :
    (∃ n, extract roots host isIP = .ok n) ↔ (isIP = false ∧ 2 ≤ dots host) := by
  constructor
  · rintro ⟨n, h⟩
    unfold extract at h
    split at h; · simp at h
    split at h; · simp at h
    next a b => exact ⟨by simpa using a, by omega⟩
  · rintro ⟨h1, h2⟩
    have hi := invalid_unreachable roots host isIP
    unfold extract at *
    simp only [h1, Bool.false_eq_true, if_false, Nat.not_lt.2 h2] at *
    split
    · next e => simp [e] at hi
    · split <;> exact ⟨_, rfl⟩

/-- C34 (d): resolution is case-insensitive. Hosts that differ only in ASCII letter case (and on which
`net.ParseIP` agrees — library hypothesis, validated per run) resolve to the same result, for ANY root list. -/
theorem case_insensitive (roots : List Str) (h₁ h₂ : Str) (ip₁ ip₂ : Bool)
    (hcase : lower h₁ = lower h₂) (hip : ip₁ = ip₂) :
    extract roots h₁ ip₁ = extract roots h₂ ip₂ := by
  have hd : dots h₁ = dots h₂ := by rw [← dots_lower h₁, ← dots_lower h₂, hcase]
  unfold extract; rw [hcase, hd, hip]

/-- The resolved name is canonical (already lower-case). -/
theorem result_lowercase (roots : List Str) (host : Str) (isIP : Bool) (n : Str)
    (h : extract roots host isIP = .ok n) : lower n = n := by
  unfold extract at h
  split at h; · simp at h
  split at h; · simp at h
  simp only at h
  split at h; · simp at h
  next a b e =>
    have ⟨he, _⟩ := split_some _ _ _ e
    split at h
    · simp at h; subst h
      have h2 : lower (a ++ dot :: b) = a ++ dot :: b := by rw [← he]; exact lower_idem host
      rw [lower_append] at h2
      have hl : (lower a).length = a.length := by simp [lower]
      exact (List.append_inj h2 hl).1
    · simp at h; subst h; exact lower_idem host

/-! ## Non-vacuity -/
private def s (x : String) : Str := x.toList.map Char.toNat

example : extract [s "example.com"] (s "Foo.EXAMPLE.com") false = .ok (s "foo") := by decide
example : extract [s "example.com"] (s "foo.example.com") false = .ok (s "foo") := by decide
example : extract [s "example.com"] (s "A.b.Example.com") false = .ok (s "a.b.example.com") := by decide
example : extract [s "example.com"] (s "1.2.3.4") true = .error .ip := by decide
example : extract [s "example.com"] (s "example.com") false = .error .fewLabels := by decide
-- hypotheses of root_label / other_three_labels / case_insensitive are satisfiable by non-trivial instances
example : dot ∉ s "Foo" ∧ lower (s "EXAMPLE.com") ∈ [s "example.com"] ∧ 2 ≤ dots (s "Foo" ++ dot :: s "EXAMPLE.com") := by decide
example : lower (s "Foo.EXAMPLE.com") = lower (s "fOO.example.COM") ∧ s "Foo.EXAMPLE.com" ≠ s "fOO.example.COM" := by decide

end Specter.C34
