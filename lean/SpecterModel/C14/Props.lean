import SpecterModel.C14.Model
/-!
# C14 — Chord errors keep their identity and retryability across RPC

General lemmas for ANY registry with pairwise distinct messages, then the instances for the registry
GENERATED from spec/chord/errors.go (`Gen.C14.registry`; `msgs_distinct` is re-decided whenever the
generated text changes).

* `identity_preserved`, `retryability_preserved` — every registry error, through every handler kind
  (WrapError / WrapErrorKV / raw), arrives as the same registry variable with the same retryability.
* `unknown_nonretryable` — whatever error value whose message is not a registry message arrives non-retryable.
* `code_matches_retryability` — the twirp code on the wire is failed_precondition exactly for retryable origins.
* facts of the model, proved and reported (not hidden): `wrapped_loses_identity`, `deadline_not_preserved`.
-/
namespace Specter.C14

/-! ## general lemmas -/

theorem find_of_nodup {α β : Type} [DecidableEq β] (f : α → β) (l : List α) (hnd : (l.map f).Nodup)
    (e : α) (he : e ∈ l) : l.find? (fun x => f x == f e) = some e := by
  induction l with
  | nil => cases he
  | cons x t ih =>
    simp only [List.map_cons, List.nodup_cons] at hnd
    by_cases hx : f x = f e
    · have hxe : x = e := by
        rcases List.mem_cons.mp he with h | h
        · exact h.symm
        · exact absurd (hx ▸ List.mem_map_of_mem (f := f) h) hnd.1
      simp [List.find?_cons, hxe]
    · have het : e ∈ t := by
        rcases List.mem_cons.mp he with h | h
        · exact absurd (h ▸ rfl) hx
        · exact h
      have : (f x == f e) = false := by simpa using hx
      simp only [List.find?_cons, this]
      exact ih hnd.2 het

theorem mapper_reg (reg : List Entry) (hnd : (reg.map Entry.msg).Nodup) (e : Entry) (he : e ∈ reg) (c : String) :
    mapper reg ⟨c, e.msg⟩ = .reg e := by
  unfold mapper
  have hnd' : (reg.reverse.map Entry.msg).Nodup := by rw [List.map_reverse]; exact (List.reverse_perm _).nodup_iff.mpr hnd
  have := find_of_nodup Entry.msg reg.reverse hnd' e (List.mem_reverse.mpr he)
  simp only [this]

theorem mapper_unknown (reg : List Entry) (w : Wire) (h : w.msg ∉ reg.map Entry.msg) :
    mapper reg w = .twirp w.code w.msg := by
  unfold mapper
  have : reg.reverse.find? (fun e => e.msg == w.msg) = none := by
    rw [List.find?_eq_none]
    intro x hx hm
    exact h (List.mem_map.mpr ⟨x, List.mem_reverse.mp hx, by simpa using hm⟩)
  simp only [this]

theorem wrapErr_msg (reg : List Entry) (how : String) (x : GoErr) : (wrapErr reg how x).msg = x.msg := by
  unfold wrapErr; split <;> rfl

theorem identity_preserved_gen (reg : List Entry) (hnd : (reg.map Entry.msg).Nodup) (how : String)
    (e : Entry) (he : e ∈ reg) : acrossRPC reg how (.reg e) = .reg e := by
  unfold acrossRPC
  have h := wrapErr_msg reg how (.reg e)
  generalize wrapErr reg how (.reg e) = w at h
  obtain ⟨c, m⟩ := w
  simp only [GoErr.msg] at h
  subst h
  exact mapper_reg reg hnd e he c

theorem unknown_nonretryable_gen (reg : List Entry) (how : String) (x : GoErr)
    (h : x.msg ∉ reg.map Entry.msg) :
    ∃ c, acrossRPC reg how x = .twirp c x.msg ∧ retryable reg (acrossRPC reg how x) = false := by
  unfold acrossRPC
  have hm := wrapErr_msg reg how x
  rw [mapper_unknown reg _ (by rw [hm]; exact h), hm]
  exact ⟨_, rfl, rfl⟩

/-! ## the generated registry -/

def registry : List Entry := Gen.C14.registry

/-- the fact everything rests on: the messages of the registry are pairwise distinct -/
theorem msgs_distinct : (registry.map Entry.msg).Nodup := by decide

theorem deadline_unregistered : deadlineMsg ∉ registry.map Entry.msg := by decide

/-- the model's code selection is the extracted one -/
theorem facts_wrapCodes :
    Gen.C14.wrapCodes = [("WrapError", "FailedPrecondition", "Internal"), ("WrapErrorKV", "FailedPrecondition", "Internal")]
    ∧ Gen.C14.extraRetryable = ["context.DeadlineExceeded"] := by decide

/-- **C14 (identity).** Every registry error a node returns — through a handler that wraps with
`rpc.WrapError`, `rpc.WrapErrorKV`, or returns it raw — is recognised by the caller as the same error. -/
theorem identity_preserved (how : String) (e : Entry) (he : e ∈ registry) :
    acrossRPC registry how (.reg e) = .reg e :=
  identity_preserved_gen registry msgs_distinct how e he

/-- **C14 (retryability).** … and is classified retryable by the caller exactly when it was at the origin. -/
theorem retryability_preserved (how : String) (e : Entry) (he : e ∈ registry) :
    retryable registry (acrossRPC registry how (.reg e)) = retryable registry (.reg e) := by
  rw [identity_preserved how e he]

/-- **C14 (unknown).** An error whose message is not a registry message — an arbitrary error, a wrapped one,
a deadline — reaches the caller as an unmapped twirp error and is NOT retryable there. -/
theorem unknown_nonretryable (how : String) (x : GoErr) (h : x.msg ∉ registry.map Entry.msg) :
    retryable registry (acrossRPC registry how x) = false := by
  obtain ⟨_, _, h2⟩ := unknown_nonretryable_gen registry how x h; exact h2

/-- the wire code is `failed_precondition` exactly for retryable origins (wrapping handlers) -/
theorem code_matches_retryability (how : String) (x : GoErr) (hw : how ≠ "raw") :
    (wrapErr registry how x).code = "failed_precondition" ↔ retryable registry x = true := by
  unfold wrapErr
  simp only [hw, if_false]
  cases retryable registry x <;> simp

/-- FACT (outside the reachable domain: no handler returns a `%w`-wrapped chord error): wrapping a registry
error changes the message, so the caller gets an unmapped twirp error, identity and retryability are lost. -/
theorem wrapped_loses_identity (how : String) (e : Entry) (he : e ∈ registry) (m : String)
    (hm : m ∉ registry.map Entry.msg) :
    retryable registry (.wrap m (.reg e)) = e.retryable ∧
    acrossRPC registry how (.wrap m (.reg e)) ≠ .reg e ∧
    retryable registry (acrossRPC registry how (.wrap m (.reg e))) = false := by
  obtain ⟨c, h1, h2⟩ := unknown_nonretryable_gen registry how (.wrap m (.reg e)) hm
  refine ⟨?_, ?_, h2⟩
  · have hc : registry.contains e = true := List.contains_iff_mem.mpr he
    simp only [retryable, hc, Bool.true_and]
  · rw [h1]; intro h; cases h

/-- FACT: `context.DeadlineExceeded` is retryable at the origin (it is in `retryableErrs`; the wire code says
failed_precondition) but its message is not in the registry: the caller gets an unmapped twirp error,
classified NON-retryable. -/
theorem deadline_not_preserved (how : String) :
    retryable registry .deadline = true ∧
    (how ≠ "raw" → (wrapErr registry how .deadline).code = "failed_precondition") ∧
    retryable registry (acrossRPC registry how .deadline) = false := by
  refine ⟨rfl, ?_, unknown_nonretryable how .deadline deadline_unregistered⟩
  intro hw; exact (code_matches_retryability how .deadline hw).mpr rfl

/-! ## non-vacuity (robust to additions to the registry) -/

example : ∃ e ∈ registry, e.retryable = true := by decide
example : ∃ e ∈ registry, e.retryable = false := by decide
example : "boom" ∉ registry.map Entry.msg := by decide
example : ∃ e, e ∈ registry ∧ retryable registry (.reg e) = true ∧ acrossRPC registry "WrapErrorKV" (.reg e) = .reg e := by
  obtain ⟨e, he, hr⟩ : ∃ e ∈ registry, e.retryable = true := by decide
  have hc : registry.contains e = true := List.contains_iff_mem.mpr he
  exact ⟨e, he, by simp only [retryable, hc, hr, Bool.and_self], identity_preserved _ e he⟩

end Specter.C14
