//go:build verif

package client

import (
	"context"
	"io"
	"net"
	"sync/atomic"
	"time"

	"go.miragespace.co/specter/spec/protocol"

	"github.com/zhangyunhao116/skipmap"
	uatomic "go.uber.org/atomic"
	"go.uber.org/zap"
	"go.uber.org/zap/zapcore"
)

type verifC44Tun struct{ verifC43Tun }

func (f *verifC44Tun) UnpublishTunnel(context.Context, *protocol.UnpublishTunnelRequest) (*protocol.UnpublishTunnelResponse, error) {
	return &protocol.UnpublishTunnelResponse{}, nil
}

// VerifC44 drives a real Client (real Config loaded from a real file, real router / proxy cache)
// without a transport. The only instrumentation is a zap hook: when armed, the goroutine that logs
// "Shutting down proxy" (closeOutdatedProxies, right after proxies.LoadAndDelete) parks until
// released — a yield point between proxy invalidation and router rebuild inside the REAL
// RebuildTunnels.
type VerifC44 struct {
	C       *Client
	path    string
	armed   atomic.Bool
	reached chan struct{}
	release chan struct{}
	done    chan struct{}
}

func VerifC44New(path string, tunnels []Tunnel, root string) (*VerifC44, error) {
	seed := Config{path: path, router: skipmap.NewString[route](), Version: 2, Apex: "apex.example:443",
		PrivKey: "k", Tunnels: append([]Tunnel{}, tunnels...)}
	if err := seed.writeFile(); err != nil {
		return nil, err
	}
	cfg, err := NewConfig(path)
	if err != nil {
		return nil, err
	}
	v := &VerifC44{path: path}
	core := zapcore.NewCore(zapcore.NewJSONEncoder(zap.NewProductionEncoderConfig()), zapcore.AddSync(io.Discard), zap.DebugLevel)
	logger := zap.New(core, zap.Hooks(func(e zapcore.Entry) error {
		if e.Message == "Shutting down proxy" && v.armed.CompareAndSwap(true, false) {
			close(v.reached)
			<-v.release
		}
		return nil
	}))
	v.C = &Client{
		ClientConfig: ClientConfig{Logger: logger, Configuration: cfg},
		rootDomain:   uatomic.NewString(root),
		proxies:      skipmap.NewString[*httpProxy](),
		connections:  skipmap.NewString[*protocol.Node](),
		tunnelClient: &verifC44Tun{},
		closeCh:      make(chan struct{}),
	}
	v.C.connections.Store("node-1", &protocol.Node{Id: 1, Address: "node-1"})
	return v, nil
}

func (v *VerifC44) Rebuild(ts []Tunnel) { v.C.RebuildTunnels(ts) }

// Reload rewrites the config file with the given tunnels (as an operator would) and runs doReload.
func (v *VerifC44) Reload(ts []Tunnel) error {
	next := Config{path: v.path, router: skipmap.NewString[route](), Version: 2, Apex: v.C.Configuration.Apex,
		Certificate: v.C.Configuration.Certificate, PrivKey: v.C.Configuration.PrivKey, Tunnels: append([]Tunnel{}, ts...)}
	if err := next.writeFile(); err != nil {
		return err
	}
	v.C.doReload(context.Background())
	return nil
}

// ReloadFile runs doReload on whatever is at the config path right now (the harness removes the file
// or overwrites it with undecodable text first).
func (v *VerifC44) ReloadFile() { v.C.doReload(context.Background()) }

// Path is the config file the client was created on.
func (v *VerifC44) Path() string { return v.path }

// Tunnels returns a copy of Configuration.Tunnels as the client holds it right now (read without
// configMu: the harness calls it only when no goroutine of the client is running, or when the only
// one is parked at the yield point).
func (v *VerifC44) Tunnels() []Tunnel { return append([]Tunnel{}, v.C.Configuration.Tunnels...) }

func (v *VerifC44) Unpublish(h string) error {
	return v.C.UnpublishTunnel(context.Background(), Tunnel{Hostname: h})
}

// Incoming hands one HTTP delegation for hostname h to the real handleIncomingDelegation.
func (v *VerifC44) Incoming(h string, conn net.Conn) error {
	return v.C.handleIncomingDelegation(context.Background(), &protocol.Link{Hostname: h, Alpn: protocol.Link_HTTP, Remote: "verif"}, conn)
}

// BeginRebuild starts RebuildTunnels(ts) in a goroutine and returns true once it is parked at the
// yield point (false: it ran to completion without closing any proxy).
func (v *VerifC44) BeginRebuild(ts []Tunnel) bool {
	v.reached, v.release, v.done = make(chan struct{}), make(chan struct{}), make(chan struct{})
	v.armed.Store(true)
	go func() { defer close(v.done); v.C.RebuildTunnels(ts) }()
	select {
	case <-v.reached:
		return true
	case <-v.done:
		v.armed.Store(false)
		return false
	}
}

func (v *VerifC44) EndRebuild() {
	close(v.release)
	<-v.done
}

// Router returns hostname -> "target|insecure|timeout|headerHost|headerMode" of Configuration.router.
func (v *VerifC44) Router() map[string][5]string {
	m := map[string][5]string{}
	v.C.Configuration.router.Range(func(k string, r route) bool {
		t := "<nil>"
		if r.parsed != nil {
			t = r.parsed.String()
		}
		ins := "0"
		if r.insecure {
			ins = "1"
		}
		m[k] = [5]string{t, ins, r.proxyHeaderReadTimeout.String(), r.proxyHeaderHost, r.proxyHeaderMode}
		return true
	})
	return m
}

// Proxies returns hostname -> ReadHeaderTimeout of every cached proxy.
func (v *VerifC44) Proxies() map[string]time.Duration {
	m := map[string]time.Duration{}
	v.C.proxies.Range(func(k string, p *httpProxy) bool { m[k] = p.forwarder.ReadHeaderTimeout; return true })
	return m
}

func (v *VerifC44) Shutdown() {
	v.C.proxies.Range(func(k string, p *httpProxy) bool { p.acceptor.Close(); p.forwarder.Close(); return true })
}

// VerifC44Diff = hostnames of the real diffTunnels.
func VerifC44Diff(old, new []Tunnel) []string {
	var hs []string
	for _, t := range diffTunnels(old, new) {
		hs = append(hs, t.Hostname)
	}
	return hs
}
