/-!
# Append-only-log KV store (`kv/aof` over `tidwall/wal` and `kv/memory`) — executable model

Shared by C21 (clean restart), C20 (crash recovery) and C22 (lost / torn tail).

* `Mutation` is the flat protobuf message `kv/aof/proto.Mutation` (numeric `type`, `key`, `value`,
  `keys`, `values`); byte strings are `List Nat`; Go's nil and zero-length slices are identified
  (proto3 omits zero-length `bytes`, so the distinction does not survive the log anyway).
* `handle` is `DiskKV.handleMutation` composed with the `kv/memory` operations it calls
  (`Put`, `Delete`, `PrefixAppend`, `PrefixRemove`, `Import`, `RemoveKeys`); unknown types are a no-op
  that succeeds, exactly as the Go `switch` without default.
* `check` is `DiskKV.checkMutation` (the C20 repair: rejection is decided before logging).
* `submit` is one iteration of the writer loop in `DiskKV.Start` (case `m := <-d.queue`):
  `checkMutation`, `appendLog`, `handleMutation`, `rollbackOne`.
* `replayG` is `DiskKV.replayLogs`; the flag says whether `mut.Reset()` is executed after every
  entry. `unmarshalInto` is proto3 merge-unmarshal into a message that was not reset.
* `volatile` is the lease API (`kv/aof/volatile.go` → `kv/memory/lease.go`): memory only, never logged.
* The WAL is an indexed list of entries with `Write` = append, `TruncateBack` = drop last,
  `LastIndex` = length (C22 refines this to bytes).
-/
namespace Specter.Aof

abbrev Bytes := List Nat

/-- `protocol.KVTransfer` -/
structure Transfer where
  value : Bytes := []
  children : List Bytes := []
  lease : Nat := 0
deriving DecidableEq, Repr, Inhabited

/-- `proto.Mutation` (flat message). -/
structure Mutation where
  type : Nat := 0
  key : Bytes := []
  value : Bytes := []
  keys : List Bytes := []
  values : List Transfer := []
deriving DecidableEq, Repr, Inhabited

-- MutationType enum values of kv/aof/proto/mutation.proto
def tPut : Nat := 1
def tDelete : Nat := 3
def tAppend : Nat := 5
def tRemove : Nat := 7
def tImport : Nat := 20
def tRemoveKeys : Nat := 21

/-- one `kvValue` of kv/memory: simple value, prefix children (a set, kept in insertion order), lease token -/
structure Entry where
  val : Bytes := []
  children : List Bytes := []
  lease : Nat := 0
deriving DecidableEq, Repr, Inhabited

/-- memory state: finite map key ↦ entry as an association list with unique keys (`fetchVal` creates
absent entries empty, so absent = empty entry) -/
abbrev Mem := List (Bytes × Entry)

def Mem.empty : Mem := []

def Mem.get (m : Mem) (k : Bytes) : Entry :=
  match m.find? (fun p => p.1 = k) with
  | some p => p.2
  | none => {}

def Mem.set (m : Mem) (k : Bytes) (e : Entry) : Mem :=
  if m.any (fun p => p.1 = k) then m.map (fun p => if p.1 = k then (k, e) else p) else m ++ [(k, e)]

/-- `deleteAll` -/
def Mem.erase (m : Mem) (k : Bytes) : Mem := m.filter (fun p => p.1 ≠ k)

inductive Err where
  | conflict      -- chord.ErrKVPrefixConflict
  | panic         -- index out of range in memory.Import (values shorter than keys): the process dies
deriving DecidableEq, Repr

/-- `skipset.Add`: insert if absent -/
def addChild (cs : List Bytes) (c : Bytes) : List Bytes := if c ∈ cs then cs else cs ++ [c]

/-- `memory.Import` loop body for one (key, transfer) pair -/
def importOne (m : Mem) (k : Bytes) (t : Transfer) : Mem :=
  let e := m.get k
  m.set k { val := t.value, lease := t.lease, children := t.children.foldl addChild e.children }

def importAll (m : Mem) : List Bytes → List Transfer → Except Err Mem
  | [], _ => .ok m
  | _ :: _, [] => .error .panic            -- `values[i]` out of range
  | k :: ks, t :: ts => importAll (importOne m k t) ks ts

/-- `DiskKV.handleMutation` (dispatch + the memory operation) -/
def handle (m : Mem) (mu : Mutation) : Except Err Mem :=
  if mu.type = tPut then .ok (m.set mu.key { m.get mu.key with val := mu.value })
  else if mu.type = tDelete then .ok (m.set mu.key { m.get mu.key with val := [] })
  else if mu.type = tAppend then
    if mu.value ∈ (m.get mu.key).children then .error .conflict
    else .ok (m.set mu.key { m.get mu.key with children := (m.get mu.key).children ++ [mu.value] })
  else if mu.type = tRemove then
    .ok (m.set mu.key { m.get mu.key with children := (m.get mu.key).children.filter (· ≠ mu.value) })
  else if mu.type = tImport then importAll m mu.keys mu.values
  else if mu.type = tRemoveKeys then .ok (mu.keys.foldl Mem.erase m)
  else .ok m

/-- `DiskKV.checkMutation`: the error a mutation is known to fail with, without applying it -/
def check (m : Mem) (mu : Mutation) : Option Err :=
  if mu.type = tAppend ∧ mu.value ∈ (m.get mu.key).children then some .conflict else none

/-- callers of `Import` pass one transfer per key; shorter `values` panics inside the writer goroutine
(the process dies), which is outside the histories the properties quantify over -/
def Mutation.WF (mu : Mutation) : Prop := mu.type = tImport → mu.keys.length ≤ mu.values.length

instance (mu : Mutation) : Decidable mu.WF := by unfold Mutation.WF; infer_instance

structure Store where
  log : List Mutation := []      -- WAL entries 1..LastIndex (each is the serialised mutation)
  mem : Mem := Mem.empty
  counter : Nat := 1
deriving Inhabited

def Store.init : Store := {}

/-- One iteration of the writer loop. `precheck = true` is the code as it is now; `false` is the
behaviour before the C20 repair (log first, roll back on rejection). Result `none` = nil error. -/
def submitG (precheck : Bool) (s : Store) (mu : Mutation) : Store × Option Err :=
  match (if precheck then check s.mem mu else none) with
  | some e => (s, some e)
  | none =>
    -- appendLog
    let s1 : Store := { s with log := s.log ++ [mu], counter := s.counter + 1 }
    match handle s1.mem mu with
    | .ok m' => ({ s1 with mem := m' }, none)
    | .error e =>
      -- rollbackOne: counter -= 1; TruncateBack(counter - 1)
      ({ s1 with log := s1.log.dropLast, counter := s1.counter - 1 }, some e)

def submit := submitG true

/-- proto3 unmarshal into an existing message: present (non-zero) scalar fields overwrite, absent
ones keep the previous content, repeated fields append -/
def unmarshalInto (prev w : Mutation) : Mutation :=
  { type := if w.type ≠ 0 then w.type else prev.type
    key := if w.key ≠ [] then w.key else prev.key
    value := if w.value ≠ [] then w.value else prev.value
    keys := prev.keys ++ w.keys
    values := prev.values ++ w.values }

/-- `replayLogs` from memory state `m` with decode buffer `cur`; `reset` = `mut.Reset()` after each entry -/
def replayG (reset : Bool) (cur : Mutation) (m : Mem) : List Mutation → Except Err Mem
  | [] => .ok m
  | w :: rest =>
    let mu := unmarshalInto cur w
    match handle m mu with
    | .error e => .error e
    | .ok m' => replayG reset (if reset then {} else mu) m' rest

def replay (log : List Mutation) : Except Err Mem := replayG true {} Mem.empty log

/-- `aof.New` on the directory left by `s` (clean stop or crash: only the log survives) -/
def reopenLog (log : List Mutation) : Except Err Store :=
  match replay log with
  | .ok m => .ok { log := log, mem := m, counter := log.length + 1 }
  | .error e => .error e

def Store.reopen (s : Store) : Except Err Store := reopenLog s.log

/-- run a history on the live store -/
def runHist (s : Store) : List Mutation → Store
  | [] => s
  | mu :: rest => runHist (submit s mu).1 rest

/-- the property's reference semantics: accepted mutations apply, rejected ones have no effect -/
def specStep (m : Mem) (mu : Mutation) : Mem :=
  match handle m mu with
  | .ok m' => m'
  | .error _ => m

def specState (m : Mem) (hist : List Mutation) : Mem := hist.foldl specStep m

/-! ### Volatile lease operations (`kv/aof/volatile.go` → `kv/memory/lease.go`)

`Acquire` / `Renew` / `Release` go straight to the in-memory store: they are never logged, so after a
restart the lease column of a key is whatever the logged mutations (imports) put there. Tokens are
wall-clock deadlines in nanoseconds; the model only distinguishes *live* tokens (a deadline in the
future: `≥ liveMin`) from stale ones (small numbers carried by imports, always in the past).
`deleteAll` (RemoveKeys) drops the whole entry whatever its lease is, and no logged mutation reads
the lease: that is what makes restarts reproduce values and children although leases are volatile. -/

def liveMin : Nat := 1000000000000000
/-- the token a successful `Acquire`/`Renew` stores (some deadline in the future) -/
def liveTok : Nat := 1000000000000000000

inductive VErr where
  | invalidTTL    -- chord.ErrKVLeaseInvalidTTL
  | conflict      -- chord.ErrKVLeaseConflict
  | expired       -- chord.ErrKVLeaseExpired
deriving DecidableEq, Repr

/-- a lease call; `ttlOk` = `durationGuard` accepts the ttl (≥ 1 s); a token argument `none` means
"the caller presents the token currently stored" (what an honest holder does) -/
inductive VOp where
  | acquire (k : Bytes) (ttlOk : Bool)
  | renew (k : Bytes) (ttlOk : Bool) (prev : Option Nat)
  | release (k : Bytes) (tok : Option Nat)
deriving DecidableEq, Repr

/-- `MemoryKV.Acquire` / `Renew` / `Release` (single caller: the CAS never loses a race) -/
def volatile (m : Mem) : VOp → Mem × Option VErr
  | .acquire k ttlOk =>
    if ¬ ttlOk then (m, some .invalidTTL)
    else if (m.get k).lease ≥ liveMin then (m, some .conflict)          -- curr > now
    else (m.set k { m.get k with lease := liveTok }, none)
  | .renew k ttlOk prev =>
    if ¬ ttlOk then (m, some .invalidTTL)
    else if (m.get k).lease = 0 then (m, some .expired)
    else if (m.get k).lease < liveMin then (m, some .expired)           -- now > curr
    else if (m.get k).lease ≠ prev.getD (m.get k).lease then (m, some .expired)
    else (m.set k { m.get k with lease := liveTok }, none)
  | .release k tok =>
    if (m.get k).lease = tok.getD (m.get k).lease then (m.set k { m.get k with lease := 0 }, none)
    else (m, some .expired)

/-- a lease call on the store: memory only, the log and the next index are untouched -/
def Store.volatile (s : Store) (op : VOp) : Store × Option VErr :=
  ({ s with mem := (Specter.Aof.volatile s.mem op).1 }, (Specter.Aof.volatile s.mem op).2)

end Specter.Aof
