import SpecterModel.C21.Model
/-!
# C21 — A clean restart of the append-only log store reproduces its data

All theorems are about `Specter.Aof` (Model.lean): arbitrary mutation histories (every mutation kind,
conflicting prefix appends, imports with overlapping keys, removals, unknown types), any number of
clean stop/reopen cycles at arbitrary positions.
-/
namespace Specter.Aof

/-- the numeric MutationType tags (unfolded by `simp [tags]`) -/
theorem tags : tPut = 1 ∧ tDelete = 3 ∧ tAppend = 5 ∧ tRemove = 7 ∧ tImport = 20 ∧ tRemoveKeys = 21 :=
  ⟨rfl, rfl, rfl, rfl, rfl, rfl⟩

/-- decoding into a fresh (`Reset`) message yields exactly the logged message -/
theorem unmarshalInto_fresh (w : Mutation) : unmarshalInto {} w = w := by
  cases w with
  | mk t k v ks vs =>
    simp only [unmarshalInto, List.nil_append, Mutation.mk.injEq, and_true]
    refine ⟨?_, ?_, ?_⟩
    · by_cases h : t = 0 <;> simp [h]
    · by_cases h : k = [] <;> simp [h]
    · by_cases h : v = [] <;> simp [h]

/-- `replayLogs` with `mut.Reset()` is a left fold of `handleMutation` that stops at the first error -/
theorem replayG_reset_cons (m : Mem) (w : Mutation) (rest : List Mutation) :
    replayG true {} m (w :: rest) =
      match handle m w with
      | .error e => .error e
      | .ok m' => replayG true {} m' rest := by
  simp only [replayG, unmarshalInto_fresh, if_true]
  cases handle m w <;> rfl

theorem replayG_reset_append (m : Mem) (l : List Mutation) (w : Mutation) :
    replayG true {} m (l ++ [w]) =
      match replayG true {} m l with
      | .error e => .error e
      | .ok m' => handle m' w := by
  induction l generalizing m with
  | nil =>
    rw [List.nil_append, replayG_reset_cons]
    simp only [replayG]
    cases handle m w <;> rfl
  | cons x xs ih =>
    rw [List.cons_append, replayG_reset_cons, replayG_reset_cons]
    cases h : handle m x with
    | error e => rfl
    | ok m' => exact ih m'

/-- The restart invariant: replaying the log reproduces the live memory, and the next WAL index is
`LastIndex + 1`. -/
def Inv (s : Store) : Prop := replay s.log = .ok s.mem ∧ s.counter = s.log.length + 1

theorem inv_init : Inv Store.init := ⟨rfl, rfl⟩

/-- One writer-loop iteration preserves the invariant — for every mutation (accepted, rejected by the
pre-check, rejected after logging and rolled back), for the current code and for the pre-repair code. -/
theorem submit_preserves_replay_inv (pre : Bool) (s : Store) (mu : Mutation) (h : Inv s) :
    Inv (submitG pre s mu).1 := by
  obtain ⟨hr, hc⟩ := h
  unfold submitG
  cases hchk : (if pre = true then check s.mem mu else none) with
  | some e => exact ⟨hr, hc⟩
  | none =>
    simp only
    cases hh : handle s.mem mu with
    | ok m' =>
      refine ⟨?_, ?_⟩
      · show replay (s.log ++ [mu]) = .ok m'
        unfold replay at hr ⊢
        rw [replayG_reset_append, hr]; exact hh
      · simp [hc]
    | error e =>
      refine ⟨?_, ?_⟩
      · simpa using hr
      · simp [hc]

/-- C21 invariant on every reachable state. -/
theorem replay_inv (hist : List Mutation) : Inv (runHist Store.init hist) := by
  suffices h : ∀ s, Inv s → Inv (runHist s hist) from h _ inv_init
  induction hist with
  | nil => intro s h; exact h
  | cons mu rest ih => intro s h; exact ih _ (submit_preserves_replay_inv true s mu h)

theorem counter_inv (hist : List Mutation) :
    (runHist Store.init hist).counter = (runHist Store.init hist).log.length + 1 := (replay_inv hist).2

theorem reopen_of_inv (s : Store) (h : Inv s) : s.reopen = .ok s := by
  obtain ⟨hr, hc⟩ := h
  cases s with
  | mk log mem counter =>
    simp only [Store.reopen, reopenLog] at *
    rw [hr]; simp [hc]

/-- **C21.** After any history and a clean stop, `aof.New` succeeds and yields exactly the same store:
same simple values, prefix children and lease tokens for every key, same log, same next index. -/
theorem clean_restart_reproduces (hist : List Mutation) :
    (runHist Store.init hist).reopen = .ok (runHist Store.init hist) :=
  reopen_of_inv _ (replay_inv hist)

/-- reopening an already reopened store changes nothing -/
theorem reopen_idempotent (s s' : Store) (h : s.reopen = .ok s') : s'.reopen = .ok s' := by
  apply reopen_of_inv
  simp only [Store.reopen, reopenLog] at h
  cases hr : replay s.log with
  | error e => rw [hr] at h; cases h
  | ok m =>
    rw [hr] at h
    injection h with h
    subst h
    exact ⟨hr, rfl⟩

/-- histories with clean stop/reopen cycles at arbitrary positions -/
inductive Op where
  | submit (mu : Mutation)
  | restart

def runOps (s : Store) : List Op → Except Err Store
  | [] => .ok s
  | .submit mu :: rest => runOps (submit s mu).1 rest
  | .restart :: rest =>
    match s.reopen with
    | .ok s' => runOps s' rest
    | .error e => .error e

def eraseRestarts : List Op → List Mutation
  | [] => []
  | .submit mu :: rest => mu :: eraseRestarts rest
  | .restart :: rest => eraseRestarts rest

/-- **C21, several cycles.** Restarts are invisible: a history with any number of clean stop/reopen
cycles never fails to reopen and ends in the same store as the history without them. -/
theorem restart_cycles_transparent (ops : List Op) :
    runOps Store.init ops = .ok (runHist Store.init (eraseRestarts ops)) := by
  suffices h : ∀ s, Inv s → runOps s ops = .ok (runHist s (eraseRestarts ops)) from h _ inv_init
  induction ops with
  | nil => intro s _; rfl
  | cons op rest ih =>
    intro s h
    cases op with
    | submit mu => exact ih _ (submit_preserves_replay_inv true s mu h)
    | restart =>
      simp only [runOps, eraseRestarts, reopen_of_inv s h]
      exact ih s h

/-- a rejected mutation leaves log, memory and index unchanged (both code variants) -/
theorem rejected_no_effect (pre : Bool) (s : Store) (mu : Mutation) (e : Err)
    (h : (submitG pre s mu).2 = some e) :
    (submitG pre s mu).1.log = s.log ∧ (submitG pre s mu).1.mem = s.mem ∧
      (submitG pre s mu).1.counter = s.counter := by
  unfold submitG at h ⊢
  cases hchk : (if pre = true then check s.mem mu else none) with
  | some e' => simp
  | none =>
    rw [hchk] at h
    simp only at h ⊢
    cases hh : handle s.mem mu with
    | ok m' => rw [hh] at h; cases h
    | error e' => simp

theorem check_some_handle_error (m : Mem) (mu : Mutation) (e : Err) (h : check m mu = some e) :
    handle m mu = .error e := by
  unfold check at h
  split at h
  · rename_i hc
    injection h with h; subst h
    simp [handle, hc.1, hc.2, tags]
  · cases h

theorem importAll_ok (m : Mem) (ks : List Bytes) (ts : List Transfer) (h : ks.length ≤ ts.length) :
    ∃ m', importAll m ks ts = .ok m' := by
  induction ks generalizing m ts with
  | nil => exact ⟨m, by simp [importAll]⟩
  | cons k ks ih =>
    cases ts with
    | nil => simp at h
    | cons t ts => simp only [importAll]; exact ih _ ts (by simpa using h)

/-- In the code as it is now the rollback branch is dead for well-formed mutations: whatever passes
`checkMutation` is applied successfully. -/
theorem rollback_unreachable (m : Mem) (mu : Mutation) (hwf : mu.WF) (h : check m mu = none) :
    ∃ m', handle m mu = .ok m' := by
  unfold check at h
  unfold handle
  by_cases h1 : mu.type = tPut; · simp [h1]
  by_cases h2 : mu.type = tDelete; · simp [h2, tags]
  by_cases h3 : mu.type = tAppend
  · have : mu.value ∉ (m.get mu.key).children := by
      intro hc; simp [h3, hc] at h
    simp [h3, this, tags]
  by_cases h4 : mu.type = tRemove; · simp [h4, tags]
  by_cases h5 : mu.type = tImport
  · have := importAll_ok m _ _ (hwf h5)
    simpa [h5, tags] using this
  by_cases h6 : mu.type = tRemoveKeys
  · simp [h6, tags]
  · simp [h1, h2, h3, h4, h5, h6]

/-- the live memory is the reference semantics of the history: accepted mutations apply in order,
rejected ones contribute nothing -/
theorem mem_is_spec (hist : List Mutation) :
    (runHist Store.init hist).mem = specState Mem.empty hist := by
  suffices h : ∀ s : Store, (runHist s hist).mem = specState s.mem hist from h Store.init
  induction hist with
  | nil => intro s; rfl
  | cons mu rest ih =>
    intro s
    simp only [runHist, specState, List.foldl_cons]
    rw [ih]
    congr 1
    unfold submit submitG specStep
    cases hchk : check s.mem mu with
    | some e => simp [check_some_handle_error _ _ _ hchk]
    | none =>
      simp only [if_true]
      cases hh : handle s.mem mu <;> simp

/-! ### Lease calls between the mutations (volatile by design, never logged)

`Acquire` / `Renew` / `Release` change the lease column of the live memory only, so the strong invariant
`Inv` (replay = live memory) is replaced by `InvV`: replaying the log reproduces the live memory *up to
the lease column*. This survives every mutation because no logged mutation reads a lease —
`handle_dataEq`; in particular `RemoveKeys` drops an entry whatever its lease is. -/

theorem Mem.get_set (m : Mem) (k k' : Bytes) (e : Entry) :
    (m.set k e).get k' = if k' = k then e else m.get k' := by
  unfold Mem.set Mem.get
  by_cases hany : m.any (fun p => decide (p.1 = k)) = true
  · rw [if_pos hany, List.find?_map]
    by_cases h : k' = k
    · subst h
      obtain ⟨q, hq, hqk⟩ := List.any_eq_true.1 hany
      have hf : (fun p : Bytes × Entry => decide (p.1 = k')) ∘ (fun p => if p.1 = k' then (k', e) else p)
          = fun p => decide (p.1 = k') := by
        funext p; by_cases hp : p.1 = k' <;> simp [hp]
      rw [hf]
      cases hfind : m.find? (fun p => decide (p.1 = k')) with
      | none =>
        have := List.find?_eq_none.1 hfind q hq
        exact absurd hqk this
      | some r =>
        have hr := List.find?_some hfind
        simp at hr
        simp [hr]
    · have hf : (fun p : Bytes × Entry => decide (p.1 = k')) ∘ (fun p => if p.1 = k then (k, e) else p)
          = fun p => decide (p.1 = k') := by
        funext p
        by_cases hp : p.1 = k
        · have h1 : ¬ k = k' := fun e => h e.symm
          have h2 : ¬ p.1 = k' := fun e => h (e.symm.trans hp)
          simp [hp, h1]
        · simp [hp]
      rw [hf]
      cases hfind : m.find? (fun p => decide (p.1 = k')) with
      | none => simp [h]
      | some r =>
        have hr := List.find?_some hfind
        simp at hr
        have : ¬ r.1 = k := fun e => h (hr.symm.trans e)
        simp [h, this]
  · rw [if_neg hany, List.find?_append]
    by_cases h : k' = k
    · subst h
      have : m.find? (fun p => decide (p.1 = k')) = none := by
        apply List.find?_eq_none.2
        intro q hq hqk
        exact hany (List.any_eq_true.2 ⟨q, hq, hqk⟩)
      simp [this]
    · have h1 : ¬ k = k' := fun e => h e.symm
      simp [h, h1]

theorem Mem.get_erase (m : Mem) (k k' : Bytes) :
    (m.erase k).get k' = if k' = k then {} else m.get k' := by
  unfold Mem.erase Mem.get
  by_cases h : k' = k
  · subst h
    have : (m.filter (fun p => decide (p.1 ≠ k'))).find? (fun p => decide (p.1 = k')) = none := by
      apply List.find?_eq_none.2
      intro q hq
      have := (List.mem_filter.1 hq).2
      simpa using this
    rw [this]; simp
  · rw [List.find?_filter]
    have hf : (fun a : Bytes × Entry => decide (decide (a.1 ≠ k) = true ∧ decide (a.1 = k') = true)) = fun a => decide (a.1 = k') := by
      funext a
      by_cases ha : a.1 = k'
      · have : ¬ a.1 = k := fun e => h (ha.symm.trans e)
        simp [ha, h]
      · simp [ha]
    rw [hf]; simp [h]

/-- what the property statement observes of an entry: simple value and prefix children -/
def Entry.data (e : Entry) : Bytes × List Bytes := (e.val, e.children)

/-- two memories with the same simple values and prefix children for every key -/
def DataEq (a b : Mem) : Prop := ∀ k, (a.get k).data = (b.get k).data

theorem DataEq.refl (a : Mem) : DataEq a a := fun _ => rfl
theorem DataEq.symm {a b : Mem} (h : DataEq a b) : DataEq b a := fun k => (h k).symm
theorem DataEq.trans {a b c : Mem} (h : DataEq a b) (h' : DataEq b c) : DataEq a c :=
  fun k => (h k).trans (h' k)

theorem DataEq.val {a b : Mem} (h : DataEq a b) (k : Bytes) : (a.get k).val = (b.get k).val :=
  congrArg Prod.fst (h k)
theorem DataEq.children {a b : Mem} (h : DataEq a b) (k : Bytes) : (a.get k).children = (b.get k).children :=
  congrArg Prod.snd (h k)

/-- writing entries with equal data at the same key keeps memories data-equal -/
theorem DataEq.set {a b : Mem} (h : DataEq a b) (k : Bytes) (e e' : Entry) (he : e.data = e'.data) :
    DataEq (a.set k e) (b.set k e') := by
  intro k'
  rw [Mem.get_set, Mem.get_set]
  by_cases hk : k' = k
  · simp [hk, he]
  · simp [hk, h k']

theorem DataEq.erase {a b : Mem} (h : DataEq a b) (k : Bytes) : DataEq (a.erase k) (b.erase k) := by
  intro k'
  rw [Mem.get_erase, Mem.get_erase]
  by_cases hk : k' = k
  · simp [hk]
  · simp [hk, h k']

theorem DataEq.eraseAll {a b : Mem} (h : DataEq a b) (ks : List Bytes) :
    DataEq (ks.foldl Mem.erase a) (ks.foldl Mem.erase b) := by
  induction ks generalizing a b with
  | nil => exact h
  | cons k ks ih => exact ih (h.erase k)

theorem DataEq.importOne {a b : Mem} (h : DataEq a b) (k : Bytes) (t : Transfer) :
    DataEq (importOne a k t) (importOne b k t) := by
  unfold Specter.Aof.importOne
  apply h.set
  simp [Entry.data, h.children k]

/-- outcome of a mutation on two memories: same error, or data-equal results -/
def ResEq : Except Err Mem → Except Err Mem → Prop
  | .ok a, .ok b => DataEq a b
  | .error e, .error e' => e = e'
  | _, _ => False

theorem importAll_dataEq {a b : Mem} (h : DataEq a b) (ks : List Bytes) (ts : List Transfer) :
    ResEq (importAll a ks ts) (importAll b ks ts) := by
  induction ks generalizing a b ts with
  | nil => simpa [importAll, ResEq] using h
  | cons k ks ih =>
    cases ts with
    | nil => simp [importAll, ResEq]
    | cons t ts => simp only [importAll]; exact ih (h.importOne k t) ts

theorem handle_put (m : Mem) (mu : Mutation) (h : mu.type = tPut) :
    handle m mu = .ok (m.set mu.key { m.get mu.key with val := mu.value }) := by simp [handle, h]
theorem handle_delete (m : Mem) (mu : Mutation) (h : mu.type = tDelete) :
    handle m mu = .ok (m.set mu.key { m.get mu.key with val := [] }) := by simp [handle, h, tags]
theorem handle_append (m : Mem) (mu : Mutation) (h : mu.type = tAppend) :
    handle m mu = if mu.value ∈ (m.get mu.key).children then .error .conflict
      else .ok (m.set mu.key { m.get mu.key with children := (m.get mu.key).children ++ [mu.value] }) := by
  simp [handle, h, tags]
theorem handle_remove (m : Mem) (mu : Mutation) (h : mu.type = tRemove) :
    handle m mu = .ok (m.set mu.key { m.get mu.key with children := (m.get mu.key).children.filter (· ≠ mu.value) }) := by
  simp [handle, h, tags]
theorem handle_import (m : Mem) (mu : Mutation) (h : mu.type = tImport) :
    handle m mu = importAll m mu.keys mu.values := by simp [handle, h, tags]
theorem handle_removeKeys (m : Mem) (mu : Mutation) (h : mu.type = tRemoveKeys) :
    handle m mu = .ok (mu.keys.foldl Mem.erase m) := by simp [handle, h, tags]
theorem handle_other (m : Mem) (mu : Mutation) (h1 : mu.type ≠ tPut) (h2 : mu.type ≠ tDelete) (h3 : mu.type ≠ tAppend)
    (h4 : mu.type ≠ tRemove) (h5 : mu.type ≠ tImport) (h6 : mu.type ≠ tRemoveKeys) : handle m mu = .ok m := by
  simp [handle, h1, h2, h3, h4, h5, h6]

/-- **No logged mutation reads the lease column**: on memories that agree on values and children
(whatever their leases are) `handleMutation` fails with the same error or produces memories that
again agree on values and children. In particular `RemoveKeys` drops an entry whatever its lease is. -/
theorem handle_dataEq {a b : Mem} (h : DataEq a b) (mu : Mutation) : ResEq (handle a mu) (handle b mu) := by
  by_cases h1 : mu.type = tPut
  · rw [handle_put _ _ h1, handle_put _ _ h1]
    exact h.set _ _ _ (by simp [Entry.data, h.children mu.key])
  by_cases h2 : mu.type = tDelete
  · rw [handle_delete _ _ h2, handle_delete _ _ h2]
    exact h.set _ _ _ (by simp [Entry.data, h.children mu.key])
  by_cases h3 : mu.type = tAppend
  · rw [handle_append _ _ h3, handle_append _ _ h3, h.children mu.key]
    by_cases hc : mu.value ∈ (b.get mu.key).children
    · simp [hc, ResEq]
    · simp only [hc, if_false]
      exact h.set _ _ _ (by simp [Entry.data, h.val mu.key])
  by_cases h4 : mu.type = tRemove
  · rw [handle_remove _ _ h4, handle_remove _ _ h4]
    exact h.set _ _ _ (by simp [Entry.data, h.val mu.key, h.children mu.key])
  by_cases h5 : mu.type = tImport
  · rw [handle_import _ _ h5, handle_import _ _ h5]; exact importAll_dataEq h _ _
  by_cases h6 : mu.type = tRemoveKeys
  · rw [handle_removeKeys _ _ h6, handle_removeKeys _ _ h6]; exact h.eraseAll _
  · rw [handle_other _ _ h1 h2 h3 h4 h5 h6, handle_other _ _ h1 h2 h3 h4 h5 h6]; exact h

theorem check_dataEq {a b : Mem} (h : DataEq a b) (mu : Mutation) : check a mu = check b mu := by
  unfold check; rw [h.children mu.key]

/-- a lease call changes neither simple values nor prefix children -/
theorem volatile_preserves_data (m : Mem) (op : VOp) : DataEq (volatile m op).1 m := by
  have hset : ∀ k l, DataEq (m.set k { m.get k with lease := l }) m := by
    intro k l k'
    rw [Mem.get_set]
    by_cases hk : k' = k
    · simp [hk, Entry.data]
    · simp [hk]
  cases op with
  | acquire k ttlOk =>
    simp only [volatile]
    split
    · exact DataEq.refl m
    · split
      · exact DataEq.refl m
      · exact hset _ _
  | renew k ttlOk prev =>
    simp only [volatile]
    repeat' split
    all_goals first | exact DataEq.refl m | exact hset _ _
  | release k tok =>
    simp only [volatile]
    split
    · exact hset _ _
    · exact DataEq.refl m

/-- The restart invariant in the presence of lease calls: replaying the log reproduces the live memory
up to the lease column, and the next WAL index is `LastIndex + 1`. -/
def InvV (s : Store) : Prop :=
  ∃ m, replay s.log = .ok m ∧ DataEq m s.mem ∧ s.counter = s.log.length + 1

theorem invV_of_inv (s : Store) (h : Inv s) : InvV s := ⟨s.mem, h.1, DataEq.refl _, h.2⟩

theorem submit_preserves_invV (pre : Bool) (s : Store) (mu : Mutation) (h : InvV s) :
    InvV (submitG pre s mu).1 := by
  obtain ⟨m, hr, hd, hc⟩ := h
  unfold submitG
  cases hchk : (if pre = true then check s.mem mu else none) with
  | some e => exact ⟨m, hr, hd, hc⟩
  | none =>
    simp only
    have hres := handle_dataEq hd mu
    cases hh : handle s.mem mu with
    | ok m' =>
      rw [hh] at hres
      cases hm : handle m mu with
      | error e => rw [hm] at hres; exact hres.elim
      | ok m'' =>
        rw [hm] at hres
        refine ⟨m'', ?_, hres, by simp [hc]⟩
        show replay (s.log ++ [mu]) = .ok m''
        unfold replay at hr ⊢
        rw [replayG_reset_append, hr]; exact hm
    | error e =>
      exact ⟨m, by simpa using hr, hd, by simp [hc]⟩

theorem volatile_preserves_invV (s : Store) (op : VOp) (h : InvV s) : InvV (s.volatile op).1 := by
  obtain ⟨m, hr, hd, hc⟩ := h
  exact ⟨m, hr, hd.trans (volatile_preserves_data s.mem op).symm, hc⟩

/-- a clean restart of a store satisfying `InvV` succeeds, reproduces every simple value and all prefix
children, keeps the log, and lands in a state satisfying the strong invariant again -/
theorem reopen_of_invV (s : Store) (h : InvV s) :
    ∃ s', s.reopen = .ok s' ∧ DataEq s'.mem s.mem ∧ s'.log = s.log ∧ Inv s' := by
  obtain ⟨m, hr, hd, _⟩ := h
  refine ⟨{ log := s.log, mem := m, counter := s.log.length + 1 }, ?_, hd, rfl, hr, rfl⟩
  simp only [Store.reopen, reopenLog, hr]

/-- histories of mutations, lease calls and clean stop/reopen cycles in any order -/
inductive Step where
  | mutate (mu : Mutation)
  | lease (op : VOp)
  | restart

def runSteps (s : Store) : List Step → Except Err Store
  | [] => .ok s
  | .mutate mu :: rest => runSteps (submit s mu).1 rest
  | .lease op :: rest => runSteps (s.volatile op).1 rest
  | .restart :: rest =>
    match s.reopen with
    | .ok s' => runSteps s' rest
    | .error e => .error e

theorem runSteps_invV (steps : List Step) (s : Store) (h : InvV s) :
    ∃ s', runSteps s steps = .ok s' ∧ InvV s' := by
  induction steps generalizing s with
  | nil => exact ⟨s, rfl, h⟩
  | cons st rest ih =>
    cases st with
    | mutate mu => exact ih _ (submit_preserves_invV true s mu h)
    | lease op => exact ih _ (volatile_preserves_invV s op h)
    | restart =>
      obtain ⟨s', hs', _, _, hinv⟩ := reopen_of_invV s h
      simp only [runSteps, hs']
      exact ih s' (invV_of_inv s' hinv)

/-- **C21 with volatile leases.** After ANY history of mutations, lease calls (Acquire/Renew/Release, never
logged) and earlier clean restarts, every restart succeeds, and a further clean stop + `aof.New` yields
exactly the same simple values and prefix children for every key as before the stop. -/
theorem clean_restart_reproduces_data_with_leases (steps : List Step) :
    ∃ s s', runSteps Store.init steps = .ok s ∧ s.reopen = .ok s' ∧ DataEq s'.mem s.mem := by
  obtain ⟨s, hs, hinv⟩ := runSteps_invV steps Store.init (invV_of_inv _ inv_init)
  obtain ⟨s', hs', hd, _, _⟩ := reopen_of_invV s hinv
  exact ⟨s, s', hs, hs', hd⟩


/-! ### The regression `mut.Reset()` protects against -/

def valAt (r : Except Err Mem) (k : Bytes) : Option Bytes :=
  match r with
  | .ok m => some (m.get k).val
  | .error _ => none

def reuseWitness : List Mutation :=
  [{ type := tPut, key := [1], value := [9] }, { type := tPut, key := [2], value := [] }]

/-- Replaying into a message that is not reset between entries does NOT reproduce the store: after
`Put(k1, v); Put(k2, empty)` the second entry has no `value` field on the wire, the stale `v` stays
in the decode buffer and `k2` comes back with `v`. -/
theorem replay_reusing_buffers_violates :
    valAt (replayG false {} Mem.empty (runHist Store.init reuseWitness).log) [2] = some [9] ∧
    valAt (.ok (runHist Store.init reuseWitness).mem) [2] = some [] := by
  decide

/-! ### Non-vacuity -/

def exHist : List Mutation :=
  [ { type := tAppend, key := [1], value := [7] },
    { type := tAppend, key := [1], value := [7] },            -- rejected: conflict
    { type := tPut, key := [2], value := [5, 6] },
    { type := tImport, keys := [[1], [3]], values := [{ value := [4], children := [[7], [8]], lease := 3 }, {}] },
    { type := tRemoveKeys, keys := [[2]] },
    { type := tRemove, key := [1], value := [7] } ]

example : (submit (submit Store.init exHist[0]).1 exHist[1]).2 = some .conflict := by decide
example : (runHist Store.init exHist).log.length = 5 := by decide
example : ((runHist Store.init exHist).mem.get [1]).children = [[8]] ∧ ((runHist Store.init exHist).mem.get [1]).val = [4]
    ∧ ((runHist Store.init exHist).mem.get [2]).val = [] := by decide
example : ∀ mu ∈ exHist, mu.WF := by decide
example : (runOps Store.init [.submit exHist[0], .restart, .submit exHist[1], .restart, .restart, .submit exHist[2]]).toOption.map
    (fun s => (s.log.length, s.counter)) = some (2, 3) := by decide

/-- non-vacuity for the lease theorems: children appended, a lease acquired on the key (a second
`Acquire` conflicts, `Renew` with the current token succeeds, a foreign token is rejected), then
`RemoveKeys` over the leased key, another key put, restart -/
def exSteps : List Step :=
  [ .mutate { type := tAppend, key := [1], value := [7] },
    .mutate { type := tPut, key := [1], value := [5] },
    .lease (.acquire [1] true),
    .lease (.acquire [2] true),
    .mutate { type := tRemoveKeys, keys := [[1]] },
    .mutate { type := tPut, key := [3], value := [6] } ]

example : (volatile (volatile Mem.empty (.acquire [1] true)).1 (.acquire [1] true)).2 = some .conflict := by decide
example : (volatile (volatile Mem.empty (.acquire [1] true)).1 (.renew [1] true none)).2 = none := by decide
example : (volatile (volatile Mem.empty (.acquire [1] true)).1 (.renew [1] true (some 3))).2 = some .expired := by decide
example : (volatile (volatile Mem.empty (.acquire [1] true)).1 (.release [1] (some 3))).2 = some .expired := by decide
example : (volatile Mem.empty (.acquire [1] false)).2 = some .invalidTTL := by decide
/-- the leased key is really dropped by RemoveKeys, the other lease is live before the stop and gone
after it: the strong invariant `Inv` does not hold here, `InvV` (and the property) does -/
example : (runSteps Store.init exSteps).toOption.map
      (fun s => ((s.mem.get [1]).children, (s.mem.get [1]).lease, (s.mem.get [2]).lease, (s.mem.get [3]).val))
    = some ([], 0, liveTok, [6]) := by decide
example : (runSteps Store.init (exSteps ++ [.restart])).toOption.map
      (fun s => ((s.mem.get [1]).children, (s.mem.get [1]).lease, (s.mem.get [2]).lease, (s.mem.get [3]).val))
    = some ([], 0, 0, [6]) := by decide

/-- Why `deleteAll` must not look at the lease: a `RemoveKeys` that keeps the children of an entry
holding a lease (clearing only its value) makes the outcome of a logged mutation depend on state the
log does not carry — live the children stay, on replay (no lease) they are dropped. -/
def eraseKeepLeased (m : Mem) (k : Bytes) : Mem :=
  if (m.get k).lease ≠ 0 then m.set k { m.get k with val := [] } else m.erase k

theorem removeKeys_reading_the_lease_violates :
    let live := eraseKeepLeased (volatile ((Mem.empty.set [1] { children := [[7]] })) (.acquire [1] true)).1 [1]
    let replayed := eraseKeepLeased (Mem.empty.set [1] { children := [[7]] }) [1]
    (live.get [1]).children = [[7]] ∧ (replayed.get [1]).children = [] := by
  decide

end Specter.Aof
