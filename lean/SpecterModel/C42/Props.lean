import SpecterModel.C42.Model
/-!
# C42 — Incoming streams are dispatched to the right handler
For EVERY sequence of registrations (virtual / physical / tunnel, any kinds, ids, handlers) and every
incoming (type, target).
-/
namespace Specter.C42

def virtLookup (s : State) (k i : Nat) : Option Nat :=
  match s.virt k with
  | some m => m i
  | none => none

theorem dispatchChord_eq (s : State) (k i : Nat) :
    dispatchChord s k i = (match virtLookup s k i with | some h => some h | none => s.phys k) := by
  unfold dispatchChord virtLookup
  cases s.virt k with
  | none => rfl
  | some m => cases m i <;> rfl

theorem virtLookup_register (s : State) (op : Op) (k i : Nat) :
    virtLookup (register s op) k i =
      (match op with
       | .handleChord k' (some i') h => if k' = k ∧ i' = i then some h else virtLookup s k i
       | _ => virtLookup s k i) := by
  cases op with
  | handleTunnel k' h => rfl
  | handleChord k' t h =>
    cases t with
    | none => rfl
    | some i' =>
      by_cases hk : k = k'
      · subst hk
        by_cases hi : i = i'
        · subst hi; simp [register, virtLookup, upd]
        · have : ¬ i' = i := fun e => hi e.symm
          cases hs : s.virt k <;> simp [register, virtLookup, upd, hs, hi, this]
      · have : ¬ k' = k := fun e => hk e.symm
        simp [register, virtLookup, upd, hk, this]

theorem phys_register (s : State) (op : Op) (k : Nat) :
    (register s op).phys k =
      (match op with
       | .handleChord k' none h => if k' = k then some h else s.phys k
       | _ => s.phys k) := by
  cases op with
  | handleTunnel k' h => rfl
  | handleChord k' t h =>
    cases t with
    | some i' => rfl
    | none =>
      simp only [register, upd]
      by_cases hk : k = k'
      · subst hk; simp
      · have : ¬ k' = k := fun e => hk e.symm
        simp [hk, this]

theorem tun_register (s : State) (op : Op) (k : Nat) :
    (register s op).tun k =
      (match op with
       | .handleTunnel k' h => if k' = k then some h else s.tun k
       | _ => s.tun k) := by
  cases op with
  | handleChord k' t h => cases t <;> rfl
  | handleTunnel k' h =>
    simp only [register, upd]
    by_cases hk : k = k'
    · subst hk; simp
    · have : ¬ k' = k := fun e => hk e.symm
      simp [hk, this]

/-- generalised refinement lemmas: folding the registrations over ANY starting state -/
theorem virt_foldl (ops : List Op) (s : State) (k i : Nat) :
    virtLookup (ops.foldl register s) k i =
      (match lastVirt ops k i with | some h => some h | none => virtLookup s k i) := by
  induction ops generalizing s with
  | nil => rfl
  | cons op rest ih =>
    simp only [List.foldl_cons, lastVirt]
    rw [ih (register s op), virtLookup_register]
    cases lastVirt rest k i with
    | some h => rfl
    | none =>
      cases op with
      | handleTunnel k' h => rfl
      | handleChord k' t h =>
        cases t with
        | none => rfl
        | some i' => by_cases c : k' = k ∧ i' = i <;> simp [c]

theorem phys_foldl (ops : List Op) (s : State) (k : Nat) :
    (ops.foldl register s).phys k =
      (match lastPhys ops k with | some h => some h | none => s.phys k) := by
  induction ops generalizing s with
  | nil => rfl
  | cons op rest ih =>
    simp only [List.foldl_cons, lastPhys]
    rw [ih (register s op), phys_register]
    cases lastPhys rest k with
    | some h => rfl
    | none =>
      cases op with
      | handleTunnel k' h => rfl
      | handleChord k' t h =>
        cases t with
        | some i' => rfl
        | none => by_cases c : k' = k <;> simp [c]

theorem tun_foldl (ops : List Op) (s : State) (k : Nat) :
    (ops.foldl register s).tun k =
      (match lastTun ops k with | some h => some h | none => s.tun k) := by
  induction ops generalizing s with
  | nil => rfl
  | cons op rest ih =>
    simp only [List.foldl_cons, lastTun]
    rw [ih (register s op), tun_register]
    cases lastTun rest k with
    | some h => rfl
    | none =>
      cases op with
      | handleChord k' t h => cases t <;> rfl
      | handleTunnel k' h => by_cases c : k' = k <;> simp [c]

/-- **C42 (inter-node streams)**: after any registration history, an incoming (type, target) stream goes to
the most recent handler registered for that type AND target; else to the most recent node-wide handler
of that type; else to nobody (closed). -/
theorem dispatchChord_spec (ops : List Op) (kind id : Nat) :
    dispatchChord (run ops) kind id = specChord ops kind id := by
  rw [dispatchChord_eq]; unfold run specChord
  rw [virt_foldl, phys_foldl]
  cases lastVirt ops kind id with
  | some h => rfl
  | none => simp only [virtLookup, init]; cases lastPhys ops kind <;> rfl

/-- **C42 (client streams)**: most recent handler for the type, else closed. -/
theorem dispatchTunnel_spec (ops : List Op) (kind : Nat) :
    dispatchTunnel (run ops) kind = specTunnel ops kind := by
  unfold dispatchTunnel run specTunnel
  rw [tun_foldl]; cases lastTun ops kind <;> rfl

/-- the handler registered for (type, target) wins over the node-wide handler -/
theorem virtual_wins (ops : List Op) (kind id h : Nat) (hv : lastVirt ops kind id = some h) :
    dispatchChord (run ops) kind id = some h := by
  rw [dispatchChord_spec]; simp [specChord, hv]

/-- no handler for the target: fall back to the node-wide handler of that type -/
theorem falls_back_to_physical (ops : List Op) (kind id : Nat) (hv : lastVirt ops kind id = none) :
    dispatchChord (run ops) kind id = lastPhys ops kind := by
  rw [dispatchChord_spec]; simp [specChord, hv]

/-- no matching handler at all: the stream is closed -/
theorem unmatched_is_closed (ops : List Op) (kind id : Nat)
    (hv : lastVirt ops kind id = none) (hp : lastPhys ops kind = none) :
    dispatchChord (run ops) kind id = none := by
  rw [falls_back_to_physical ops kind id hv, hp]

/-- a registration is visible immediately and overrides earlier ones (last writer wins) -/
theorem last_writer_wins (ops : List Op) (kind id h : Nat) :
    dispatchChord (run (ops ++ [.handleChord kind (some id) h])) kind id = some h := by
  apply virtual_wins
  induction ops with
  | nil => simp [lastVirt]
  | cons op rest ih => simp [lastVirt, ih]

def isTunnelOp : Op → Bool
  | .handleTunnel .. => true
  | _ => false
def isChordOp : Op → Bool
  | .handleChord .. => true
  | _ => false

theorem lastTun_filter (ops : List Op) (k : Nat) : lastTun (ops.filter isTunnelOp) k = lastTun ops k := by
  induction ops with
  | nil => rfl
  | cons op rest ih =>
    cases op with
    | handleChord k' t h =>
      have : lastTun (Op.handleChord k' t h :: rest) k = lastTun rest k := by
        simp only [lastTun]; cases lastTun rest k <;> rfl
      rw [this, ← ih]; simp [List.filter, isTunnelOp]
    | handleTunnel k' h => simp [List.filter, isTunnelOp, lastTun, ih]

theorem lastVirt_filter (ops : List Op) (k i : Nat) : lastVirt (ops.filter isChordOp) k i = lastVirt ops k i := by
  induction ops with
  | nil => rfl
  | cons op rest ih =>
    cases op with
    | handleTunnel k' h =>
      have : lastVirt (Op.handleTunnel k' h :: rest) k i = lastVirt rest k i := by
        simp only [lastVirt]; cases lastVirt rest k i <;> rfl
      rw [this, ← ih]; simp [List.filter, isChordOp]
    | handleChord k' t h => simp [List.filter, isChordOp, lastVirt, ih]

theorem lastPhys_filter (ops : List Op) (k : Nat) : lastPhys (ops.filter isChordOp) k = lastPhys ops k := by
  induction ops with
  | nil => rfl
  | cons op rest ih =>
    cases op with
    | handleTunnel k' h =>
      have : lastPhys (Op.handleTunnel k' h :: rest) k = lastPhys rest k := by
        simp only [lastPhys]; cases lastPhys rest k <;> rfl
      rw [this, ← ih]; simp [List.filter, isChordOp]
    | handleChord k' t h => simp [List.filter, isChordOp, lastPhys, ih]

/-- client dispatch ignores the chord tables … -/
theorem tunnel_ignores_chord (ops : List Op) (kind : Nat) :
    dispatchTunnel (run ops) kind = dispatchTunnel (run (ops.filter isTunnelOp)) kind := by
  rw [dispatchTunnel_spec, dispatchTunnel_spec]; unfold specTunnel; rw [lastTun_filter]

/-- … and chord dispatch ignores the tunnel table -/
theorem chord_ignores_tunnel (ops : List Op) (kind id : Nat) :
    dispatchChord (run ops) kind id = dispatchChord (run (ops.filter isChordOp)) kind id := by
  rw [dispatchChord_spec, dispatchChord_spec]; unfold specChord; rw [lastVirt_filter, lastPhys_filter]

/-! non-vacuity -/
def demo : List Op := [.handleChord 1 none 10, .handleChord 1 (some 7) 11, .handleTunnel 1 12,
  .handleChord 1 (some 7) 13, .handleChord 2 (some 7) 14]
example : dispatchChord (run demo) 1 7 = some 13 := by decide      -- virtual, last writer
example : dispatchChord (run demo) 1 8 = some 10 := by decide      -- fallback to physical
example : dispatchChord (run demo) 2 8 = none := by decide         -- per-kind map exists, no id, no physical
example : dispatchChord (run demo) 3 7 = none := by decide         -- nothing at all
example : dispatchTunnel (run demo) 1 = some 12 ∧ dispatchTunnel (run demo) 2 = none := by decide
example : lastVirt demo 1 8 = none ∧ lastPhys demo 1 = some 10 := by decide

end Specter.C42
