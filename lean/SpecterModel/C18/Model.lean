import Std.Data.HashSet
/-!
# C18 — concurrent use of the KV back-ends

1. Sequential specifications of the three per-key objects (simple register, child set, lease word);
   they are what "linearizable" refers to, in the theorems and in the executable checker.
2. Small-step interleaving models of the memory back-end's protocols for any number of threads:
   `Simple` (`Put`/`Delete` = `Load; CompareAndSwap(ptr)` on `atomic.Pointer[[]byte]`, `Delete` swaps in the
   shared `&empty` pointer, `Get` = `Load`), `Lease` (`Acquire` = `Load; time.Now(); CompareAndSwap`),
   `Children` (`PrefixAppend`/`PrefixRemove` = one linearizable `skipset` call).
3. An executable Wing–Gong search deciding linearizability of a recorded history (validation tool).
Core Lean (+ Std.HashSet for the search memo).
-/
namespace Specter.C18

/-! ## 1. sequential specifications -/

inductive SOp where
  | put (v : String) | del | get
deriving DecidableEq, Repr
inductive SRes where
  | ok | conflict | val (v : String)
deriving DecidableEq, Repr

/-- simple register (`""` = empty/absent). A `conflict` answer has no effect. -/
def specSimple (cur : String) : SOp → SRes → Option String
  | .put v, .ok => some v
  | .del, .ok => some ""
  | .put _, .conflict => some cur
  | .del, .conflict => some cur
  | .get, .val v => if v = cur then some cur else none
  | _, _ => none

inductive COp where
  | add (c : String) | remove (c : String) | contains (c : String) | list
deriving DecidableEq, Repr
inductive CRes where
  | ok | conflict | bool (b : Bool) | items (l : List String)
deriving DecidableEq, Repr

def insertSorted (c : String) : List String → List String
  | [] => [c]
  | x :: xs => if c < x then c :: x :: xs else if c = x then x :: xs else x :: insertSorted c xs

/-- child set, kept sorted -/
def specChildren (cur : List String) : COp → CRes → Option (List String)
  | .add c, .ok => if c ∈ cur then none else some (insertSorted c cur)
  | .add c, .conflict => if c ∈ cur then some cur else none
  | .remove c, .ok => some (cur.filter (· ≠ c))
  | .contains c, .bool b => if b = decide (c ∈ cur) then some cur else none
  | .list, .items l => if l = cur then some cur else none
  | _, _ => none

inductive LOp where
  | acquire | renew (prev : Nat) | release (tok : Nat)
deriving DecidableEq, Repr
inductive LRes where
  | granted (tok : Nat) | conflict | expired | ok
deriving DecidableEq, Repr

/-- lease word in the regime of the harness (every TTL outlives the run: held ⇔ token ≠ 0) -/
def specLease (cur : Nat) : LOp → LRes → Option Nat
  | .acquire, .granted t => if cur = 0 ∧ t ≠ 0 then some t else none
  | .acquire, .conflict => if cur ≠ 0 then some cur else none
  | .renew p, .granted t => if cur = p ∧ cur ≠ 0 ∧ t ≠ 0 then some t else none
  | .renew p, .expired => if cur ≠ p ∨ cur = 0 then some cur else none
  | .release k, .ok => if cur = k then some 0 else none
  | .release k, .expired => if cur ≠ k then some cur else none
  | _, _ => none

/-- a sequential history is legal from `init` and ends in the returned state -/
def specRun {σ ο ρ : Type} (f : σ → ο → ρ → Option σ) : σ → List (ο × ρ) → Option σ
  | s, [] => some s
  | s, (o, r) :: rest => match f s o r with
    | none => none
    | some s' => specRun f s' rest

def upd {α : Type} (f : Nat → α) (i : Nat) (v : α) : Nat → α := fun j => if j = i then v else f j

/-! ## 2a. `Simple`: CAS on the value pointer -/
namespace Simple

inductive PC where
  | idle
  | loaded (cur : Nat) (op : SOp)      -- `curr := v.simple.Load()` done, CAS outstanding
  | done (r : SRes)                    -- result computed, not yet returned
deriving Repr

structure Sys where
  ptr : Nat                            -- current pointer; 0 is the package-level `&empty`
  heap : Nat → String                  -- contents behind each pointer (never mutated)
  next : Nat                           -- next fresh address (`&value` of a new call frame)
  pc : Nat → PC
  ver : Nat                            -- ghost: number of successful CASes so far
  seen : Nat → Nat                     -- ghost: `ver` when thread t loaded
  lin : List (SOp × SRes)              -- ghost: calls in linearization order

def abs (s : Sys) : String := s.heap s.ptr

inductive Step : Sys → Sys → Prop
  | load (s : Sys) (t : Nat) (op : SOp) (h : s.pc t = .idle) (hop : op ≠ .get) :
      Step s { s with pc := upd s.pc t (.loaded s.ptr op), seen := upd s.seen t s.ver }
  | casPut (s : Sys) (t cur : Nat) (v : String) (h : s.pc t = .loaded cur (.put v)) (hw : s.ptr = cur) :
      Step s { s with ptr := s.next, heap := upd s.heap s.next v, next := s.next + 1,
                      pc := upd s.pc t (.done .ok), ver := s.ver + 1, lin := s.lin ++ [(.put v, .ok)] }
  | casDel (s : Sys) (t cur : Nat) (h : s.pc t = .loaded cur .del) (hw : s.ptr = cur) :
      Step s { s with ptr := 0, pc := upd s.pc t (.done .ok), ver := s.ver + 1, lin := s.lin ++ [(.del, .ok)] }
  | casFail (s : Sys) (t cur : Nat) (op : SOp) (h : s.pc t = .loaded cur op) (hw : s.ptr ≠ cur) :
      Step s { s with pc := upd s.pc t (.done .conflict), lin := s.lin ++ [(op, .conflict)] }
  | get (s : Sys) (t : Nat) (h : s.pc t = .idle) :
      Step s { s with pc := upd s.pc t (.done (.val (abs s))), lin := s.lin ++ [(.get, .val (abs s))] }
  | ret (s : Sys) (t : Nat) (r : SRes) (h : s.pc t = .done r) :
      Step s { s with pc := upd s.pc t .idle }

def init : Sys :=
  { ptr := 0, heap := fun _ => "", next := 1, pc := fun _ => .idle, ver := 0, seen := fun _ => 0, lin := [] }

inductive Reachable : Sys → Prop
  | init : Reachable init
  | step {s s'} : Reachable s → Step s s' → Reachable s'

end Simple

/-! ## 2b. `Lease`: `Acquire` = Load; read clock; CAS -/
namespace Lease

inductive PC where
  | idle
  | loaded (cur ttl : Nat)             -- `curr := v.lease.Load()`
  | checked (cur now ttl : Nat)        -- `ref := time.Now()`, `curr > ref` was false
  | done (r : Option Nat)              -- `some token` = granted, `none` = ErrKVLeaseConflict
deriving Repr

structure Sys where
  word : Nat
  clock : Nat
  pc : Nat → PC
  grants : List (Nat × Nat)            -- ghost, newest first: (clock reading, token) of every successful CAS

inductive Step : Sys → Sys → Prop
  | tick (s : Sys) : Step s { s with clock := s.clock + 1 }
  | load (s : Sys) (t ttl : Nat) (h : s.pc t = .idle) (httl : 0 < ttl) :
      Step s { s with pc := upd s.pc t (.loaded s.word ttl) }
  | busy (s : Sys) (t cur ttl : Nat) (h : s.pc t = .loaded cur ttl) (hc : cur > s.clock) :
      Step s { s with pc := upd s.pc t (.done none) }
  | check (s : Sys) (t cur ttl : Nat) (h : s.pc t = .loaded cur ttl) (hc : ¬ cur > s.clock) :
      Step s { s with pc := upd s.pc t (.checked cur s.clock ttl) }
  | casOk (s : Sys) (t cur now ttl : Nat) (h : s.pc t = .checked cur now ttl) (hw : s.word = cur) :
      Step s { s with word := now + ttl, pc := upd s.pc t (.done (some (now + ttl))),
                      grants := (now, now + ttl) :: s.grants }
  | casFail (s : Sys) (t cur now ttl : Nat) (h : s.pc t = .checked cur now ttl) (hw : s.word ≠ cur) :
      Step s { s with pc := upd s.pc t (.done none) }
  | ret (s : Sys) (t : Nat) (r : Option Nat) (h : s.pc t = .done r) :
      Step s { s with pc := upd s.pc t .idle }

/-- a free lease: the stored token `w0` is not in the future -/
def init (w0 c0 : Nat) : Sys := { word := w0, clock := c0, pc := fun _ => .idle, grants := [] }

inductive Reachable (w0 c0 : Nat) : Sys → Prop
  | init : Reachable w0 c0 (init w0 c0)
  | step {s s'} : Reachable w0 c0 s → Step s s' → Reachable w0 c0 s'

end Lease

/-! ## 2c. `Children`: one linearizable skipset call per operation -/
namespace Children

structure Sys where
  set : List String
  okAdds : String → Nat                -- ghost: successful `PrefixAppend`s of each child
  removed : String → Nat               -- ghost: `PrefixRemove`s that actually deleted it
  conflicts : String → Nat             -- ghost: `ErrKVPrefixConflict` answers

def bump (f : String → Nat) (c : String) : String → Nat := fun x => if x = c then f x + 1 else f x

inductive Step : Sys → Sys → Prop
  | addOk (s : Sys) (c : String) (h : c ∉ s.set) :
      Step s { s with set := c :: s.set, okAdds := bump s.okAdds c }
  | addConflict (s : Sys) (c : String) (h : c ∈ s.set) :
      Step s { s with conflicts := bump s.conflicts c }
  | removeHit (s : Sys) (c : String) (h : c ∈ s.set) :
      Step s { s with set := s.set.filter (· ≠ c), removed := bump s.removed c }
  | removeMiss (s : Sys) (c : String) (h : c ∉ s.set) : Step s s

def init : Sys := { set := [], okAdds := fun _ => 0, removed := fun _ => 0, conflicts := fun _ => 0 }

inductive Reachable : Sys → Prop
  | init : Reachable init
  | step {s s'} : Reachable s → Step s s' → Reachable s'

end Children

/-! ## 3. executable linearizability check (Wing–Gong search with memo) -/

/-- one completed call on one object: invocation / response sequence numbers, and a transition test
`apply : state → Option state` (state rendered as a string) -/
structure Ev where
  inv : Nat
  ret : Nat
  apply : String → Option String
  label : String

instance : Inhabited Ev := ⟨⟨0, 0, fun _ => none, ""⟩⟩

/-! The search is TOTAL (fuel = number of remaining calls) and its memo holds only configurations that were
explored to the end without success; `C18/LinProps.lean` proves `linearizable evs init = true ↔ Linearizable evs init`
(soundness and completeness), so both verdicts of the drivers of C18 and C04 are theorems about the recorded
history, not search results. -/
namespace Lin

/-- `order` (indices of calls) is a legal sequential execution from `st` that respects real time: no later call
of the order had returned before an earlier one was invoked. -/
def Valid (inv ret : Nat → Nat) (app : Nat → String → Option String) : List Nat → String → Prop
  | [], _ => True
  | i :: rest, st => (∀ j ∈ rest, ¬ ret j < inv i) ∧ ∃ st', app i st = some st' ∧ Valid inv ret app rest st'

/-- the calls `rem` can be linearized from state `st` -/
def Lin (inv ret : Nat → Nat) (app : Nat → String → Option String) (rem : List Nat) (st : String) : Prop :=
  ∃ order : List Nat, order.Perm rem ∧ Valid inv ret app order st

abbrev Memo := Std.HashSet (List Nat × String)

/-- `i` may be linearized first among `rem`: no other remaining call returned before `i` was invoked -/
def minimal (inv ret : Nat → Nat) (rem : List Nat) (i : Nat) : Bool :=
  (rem.erase i).all fun j => !(decide (ret j < inv i))

def attempt (inv ret : Nat → Nat) (app : Nat → String → Option String)
    (rec : List Nat → String → Memo → Bool × Memo) (rem : List Nat) (st : String) :
    List Nat → Memo → Bool × Memo
  | [], m => (false, m)
  | i :: cs, m =>
    if minimal inv ret rem i then
      match app i st with
      | none => attempt inv ret app rec rem st cs m
      | some st' =>
        let r := rec (rem.erase i) st' m
        if r.1 then (true, r.2) else attempt inv ret app rec rem st cs r.2
    else attempt inv ret app rec rem st cs m

def search (inv ret : Nat → Nat) (app : Nat → String → Option String) :
    Nat → List Nat → String → Memo → Bool × Memo
  | 0, rem, _, m => (rem.isEmpty, m)
  | f + 1, rem, st, m =>
    if rem.isEmpty then (true, m)
    else if m.contains (rem, st) then (false, m)
    else
      let r := attempt inv ret app (search inv ret app f) rem st rem m
      if r.1 then r else (false, r.2.insert (rem, st))

end Lin

def linearizable (evs : Array Ev) (init : String) : Bool :=
  (Lin.search (fun i => (evs[i]!).inv) (fun i => (evs[i]!).ret) (fun i => (evs[i]!).apply)
    evs.size (List.range evs.size) init {}).1

/-- the specification the checker decides: some permutation of all recorded calls is a legal sequential
execution from `init` and respects the real-time order of the recorded invocation / response numbers -/
def Linearizable (evs : Array Ev) (init : String) : Prop :=
  Lin.Lin (fun i => (evs[i]!).inv) (fun i => (evs[i]!).ret) (fun i => (evs[i]!).apply) (List.range evs.size) init

end Specter.C18
