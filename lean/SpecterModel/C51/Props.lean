import SpecterModel.C51.Model
/-!
# C51 — Clients are offered at most three distinct gateway endpoints

For ALL local addresses, successor lists (with nil entries and repeated addresses = virtual nodes of one
physical node) and ALL contents of the destination records.
-/
namespace Specter.C51

/-! ## `MakeSuccListByAddress` -/

theorem succLoop_shape (m : Nat) (ss : List (Option String)) (acc : List String) :
    ∃ t, succLoop m ss acc = acc ++ t ∧ t.Sublist (ss.filterMap id) := by
  induction ss generalizing acc with
  | nil => exact ⟨[], by simp [succLoop], by simp⟩
  | cons s rest ih =>
    unfold succLoop
    by_cases hlen : acc.length ≥ m
    · exact ⟨[], by simp [hlen], by simp⟩
    · simp only [hlen, if_false]
      cases s with
      | none => simpa using ih acc
      | some a =>
        by_cases hm : a ∈ acc
        · simp only [hm, if_true]
          obtain ⟨t, h1, h2⟩ := ih acc
          exact ⟨t, h1, by simpa using h2.trans (List.sublist_cons_self a _)⟩
        · simp only [hm, if_false]
          obtain ⟨t, h1, h2⟩ := ih (acc ++ [a])
          exact ⟨a :: t, by simp [h1], by simpa using h2⟩

theorem succLoop_nodup (m : Nat) (ss : List (Option String)) (acc : List String) (h : acc.Nodup) :
    (succLoop m ss acc).Nodup := by
  induction ss generalizing acc with
  | nil => simpa [succLoop]
  | cons s rest ih =>
    unfold succLoop
    by_cases hlen : acc.length ≥ m
    · simpa [hlen]
    · simp only [hlen, if_false]
      cases s with
      | none => exact ih acc h
      | some a =>
        by_cases hm : a ∈ acc
        · simp only [hm, if_true]; exact ih acc h
        · simp only [hm, if_false]
          apply ih
          rw [List.nodup_append]
          refine ⟨h, by simp, ?_⟩
          intro x hx y hy
          simp at hy; subst hy
          intro he; subst he; exact hm hx

theorem succLoop_len (m : Nat) (ss : List (Option String)) (acc : List String) (h : acc.length ≤ m) :
    (succLoop m ss acc).length ≤ m := by
  induction ss generalizing acc with
  | nil => simpa [succLoop]
  | cons s rest ih =>
    unfold succLoop
    by_cases hlen : acc.length ≥ m
    · simpa [hlen]
    · simp only [hlen, if_false]
      cases s with
      | none => exact ih acc h
      | some a =>
        by_cases hm : a ∈ acc
        · simp only [hm, if_true]; exact ih acc h
        · simp only [hm, if_false]; apply ih; simp; omega

/-- the list is only cut short when it is full: below the bound every live successor address is in it. -/
theorem succLoop_complete (m : Nat) (ss : List (Option String)) (acc : List String)
    (hlt : (succLoop m ss acc).length < m) : ∀ a, some a ∈ ss → a ∈ succLoop m ss acc := by
  induction ss generalizing acc with
  | nil => intro a h; cases h
  | cons s rest ih =>
    intro a ha
    have hacc : ∀ acc', (∀ x ∈ acc, x ∈ acc') → ∀ x ∈ acc, x ∈ succLoop m rest acc' := by
      intro acc' hsub x hx
      obtain ⟨t, h1, _⟩ := succLoop_shape m rest acc'
      rw [h1]; exact List.mem_append_left _ (hsub x hx)
    unfold succLoop at hlt ⊢
    by_cases hlen : acc.length ≥ m
    · simp [hlen] at hlt; omega
    · simp only [hlen, if_false] at hlt ⊢
      cases s with
      | none =>
        simp only at hlt ⊢
        rcases List.mem_cons.mp ha with h | h
        · cases h
        · exact ih acc hlt a h
      | some b =>
        by_cases hm : b ∈ acc
        · simp only [hm, if_true] at hlt ⊢
          rcases List.mem_cons.mp ha with h | h
          · injection h with h; subst h; exact hacc acc (fun _ h => h) a hm
          · exact ih acc hlt a h
        · simp only [hm, if_false] at hlt ⊢
          rcases List.mem_cons.mp ha with h | h
          · injection h with h; subst h
            obtain ⟨t, h1, _⟩ := succLoop_shape m rest (acc ++ [a])
            rw [h1]; simp
          · exact ih (acc ++ [b]) hlt a h

/-- C51 (selection): the candidates start with the node itself, are pairwise distinct physical nodes
(addresses), at most `maxLen`, taken in successor order, and as many as available up to the bound. -/
theorem makeSuccList_spec (self : String) (succs : List (Option String)) (m : Nat) (hm : 1 ≤ m) :
    let l := makeSuccList self succs m
    l.head? = some self ∧ l.Nodup ∧ l.length ≤ m
    ∧ (∃ t, l = self :: t ∧ t.Sublist (succs.filterMap id))
    ∧ (l.length < m → ∀ a, some a ∈ succs → a ∈ l) := by
  intro l
  obtain ⟨t, h1, h2⟩ := succLoop_shape m succs [self]
  have hl : l = self :: t := by simpa [l, makeSuccList] using h1
  refine ⟨by simp [hl], ?_, ?_, ⟨t, hl, h2⟩, ?_⟩
  · exact succLoop_nodup m succs [self] (by simp)
  · exact succLoop_len m succs [self] (by simpa using hm)
  · exact succLoop_complete m succs [self]

/-! ## `GetNodes` -/

theorem lookupAll_ok_iff (dest : String → Rec) (l : List String) (ts : List (Option String)) :
    lookupAll dest l = .ok ts ↔ l.map dest = ts.map Rec.found := by
  induction l generalizing ts with
  | nil => cases ts <;> simp [lookupAll]
  | cons a rest ih =>
    unfold lookupAll lookup
    cases hd : dest a with
    | found t =>
      cases hr : lookupAll dest rest with
      | error e =>
        simp only [List.map_cons, hd]
        constructor
        · intro h; cases h
        · intro h
          cases ts with
          | nil => cases h
          | cons t' ts' =>
            simp only [List.map_cons, List.cons.injEq] at h
            have := (ih ts').mpr h.2
            rw [hr] at this; cases this
      | ok ts0 =>
        simp only [List.map_cons, hd]
        have ih0 := (ih ts0).mp hr
        constructor
        · intro h; injection h with h; subst h; simp [ih0]
        · intro h
          cases ts with
          | nil => cases h
          | cons t' ts' =>
            simp only [List.map_cons, List.cons.injEq, Rec.found.injEq] at h
            have h2 := (ih ts').mpr h.2
            rw [hr] at h2; injection h2 with h2
            rw [h.1, h2]
    | missing => cases ts <;> simp [hd]
    | undecodable => cases ts <;> simp [hd]
    | getError r => cases ts <;> simp [hd]

/-- C51: a successful answer has at most three entries, one per distinct physical candidate starting with
the node itself, each being the Tunnel field of that node's published destination record. -/
theorem getNodes_ok (m : Nat) (hm : 1 ≤ m) (self : String) (succs : Option (List (Option String)))
    (dest : String → Rec) (ts : List (Option String)) (h : getNodes m self succs dest = .ok ts) :
    ∃ ss, succs = some ss
      ∧ ts.length = (makeSuccList self ss m).length ∧ ts.length ≤ m ∧ 1 ≤ ts.length
      ∧ (makeSuccList self ss m).Nodup
      ∧ (∀ i (hi : i < ts.length) (hi' : i < (makeSuccList self ss m).length),
            dest ((makeSuccList self ss m)[i]) = .found ts[i])
      ∧ dest self = .found (ts.head?.join) := by
  cases succs with
  | none => simp [getNodes] at h
  | some ss =>
    simp only [getNodes] at h
    have hmap := (lookupAll_ok_iff dest _ ts).mp h
    have hlen : ts.length = (makeSuccList self ss m).length := by
      have := congrArg List.length hmap; simpa using this.symm
    obtain ⟨hhead, hnd, hle, ⟨t, hl, _⟩, _⟩ := makeSuccList_spec self ss m hm
    refine ⟨ss, rfl, hlen, by omega, by rw [hlen, hl]; simp, hnd, ?_, ?_⟩
    · intro i hi hi'
      have := congrArg (fun l => l[i]?) hmap
      simp only [List.getElem?_map, List.getElem?_eq_getElem hi, List.getElem?_eq_getElem hi', Option.map_some] at this
      injection this
    · rw [hl] at hmap
      cases ts with
      | nil => simp at hmap
      | cons t0 ts' => simp at hmap; simp [hmap.1]

/-- C51: if any candidate's destination record is missing / undecodable / unreadable the call fails —
there is no partial answer. -/
theorem getNodes_fails_if_any_record_missing (m : Nat) (self : String) (ss : List (Option String))
    (dest : String → Rec) (a : String) (ha : a ∈ makeSuccList self ss m) (hbad : ∀ t, dest a ≠ .found t) :
    ∃ e, getNodes m self (some ss) dest = .error e := by
  cases h : getNodes m self (some ss) dest with
  | error e => exact ⟨e, rfl⟩
  | ok ts =>
    exfalso
    simp only [getNodes] at h
    have hmap := (lookupAll_ok_iff dest _ ts).mp h
    have : dest a ∈ (makeSuccList self ss m).map dest := List.mem_map_of_mem ha
    rw [hmap] at this
    obtain ⟨t, _, ht⟩ := List.mem_map.mp this
    exact hbad t ht.symm

/-- conversely, when every candidate has a decodable record the call succeeds. -/
theorem getNodes_succeeds (m : Nat) (self : String) (ss : List (Option String)) (dest : String → Rec)
    (hall : ∀ a ∈ makeSuccList self ss m, ∃ t, dest a = .found t) :
    ∃ ts, getNodes m self (some ss) dest = .ok ts := by
  simp only [getNodes]
  generalize makeSuccList self ss m = l at hall
  induction l with
  | nil => exact ⟨[], rfl⟩
  | cons a rest ih =>
    obtain ⟨t, ht⟩ := hall a (by simp)
    obtain ⟨ts, hts⟩ := ih (fun x hx => hall x (by simp [hx]))
    exact ⟨t :: ts, by simp [lookupAll, lookup, ht, hts]⟩

theorem numLinks_eq : numLinks = 3 := by decide

/-- the bound of the property statement, on the generated constant. -/
theorem at_most_three (self : String) (succs : Option (List (Option String))) (dest : String → Rec)
    (ts : List (Option String)) (h : getNodes numLinks self succs dest = .ok ts) : ts.length ≤ 3 := by
  obtain ⟨_, _, _, hle, _⟩ := getNodes_ok numLinks (by rw [numLinks_eq]; omega) self succs dest ts h
  rw [numLinks_eq] at hle; exact hle

/-! ## non-vacuity -/

deriving instance DecidableEq for Except

private def d : String → Rec
  | "a" => .found (some "ta") | "b" => .found (some "tb") | "c" => .found none | "d" => .missing | _ => .missing

example : getNodes 3 "a" (some [some "a", some "b", none, some "b", some "c", some "d"]) d
    = .ok [some "ta", some "tb", none] := by decide
example : getNodes 3 "a" (some [some "b", some "d", some "c"]) d = .error (.missing "d") := by decide
example : getNodes 3 "a" (some [some "a", some "a"]) d = .ok [some "ta"] := by decide
example : makeSuccList "a" [some "b", some "a", some "b"] 3 = ["a", "b"] := by decide
example : "d" ∈ makeSuccList "a" [some "b", some "d", some "c"] 3 ∧ d "d" = .missing := by decide

end Specter.C51
