import SpecterModel.C21.Drv

def main : IO Unit := Specter.C21.main
