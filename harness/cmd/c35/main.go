// C35 correspondence: requests are parsed by the real net/http reader, served by the real gateway proxy
// handler chain (chi router, httputil.ReverseProxy, proxyRewrite, overlayDialer) and forwarded by the real
// http.Transport over an in-memory connection to a recording backend that plays the tunnel client.
// Each line carries what the backend received for the gateway-asserted / stripped headers.
package main

import (
	"bufio"
	"context"
	"crypto/tls"
	"fmt"
	"net"
	"net/http"
	"net/http/httptest"
	"net/url"
	"sort"
	"strconv"
	"strings"
	"sync"

	"go.miragespace.co/specter/gateway"
	"golang.org/x/net/http/httpguts"
	"go.miragespace.co/specter/spec/protocol"
	"verif/harness/hlib"
)

// ---------- the tunnel client side: an HTTP/1.1 server behind in-memory pipes ----------
type pipeListener struct{ ch chan net.Conn }

func (l *pipeListener) Accept() (net.Conn, error) {
	c, ok := <-l.ch
	if !ok {
		return nil, net.ErrClosed
	}
	return c, nil
}
func (l *pipeListener) Close() error   { return nil }
func (l *pipeListener) Addr() net.Addr { return &net.TCPAddr{IP: net.IPv4(127, 0, 0, 1), Port: 1} }

type fakeTun struct {
	l     *pipeListener
	dials []string
}

func (t *fakeTun) Identity() *protocol.Node { return &protocol.Node{Address: "gateway.internal:1"} }
func (t *fakeTun) DialClient(ctx context.Context, link *protocol.Link) (net.Conn, error) {
	t.dials = append(t.dials, link.GetHostname())
	a, b := net.Pipe()
	t.l.ch <- b
	return a, nil
}
func (t *fakeTun) DialInternal(ctx context.Context, n *protocol.Node) (net.Conn, error) {
	return nil, fmt.Errorf("unexpected DialInternal")
}

type seen struct {
	Header http.Header
	Host   string
}

var watch = []string{"X-Forwarded-For", "X-Forwarded-Host", "X-Forwarded-Proto", "True-Client-Ip", "X-Real-Ip"}
var watchTok = []string{"xff", "xfh", "xfp", "tci", "xri"}

func vals(vs []string) string {
	if len(vs) == 0 {
		return "_"
	}
	xs := make([]string, len(vs))
	for i, v := range vs {
		xs[i] = hlib.HexS(v)
	}
	return strings.Join(xs, ",")
}

func hdrTok(h http.Header) string {
	if len(h) == 0 {
		return "_"
	}
	keys := make([]string, 0, len(h))
	for k := range h {
		keys = append(keys, k)
	}
	sort.Strings(keys)
	xs := make([]string, len(keys))
	for i, k := range keys {
		xs[i] = hlib.HexS(k) + ":" + vals(h[k])
	}
	return strings.Join(xs, ";")
}

var roots = []string{"example.com", "specter.dev"}

type world struct {
	ft       *fakeTun
	handlers map[int]http.Handler
	mu       sync.Mutex
	last     *seen // what the tunnel backend received for the request in flight
}

func newWorld() *world {
	w := &world{ft: &fakeTun{l: &pipeListener{ch: make(chan net.Conn, 16)}}, handlers: map[int]http.Handler{}}
	srv := &http.Server{Handler: http.HandlerFunc(func(rw http.ResponseWriter, r *http.Request) {
		w.mu.Lock()
		w.last = &seen{Header: r.Header.Clone(), Host: r.Host}
		w.mu.Unlock()
		rw.Header().Set("X-Backend", "reached")
		rw.WriteHeader(200)
	})}
	go srv.Serve(w.ft.l)
	return w
}

func (w *world) handler(port int) http.Handler {
	h, ok := w.handlers[port]
	if !ok {
		h = gateway.VerifProxyHandler(w.ft, roots, port)
		w.handlers[port] = h
	}
	return h
}

// one request: raw HTTP/1.1 text is parsed by net/http; proto / TLS / peer are then set as a real server would.
type reqSpec struct {
	raw    string
	proto  int    // 1, 2, 3
	tls    bool   //
	sni    string // TLS server name
	remote string // RemoteAddr
	port   int
}

func hostnameOf(h string) string { return (&url.URL{Host: h}).Hostname() }

var r *hlib.Run

func (w *world) run(s reqSpec) {
	req, err := http.ReadRequest(bufio.NewReader(strings.NewReader(s.raw)))
	if err != nil {
		r.Count("skip:net/http refuses the request text")
		return
	}
	// net/http's server refuses invalid header names / values before any handler runs (server.go readRequest)
	for k, vv := range req.Header {
		if !httpguts.ValidHeaderFieldName(k) {
			r.Count("skip:http.Server refuses the header name")
			return
		}
		for _, v := range vv {
			if !httpguts.ValidHeaderFieldValue(v) {
				r.Count("skip:http.Server refuses the header value")
				return
			}
		}
	}
	switch s.proto {
	case 2:
		req.Proto, req.ProtoMajor, req.ProtoMinor = "HTTP/2.0", 2, 0
	case 3:
		req.Proto, req.ProtoMajor, req.ProtoMinor = "HTTP/3.0", 3, 0
	}
	if s.tls {
		req.TLS = &tls.ConnectionState{ServerName: s.sni, HandshakeComplete: true}
	}
	req.RemoteAddr = s.remote
	inbound := req.Header.Clone()
	inHost := req.Host
	peer := "!"
	if ip, _, err := net.SplitHostPort(s.remote); err == nil {
		peer = hlib.HexS(ip)
	}
	lhs := fmt.Sprintf("fwd %d %s %s %s %s %s %s %d %s", s.proto, hlib.B(s.tls), hlib.HexS(s.sni), hlib.HexS(inHost),
		hlib.HexS(hostnameOf(inHost)), hlib.HexS(hostnameOf(s.sni)), peer, s.port, hdrTok(inbound))
	rec := httptest.NewRecorder()
	res := func() (out string) {
		defer func() {
			if p := recover(); p != nil {
				out = "panic"
			}
		}()
		w.handler(s.port).ServeHTTP(rec, req)
		return ""
	}()
	w.mu.Lock()
	sn := w.last
	w.last = nil
	w.mu.Unlock()
	if res == "" {
		if sn == nil {
			res = "notforwarded:" + strconv.Itoa(rec.Code)
		} else {
			parts := []string{}
			for i, k := range watch {
				parts = append(parts, watchTok[i]+"="+vals(sn.Header[k]))
			}
			parts = append(parts, "host="+hlib.HexS(sn.Host))
			res = strings.Join(parts, " ")
			for k := range sn.Header {
				if strings.HasPrefix(k, "X-Forwarded-") || k == "Forwarded" {
					known := false
					for _, wk := range watch {
						known = known || wk == k
					}
					if !known {
						r.Count("observed:passed-through:" + k)
					}
				}
			}
		}
	}
	r.Emit(lhs, res)
	r.Case(lhs)
	r.Count(fmt.Sprintf("proto:%d tls:%v", s.proto, s.tls))
	if strings.HasPrefix(res, "notforwarded") {
		r.Count("result:" + res)
	} else {
		r.Count("result:forwarded")
	}
	for _, k := range watch {
		if len(inbound[k]) > 0 {
			r.Count("inbound-spoofed:" + k)
		}
	}
	if s.tls {
		// connection coalescing (HTTP/2, HTTP/3) / domain fronting (HTTP/1.1): authority vs the connection's SNI
		rel := "same-as-sni"
		if hostnameOf(inHost) != hostnameOf(s.sni) {
			rel = "differs-from-sni"
		}
		r.Count(fmt.Sprintf("authority:%s proto:%d", rel, s.proto))
	}
	if s.port == 443 {
		r.Count("port:443")
	} else {
		r.Count("port:other")
	}
}

// ---------- generators ----------
func mixCase(rng *hlib.Rng, s string) string {
	b := []byte(s)
	for i, c := range b {
		if ((c >= 'a' && c <= 'z') || (c >= 'A' && c <= 'Z')) && rng.Intn(3) == 0 {
			b[i] = c ^ 0x20
		}
	}
	return string(b)
}

var spoofNames = []string{"X-Forwarded-For", "X-Forwarded-Host", "X-Forwarded-Proto", "True-Client-IP", "X-Real-IP",
	"Forwarded", "X-Forwarded-Port", "X-Forwarded-Server", "X-Forwarded-Ssl", "X_Forwarded_For", "X-Forwarded-For2", "X-Real-Ip6"}
var benign = []string{"Accept", "User-Agent", "Cookie", "X-Request-Id", "Accept-Encoding", "Cache-Control", "Te", "Upgrade", "Keep-Alive"}
var spoofVals = []string{"6.6.6.6", "10.0.0.1, 6.6.6.6", "evil.example.com", "http", "https", "for=6.6.6.6;proto=http", "127.0.0.1", "::1", "unknown", "", "a,b", "8443"}
var tunnelHosts = []string{"app.example.com", "web.specter.dev", "a.b.c.example.com", "x1.y2.example.org", "my-app.example.com", "APP.Example.Com"}
var ports = []int{443, 8443, 80, 4433, 1, 65535}
var remotes = []string{"198.51.100.7:51234", "10.1.2.3:1", "[2001:db8::1]:443", "[::1]:9", "127.0.0.1:65535", "[fe80::1%eth0]:5", "192.0.2.1", "", "pipe", "1.2.3.4:5:6"}

func genReq(rng *hlib.Rng) reqSpec {
	var s reqSpec
	host := hlib.Pick(rng, tunnelHosts)
	if rng.Intn(4) == 0 {
		host = mixCase(rng, host)
	}
	s.sni = host
	hostHdr := host
	switch rng.Intn(8) {
	case 0:
		hostHdr = host + ":" + strconv.Itoa(hlib.Pick(rng, ports))
	case 1: // connection coalescing / domain fronting: Host differs from SNI
		hostHdr = hlib.Pick(rng, tunnelHosts)
	case 2:
		hostHdr = hlib.Pick(rng, tunnelHosts) + ":8443"
	}
	s.proto = 1 + rng.Intn(3)
	s.tls = rng.Intn(10) != 0
	if s.proto == 3 {
		s.tls = true
	}
	if rng.Intn(40) == 0 {
		s.sni = "" // TLS without SNI
	}
	s.port = hlib.Pick(rng, ports)
	if rng.Intn(3) == 0 {
		s.port = 443
	}
	s.remote = hlib.Pick(rng, remotes[:5])
	if rng.Intn(12) == 0 {
		s.remote = hlib.Pick(rng, remotes)
	}
	var sb strings.Builder
	methods := []string{"GET", "POST", "HEAD", "PUT", "OPTIONS"}
	paths := []string{"/", "/a/b?x=1", "/x;y", "/%2e%2e/", "/q?a=1;b=2", "/index.html", "/api/v1/items"}
	if rng.Intn(50) == 0 {
		paths = []string{"/specter-cgi/x"} // answered by the gateway itself, never forwarded
	}
	sb.WriteString(hlib.Pick(rng, methods) + " " + hlib.Pick(rng, paths) + " HTTP/1.1\r\n")
	sb.WriteString(mixCase(rng, "Host") + ": " + hostHdr + "\r\n")
	n := rng.Intn(7)
	for i := 0; i < n; i++ {
		var name, val string
		switch rng.Intn(4) {
		case 0:
			name, val = hlib.Pick(rng, benign), "v"+strconv.Itoa(rng.Intn(9))
		default:
			name, val = hlib.Pick(rng, spoofNames), hlib.Pick(rng, spoofVals)
		}
		switch rng.Intn(5) {
		case 0:
			name = strings.ToLower(name)
		case 1:
			name = strings.ToUpper(name)
		case 2:
			name = mixCase(rng, name)
		}
		if rng.Intn(30) == 0 {
			name += " " // malformed name: net/http refuses
		}
		sb.WriteString(name + ": " + val + "\r\n")
	}
	if rng.Intn(6) == 0 { // hop-by-hop games: ask the proxy to drop / keep forwarding headers
		sb.WriteString("Connection: " + hlib.Pick(rng, []string{"X-Forwarded-For", "close, X-Real-IP", "X-Forwarded-Host, X-Forwarded-Proto", "keep-alive", "Upgrade"}) + "\r\n")
	}
	sb.WriteString("\r\n")
	s.raw = sb.String()
	return s
}

// genCoalesced: one TLS / QUIC connection (fixed SNI, peer, protocol, gateway port) carrying several requests, as
// HTTP/2 and HTTP/3 clients do when a certificate covers several hosts: the first request is for the host the
// connection was opened for, the following ones for other hosts (other tunnels under the same root, with or without
// an explicit port, mixed case). HTTP/1.1 keep-alive connections reusing a connection for another Host are included.
func genCoalesced(rng *hlib.Rng) []reqSpec {
	base := genReq(rng)
	base.tls = true
	base.proto = 1 + rng.Intn(3)
	if rng.Intn(4) != 0 {
		base.proto = 2 + rng.Intn(2)
	}
	first := hlib.Pick(rng, tunnelHosts)
	base.sni = first
	n := 2 + rng.Intn(3)
	out := make([]reqSpec, 0, n)
	for j := 0; j < n; j++ {
		s := genReq(rng) // fresh method / path / header set
		s.proto, s.tls, s.sni, s.remote, s.port = base.proto, true, base.sni, base.remote, base.port
		authority := first
		if j > 0 {
			authority = hlib.Pick(rng, tunnelHosts)
			switch rng.Intn(6) {
			case 0:
				authority = mixCase(rng, authority)
			case 1:
				authority += ":" + strconv.Itoa(base.port)
			case 2:
				authority += ":" + strconv.Itoa(hlib.Pick(rng, ports))
			}
		}
		// replace the Host line of the generated request text
		lines := strings.SplitN(s.raw, "\r\n", 3)
		s.raw = lines[0] + "\r\nHost: " + authority + "\r\n" + lines[2]
		out = append(out, s)
	}
	return out
}

func main() {
	r = hlib.Start()
	r.Rule = "case = one request (proto 1.1/2/3, TLS+SNI or plain, Host, peer address, gateway port, inbound header set) served by the real proxy handler chain and received by a recording tunnel backend; non-trivial = distinct request line; header sets mix spoofed forwarding headers (duplicated, mixed-case names, listed in Connection) with benign ones; about one request in three belongs to a coalesced connection (one SNI / peer / protocol, several authorities)"
	rng := hlib.NewRng(hlib.NewRng(r.Seed).U64()) // re-seed through one output: consecutive seeds must not give shifted copies of one stream
	w := newWorld()
	if r.Replay != "" {
		for _, t := range r.ReplayLines() {
			if t[0] != "fwd" || len(t) != 10 {
				continue
			}
			// rebuild the request text from the recorded (already canonical) header list
			var sb strings.Builder
			sb.WriteString("GET / HTTP/1.1\r\nHost: " + string(hlib.UnHex(t[4])) + "\r\n")
			if t[9] != "_" {
				for _, kv := range strings.Split(t[9], ";") {
					p := strings.SplitN(kv, ":", 2)
					if p[1] == "_" {
						continue
					}
					for _, v := range strings.Split(p[1], ",") {
						sb.WriteString(string(hlib.UnHex(p[0])) + ": " + string(hlib.UnHex(v)) + "\r\n")
					}
				}
			}
			sb.WriteString("\r\n")
			pr, _ := strconv.Atoi(t[1])
			port, _ := strconv.Atoi(t[8])
			remote := "!"
			if t[7] != "!" {
				remote = net.JoinHostPort(string(hlib.UnHex(t[7])), "4711")
			}
			w.run(reqSpec{raw: sb.String(), proto: pr, tls: t[2] == "true", sni: string(hlib.UnHex(t[3])), remote: remote, port: port})
		}
		r.Finish()
		return
	}
	n := 6000
	if r.Thorough() {
		n = 120000
	}
	for i := 0; i < n; i++ {
		if rng.Intn(8) == 0 {
			for _, s := range genCoalesced(rng) {
				w.run(s)
				i++
			}
			continue
		}
		w.run(genReq(rng))
	}
	r.Extra["tunnel_dials"] = len(w.ft.dials)
	r.Finish()
}
