//go:build verif

package chord

import (
	"go.miragespace.co/specter/spec/chord"
)

// VerifNodeState exposes the unexported nodeState (C13). Accessors only.
type VerifNodeState struct{ s *nodeState }

func VerifNewNodeState(initial chord.State) *VerifNodeState {
	return &VerifNodeState{s: newNodeState(initial)}
}

func (v *VerifNodeState) Transition(exp, nxt chord.State) (chord.State, bool) {
	return v.s.Transition(exp, nxt)
}
func (v *VerifNodeState) Set(val chord.State)    { v.s.Set(val) }
func (v *VerifNodeState) Get() chord.State       { return v.s.Get() }
func (v *VerifNodeState) History() []chord.State { return v.s.History() }

// Word returns the raw packed atomic word.
func (v *VerifNodeState) Word() uint64 { return v.s.state.Load() }

// HistoryKV ranges the history map with its keys.
func (v *VerifNodeState) HistoryKV() (keys []uint64, vals []chord.State) {
	v.s.history.Range(func(k uint64, st chord.State) bool {
		keys = append(keys, k)
		vals = append(vals, st)
		return true
	})
	return
}
