import SpecterModel.C35.Model
/-!
# C35 — Forwarded HTTP requests carry only gateway-asserted client headers

All theorems quantify over EVERY outbound header map `out` that `httputil.ReverseProxy` may hand to
`proxyRewrite` (so they do not depend on the library having stripped anything), every inbound request
(`Req`), gateway port and `Hostname()` function. The operation list is the generated one.
-/
namespace Specter.C35
open Gen.C35

theorem foldl_del (ks : List String) (h : Hdr) (x : String) :
    (ks.foldl Hdr.del h) x = if x ∈ ks then [] else h x := by
  induction ks generalizing h with
  | nil => simp
  | cons k t ih =>
    simp only [List.foldl_cons, ih, List.mem_cons, Hdr.del]
    by_cases a : x = k <;> by_cases b : x ∈ t <;> simp [a, b]

/-- unfold the generated operation list and decide header-name (string literal) equalities -/
macro "hdr_simp" : tactic => `(tactic|
  simp [rewrite, rewriteOps, delHeaders, applyOp, setXForwarded, foldl_del, Hdr.set, Hdr.del, wantHost,
        XFF, XFH, XFP, TCI, XRI, *])

/-- X-Forwarded-For is exactly the connecting peer's IP: no client-supplied element is kept. -/
theorem xff_peer_only (e : Env) (i : Req) (out : Hdr) (ip : String) (hp : i.peer = some ip) :
    rewrite e i out XFF = [ip] := by
  hdr_simp

/-- No peer address (unparsable RemoteAddr): the header is absent rather than client-controlled. -/
theorem xff_absent_without_peer (e : Env) (i : Req) (out : Hdr) (hp : i.peer = none) :
    rewrite e i out XFF = [] := by
  hdr_simp

theorem xfproto_https (e : Env) (i : Req) (out : Hdr) : rewrite e i out XFP = ["https"] := by
  hdr_simp

/-- X-Forwarded-Host = requested host name, with the gateway port unless it is 443. -/
theorem xfhost_requested (e : Env) (i : Req) (out : Hdr) : rewrite e i out XFH = [wantHost e i] := by
  hdr_simp

/-- which host is "requested": Host for HTTP/2+, SNI for HTTP/1.1 over TLS, Host otherwise — always through `.Hostname()` -/
theorem requested_host_rule (e : Env) (i : Req) :
    urlHost e i = e.hostnameOf (if 2 ≤ i.protoMajor then i.host else (i.tls.getD i.host)) := by
  unfold urlHost; cases i.tls <;> simp

theorem client_ip_headers_removed (e : Env) (i : Req) (out : Hdr) :
    rewrite e i out TCI = [] ∧ rewrite e i out XRI = [] := by
  constructor <;> cases hp : i.peer <;> hdr_simp

def guarded : List String := [XFF, XFH, XFP, TCI, XRI]

/-- Non-interference: the five guarded headers of the forwarded request do not depend on ANY header the
client sent (nor on what the library left in place): two arbitrary outbound maps give the same values. -/
theorem guarded_independent_of_client_headers (e : Env) (i : Req) (out₁ out₂ : Hdr) (k : String)
    (hk : k ∈ guarded) : rewrite e i out₁ k = rewrite e i out₂ k := by
  have t1 := client_ip_headers_removed e i out₁
  have t2 := client_ip_headers_removed e i out₂
  simp only [guarded, List.mem_cons, List.mem_nil_iff, or_false] at hk
  rcases hk with rfl | rfl | rfl | rfl | rfl
  · cases hp : i.peer with
    | none => rw [xff_absent_without_peer e i out₁ hp, xff_absent_without_peer e i out₂ hp]
    | some ip => rw [xff_peer_only e i out₁ ip hp, xff_peer_only e i out₂ ip hp]
  · rw [xfhost_requested, xfhost_requested]
  · rw [xfproto_https, xfproto_https]
  · rw [t1.1, t2.1]
  · rw [t1.2, t2.2]

/-- Frame: every other header is passed through untouched by `proxyRewrite` (this is why e.g. a client
`X-Forwarded-Port` reaches the tunnel: recorded by the harness as an observation). -/
theorem other_headers_untouched (e : Env) (i : Req) (out : Hdr) (k : String) (hk : k ∉ guarded) :
    rewrite e i out k = out k := by
  simp only [guarded, List.mem_cons, List.mem_nil_iff, or_false, not_or, XFF, XFH, XFP, TCI, XRI] at hk
  obtain ⟨h1, h2, h3, h4, h5⟩ := hk
  cases hp : i.peer <;> hdr_simp

/-! ## Non-vacuity: a spoofing request over HTTP/1.1+TLS on port 8443 -/
private def spoof : Hdr := Hdr.ofList [(XFF, ["6.6.6.6", "10.0.0.1"]), (XFH, ["evil.example"]), (XFP, ["http"]),
  (TCI, ["6.6.6.6"]), (XRI, ["6.6.6.6"]), ("X-Forwarded-Port", ["1"])]
private def env1 : Env := ⟨8443, id⟩
private def req1 : Req := ⟨1, some "app.example.com", "other.example.com", some "198.51.100.7"⟩

example : rewrite env1 req1 spoof XFF = ["198.51.100.7"] := by decide
example : rewrite env1 req1 spoof XFH = ["app.example.com:8443"] := by decide
example : rewrite ⟨443, id⟩ { req1 with protoMajor := 2 } spoof XFH = ["other.example.com"] := by decide
example : rewrite env1 req1 spoof XFP = ["https"] ∧ rewrite env1 req1 spoof TCI = [] ∧ rewrite env1 req1 spoof XRI = [] := by decide
example : spoof XFF = ["6.6.6.6", "10.0.0.1"] ∧ spoof TCI = ["6.6.6.6"] := by decide
example : rewrite env1 req1 spoof "X-Forwarded-Port" = ["1"] := by decide

end Specter.C35
