import SpecterModel.Util
import SpecterModel.C51.Model
/-!
C51 line-protocol driver.
`getnodes a<selfHex> <succs> <records> => ok <t<hex>|nil>,… | err <succ|missing|undecodable|kv0|kv1> [a<hex>]`
succs   : `ERR` (GetSuccessors failed) | `-` | comma list of `n` (nil VNode) / `a<addrHex>`
records : `-` | comma list `a<addrHex>=<F<tunnelHex>|f|M|U|X|Y>` (unlisted address = nothing stored = M)
-/
namespace Specter.C51
open Specter.Util

def hexStr (s : String) : Option String :=
  if s.isEmpty then some "" else hexToAscii s

def parseAddr (t : String) : Option String :=
  if t.startsWith "a" then hexStr (t.drop 1).toString else none

def parseSuccs (t : String) : Option (Option (List (Option String))) :=
  if t = "ERR" then some none
  else if t = "-" then some (some [])
  else (t.splitOn ",").mapM (fun x => if x = "n" then some none else (parseAddr x).map some) |>.map some

def parseRec (t : String) : Option Rec :=
  if t = "f" then some (.found none)
  else if t = "M" then some .missing
  else if t = "U" then some .undecodable
  else if t = "X" then some (.getError false)
  else if t = "Y" then some (.getError true)
  else if t.startsWith "F" then (hexStr (t.drop 1).toString).map (fun a => .found (some a))
  else none

def parseRecords (t : String) : Option (List (String × Rec)) :=
  if t = "-" then some []
  else (t.splitOn ",").mapM fun kv =>
    match kv.splitOn "=" with
    | [k, v] => do let a ← parseAddr k; let r ← parseRec v; pure (a, r)
    | _ => none

def destOf (recs : List (String × Rec)) (a : String) : Rec :=
  match recs.find? (·.1 == a) with
  | some (_, r) => r
  | none => .missing

def hexOf (s : String) : String :=
  String.ofList (s.toList.foldr (fun c acc => hexNibble (c.toNat / 16 % 16) :: hexNibble (c.toNat % 16) :: acc) [])

def renderT : Option String → String
  | none => "nil"
  | some a => "t" ++ hexOf a

def render : Except Err (List (Option String)) → String
  | .ok ts => "ok " ++ (if ts.isEmpty then "-" else ",".intercalate (ts.map renderT))
  | .error .succErr => "err succ"
  | .error (.missing a) => "err missing a" ++ hexOf a
  | .error (.undecodable a) => "err undecodable a" ++ hexOf a
  | .error (.kv r a) => (if r then "err kv1 a" else "err kv0 a") ++ hexOf a

/-- The property statement, executable and independent of the loop model: candidates = the first three
distinct addresses of self :: live successors. -/
def specCheck (self : String) (succs : Option (List (Option String))) (recs : List (String × Rec)) (rhs : String) :
    Option String :=
  match succs with
  | none => if rhs.startsWith "ok" then some "answered without a successor list" else none
  | some ss =>
    let cands := ((self :: ss.filterMap id).eraseDups).take 3
    let allFound := cands.all fun a => match destOf recs a with | .found _ => true | _ => false
    if rhs.startsWith "ok " then
      if !allFound then some "answered although a candidate's destination record cannot be found" else
      let want := cands.map fun a => match destOf recs a with | .found t => renderT t | _ => "?"
      if rhs = "ok " ++ ",".intercalate want then none
      else some ("want ok " ++ ",".intercalate want)
    else if allFound then some "failed although every candidate's destination record is published"
    else none

def step (_ : Unit) (toks : List String) (rhs : String) : Unit × Verdict :=
  match toks with
  | ["reset"] => ((), .ok)
  | ["getnodes", selfT, succT, recT] =>
    match parseAddr selfT, parseSuccs succT, parseRecords recT with
    | some self, some succs, some recs =>
      match specCheck self succs recs rhs with
      | some why => ((), .spec why)
      | none =>
        let m := render (getNodes numLinks self succs (destOf recs))
        if m ≠ rhs then ((), .diff m) else ((), .ok)
    | _, _, _ => ((), .bad "getnodes args")
  | _ => ((), .bad "unknown op")

def main : IO Unit := runLoop () step

end Specter.C51
