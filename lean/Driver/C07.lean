import SpecterModel.C07.Drv

def main : IO Unit := Specter.C07.main
