// C42 correspondence: the real transport.StreamRouter fed through fake transports' AcceptStream channels,
// with tagged handlers, vs the Lean dispatch model and the statement oracle.
package main

import (
	"context"
	"fmt"
	"net"
	"runtime"
	"strconv"
	"strings"
	"sync"
	"sync/atomic"
	"time"

	"go.miragespace.co/specter/spec/protocol"
	"go.miragespace.co/specter/spec/transport"
	"go.uber.org/zap"
	"verif/harness/hlib"
)

type fakeTransport struct {
	transport.Transport // nil: any other method panics
	ch                  chan *transport.StreamDelegate
}

func (f *fakeTransport) AcceptStream() <-chan *transport.StreamDelegate { return f.ch }

type outcome struct {
	d   *transport.StreamDelegate
	res string
}

// fakeConn reports Close() as the "closed" outcome of its delegate.
type fakeConn struct {
	net.Conn
	out chan outcome
	d   *transport.StreamDelegate
}

func (c *fakeConn) Close() error {
	c.out <- outcome{c.d, "closed"}
	return nil
}

type op struct {
	kind  string // hc ht ic it par
	k     int
	id    int64 // hc: -1 = physical (nil target); ic: -1 = nil identity
	tag   int
	batch []op // par: registrations (hc / ht) issued concurrently, pairwise distinct (table, kind, target)
}

// item renders one registration of a concurrent batch: <kind>:<id|phys|tun>:<tag>
func (o op) item() string {
	t := "tun"
	if o.kind == "hc" {
		t = "phys"
		if o.id >= 0 {
			t = strconv.FormatInt(o.id, 10)
		}
	}
	return fmt.Sprintf("%d:%s:%d", o.k, t, o.tag)
}

func parseItem(s string) (op, bool) {
	f := strings.Split(s, ":")
	if len(f) != 3 {
		return op{}, false
	}
	k, e1 := strconv.Atoi(f[0])
	tag, e2 := strconv.Atoi(f[2])
	if e1 != nil || e2 != nil {
		return op{}, false
	}
	switch f[1] {
	case "tun":
		return op{kind: "ht", k: k, tag: tag}, true
	case "phys":
		return op{kind: "hc", k: k, id: -1, tag: tag}, true
	}
	id, e := strconv.ParseInt(f[1], 10, 64)
	if e != nil {
		return op{}, false
	}
	return op{kind: "hc", k: k, id: id, tag: tag}, true
}

func (o op) lhs() string {
	switch o.kind {
	case "par":
		items := make([]string, len(o.batch))
		for i, b := range o.batch {
			items[i] = b.item()
		}
		return "par " + strings.Join(items, ",")
	case "hc":
		t := "phys"
		if o.id >= 0 {
			t = strconv.FormatInt(o.id, 10)
		}
		return fmt.Sprintf("hc %d %s %d", o.k, t, o.tag)
	case "ht":
		return fmt.Sprintf("ht %d %d", o.k, o.tag)
	case "ic":
		t := "nil"
		if o.id >= 0 {
			t = strconv.FormatInt(o.id, 10)
		}
		return fmt.Sprintf("ic %d %s", o.k, t)
	default:
		return fmt.Sprintf("it %d", o.k)
	}
}

var r *hlib.Run

func runCase(ops []op) {
	chord := &fakeTransport{ch: make(chan *transport.StreamDelegate)}
	tun := &fakeTransport{ch: make(chan *transport.StreamDelegate)}
	router := transport.NewStreamRouter(zap.NewNop(), chord, tun)
	ctx, cancel := context.WithCancel(context.Background())
	defer cancel()
	router.Accept(ctx)
	out := make(chan outcome, 64)
	handler := func(tag int) transport.StreamHandler {
		return func(d *transport.StreamDelegate) { out <- outcome{d, "h" + strconv.Itoa(tag)} }
	}
	r.Raw("reset")
	nontrivial := false
	key := ""
	for _, o := range ops {
		key += o.lhs() + ";"
		switch o.kind {
		case "hc":
			var target *protocol.Node
			if o.id >= 0 {
				target = &protocol.Node{Id: uint64(o.id), Address: "node"}
			}
			router.HandleChord(protocol.Stream_Type(o.k), target, handler(o.tag))
			r.Emit(o.lhs(), "ok")
			r.Count("register:chord")
		case "ht":
			router.HandleTunnel(protocol.Stream_Type(o.k), handler(o.tag))
			r.Emit(o.lhs(), "ok")
			r.Count("register:tunnel")
		case "par":
			// all registrations of the batch are released together and have all returned before the next op
			var (
				ready  int32
				goFlag int32
				done   sync.WaitGroup
			)
			for _, b := range o.batch {
				b := b
				done.Add(1)
				go func() {
					defer done.Done()
					var target *protocol.Node
					if b.kind == "hc" && b.id >= 0 {
						target = &protocol.Node{Id: uint64(b.id), Address: "node"}
					}
					h := handler(b.tag)
					atomic.AddInt32(&ready, 1)
					for n := 0; atomic.LoadInt32(&goFlag) == 0; n++ {
						if n > 2000 {
							runtime.Gosched()
						}
					}
					if b.kind == "ht" {
						router.HandleTunnel(protocol.Stream_Type(b.k), h)
					} else {
						router.HandleChord(protocol.Stream_Type(b.k), target, h)
					}
				}()
			}
			for atomic.LoadInt32(&ready) != int32(len(o.batch)) {
				runtime.Gosched()
			}
			atomic.StoreInt32(&goFlag, 1)
			done.Wait()
			r.Emit(o.lhs(), "ok")
			r.Count(fmt.Sprintf("register:concurrent-batch:%d", len(o.batch)))
		default:
			d := &transport.StreamDelegate{Kind: protocol.Stream_Type(o.k)}
			if o.id >= 0 {
				d.Identity = &protocol.Node{Id: uint64(o.id), Address: "peer"}
			}
			d.Conn = &fakeConn{out: out, d: d}
			ch := chord.ch
			if o.kind == "it" {
				ch = tun.ch
			}
			res := ""
			select {
			case ch <- d:
				select {
				case oc := <-out:
					res = oc.res
					if oc.d != d {
						res += ":wrong-delegate"
					}
				case <-time.After(10 * time.Second):
					res = "no-outcome"
				}
			case <-time.After(10 * time.Second):
				res = "not-accepted"
			}
			r.Emit(o.lhs(), res)
			nontrivial = true
			if res == "closed" {
				r.Count("incoming:" + o.kind + ":closed")
			} else {
				r.Count("incoming:" + o.kind + ":handled")
			}
		}
	}
	// each stream must be handled / closed exactly once: nothing else may arrive
	extra := 0
	deadline := time.After(2 * time.Millisecond)
loop:
	for {
		select {
		case <-out:
			extra++
		case <-deadline:
			break loop
		}
	}
	r.Emit("end", "extra="+strconv.Itoa(extra))
	if nontrivial {
		r.Case(key)
	} else {
		r.Case("")
	}
}

func main() {
	r = hlib.Start()
	r.Rule = "case = fresh StreamRouter + random sequence (3..24) of registrations (HandleChord virtual/physical, HandleTunnel; kinds 0..5, target ids {0,1,2,3,2^48-1}, re-registration frequent) interleaved with incoming chord streams (kind, identity id or nil identity) and incoming tunnel streams; plus concurrent-registration cases: optional sequential prefix, then 1..2 batches of registrations with pairwise distinct (table, kind, target) released together from separate goroutines (1..3 kinds x 0..6 virtual ids, sometimes physical / tunnel), each batch followed by a stream for every registration of the batch and a few others; outcome = tag of the handler invoked with that very delegate, or closed; non-trivial = at least one incoming stream"
	rng := hlib.NewRng(r.Seed)
	if r.Replay != "" {
		var ops []op
		flush := func() {
			if len(ops) > 0 {
				runCase(ops)
			}
			ops = nil
		}
		for _, t := range r.ReplayLines() {
			pi := func(s string) int64 {
				if s == "phys" || s == "nil" {
					return -1
				}
				v, _ := strconv.ParseInt(s, 10, 64)
				return v
			}
			switch t[0] {
			case "reset":
				flush()
			case "hc":
				ops = append(ops, op{kind: "hc", k: int(pi(t[1])), id: pi(t[2]), tag: int(pi(t[3]))})
			case "ht":
				ops = append(ops, op{kind: "ht", k: int(pi(t[1])), tag: int(pi(t[2]))})
			case "ic":
				ops = append(ops, op{kind: "ic", k: int(pi(t[1])), id: pi(t[2])})
			case "it":
				ops = append(ops, op{kind: "it", k: int(pi(t[1]))})
			case "par":
				var b []op
				for _, it := range strings.Split(t[1], ",") {
					if x, ok := parseItem(it); ok {
						b = append(b, x)
					}
				}
				ops = append(ops, op{kind: "par", batch: b})
			}
		}
		flush()
		r.Finish()
		return
	}
	n := 1500
	if r.Thorough() {
		n = 40000
	}
	ids := []int64{0, 1, 2, 3, 1<<48 - 1}
	for c := 0; c < n; c++ {
		nk := 1 + rng.Intn(4) // few kinds => collisions between tables are frequent
		ln := 3 + rng.Intn(22)
		var ops []op
		tag := 1
		for i := 0; i < ln; i++ {
			k := rng.Intn(nk)
			x := rng.Intn(10)
			if i < ln/3 && rng.Chance(70) {
				x = rng.Intn(4) // registrations first, so that most incoming streams have a candidate handler
			}
			switch {
			case x < 2:
				ops = append(ops, op{kind: "hc", k: k, id: hlib.Pick(rng, ids), tag: tag})
				tag++
			case x == 2:
				ops = append(ops, op{kind: "hc", k: k, id: -1, tag: tag})
				tag++
			case x == 3:
				ops = append(ops, op{kind: "ht", k: k, tag: tag})
				tag++
			case x < 8:
				id := hlib.Pick(rng, ids)
				if rng.Chance(8) {
					id = -1
				}
				ops = append(ops, op{kind: "ic", k: k, id: id})
			default:
				ops = append(ops, op{kind: "it", k: k})
			}
		}
		runCase(ops)
	}
	// Concurrent registration scenarios (own random stream, so the sequential cases above are unchanged):
	// several virtual nodes of one process attach to the shared router at the same time.  The registrations of
	// a batch have pairwise distinct (table, kind, target), so every linearisation gives the same tables and the
	// statement decides each later stream: the handler registered for (type, target) must get it.
	rng2 := hlib.NewRng(r.Seed ^ 0x42c0ffee42)
	n2 := 4000
	if r.Thorough() {
		n2 = 20000
	}
	ids2 := []int64{0, 1, 2, 3, 4, 5, 6, 7, 1000, 1<<48 - 1}
	for c := 0; c < n2; c++ {
		nk := 1 + rng2.Intn(3)
		var ops []op
		tag := 1
		// sequential prefix: some kinds may already have a node-wide / tunnel / virtual handler
		for i, np := 0, rng2.Intn(3); i < np; i++ {
			k := rng2.Intn(nk)
			switch rng2.Intn(4) {
			case 0:
				ops = append(ops, op{kind: "hc", k: k, id: hlib.Pick(rng2, ids2), tag: tag})
			case 1:
				ops = append(ops, op{kind: "ht", k: k, tag: tag})
			default:
				ops = append(ops, op{kind: "hc", k: k, id: -1, tag: tag})
			}
			tag++
		}
		rounds := 1
		if rng2.Chance(25) {
			rounds = 2 // second batch: re-registration over existing per-kind maps
		}
		for rd := 0; rd < rounds; rd++ {
			var batch []op
			for k := 0; k < nk; k++ {
				perm := rng2.Intn(len(ids2))
				nid := 2 + rng2.Intn(5)
				if rng2.Chance(15) {
					nid = rng2.Intn(2)
				}
				for j := 0; j < nid; j++ {
					batch = append(batch, op{kind: "hc", k: k, id: ids2[(perm+j)%len(ids2)], tag: tag})
					tag++
				}
				if rng2.Chance(20) {
					batch = append(batch, op{kind: "hc", k: k, id: -1, tag: tag})
					tag++
				}
				if rng2.Chance(15) {
					batch = append(batch, op{kind: "ht", k: k, tag: tag})
					tag++
				}
			}
			if len(batch) == 0 {
				batch = append(batch, op{kind: "hc", k: 0, id: 1, tag: tag})
				tag++
			}
			for i := len(batch) - 1; i > 0; i-- {
				j := rng2.Intn(i + 1)
				batch[i], batch[j] = batch[j], batch[i]
			}
			ops = append(ops, op{kind: "par", batch: batch})
			// every registration of the batch is probed, in random order, plus a few other streams
			var probes []op
			for _, b := range batch {
				switch {
				case b.kind == "ht":
					probes = append(probes, op{kind: "it", k: b.k})
				case b.id >= 0:
					probes = append(probes, op{kind: "ic", k: b.k, id: b.id})
				default:
					probes = append(probes, op{kind: "ic", k: b.k, id: hlib.Pick(rng2, ids2)})
				}
			}
			for i, ne := 0, rng2.Intn(3); i < ne; i++ {
				if rng2.Chance(70) {
					id := hlib.Pick(rng2, ids2)
					if rng2.Chance(10) {
						id = -1
					}
					probes = append(probes, op{kind: "ic", k: rng2.Intn(nk + 1), id: id})
				} else {
					probes = append(probes, op{kind: "it", k: rng2.Intn(nk + 1)})
				}
			}
			for i := len(probes) - 1; i > 0; i-- {
				j := rng2.Intn(i + 1)
				probes[i], probes[j] = probes[j], probes[i]
			}
			ops = append(ops, probes...)
		}
		runCase(ops)
	}
	r.Finish()
}
