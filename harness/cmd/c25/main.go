// C25 correspondence: every TunnelService / KeylessService method x caller kind x token-record state x body,
// served by the REAL attachRPC stack (chi middlewares + twirp servers + verifyClientIdentity hook) over
// fabricated stream delegates; the DHT (recording in-memory KV) is snapshotted before and after each call.
package main

import (
	"bytes"
	"context"
	"crypto/x509"
	"encoding/hex"
	"encoding/json"
	"errors"
	"io"
	"net"
	"net/http"
	"strings"
	"time"

	"github.com/twitchtv/twirp"
	"github.com/twitchtv/twirp/ctxsetters"
	"go.miragespace.co/specter/spec/chord"
	"go.miragespace.co/specter/spec/protocol"
	"go.miragespace.co/specter/spec/transport"
	"go.miragespace.co/specter/spec/tun"
	"go.miragespace.co/specter/tun/server"
	"go.uber.org/zap"
	"verif/harness/cmd/c25/rig"
	"verif/harness/hlib"
)

type failResolver struct{}

func (failResolver) LookupCNAME(ctx context.Context, host string) (string, error) {
	return "", errors.New("no such host")
}

type vtMsg interface{ MarshalVT() ([]byte, error) }

type tokRec struct{ tok, kind string }

var tunnelMethods = []string{"Ping", "RegisterIdentity", "GetNodes", "GenerateHostname", "RegisteredHostnames",
	"PublishTunnel", "UnpublishTunnel", "ReleaseTunnel", "AcmeInstruction", "AcmeValidate"}
var keylessMethods = []string{"GetCertificate", "Sign"}

const victimHost = "alice-host-one-two-three"
const customHost = "app.customer.net"

var retryableKVErrs = []error{chord.ErrKVStaleOwnership, chord.ErrKVPendingTransfer, context.DeadlineExceeded}
var retryableIdx int

func hlibPickErr() error {
	retryableIdx++
	return retryableKVErrs[retryableIdx%len(retryableKVErrs)]
}

func main() {
	r := hlib.Start()
	r.Rule = "one case = (method, caller kind, state of the caller's token record, request body kind, datagram outcome); non-trivial = distinct tuple + token text; " +
		"all 12 service methods + an unknown one x {no delegation, no certificate, malformed subject, unknown subject version, non-numeric id, token} x " +
		"{absent, empty, undecodable, Get error, registered, old-format} x {valid, empty, garbage, json} bodies; the DHT is pre-loaded with a victim client " +
		"(token record, hostnames, routes, custom hostname) and compared before/after; plus `callcn`: every method x ~36 certificate-subject shapes " +
		"(raw CommonName through the real pki.ExtractCertificateIdentity: tokens containing the separator, empty segments, trailing/leading separators, v2 subjects with extra " +
		"segments, v1/v2 confusion, malformed / overflowing ids) x sets of client-token records in which a token related to the caller's (prefix up to a separator, last segment, " +
		"hash only, longer token) is registered while the caller's own is not"
	rng := hlib.NewRng(r.Seed)
	logger := zap.NewNop()
	ctx, cancel := context.WithCancel(context.Background())
	defer cancel()

	tunnelID := &protocol.Node{Id: 11, Address: "tunnel:1"}
	chordID := &protocol.Node{Id: 12, Address: "chord:1"}
	node := rig.NewRecNode(chordID)
	tt := rig.NewTransport(tunnelID)
	ct := rig.NewTransport(chordID)
	srv := server.New(server.Config{
		ParentContext: ctx, Logger: logger, Chord: node, TunnelTransport: tt, ChordTransport: ct,
		Resolver: failResolver{}, Apex: "example.com", Acme: "acme.example.com",
	})
	router := transport.NewStreamRouter(logger, nil, tt)
	go router.Accept(ctx)
	srv.AttachRouter(ctx, router)

	var curCert *x509.Certificate
	client := &http.Client{
		Timeout: 20 * time.Second,
		Transport: &http.Transport{
			DisableKeepAlives: true,
			DialContext: func(ctx context.Context, _, _ string) (net.Conn, error) {
				return tt.Dial(curCert), nil
			},
		},
	}

	victimTok := &protocol.ClientToken{Token: []byte("alice-token")}
	victim := &protocol.Node{Id: 500, Address: "alice-token", Rendezvous: true}
	put := func(k string, v []byte) { node.KV.Put(ctx, []byte(k), v) }
	mustVT := func(m vtMsg) []byte { b, _ := m.MarshalVT(); return b }
	putRec := func(tok string, rec string) {
		key := tun.ClientTokenKey(&protocol.ClientToken{Token: []byte(tok)})
		switch rec {
		case "empty":
			put(key, []byte{})
		case "undecodable":
			put(key, []byte{0xff, 0xff, 0xff})
		case "kverr":
			node.FailGet[key] = errors.New("ring unavailable")
		case "kverr-retryable": // what the lookup returns during a join/leave hand-off or on a timeout
			node.FailGet[key] = hlibPickErr()
		case "client":
			put(key, mustVT(&protocol.Node{Id: 42, Address: tok, Rendezvous: true}))
		case "oldclient":
			put(key, mustVT(&protocol.Node{Id: 42}))
		}
	}
	seed := func(callerTok string, rec string) {
		node.Reset()
		dst := &protocol.TunnelDestination{Chord: chordID, Tunnel: tunnelID}
		put(tun.DestinationByChordKey(chordID), mustVT(dst))
		put(tun.DestinationByTunnelKey(tunnelID), mustVT(dst))
		put(tun.ClientTokenKey(victimTok), mustVT(victim))
		node.KV.PrefixAppend(ctx, []byte(tun.ClientHostnamesPrefix(victimTok)), []byte(victimHost))
		node.KV.PrefixAppend(ctx, []byte(tun.ClientHostnamesPrefix(victimTok)), []byte(customHost))
		route := &protocol.TunnelRoute{ClientDestination: victim, ChordDestination: chordID, TunnelDestination: tunnelID, Hostname: victimHost}
		put(tun.RoutingKey(victimHost, 1), mustVT(route))
		put(tun.CustomHostnameKey(customHost), mustVT(&protocol.CustomHostname{ClientIdentity: victim, ClientToken: victimTok}))
		putRec(callerTok, rec)
		node.Mut.Store(0)
	}

	request := func(m string, hostname string) vtMsg {
		switch m {
		case "Ping":
			return &protocol.ClientPingRequest{}
		case "RegisterIdentity":
			return &protocol.RegisterIdentityRequest{}
		case "GetNodes":
			return &protocol.GetNodesRequest{}
		case "GenerateHostname":
			return &protocol.GenerateHostnameRequest{}
		case "RegisteredHostnames":
			return &protocol.RegisteredHostnamesRequest{}
		case "PublishTunnel":
			return &protocol.PublishTunnelRequest{Hostname: hostname, Servers: []*protocol.Node{tunnelID}}
		case "UnpublishTunnel":
			return &protocol.UnpublishTunnelRequest{Hostname: hostname}
		case "ReleaseTunnel":
			return &protocol.ReleaseTunnelRequest{Hostname: hostname}
		case "AcmeInstruction":
			return &protocol.InstructionRequest{Hostname: customHost}
		case "AcmeValidate":
			return &protocol.ValidateRequest{Hostname: customHost}
		case "GetCertificate":
			return &protocol.KeylessGetCertificateRequest{Hostname: customHost}
		case "Sign":
			return &protocol.KeylessSignRequest{Hostname: customHost, Digest: make([]byte, 32)}
		}
		return &protocol.ClientPingRequest{}
	}

	// invoke serves one request through the real stack (or, without delegation, the hook directly) and
	// returns the canonical response code.
	invoke := func(m string, nodeleg bool, cert *x509.Certificate, body string, garbage []byte) string {
		code := "?"
		if nodeleg {
			// no HTTP path can produce this context: call the hook directly
			func() {
				defer func() {
					if e := recover(); e != nil {
						code = "panic"
					}
				}()
				err := server.VerifHook(srv, ctxsetters.WithMethodName(context.Background(), m))
				if err == nil {
					code = "ok"
				} else if te, ok := err.(twirp.Error); ok {
					code = string(te.Code())
				} else {
					code = "nontwirp"
				}
			}()
			known := false
			for _, x := range append(append([]string{}, tunnelMethods...), keylessMethods...) {
				known = known || x == m
			}
			if !known {
				code = "bad_route" // twirp would not have routed, the hook would not have run
			}
			return code
		}
		svc := "TunnelService"
		for _, k := range keylessMethods {
			if k == m {
				svc = "KeylessService"
			}
		}
		var payload []byte
		ctype := "application/protobuf"
		switch body {
		case "valid":
			payload = mustVT(request(m, victimHost))
		case "empty":
		case "garbage":
			payload = garbage
		case "json":
			ctype = "application/json"
			payload = []byte(`{"hostname":"` + victimHost + `"}`)
		}
		curCert = cert
		req, _ := http.NewRequest("POST", "http://tunnel/twirp/protocol."+svc+"/"+m, bytes.NewReader(payload))
		req.Header.Set("Content-Type", ctype)
		resp, err := client.Do(req)
		if err != nil {
			return "transport-error"
		}
		b, _ := io.ReadAll(resp.Body)
		resp.Body.Close()
		var te struct {
			Code string `json:"code"`
		}
		switch {
		case resp.StatusCode == 200:
			code = "ok"
		case json.Unmarshal(b, &te) == nil && te.Code != "":
			code = te.Code
		case resp.StatusCode == 500:
			code = "panic"
		default:
			code = "http" + hlib.F("%d", resp.StatusCode)
		}
		return code
	}
	changedSince := func(before string) string {
		if node.Snapshot() != before || node.Mut.Load() != 0 {
			return "1"
		}
		return "0"
	}
	dgramTok := func(ok bool) string {
		if ok {
			return "ok"
		}
		return "fail"
	}

	call := func(m, caller, rec, body string, dgramOK bool, tok string, garbage []byte) {
		if caller != "tok" {
			rec = "na"
		}
		seed(tok, rec)
		tt.DatagramOK.Store(dgramOK)
		var cert *x509.Certificate
		switch caller {
		case "badsubject":
			cert = rig.Cert("not-a-specter-subject")
		case "badversion":
			cert = rig.Cert("v9:42:" + tok)
		case "panicid":
			cert = rig.Cert("v1:notanumber:" + tok)
		case "tok":
			cert = rig.Cert("v1:42:" + tok)
		}
		before := node.Snapshot()
		code := invoke(m, caller == "nodeleg", cert, body, garbage)
		changed := changedSince(before)
		lhs := "call " + m + " " + caller + " " + rec + " " + body + " " + dgramTok(dgramOK)
		r.Emit(lhs, code+" "+changed)
		r.Case(lhs + " " + tok + hlib.Hex(garbage))
		r.Count("method:" + m)
		r.Count("caller:" + caller + "/" + rec)
		r.Count("code:" + code)
	}

	// callCN: the caller presents a verified certificate with exactly the CommonName cn — the token the
	// server acts on is whatever the REAL pki.ExtractCertificateIdentity makes of it; recs are all the
	// client-token records in the DHT besides the victim fixture.
	callCN := func(shape, m, cn string, recs []tokRec, body string, dgramOK bool, garbage []byte) {
		seed("", "na")
		uniq := recs[:0:0]
		for _, tr := range recs { // one record per token
			dup := false
			for _, u := range uniq {
				dup = dup || u.tok == tr.tok
			}
			if !dup {
				uniq = append(uniq, tr)
				putRec(tr.tok, tr.kind)
			}
		}
		recs = uniq
		node.Mut.Store(0)
		tt.DatagramOK.Store(dgramOK)
		before := node.Snapshot()
		code := invoke(m, false, rig.Cert(cn), body, garbage)
		changed := changedSince(before)
		var rs []string
		for _, tr := range recs {
			rs = append(rs, hlib.Hex([]byte(tr.tok))+"="+tr.kind)
		}
		rtxt := "-"
		if len(rs) > 0 {
			rtxt = strings.Join(rs, ",")
		}
		lhs := "callcn " + m + " " + hlib.Hex([]byte(cn)) + " " + rtxt + " " + body + " " + dgramTok(dgramOK)
		r.Emit(lhs, code+" "+changed)
		r.Case(lhs + " " + hlib.Hex(garbage))
		r.Count("method:" + m)
		r.Count("subject:" + shape)
		r.Count("code:" + code)
	}

	if r.Replay != "" {
		for _, t := range r.ReplayLines() {
			if t[0] == "call" && len(t) == 6 {
				call(t[1], t[2], t[3], t[4], t[5] == "ok", "replay-token", []byte{0xff, 0x01})
			}
			if t[0] == "callcn" && len(t) == 6 {
				cn, recs, ok := parseCN(t[2], t[3])
				if ok {
					callCN("replay", t[1], cn, recs, t[4], t[5] == "ok", []byte{0xff, 0x01})
				}
			}
		}
		r.Finish()
		return
	}

	methods := append(append(append([]string{}, tunnelMethods...), keylessMethods...), "Nope")
	callers := []string{"nodeleg", "nocert", "badsubject", "badversion", "panicid"}
	recs := []string{"absent", "empty", "undecodable", "kverr", "kverr-retryable", "client", "oldclient"}
	bodies := []string{"valid", "empty", "garbage", "json"}
	rounds := 1
	if r.Thorough() {
		rounds = 12
	}
	for round := 0; round < rounds; round++ {
		for _, m := range methods {
			for _, b := range bodies {
				tok := "mallory-" + hlib.Hex(rng.Bytes(4))
				if rng.Chance(20) {
					tok = "alice-token" // the victim's own token text in a different certificate state is still just a token
				}
				for _, c := range callers {
					if c == "nodeleg" && b != "valid" {
						continue
					}
					call(m, c, "na", b, rng.Bool(), tok, rng.Bytes(1+rng.Intn(40)))
				}
				for _, rc := range recs {
					if tok == "alice-token" && rc != "client" {
						tok = "mallory-" + hlib.Hex(rng.Bytes(4))
					}
					call(m, "tok", rc, b, true, tok, rng.Bytes(1+rng.Intn(40)))
					if m == "RegisterIdentity" {
						call(m, "tok", rc, b, false, tok, rng.Bytes(1+rng.Intn(40)))
					}
				}
			}
		}
	}
	// --- certificate subjects through the real identity extraction ------------------------------------
	// Every shape is a (CommonName, client-token records) pair built around a fresh token T; the records
	// are chosen so that what the caller's subject REALLY carries and what a sloppier reading of the subject
	// (cut at another separator, drop a segment, confuse v1/v2, ignore a suffix) would make of it differ in
	// registration status.
	tokAlpha := "ABCDEFGHIJKLMNOPQRSTUVWXYZabcdefghijklmnopqrstuvwxyz0123456789+/=-_"
	word := func(min, max int) string {
		n := min + rng.Intn(max-min+1)
		b := make([]byte, n)
		for i := range b {
			b[i] = tokAlpha[rng.Intn(len(tokAlpha))]
		}
		return string(b)
	}
	type subjCase struct {
		shape string
		cn    string
		recs  []tokRec
	}
	regKind := func() string {
		if rng.Chance(25) {
			return "oldclient"
		}
		return "client"
	}
	subjects := func() []subjCase {
		T := word(4, 24)
		if rng.Chance(30) { // the base token itself contains separators
			T = word(1, 8) + ":" + word(1, 8)
		}
		X := word(1, 10)
		id := hlib.F("%d", rng.U64()>>uint(rng.Intn(64)))
		H := word(20, 43)
		v1 := "v1:" + id + ":"
		v2 := "v2:" + id + ":" + H
		k := regKind
		cs := []subjCase{
			{"v1-registered", v1 + T, []tokRec{{T, k()}}},
			{"v1-registered-with-sep", v1 + T + ":" + X, []tokRec{{T + ":" + X, k()}}},
			{"v1-suffix-of-registered", v1 + T + ":" + X, []tokRec{{T, k()}}},
			{"v1-suffix-of-registered", v1 + T + ":" + X + ":" + word(1, 4), []tokRec{{T, k()}, {T + ":" + X, "absent"}}},
			{"v1-trailing-sep", v1 + T + ":", []tokRec{{T, k()}}},
			{"v1-only-sep", v1 + ":", []tokRec{{"", k()}}},
			{"v1-leading-sep", v1 + ":" + T, []tokRec{{"", k()}, {T, k()}}},
			{"v1-empty-segment", v1 + T + "::" + X, []tokRec{{T, k()}, {T + ":" + X, k()}, {X, k()}}},
			{"v1-last-segment-registered", v1 + X + ":" + T, []tokRec{{T, k()}}},
			{"v1-longer-registered", v1 + T, []tokRec{{T + ":" + X, k()}, {T + X, k()}}},
			{"v1-plain-prefix", v1 + T + X, []tokRec{{T, k()}}},
			{"v1-empty-token", v1, []tokRec{{"", k()}}},
			{"v1-empty-token", v1, nil},
			{"v1-sep-in-id", "v1:" + id + ":" + id + ":" + T, []tokRec{{T, k()}, {id, k()}}},
			{"v1-subject-as-token", v1 + T, []tokRec{{v1 + T, k()}}},
			{"v1-record-" + []string{"absent", "empty", "undecodable", "kverr", "kverr-retryable"}[rng.Intn(5)], v1 + T + ":" + X, nil},
			{"v2-registered", v2, []tokRec{{v2, k()}}},
			{"v2-registered", v2 + ":" + X, []tokRec{{v2 + ":" + X, k()}}},
			{"v2-suffix-of-registered", v2 + ":" + X, []tokRec{{v2, k()}, {H, k()}}},
			{"v2-trailing-sep", v2 + ":", []tokRec{{v2, k()}}},
			{"v2-hash-registered", v2, []tokRec{{H, k()}, {id + ":" + H, k()}}},
			{"v2-prefix-of-registered", v2, []tokRec{{v2 + ":" + X, k()}}},
			{"v2-empty-hash", "v2:" + id + ":", []tokRec{{"", k()}}},
			{"two-parts", "v1:" + T, []tokRec{{T, k()}, {"", k()}}},
			{"two-parts", "v2:" + id, []tokRec{{"v2:" + id, k()}, {"", k()}}},
			{"one-part", T, []tokRec{{T, k()}}},
			{"empty-subject", "", []tokRec{{"", k()}}},
			{"only-seps", ":::", []tokRec{{"", k()}, {":", k()}}},
			{"empty-version", ":" + id + ":" + T, []tokRec{{T, k()}}},
			{"unknown-version", []string{"v3", "V1", "v", "v11", " v1", "v1 "}[rng.Intn(6)] + ":" + id + ":" + T, []tokRec{{T, k()}}},
			{"id-empty", "v1::" + T, []tokRec{{T, k()}}},
			{"id-not-number", "v" + []string{"1", "2"}[rng.Intn(2)] + ":" + []string{"+1", "-1", "0x1f", "1_0", "1e3", " 7", "7 ", "x"}[rng.Intn(8)] + ":" + T, []tokRec{{T, k()}}},
			{"id-overflow", "v1:18446744073709551616:" + T, []tokRec{{T, k()}}},
			{"id-max", "v1:18446744073709551615:" + T + ":" + X, []tokRec{{T, k()}}},
			{"id-max", "v1:18446744073709551615:" + T, []tokRec{{T, k()}}},
			{"id-leading-zero", "v1:00" + id + ":" + T, []tokRec{{T, k()}}},
		}
		// the record state of the caller's own (real) token for the record-* shape
		for i := range cs {
			if strings.HasPrefix(cs[i].shape, "v1-record-") {
				kind := strings.TrimPrefix(cs[i].shape, "v1-record-")
				cs[i].recs = []tokRec{{T, k()}, {T + ":" + X, kind}}
			}
		}
		return cs
	}
	cnRounds := 1
	if r.Thorough() {
		cnRounds = 10
	}
	for round := 0; round < cnRounds; round++ {
		for _, m := range methods {
			for _, sc := range subjects() {
				b := "valid"
				if rng.Chance(25) {
					b = bodies[rng.Intn(len(bodies))]
				}
				dg := true
				if m == "RegisterIdentity" {
					dg = rng.Bool()
				}
				callCN(sc.shape, m, sc.cn, sc.recs, b, dg, rng.Bytes(1+rng.Intn(40)))
			}
		}
	}
	r.Finish()
}

// parseCN decodes the <hex CommonName> and <records> tokens of a recorded callcn line.
func parseCN(cnHex, recTxt string) (string, []tokRec, bool) {
	unhex := func(h string) (string, bool) {
		if h == "-" {
			return "", true
		}
		b, err := hex.DecodeString(h)
		return string(b), err == nil
	}
	cn, ok := unhex(cnHex)
	if !ok {
		return "", nil, false
	}
	var recs []tokRec
	if recTxt != "-" {
		for _, item := range strings.Split(recTxt, ",") {
			hk := strings.SplitN(item, "=", 2)
			if len(hk) != 2 {
				return "", nil, false
			}
			t, ok := unhex(hk[0])
			if !ok {
				return "", nil, false
			}
			recs = append(recs, tokRec{t, hk[1]})
		}
	}
	return cn, recs, true
}
