import SpecterModel.Util
import SpecterModel.C39.Model
/-!
C39 line-protocol driver.

Sequential lines (one real `pipe`, at most one parked reader or writer goroutine):
  new <cap>            => ok
  read <n> | rpoll     => <res>|<r>,<w>,<len>     res = data:<hex> | eof | closed | timeout | block
  write <hex> | wpoll  => <res>|<r>,<w>,<len>     res = ok:<n> | closed | timeout | block
  close | closew | rtimer | wtimer | rclear | wclear => ok|<r>,<w>,<len>
Concurrent lines (real reader and writer goroutines; spec only):
  stream <cap> <offered hex> <delivered hex> <writer result> <reader result> <reader closed early 0|1> => done | hang
  deadline <r|w> => timeout | …

Verdicts: SPEC = the implementation's answer contradicts the bounded-FIFO byte-stream specification
(`Spec` below: plain queue, independent of the ring-buffer model); DIFF = it differs from the model of
`Model.lean` (result or the internal r/w/len).
-/
namespace Specter.C39
open Specter.Util

/-- The specification oracle: a bounded FIFO with close flags (no ring buffer). -/
structure Spec where
  cap : Nat := 0
  q : List Nat := []
  closed : Bool := false
  wc : Bool := false
  rto : Bool := false
  wto : Bool := false
  rpend : Option Nat := none
  wpend : Option (List Nat × Nat) := none

structure St where
  live : Bool := false
  m : Sys := init 1
  sp : Spec := {}

def rOutStr : ROut → String
  | .data d => "data:" ++ bytesToHex d
  | .eof => "eof" | .errClosed => "closed" | .timeout => "timeout" | .block => "block"

def wOutStr : WOut → String
  | .ok n => s!"ok:{n}" | .errClosed => "closed" | .timeout => "timeout" | .block _ _ => "block" | .spin => "spin"

def outStr : Out → String
  | .r o => rOutStr o | .w o => wOutStr o | .done => "ok" | .na => "na"

def stateStr (p : Pipe) : String := s!"{p.r},{p.w},{p.len}"

/-- spec of a read attempt with buffer length `n`; `impl` is the implementation's answer -/
def specRead (sp : Spec) (n : Nat) (impl : String) : Spec × Option String :=
  if sp.closed then ({ sp with rpend := none }, if impl = "closed" then none else some "read on a closed pipe must fail with ErrClosedPipe")
  else if sp.q ≠ [] then
    if impl.startsWith "data:" then
      match hexToBytes (impl.drop 5).toString with
      | some d =>
        let ok := d.length ≤ n ∧ (0 < n → d ≠ []) ∧ d = sp.q.take d.length
        ({ sp with q := sp.q.drop d.length, rpend := none },
          if ok then none else some s!"read must return a non-empty prefix of the pending bytes {bytesToHex (sp.q.take n)}")
      | none => (sp, some "unparsable data")
    else (sp, some s!"data is pending ({bytesToHex (sp.q.take n)}) but read answered {impl}")
  else if sp.wc then ({ sp with rpend := none }, if impl = "eof" then none else some "drained and writer closed: read must answer EOF")
  else if sp.rto then ({ sp with rpend := none }, if impl = "timeout" then none else some "read deadline passed: read must answer timeout")
  else ({ sp with rpend := some n }, if impl = "block" then none else some s!"nothing to read yet, but read answered {impl}")

/-- spec of a write attempt (`fresh` = from the entry of `Write`) -/
def specWrite (sp : Spec) (rest : List Nat) (n0 : Nat) (fresh : Bool) (impl : String) : Spec × Option String :=
  if sp.closed then ({ sp with wpend := none }, if impl = "closed" then none else some "write on a closed pipe must fail with ErrClosedPipe")
  else if rest = [] then ({ sp with wpend := none }, none)       -- zero-length write: left to the model
  else if sp.wc then ({ sp with wpend := none }, if impl = "closed" then none else some "write after the write side was closed must fail")
  else
    let k := min rest.length (sp.cap - sp.q.length)
    let sp' := { sp with q := sp.q ++ rest.take k }
    if k = rest.length then
      ({ sp' with wpend := none }, if impl = s!"ok:{n0 + k}" then none else some s!"write fits: must answer ok:{n0 + k}")
    else if sp.wto then ({ sp' with wpend := none }, if impl = "timeout" then none else some "write deadline passed and pipe full: must answer timeout")
    else
      let _ := fresh
      ({ sp' with wpend := some (rest.drop k, n0 + k) }, if impl = "block" then none else some s!"pipe full: write must wait, answered {impl}")

def verdict (specMsg : Option String) (modelStr implStr : String) : Verdict :=
  match specMsg with
  | some w => .spec w
  | none => if modelStr = implStr then .ok else .diff modelStr

def splitRes (rhs : String) : String × String :=
  match rhs.splitOn "|" with
  | [a, b] => (a, b)
  | _ => (rhs, "")

def isPrefix (a b : List Nat) : Bool := a.length ≤ b.length && a == b.take a.length

def drvStep (st : St) (toks : List String) (rhs : String) : St × Verdict :=
  let (impl, implState) := splitRes rhs
  -- the harness reports `-` instead of r,w,len while a woken goroutine may still be running
  let fin (st' : St) (o : Out) (msg : Option String) : St × Verdict :=
    (st', verdict msg (outStr o ++ "|" ++ (if implState = "-" then "-" else stateStr st'.m.p)) rhs)
  let ev (e : Ev) (sp' : Spec) (msg : Option String) : St × Verdict :=
    let q := Specter.C39.step st.m e
    fin { st with m := q.1, sp := sp' } q.2.1 msg
  match toks with
  | ["reset"] => ({}, .ok)
  | ["new", c] =>
    match c.toNat? with
    | some c => ({ live := true, m := init c, sp := { cap := c } }, if rhs = "ok" then .ok else .bad "new")
    | none => (st, .bad "new arg")
  | ["stream", _cap, offered, delivered, wres, rres, early] =>
    match hexToBytes offered, hexToBytes delivered with
    | some o, some d =>
      if rhs ≠ "done" then (st, .spec s!"a call stayed blocked after the other end closed ({rhs})")
      else if !isPrefix d o then (st, .spec "delivered bytes are not a prefix of the written bytes")
      else if rres = "eof" ∧ wres = "ok" ∧ d ≠ o then (st, .spec "EOF before all written bytes were delivered")
      else if rres ≠ "eof" ∧ rres ≠ "closed" then (st, .spec s!"reader ended with {rres}")
      else if early = "0" ∧ (rres ≠ "eof" ∨ wres ≠ "ok") then (st, .spec s!"nobody closed early, yet writer={wres} reader={rres}")
      else if early = "1" ∧ rres ≠ "closed" then (st, .spec s!"reader closed its end, its next read answered {rres}")
      else (st, .ok)
    | _, _ => (st, .bad "stream args")
  | ["deadline", _which, _cap] =>
    if rhs = "timeout" then (st, .ok) else (st, .spec s!"a call waiting past its deadline must answer timeout, got {rhs}")
  | _ =>
    if !st.live then (st, .bad "op before new") else
    match toks with
    | ["read", n] =>
      match n.toNat?, st.m.rt with
      | some n, .idle => let (sp', msg) := specRead st.sp n impl; ev (.read n) sp' msg
      | _, _ => (st, .bad "read")
    | ["rpoll"] =>
      match st.m.rt, st.sp.rpend with
      | .woken _, some n => let (sp', msg) := specRead st.sp n impl; ev .rresume sp' msg
      | .waiting _, some n => let (sp', msg) := specRead st.sp n impl; fin { st with sp := sp' } (.r .block) msg
      | _, _ => (st, .bad "rpoll without parked reader")
    | ["write", h] =>
      match hexToBytes h, st.m.wt with
      | some bs, .idle => let (sp', msg) := specWrite st.sp bs 0 true impl; ev (.write bs) sp' msg
      | _, _ => (st, .bad "write")
    | ["wpoll"] =>
      match st.m.wt, st.sp.wpend with
      | .woken _ _, some (rest, n0) => let (sp', msg) := specWrite st.sp rest n0 false impl; ev .wresume sp' msg
      | .waiting r n, some (rest, n0) =>
        let (sp', msg) := specWrite st.sp rest n0 false impl; fin { st with sp := sp' } (.w (.block r n)) msg
      | _, _ => (st, .bad "wpoll without parked writer")
    | ["close"] => ev .close { st.sp with closed := true } none
    | ["closew"] => ev .closeWrite { st.sp with wc := true } none
    | ["rtimer"] => ev .rtimer { st.sp with rto := true } none
    | ["wtimer"] => ev .wtimer { st.sp with wto := true } none
    | ["rclear"] => ev .rclear { st.sp with rto := false } none
    | ["wclear"] => ev .wclear { st.sp with wto := false } none
    | _ => (st, .bad "unknown op")

def main : IO Unit := runLoop ({} : St) drvStep

end Specter.C39
