import SpecterModel.C38.Drv

def main : IO Unit := Specter.C38.main
