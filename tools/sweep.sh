#!/bin/sh
# tools/sweep.sh <seed> [tier]: run every claimed check once, print one line per property.
cd "$(dirname "$0")/.."
seed=${1:-1}; tier=${2:-quick}
for f in spec/C*.json; do
  p=$(basename $f .json)
  start=$(date +%s)
  out=$(VERIF_SEED=$seed timeout 3000 ./check $p --tier $tier 2>&1 | tail -1)
  echo "$p seed=$seed $(( $(date +%s) - start ))s :: $out"
done
