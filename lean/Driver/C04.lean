import SpecterModel.C04.Drv

def main : IO Unit := Specter.C04.main
