import SpecterModel.C03.Churn
namespace Specter.C10
/-- ring model + ghost store; SPEC = `Churn.listKeysCheck` (check03 = check05 = false selects it) -/
def main : IO Unit := Specter.Util.runLoop ({} : Specter.Churn.DState) (Specter.Churn.step false false)
end Specter.C10
