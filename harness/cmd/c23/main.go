// C23 correspondence: (1) sequential differential of the real SQLite store against the Lean model
// (results of every call + raw dump of the four tables), (2) crash exploration: a child process (this
// binary in `child` mode) applies a seeded history printing `issued i` / `acked i`, the parent SIGKILLs
// it at a seeded point, re-opens the directory with the real constructor and compares the recovered tables
// with the uncrashed reference states of the prefixes between acked and issued.
package main

import (
	"bufio"
	"context"
	"database/sql"
	"errors"
	"fmt"
	"os"
	"os/exec"
	"path/filepath"
	"sort"
	"strconv"
	"strings"
	"sync"
	"sync/atomic"
	"syscall"
	"time"

	sq "go.miragespace.co/specter/kv/sqlite3"
	"go.miragespace.co/specter/spec/chord"
	"go.miragespace.co/specter/spec/protocol"
	"go.uber.org/zap"
	"verif/harness/hlib"
)

const hour = 3600 * 1000 // ms

func hash1(k []byte) uint64 { return chord.Hash(k) }
func hash2(k []byte) uint64 { return (chord.Hash(k) + 1) & ((1 << 48) - 1) }

type item struct {
	k     []byte
	isNil bool   // nil *KVTransfer
	sv    []byte // nil = nil SimpleValue
	ch    [][]byte
	lease uint64
}

type op struct {
	kind  string // put del pappend premove acquire renew release import remove
	k, v  []byte
	ttl   int // ms
	tok   uint64
	items []item
	keys  [][]byte
}

func (o op) tokens(now int64) string {
	switch o.kind {
	case "put":
		return "put " + hlib.Hex(o.k) + " " + hlib.Hex(o.v)
	case "del":
		return "del " + hlib.Hex(o.k)
	case "pappend", "premove":
		return o.kind + " " + hlib.Hex(o.k) + " " + hlib.Hex(o.v)
	case "acquire":
		return fmt.Sprintf("acquire %s %d %d", hlib.Hex(o.k), o.ttl, now)
	case "renew":
		return fmt.Sprintf("renew %s %d %d %d", hlib.Hex(o.k), o.ttl, o.tok, now)
	case "release":
		return fmt.Sprintf("release %s %d", hlib.Hex(o.k), o.tok)
	case "import":
		var xs []string
		for _, it := range o.items {
			if it.isNil {
				xs = append(xs, hlib.Hex(it.k)+":nil")
				continue
			}
			sv := "~"
			if it.sv != nil {
				sv = hlib.Hex(it.sv)
			}
			ch := "."
			if len(it.ch) > 0 {
				var cs []string
				for _, c := range it.ch {
					cs = append(cs, hlib.Hex(c))
				}
				ch = strings.Join(cs, ",")
			}
			xs = append(xs, fmt.Sprintf("%s:%s:%s:%d", hlib.Hex(it.k), sv, ch, it.lease))
		}
		return "import " + strings.Join(xs, ";")
	case "remove":
		var xs []string
		for _, k := range o.keys {
			xs = append(xs, hlib.Hex(k))
		}
		return "remove " + strings.Join(xs, ",")
	}
	return "?"
}

func errTok(err error) string {
	switch {
	case err == nil:
		return "ok"
	case errors.Is(err, chord.ErrKVPrefixConflict):
		return "conflict"
	case errors.Is(err, chord.ErrKVLeaseConflict):
		return "leaseconflict"
	case errors.Is(err, chord.ErrKVLeaseExpired):
		return "expired"
	case errors.Is(err, chord.ErrKVLeaseInvalidTTL):
		return "invalidttl"
	case errors.Is(err, chord.ErrKVHashFnChanged):
		return "hashchanged"
	case strings.Contains(err.Error(), "is nil"):
		return "importnil"
	}
	return "error"
}

// apply runs one call on the real store; returns the result token and the lease token (if any).
func (o op) apply(kv *sq.SqliteKV) (res string, tok uint64) {
	return o.applyCtx(context.Background(), kv)
}

// applyCtx: the same call with the caller's context (deadline / cancellation cases)
func (o op) applyCtx(ctx context.Context, kv *sq.SqliteKV) (res string, tok uint64) {
	defer func() {
		if e := recover(); e != nil {
			res = "panic"
		}
	}()
	switch o.kind {
	case "put":
		return errTok(kv.Put(ctx, o.k, o.v)), 0
	case "del":
		return errTok(kv.Delete(ctx, o.k)), 0
	case "pappend":
		return errTok(kv.PrefixAppend(ctx, o.k, o.v)), 0
	case "premove":
		return errTok(kv.PrefixRemove(ctx, o.k, o.v)), 0
	case "acquire":
		t, err := kv.Acquire(ctx, o.k, time.Duration(o.ttl)*time.Millisecond)
		if err == nil {
			return "ok:" + strconv.FormatUint(t, 10), t
		}
		return errTok(err), 0
	case "renew":
		t, err := kv.Renew(ctx, o.k, time.Duration(o.ttl)*time.Millisecond, o.tok)
		if err == nil {
			return "ok:" + strconv.FormatUint(t, 10), t
		}
		return errTok(err), 0
	case "release":
		return errTok(kv.Release(ctx, o.k, o.tok)), 0
	case "import":
		keys := make([][]byte, len(o.items))
		vals := make([]*protocol.KVTransfer, len(o.items))
		for i, it := range o.items {
			keys[i] = it.k
			if !it.isNil {
				vals[i] = &protocol.KVTransfer{SimpleValue: it.sv, PrefixChildren: it.ch, LeaseToken: it.lease}
			}
		}
		return errTok(kv.Import(ctx, keys, vals)), 0
	case "remove":
		return errTok(kv.RemoveKeys(ctx, o.keys)), 0
	}
	return "?", 0
}

func (o op) allKeys() [][]byte {
	switch o.kind {
	case "import":
		var ks [][]byte
		for _, it := range o.items {
			ks = append(ks, it.k)
		}
		return ks
	case "remove":
		return o.keys
	}
	return [][]byte{o.k}
}

// ---- raw observation of the four tables (separate read connection, WAL reader)

func rawOpen(dir string) *sql.DB {
	db, err := sql.Open("sqlite3", fmt.Sprintf("file:%s?_pragma=busy_timeout(5000)", filepath.Join(dir, "sqlite3", "db")))
	if err != nil {
		panic(err)
	}
	db.SetMaxOpenConns(1)
	return db
}

func dump(db *sql.DB) string {
	q := func(query string, f func(rs *sql.Rows) string) string {
		rs, err := db.Query(query)
		if err != nil {
			return "ERR(" + strings.ReplaceAll(err.Error(), " ", "_") + ")"
		}
		defer rs.Close()
		var xs []string
		for rs.Next() {
			xs = append(xs, f(rs))
		}
		sort.Strings(xs)
		return strings.Join(xs, ",")
	}
	s := q("SELECT `key`, `value` FROM `simple_entries`", func(rs *sql.Rows) string {
		var k, v []byte
		rs.Scan(&k, &v)
		return hlib.Hex(k) + "=" + hlib.Hex(v)
	})
	p := q("SELECT `prefix`, `child` FROM `prefix_entries`", func(rs *sql.Rows) string {
		var k, c []byte
		rs.Scan(&k, &c)
		return hlib.Hex(k) + "/" + hlib.Hex(c)
	})
	l := q("SELECT `owner`, `token` FROM `lease_entries`", func(rs *sql.Rows) string {
		var k []byte
		var t int64
		rs.Scan(&k, &t)
		return hlib.Hex(k) + "=" + strconv.FormatUint(uint64(t), 10)
	})
	t := q("SELECT `key`, `hash`, `flags` FROM `key_trackers`", func(rs *sql.Rows) string {
		var k []byte
		var h, f int64
		rs.Scan(&k, &h, &f)
		return fmt.Sprintf("%s=%d:%d", hlib.Hex(k), uint64(h), f)
	})
	return "S:" + s + ";P:" + p + ";L:" + l + ";T:" + t
}

func openStore(dir string, hf chord.HashFn) (*sq.SqliteKV, error) {
	return sq.New(sq.Config{Logger: zap.NewNop(), HashFn: hf, DataDir: dir})
}

// ---- generators

func seqKeys() [][]byte {
	return [][]byte{[]byte("k0"), []byte("k1"), []byte("k2"), []byte("k3"), []byte("dir/a"), []byte("dir/b")}
}

var children = [][]byte{[]byte("c0"), []byte("c1"), []byte("c2"), []byte("c3")}

func genItem(rng *hlib.Rng, k []byte, nilOK bool) item {
	it := item{k: k}
	if nilOK && rng.Chance(4) {
		it.isNil = true
		return it
	}
	switch rng.Intn(4) {
	case 0: // nil simple value
	case 1:
		it.sv = []byte{}
	default:
		it.sv = rng.Bytes(1 + rng.Intn(3))
	}
	for n := rng.Intn(4); n > 0 && rng.Chance(60); n-- {
		it.ch = append(it.ch, hlib.Pick(rng, children)) // duplicates on purpose
	}
	switch rng.Intn(4) {
	case 0:
		it.lease = uint64(1 + rng.Intn(1000)) // long expired
	case 1:
		it.lease = uint64(time.Now().Add(2*time.Hour).UnixNano()) + uint64(rng.Intn(1000)) // held
	}
	return it
}

// deterministic plan for the crash part (no clock-dependent call): same in parent and child
func genPlan(seed uint64, n int, big bool) []op {
	rng := hlib.NewRng(seed)
	keys := seqKeys()
	leases := map[string]uint64{}
	var plan []op
	if big && n == 2 {
		// directed hand-off case: a node imports a large range and later removes all of it in ONE call
		imp := op{kind: "import"}
		rm := op{kind: "remove"}
		for _, j := range rngPerm(rng, 400)[:260+rng.Intn(140)] {
			kk := []byte(fmt.Sprintf("b%03d", j))
			it := genItem(rng, kk, false)
			if it.lease > 1000 {
				it.lease = 4_000_000_000_000_000_000 + uint64(rng.Intn(1000))
			}
			imp.items = append(imp.items, it)
			rm.keys = append(rm.keys, kk)
		}
		return []op{imp, rm}
	}
	for i := 0; i < n; i++ {
		k := hlib.Pick(rng, keys)
		switch x := rng.Intn(100); {
		case x < 30:
			plan = append(plan, op{kind: "put", k: k, v: rng.Bytes(rng.Intn(4))})
		case x < 40:
			plan = append(plan, op{kind: "del", k: k})
		case x < 58:
			plan = append(plan, op{kind: "pappend", k: k, v: hlib.Pick(rng, children)})
		case x < 68:
			plan = append(plan, op{kind: "premove", k: k, v: hlib.Pick(rng, children)})
		case x < 86:
			o := op{kind: "import"}
			m := 1 + rng.Intn(3)
			if big && rng.Chance(50) {
				m = 150 + rng.Intn(250)
			}
			for j := 0; j < m; j++ {
				kk := hlib.Pick(rng, keys)
				if m > 10 {
					kk = []byte(fmt.Sprintf("b%03d", rng.Intn(400)))
				}
				it := genItem(rng, kk, false)
				if it.lease > 1000 { // keep the plan independent of the wall clock
					it.lease = 4_000_000_000_000_000_000 + uint64(rng.Intn(1000))
				}
				if it.lease != 0 {
					leases[string(kk)] = it.lease
				}
				o.items = append(o.items, it)
			}
			plan = append(plan, o)
		case x < 93:
			o := op{kind: "remove"}
			if big && rng.Chance(60) {
				// what a leaving node does: one RemoveKeys call for everything it handed off
				// (more keys than sqlite's 200-key delete batch)
				for _, j := range rngPerm(rng, 400)[:220+rng.Intn(180)] {
					kk := []byte(fmt.Sprintf("b%03d", j))
					o.keys = append(o.keys, kk)
					delete(leases, string(kk))
				}
			} else {
				for m := 1 + rng.Intn(3); m > 0; m-- {
					kk := hlib.Pick(rng, keys)
					o.keys = append(o.keys, kk)
					delete(leases, string(kk))
				}
			}
			plan = append(plan, o)
		default:
			t := leases[string(k)]
			if t == 0 || rng.Chance(25) {
				t = uint64(1 + rng.Intn(5))
			}
			plan = append(plan, op{kind: "release", k: k, tok: t})
		}
	}
	return plan
}

// nTorn: torn-log images derived from every killed child; stracePath: "" when strace is not installed
var nTorn = 2

var stracePath string

// bigCallDuration: measured once per run — how long one RemoveKeys of ~300 keys takes here
var bigCallDuration time.Duration

func calibrate(root string) {
	dir := filepath.Join(root, "calib")
	os.MkdirAll(dir, 0o755)
	defer os.RemoveAll(dir)
	kv, err := openStore(dir, chord.Hash)
	if err != nil {
		return
	}
	defer kv.Close()
	plan := genPlan(12345, 2, true)
	t0 := time.Now()
	plan[0].apply(kv)
	bigImport := time.Since(t0)
	t0 = time.Now()
	plan[1].apply(kv)
	bigCallDuration = time.Since(t0)
	tun.thr["importN"] = float64(bigImport.Nanoseconds()) / float64(len(plan[0].items)) * 0.8
	tun.thr["removeN"] = float64(bigCallDuration.Nanoseconds()) / float64(len(plan[1].keys)) * 0.8
	// a small call (one key): starting point of the deadline thresholds
	t0 = time.Now()
	for i := 0; i < 40; i++ {
		op{kind: "put", k: []byte(fmt.Sprintf("w%d", i%5)), v: []byte{byte(i)}}.apply(kv)
	}
	tun.base = float64(time.Since(t0).Nanoseconds()) / 40
}

func rngPerm(rng *hlib.Rng, n int) []int {
	p := make([]int, n)
	for i := range p {
		p[i] = i
	}
	for i := n - 1; i > 0; i-- {
		j := rng.Intn(i + 1)
		p[i], p[j] = p[j], p[i]
	}
	return p
}

// ---- child mode

func childMain(args []string) {
	dir := args[0]
	seed, _ := strconv.ParseUint(args[1], 10, 64)
	n, _ := strconv.Atoi(args[2])
	big := args[3] == "true"
	dl := len(args) > 4 && args[4] == "dl"                    // calls carry a context that ends while they run
	say := func(s string) { os.Stdout.WriteString(s + "\n") } // one write(2) per line, unbuffered
	if c := os.Getenv("WAZERO_CACHE"); c != "" {
		sq.Initialize(c)
	}
	plan := genPlan(seed, n, big)
	kv, err := openStore(dir, hash1)
	if err != nil {
		say("openerr " + strings.ReplaceAll(err.Error(), "\n", " "))
		os.Exit(3)
	}
	var raw *sql.DB
	rng := hlib.NewRng(seed ^ 0x7e57)
	if dl {
		tun.load(os.Getenv("C23_THR"))
		raw = rawOpen(dir)
	}
	say("ready")
	for i, o := range plan {
		if !dl {
			say("issued " + strconv.Itoa(i))
			o.apply(kv)
			say("acked " + strconv.Itoa(i))
			continue
		}
		before := dump(raw)
		_, ctx, cancel, tune := ctxFor(rng, o)
		say("issued " + strconv.Itoa(i))
		res, _ := o.applyCtx(ctx, kv)
		cancel()
		if tune && res != "panic" {
			tun.feedback(o, res != "error") // returned in time (whatever the result) / cut short
		}
		switch {
		case res != "error":
			say("acked " + strconv.Itoa(i))
		case dump(raw) == before:
			say("failed " + strconv.Itoa(i) + " noeffect") // not acknowledged, and the tables show nothing of it
		default:
			say("failed " + strconv.Itoa(i) + " changed")
		}
	}
	say("done")
	kv.Close()
}

// ---- cases

type line struct {
	raw      bool
	lhs, rhs string
}
type caseOut struct {
	wall    time.Duration
	lines   []line
	buckets []string
	key     string
}

func (c *caseOut) emit(lhs, rhs string) { c.lines = append(c.lines, line{false, lhs, rhs}) }
func (c *caseOut) count(b string)       { c.buckets = append(c.buckets, b) }

func keyLines(c *caseOut, keys [][]byte) {
	seen := map[string]bool{}
	for _, k := range keys {
		if seen[string(k)] {
			continue
		}
		seen[string(k)] = true
		c.emit(fmt.Sprintf("key %s %d %d", hlib.Hex(k), hash1(k), hash2(k)), "-")
	}
}

func seqCase(root string, id int, seed uint64, nops int) (out caseOut) {
	rng := hlib.NewRng(seed)
	dir := filepath.Join(root, fmt.Sprintf("seq%d", id))
	os.MkdirAll(dir, 0o755)
	defer os.RemoveAll(dir)
	out.lines = append(out.lines, line{raw: true, lhs: fmt.Sprintf("# case seq %d seed %d", id, seed)}, line{raw: true, lhs: "reset"})
	keys := seqKeys()
	keyLines(&out, keys)
	kv, err := openStore(dir, hash1)
	if err != nil {
		panic(err)
	}
	defer func() { kv.Close() }()
	raw := rawOpen(dir)
	defer raw.Close()
	tokens := map[string]uint64{}
	useH2 := false
	var trace []string
	for i := 0; i < nops; i++ {
		k := hlib.Pick(rng, keys)
		var o op
		switch x := rng.Intn(100); {
		case x < 16:
			o = op{kind: "put", k: k, v: rng.Bytes(rng.Intn(4))}
		case x < 24:
			o = op{kind: "del", k: k}
		case x < 36:
			o = op{kind: "pappend", k: k, v: hlib.Pick(rng, children)}
		case x < 45:
			o = op{kind: "premove", k: k, v: hlib.Pick(rng, children)}
		case x < 56:
			o = op{kind: "acquire", k: k, ttl: hlib.Pick(rng, []int{hour, hour, 2 * hour, 999, 0, 1000 * 3600})}
		case x < 64:
			t := tokens[string(k)]
			if t == 0 || rng.Chance(25) {
				t = uint64(1 + rng.Intn(1000))
			}
			o = op{kind: "renew", k: k, ttl: hlib.Pick(rng, []int{hour, 2 * hour, 500}), tok: t}
		case x < 72:
			t := tokens[string(k)]
			if t == 0 || rng.Chance(25) {
				t = uint64(rng.Intn(1000))
			}
			o = op{kind: "release", k: k, tok: t}
		case x < 82:
			o = op{kind: "import"}
			for m := 1 + rng.Intn(3); m > 0; m-- {
				it := genItem(rng, hlib.Pick(rng, keys), true)
				o.items = append(o.items, it)
			}
		case x < 87:
			o = op{kind: "remove"}
			for m := 1 + rng.Intn(2); m > 0; m-- {
				o.keys = append(o.keys, hlib.Pick(rng, keys))
			}
		case x < 90:
			v, err := kv.Get(context.Background(), k)
			r := "nil"
			if err != nil {
				r = "error"
			} else if v != nil {
				r = hlib.Hex(v)
			}
			out.emit("get "+hlib.Hex(k), r)
			out.count("op:get")
			continue
		case x < 93:
			cs, err := kv.PrefixList(context.Background(), k)
			r := "."
			if err != nil {
				r = "error"
			} else if len(cs) > 0 {
				var xs []string
				for _, c := range cs {
					xs = append(xs, hlib.Hex(c))
				}
				sort.Strings(xs)
				r = strings.Join(xs, ",")
			}
			out.emit("plist "+hlib.Hex(k), r)
			out.count("op:plist")
			continue
		case x < 97:
			ks, err := kv.ListKeys(context.Background(), nil)
			r := "."
			if err != nil {
				r = "error"
			} else if len(ks) > 0 {
				var xs []string
				for _, kc := range ks {
					xs = append(xs, hlib.Hex(kc.Key)+":"+map[protocol.KeyComposite_Type]string{
						protocol.KeyComposite_SIMPLE: "S", protocol.KeyComposite_PREFIX: "P", protocol.KeyComposite_LEASE: "L"}[kc.Type])
				}
				sort.Strings(xs)
				r = strings.Join(xs, ",")
			}
			out.emit("listkeys", r+" "+dump(raw))
			out.count("op:listkeys")
			continue
		default:
			// re-open with the other hash function: calls on old keys must fail and roll back
			kv.Close()
			useH2 = !useH2
			hf, n := chord.HashFn(hash1), "1"
			if useH2 {
				hf, n = hash2, "2"
			}
			kv, err = openStore(dir, hf)
			if err != nil {
				panic(err)
			}
			out.emit("usehash "+n, "-")
			out.count("op:reopen-other-hashfn")
			continue
		}
		now := time.Now().UnixNano()
		res, tk := o.apply(kv)
		if tk != 0 {
			tokens[string(o.k)] = tk
		}
		if o.kind == "import" && res == "ok" {
			for _, it := range o.items {
				if it.lease != 0 {
					tokens[string(it.k)] = it.lease
				}
			}
		}
		out.emit(o.tokens(now), res)
		out.count("op:" + o.kind)
		cls := res
		if strings.HasPrefix(res, "ok:") {
			cls = "ok"
		}
		out.count("result:" + cls)
		trace = append(trace, o.kind+"="+cls)
		if rng.Chance(50) || i == nops-1 {
			out.emit("dump", dump(raw))
		}
	}
	out.key = strings.Join(trace, ",")
	return
}

// pw > 0: instead of a timed kill, the child runs under strace, which delivers SIGKILL on entry to the child's
// pw-th pwrite64 (every write to the database file and to its log is one): half of those instants lie between
// the two writes of one log frame.
func crashCase(root string, id int, seed uint64, n int, big bool, dl bool, pw int) (out caseOut) {
	rng := hlib.NewRng(seed ^ 0x5151)
	dir := filepath.Join(root, fmt.Sprintf("crash%d", id))
	ref := filepath.Join(root, fmt.Sprintf("crash%dref", id))
	os.MkdirAll(dir, 0o755)
	os.MkdirAll(ref, 0o755)
	defer os.RemoveAll(dir)
	defer os.RemoveAll(ref)
	plan := genPlan(seed, n, big)
	out.lines = append(out.lines, line{raw: true, lhs: fmt.Sprintf("# case crash %d seed %d n %d big %v deadlines %v pwrite %d", id, seed, n, big, dl, pw)}, line{raw: true, lhs: "reset"})
	var ks [][]byte
	for _, o := range plan {
		ks = append(ks, o.allKeys()...)
	}
	keyLines(&out, append(seqKeys(), ks...))
	// kill point: while call K is in flight (after a seeded delay), or K = -1: during start-up / migration
	K := rng.Intn(n+1) - 1
	if rng.Chance(15) {
		K = -1
	}
	delay := time.Duration(rng.Intn(1500)) * time.Microsecond
	if rng.Chance(30) {
		delay = 0
	}
	if big && n == 2 && bigCallDuration > 0 {
		// directed case: kill somewhere inside the big Import (K=0) or the big RemoveKeys (K=1); the kill
		// delay is spread over the measured duration of such a call on this machine
		K = 1
		if rng.Chance(25) {
			K = 0
		}
		delay = time.Duration(float64(bigCallDuration) * (0.05 + 1.1*float64(rng.Intn(1000))/1000.0))
	} else if big && rng.Chance(65) {
		// aim at a multi-batch call (big Import / big RemoveKeys) and kill somewhere inside it
		var bigIdx []int
		for i, o := range plan {
			if len(o.keys) > 200 || len(o.items) > 100 {
				bigIdx = append(bigIdx, i)
			}
		}
		if len(bigIdx) > 0 {
			K = hlib.Pick(rng, bigIdx)
			delay = time.Duration(200+rng.Intn(6000)) * time.Microsecond
		}
	}
	cmd := exec.Command(os.Args[0], "child", dir, strconv.FormatUint(seed, 10), strconv.Itoa(n), hlib.B(big))
	if pw > 0 {
		K, delay = -2, 0 // no timed kill
		cmd = exec.Command(stracePath, append([]string{"-f", "-qq", "-o", "/dev/null", "-e", "trace=pwrite64", "-e",
			fmt.Sprintf("inject=pwrite64:signal=SIGKILL:when=%d", pw)}, cmd.Args...)...)
	}
	if dl {
		cmd.Args = append(cmd.Args, "dl")
		cmd.Env = append(os.Environ(), "C23_THR="+tun.export())
	}
	stdout, _ := cmd.StdoutPipe()
	cmd.Stderr = nil
	if err := cmd.Start(); err != nil {
		panic(err)
	}
	var killed atomic.Bool
	kill := func() { killed.Store(true); cmd.Process.Signal(syscall.SIGKILL) }
	if K == -1 {
		time.AfterFunc(time.Duration(rng.Intn(400))*time.Millisecond, kill)
	}
	issued, acked, done := 0, 0, false
	skipped := map[int]bool{} // deadline mode: calls that returned the context's error and left nothing
	sc := bufio.NewScanner(stdout)
	for sc.Scan() {
		l := sc.Text()
		switch {
		case strings.HasPrefix(l, "issued "):
			issued++
			if issued-1 == K {
				if delay == 0 {
					kill()
				} else {
					time.AfterFunc(delay, kill)
				}
			}
		case strings.HasPrefix(l, "acked "):
			acked++
		case strings.HasPrefix(l, "failed "):
			// returned without acknowledgement (context ended): `noeffect` calls are left out of the
			// history, `changed` ones stay in it (an effect must then be the whole call)
			acked++
			f := strings.Fields(l)
			if len(f) == 3 && f[2] == "noeffect" {
				j, _ := strconv.Atoi(f[1])
				skipped[j] = true
				out.count("crash:unacknowledged-call-left-nothing")
			} else {
				out.count("crash:unacknowledged-call-changed-the-store")
			}
		case l == "done":
			done = true
		case strings.HasPrefix(l, "openerr"):
			out.count("crash:child-open-error")
		}
	}
	cmd.Wait()
	if pw > 0 && !done {
		killed.Store(true)
	}
	if pw > 0 {
		out.count("crash:killed-on-entry-to-a-pwrite64")
		if fi, err := os.Stat(filepath.Join(dir, "sqlite3", "db-wal")); err == nil && fi.Size() > 32 {
			if (fi.Size()-32)%(24+4096) == 24 {
				out.count("pwrite-kill:log-ends-with-a-frame-header-without-page")
			} else if (fi.Size()-32)%(24+4096) == 0 {
				out.count("pwrite-kill:log-length-whole-frames")
			} else {
				out.count("pwrite-kill:log-length-other")
			}
		}
	}
	// crash images with a torn log tail, derived from the killed child's directory before anything re-opens it
	var torn []tornImage
	if !done {
		torn = tornImages(rng, root, id, dir, nTorn, out.count)
	}
	defer func() {
		for _, t := range torn {
			os.RemoveAll(t.dir)
		}
	}()
	switch {
	case done:
		out.count("crash:child-finished-before-kill")
	case issued == 0:
		out.count("crash:killed-during-open-or-migration")
	case issued > acked:
		out.count("crash:killed-with-call-in-flight")
	default:
		out.count("crash:killed-between-calls")
	}
	if issued > acked && issued > 0 {
		out.count("inflight:" + plan[issued-1].kind)
	}
	// the history the recovered store is compared with: every call that returned (except the unacknowledged
	// ones that left nothing) and the call in flight; acked / issued count positions in that history
	if len(skipped) > 0 {
		var eff []op
		a2, i2 := 0, 0
		for i, o := range plan {
			if skipped[i] {
				out.lines = append(out.lines, line{raw: true, lhs: "# returned the context's error, no effect: " + o.tokens(0)})
				continue
			}
			eff = append(eff, o)
			if i < acked {
				a2++
			}
			if i < issued {
				i2++
			}
		}
		plan, acked, issued = eff, a2, i2
	}
	for _, o := range plan {
		out.emit("plan "+o.tokens(0), "-")
	}
	// recovery with the real constructor
	reopenDump := func(dir string) string {
		rec := "openfail"
		if kv, err := openStore(dir, hash1); err == nil {
			raw := rawOpen(dir)
			rec = dump(raw)
			raw.Close()
			kv.Close()
		}
		return rec
	}
	rec := reopenDump(dir)
	// uncrashed reference states of the prefixes acked..issued, by the real store in a fresh directory
	kv, err := openStore(ref, hash1)
	if err != nil {
		panic(err)
	}
	raw := rawOpen(ref)
	for i := 0; i < acked; i++ {
		plan[i].apply(kv)
	}
	d0 := dump(raw)
	out.emit(fmt.Sprintf("ref %d", acked), d0)
	for i := acked; i < issued; i++ {
		plan[i].apply(kv)
		d1 := dump(raw)
		out.emit(fmt.Sprintf("ref %d", i+1), d1)
		switch {
		case d1 == d0:
			out.count("inflight-call:no-visible-effect")
		case rec == d1:
			out.count("inflight-call:found-committed")
		case rec == d0:
			out.count("inflight-call:found-not-committed")
		}
	}
	raw.Close()
	kv.Close()
	how := ""
	if pw > 0 {
		how = fmt.Sprintf(" killed-on-entry-to-pwrite64-number-%d", pw)
	}
	out.emit(fmt.Sprintf("recovered %d %d", acked, issued)+how, rec)
	for _, t := range torn {
		rt := reopenDump(t.dir)
		out.emit(fmt.Sprintf("recovered %d %d %s", acked, issued, t.how), rt)
		if rt == rec {
			out.count("torn:recovers-like-the-untouched-image")
		} else {
			out.count("torn:recovers-differently")
		}
	}
	out.key = fmt.Sprintf("crash/%d/%d/%d/%v/%d", seed, acked, issued, killed.Load(), len(skipped))
	return
}

func main() {
	if len(os.Args) > 1 && os.Args[1] == "child" {
		childMain(os.Args[2:])
		return
	}
	r := hlib.Start()
	r.Rule = "sequential cases: random histories of all write calls (put/del/pappend/premove/acquire/renew/release/import/remove, re-open with another hash function) on 6 keys with reads and raw table dumps; deadline cases: seeded history whose calls carry a context that ends while the call runs (deadline or cancel, drawn around an adaptive per-call-class threshold at the commit hand-over), next to an uncancelled reference store executing the acknowledged calls, with re-opens; crash cases: seeded deterministic history (every third one with such contexts) applied by a child process SIGKILLed while a seeded call is in flight (or during open/migration), re-opened by the real constructor; from the directory of every killed child three more crash images with a torn log tail (whole frames without commit mark and a strict prefix of one more frame written where the next transaction would log, or a cut inside logged frames that have no commit mark yet) are re-opened the same way; pwrite cases: the child runs under strace and is killed on entry to its N-th pwrite64 (between the two writes of one log frame in half of the cases); non-trivial = distinct (kind,result) trace / distinct (seed,acked,issued)"
	cache := os.Getenv("WAZERO_CACHE")
	if cache == "" {
		cache = filepath.Join(os.TempDir(), "verif-wazero")
		os.Setenv("WAZERO_CACHE", cache)
	}
	os.MkdirAll(cache, 0o755)
	if err := sq.Initialize(cache); err != nil {
		panic(err)
	}
	base := os.Getenv("VERIF_SCRATCH")
	if base == "" {
		base, _ = os.MkdirTemp("", "c23")
	}
	root := filepath.Join(base, "c23dbs")
	os.RemoveAll(root)
	os.MkdirAll(root, 0o755)
	defer os.RemoveAll(root)
	rng := hlib.NewRng(r.Seed)
	calibrate(root)
	r.Extra["big_call_duration_ms"] = float64(bigCallDuration.Microseconds()) / 1000
	r.Extra["small_call_duration_ms"] = tun.base / 1e6

	var jobs []func() caseOut
	nseq, nops, ncrash := 24, 40, 30
	ndl, ndlops := 16, 150
	nho, nhoops := 8, 14 // hand-off shaped deadline cases (big Import / RemoveKeys)
	if r.Thorough() {
		nseq, nops, ncrash = 300, 60, 400
		ndl, ndlops = 80, 300
		nho, nhoops = 40, 30
	}
	npw := 12
	if r.Thorough() {
		npw, nTorn = 200, 3
	}
	stracePath, _ = exec.LookPath("strace")
	if r.Replay != "" {
		npw = 0
		// a crash is not replayable by construction; sequential lines are re-applied to a fresh real store
		jobs = append(jobs, func() caseOut { return replayCase(root, r.ReplayLines()) })
		nseq, ncrash, ndl, nho = 0, 0, 0, 0
	}
	for i := 0; i < nseq; i++ {
		id, seed := i, rng.U64()
		jobs = append(jobs, func() caseOut { return seqCase(root, id, seed, nops) })
	}
	for i := 0; i < ndl; i++ {
		id, seed := i, rng.U64()
		jobs = append(jobs, func() caseOut { return dlCase(root, id, seed, ndlops, false) })
	}
	for i := 0; i < nho; i++ {
		id, seed := ndl+i, rng.U64()
		jobs = append(jobs, func() caseOut { return dlCase(root, id, seed, nhoops, true) })
	}
	for i := 0; i < ncrash; i++ {
		id, seed := i, rng.U64()
		n := 8 + rng.Intn(25)
		big := rng.Chance(35)
		dl := false
		if i%3 == 2 {
			n, big = 2, true // directed: big Import then big RemoveKeys, killed inside one of them
		} else if i%3 == 1 {
			n, big, dl = 20+rng.Intn(60), false, true // calls carry contexts that end while they run
		}
		jobs = append(jobs, func() caseOut { return crashCase(root, id, seed, n, big, dl, 0) })
	}
	// kills on entry to the N-th pwrite64 of the child (strace): N spread over the writes of a short history
	if stracePath != "" {
		for i := 0; i < npw; i++ {
			id, seed := ncrash+i, rng.U64()
			n := 4 + rng.Intn(12)
			pw := 20 + rng.Intn(6*n+10) // start-up and migration take the first 20..25 writes
			if rng.Chance(15) {
				pw = 1 + rng.Intn(25)
			}
			jobs = append(jobs, func() caseOut { return crashCase(root, id, seed, n, false, false, pw) })
		}
	} else if npw > 0 {
		r.Count("crash:strace-not-available")
	}
	results := make([]caseOut, len(jobs))
	var wg sync.WaitGroup
	next := int64(-1)
	for w := 0; w < 4; w++ {
		wg.Add(1)
		go func() {
			defer wg.Done()
			for {
				i := int(atomic.AddInt64(&next, 1))
				if i >= len(jobs) {
					return
				}
				t0 := time.Now()
				results[i] = jobs[i]()
				results[i].wall = time.Since(t0)
			}
		}()
	}
	wg.Wait()
	r.Extra["deadline_thresholds_ns"] = tun.export()
	wallBy := map[string]float64{}
	for _, c := range results {
		if len(c.lines) > 0 {
			if f := strings.Fields(c.lines[0].lhs); len(f) > 2 {
				wallBy[f[2]] += c.wall.Seconds()
			}
		}
	}
	r.Extra["case_wall_s_by_kind"] = wallBy
	if os.Getenv("C23_WALLS") != "" {
		for _, c := range results {
			if len(c.lines) > 0 {
				fmt.Fprintf(os.Stderr, "%6.2fs %s\n", c.wall.Seconds(), c.lines[0].lhs)
			}
		}
	}
	for _, c := range results {
		for _, l := range c.lines {
			if l.raw {
				r.Raw(l.lhs)
			} else {
				r.Emit(l.lhs, l.rhs)
			}
		}
		for _, b := range c.buckets {
			r.Count(b)
		}
		r.Case(c.key)
	}
	r.Finish()
}
