import SpecterModel.Util
import SpecterModel.C30.Model
/-! C30 line-protocol driver: model output (DIFF) + spec oracle from the property statement (SPEC). -/
namespace Specter.C30
open Specter.Util
open Specter.C29 (Cfg State Client)

structure DState where
  cfg : Cfg
  kv : State
  cache : Cache

def dinit : DState := ⟨⟨"", ""⟩, State.init, fun _ => none⟩

def parseClient (s : String) : Option Client :=
  match s.splitOn ":" with
  | [i, t] => i.toNat?.map (⟨·, t⟩)
  | _ => none

def errStr : Err → String
  | .invHost => "inv:hostname" | .invPow => "inv:pow" | .denied => "permission_denied" | .kvErr => "err"
  | .provider => "provider" | .invAlgo => "inv:algo" | .invDigest => "inv:digest" | .internal => "internal"

def resStr (r : Option Err) : String := (r.map errStr).getD "ok"

def parseProv (s : String) : Option Provider :=
  if s = "cert" then some .cert else if s = "fail" then some .fail else if s = "empty" then some .empty else none

def parseReq (cl norm pow gf prov : String) : Option Req :=
  match parseClient cl, (if norm = "!" then some none else (hexToAscii norm).map some), parseProv prov with
  | some c, some n, some p => some ⟨c, n, pow.startsWith "1", gf = "1", p⟩
  | _, _, _ => none

def parseInt (s : String) : Option Int :=
  if s.startsWith "-" then (s.drop 1).toString.toNat?.map (fun n => -(n : Int)) else s.toNat?.map (fun n => (n : Int))

/-- spec: the caller is the client the (normalised) hostname is bound to, with a valid proof of work -/
def entitled (d : DState) (r : Req) : Bool :=
  r.powOk && (match r.norm with | some h => d.kv.bound h == some r.caller | none => false)

/-- spec: "never kept past its expiry minus the safety skew" (1 s is the smallest TTL the cache is given) -/
def ttlAllowed (dNs ttl : Int) : Bool :=
  decide (0 < ttl) && decide (ttl ≤ max (dNs - Gen.C30.keylessExpirySkew) second)

def dstep (d : DState) (toks : List String) (rhs : String) : DState × Verdict :=
  match toks with
  | ["reset"] => (⟨d.cfg, State.init, fun _ => none⟩, .ok)
  | ["reset", apex, acme] =>
    match hexToAscii apex, hexToAscii acme with
    | some a, some z => (⟨⟨a, z⟩, State.init, fun _ => none⟩, .ok)
    | _, _ => (d, .bad "reset args")
  | ["bind", cl, host] =>
    match parseClient cl, hexToAscii host with
    | some c, some h =>
      if rhs ≠ "ok" then (d, .bad "bind failed in the harness")
      else ({ d with kv := ⟨fun x => if x = h then some c else d.kv.bound x, d.kv.lists⟩ }, .ok)
    | _, _ => (d, .bad "bind args")
  | ["getcert", cl, _raw, norm, pow, gf, prov] =>
    match parseReq cl norm pow gf prov, rhs.splitOn " " with
    | some r, [res, n, called] =>
      let o := getCertificate d.cfg d.kv d.cache r
      let d' := { d with cache := o.cache }
      let m := s!"{resStr o.res} {if o.res.isNone then n else "-"} {if o.called then 1 else 0}"
      if res = "ok" ∧ !entitled d r then (d', .spec "certificate chain returned to a caller that is not the bound client with a valid proof")
      else if called ≠ "0" ∧ !entitled d r then (d', .spec "certificate provider consulted for a caller that is not entitled")
      else if res = "ok" ∧ (n = "0" ∨ n = "-") then (d', .spec "ok without a certificate chain")
      else if m ≠ rhs then (d', .diff m) else (d', .ok)
    | _, _ => (d, .bad "getcert args")
  | ["sign", cl, _raw, norm, pow, gf, prov, algo, dlen, _key, flags] =>
    match parseReq cl norm pow gf prov, algo.toNat?, dlen.toNat?, rhs.splitOn " " with
    | some r, some a, some dl, [res, called, ver] =>
      let o := sign d.cfg d.kv d.cache r a dl (flags.startsWith "1") (flags.endsWith "1")
      let d' := { d with cache := o.cache }
      let m := s!"{resStr o.res} {if o.called then 1 else 0} {if o.res.isNone then "1" else "-"}"
      let sizeOk : Bool := (a == 1 && dl == 32) || (a == 2 && dl == 48) || (a == 3 && dl == 64)
      if res = "ok" ∧ !entitled d r then (d', .spec "signature returned to a caller that is not the bound client with a valid proof")
      else if called ≠ "0" ∧ !entitled d r then (d', .spec "certificate provider consulted for a caller that is not entitled")
      else if res = "ok" ∧ !sizeOk then (d', .spec "signed with an unsupported hash or a digest of the wrong length")
      else if res = "ok" ∧ ver ≠ "1" then (d', .spec "returned signature does not verify under the certificate's key")
      else if m ≠ rhs then (d', .diff m) else (d', .ok)
    | _, _, _, _ => (d, .bad "sign args")
  | ["ttl", kind, dn] =>
    match (if dn = "-" then some none else (parseInt dn).map some), parseInt rhs with
    | some leaf, some t =>
      let m := computeTTL leaf
      let known := kind = "leaf" ∨ kind = "der"
      if known ∧ leaf.isNone then (d, .bad "ttl without d")
      else if (match leaf with | some dNs => !ttlAllowed dNs t | none => false : Bool) then
        (d, .spec "cache TTL keeps the certificate past NotAfter - skew")
      else if t ≤ 0 ∨ t > Gen.C30.keylessPositiveTTL then (d, .spec "cache TTL outside (0, 5 min]")
      else if m ≠ t then (d, .diff (toString m)) else (d, .ok)
    | _, _ => (d, .bad "ttl args")
  | ["loader", prov, d0, d1] =>
    match parseProv prov, rhs.splitOn " " with
    | some p, [t, res] =>
      match parseInt t, (if d0 = "-" then some none else (parseInt d0).map some),
            (if d1 = "-" then some none else (parseInt d1).map some) with
      | some t, some l0, some l1 =>
        -- the loader reads the clock between the two readings of the harness: NotAfter-now ∈ [d1, d0]
        let wantRes := if p = .cert then "cert" else "cachederr"
        let okT : Bool := match p, l0, l1 with
          | .cert, some a0, some a1 => ttlReachable a1 a0 t
          | .cert, _, _ => t == computeTTL none
          | _, _, _ => t == Gen.C30.keylessFailedTTL
        let past : Bool := match l0 with | some dNs => decide (p = .cert) && !ttlAllowed dNs t | none => false
        if past then
          (d, .spec "loader TTL keeps the certificate past NotAfter - skew")
        else if t ≤ 0 then (d, .spec "loader TTL not positive (the cache would keep the entry forever)")
        else if !okT ∨ res ≠ wantRes then (d, .diff s!"ttl not reachable in bracket; {wantRes}") else (d, .ok)
      | _, _, _ => (d, .bad "loader numbers")
    | _, _ => (d, .bad "loader args")
  | _ => (d, .bad "unknown op")

def main : IO Unit := runLoop dinit dstep

end Specter.C30
