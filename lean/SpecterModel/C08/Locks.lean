/-!
# C08 — a lock order excludes deadlock (and a wedged join request)

`LocalNode` guards its neighbour pointers with several mutexes (`surrogateMu`, `predecessorMu`, `successorsMu`).
A join request that is never answered violates C08 just like a panic does; the one way the node's own code can
wedge it is a lock-order inversion between two of its goroutines (e.g. `RequestToJoin`, which holds
`predecessorMu` through the hand-off and then reads the successor list, against a maintenance task).

This file is the generic half: a small-step model of any number of threads that take and release locks from a
finite set, where a thread requests lock `b` while holding `a` only if `(a, b)` is an edge of a given relation `E`
(the relation extracted from the code: `GenLocks.lean`). Theorems, for EVERY number of threads, every schedule
and every reachable state:

* `no_deadlock_of_rank` — if `E` admits a rank function (`rank a < rank b` for every edge) there is never a
  cycle of threads each blocked on a lock held by the next;
* `progress_of_rank` — and whenever some thread is blocked, some thread can take a real step (a blocked thread gets
  its lock, or the holder of a wanted lock — which is itself not blocked — can release): blocked threads never
  wait on each other forever;
* `deadlock_permanent` — what is excluded is real: once a wait cycle exists, no step of any thread ever dissolves it;
* `acyclicCheck_sound` — the executable check (longest-path ranks by `n` rounds of edge relaxation, then every edge
  compared) yields such a rank function. `LocksProps.lean` discharges it for the generated edges by `decide`.

RLock is read as Lock (exclusive): sound for ordering, because a `sync.RWMutex` with a waiting writer blocks new
readers. Locks are natural numbers (indices into the generated list of mutex names). Core Lean only.
-/
namespace Specter.C08.Locks

/-- one thread: the locks it holds and the lock it is blocked on (inside `Lock()`), if any -/
structure Thr where
  held : List Nat := []
  want : Option Nat := none
deriving Repr, DecidableEq

/-- the threads, addressed by position -/
abbrev State := List Thr

/-- `n` threads holding nothing -/
def init (n : Nat) : State := List.replicate n {}

inductive Act where
  /-- thread `t` calls `Lock` on `b`: from now on it is blocked on `b` -/
  | request (t b : Nat)
  /-- the lock `t` is blocked on is free: `t` gets it and runs on -/
  | acquire (t : Nat)
  /-- thread `t`, not blocked, unlocks `a` -/
  | release (t a : Nat)
deriving Repr, DecidableEq

/-- lock-order edges `(held, acquired)` -/
abbrev Edges := List (Nat × Nat)

def isFree (s : State) (b : Nat) : Bool := s.all (fun th => !th.held.contains b)

/-- the discipline: `b` may be requested only if every held lock has an edge to it -/
def allowed (E : Edges) (held : List Nat) (b : Nat) : Bool := held.all (fun a => E.contains (a, b))

def step (E : Edges) (s : State) : Act → Option State
  | .request t b =>
    match s[t]? with
    | some th =>
      if th.want.isNone && allowed E th.held b then some (s.set t { th with want := some b }) else none
    | none => none
  | .acquire t =>
    match s[t]? with
    | some th =>
      match th.want with
      | some b => if isFree s b then some (s.set t { held := b :: th.held, want := none }) else none
      | none => none
    | none => none
  | .release t a =>
    match s[t]? with
    | some th =>
      if th.want.isNone && th.held.contains a then some (s.set t { th with held := th.held.erase a }) else none
    | none => none

def run (E : Edges) : State → List Act → Option State
  | s, [] => some s
  | s, a :: as =>
    match step E s a with
    | some s' => run E s' as
    | none => none

/-- reachable from `n` idle threads by some schedule -/
def Reachable (E : Edges) (n : Nat) (s : State) : Prop := ∃ acts, run E (init n) acts = some s

/-- thread `t` is blocked on a lock that thread `u` holds -/
def WaitsFor (s : State) (t u : Nat) : Prop :=
  ∃ th tu b, s[t]? = some th ∧ s[u]? = some tu ∧ th.want = some b ∧ b ∈ tu.held

/-- consecutive elements are related -/
def Chain (R : Nat → Nat → Prop) : List Nat → Prop
  | a :: b :: r => R a b ∧ Chain R (b :: r)
  | _ => True

/-- **deadlock**: threads `t, m₁, …, m_k, t` (`k ≥ 0`), each blocked on a lock held by the next -/
def Deadlock (s : State) : Prop := ∃ t mid, Chain (WaitsFor s) (t :: (mid ++ [t]))

/-! ## the invariant: a blocked thread waits for a lock ranked above everything it holds -/

def Ordered (rank : Nat → Nat) (s : State) : Prop :=
  ∀ th ∈ s, ∀ b, th.want = some b → ∀ a ∈ th.held, rank a < rank b

theorem ordered_init (rank : Nat → Nat) (n : Nat) : Ordered rank (init n) := by
  intro th hth b hb
  have : th = {} := List.eq_of_mem_replicate hth
  subst this
  simp at hb

theorem step_ordered (E : Edges) (rank : Nat → Nat) (hr : ∀ e ∈ E, rank e.1 < rank e.2)
    (s s' : State) (a : Act) (ho : Ordered rank s) (hs : step E s a = some s') : Ordered rank s' := by
  cases a with
  | request t b =>
    simp only [step] at hs
    split at hs
    · rename_i th hth
      split at hs
      · rename_i hc
        injection hs with hs; subst hs
        intro th' hmem b' hb' a ha
        rcases List.mem_or_eq_of_mem_set hmem with h | h
        · exact ho th' h b' hb' a ha
        · subst h
          simp only [Option.some.injEq] at hb'
          subst hb'
          simp only [Bool.and_eq_true] at hc
          have hall := hc.2
          simp only [allowed, List.all_eq_true] at hall
          have := hall a ha
          have hmemE : (a, b) ∈ E := by simpa using this
          exact hr (a, b) hmemE
      · simp at hs
    · simp at hs
  | acquire t =>
    simp only [step] at hs
    split at hs
    · rename_i th hth
      split at hs
      · split at hs
        · injection hs with hs; subst hs
          intro th' hmem b' hb' a ha
          rcases List.mem_or_eq_of_mem_set hmem with h | h
          · exact ho th' h b' hb' a ha
          · subst h; simp at hb'
        · simp at hs
      · simp at hs
    · simp at hs
  | release t a =>
    simp only [step] at hs
    split at hs
    · rename_i th hth
      split at hs
      · rename_i hc
        injection hs with hs; subst hs
        intro th' hmem b' hb' a' ha'
        rcases List.mem_or_eq_of_mem_set hmem with h | h
        · exact ho th' h b' hb' a' ha'
        · subst h
          simp only [Bool.and_eq_true, Option.isNone_iff_eq_none] at hc
          simp only at hb'
          rw [hc.1] at hb'
          simp at hb'
      · simp at hs
    · simp at hs

theorem run_ordered (E : Edges) (rank : Nat → Nat) (hr : ∀ e ∈ E, rank e.1 < rank e.2) :
    ∀ (acts : List Act) (s s' : State), Ordered rank s → run E s acts = some s' → Ordered rank s' := by
  intro acts
  induction acts with
  | nil => intro s s' ho h; simp only [run, Option.some.injEq] at h; subst h; exact ho
  | cons a as ih =>
    intro s s' ho h
    simp only [run] at h
    split at h
    · rename_i s1 hs1
      exact ih s1 s' (step_ordered E rank hr s s1 a ho hs1) h
    · simp at h

theorem reachable_ordered (E : Edges) (rank : Nat → Nat) (hr : ∀ e ∈ E, rank e.1 < rank e.2)
    (n : Nat) (s : State) (h : Reachable E n s) : Ordered rank s := by
  obtain ⟨acts, h⟩ := h
  exact run_ordered E rank hr acts (init n) s (ordered_init rank n) h

/-! ## no wait cycle -/

/-- rank of the lock a thread is blocked on (0 when it is not blocked) -/
def wantRank (rank : Nat → Nat) (s : State) (t : Nat) : Nat :=
  match s[t]? with
  | some th => match th.want with
    | some b => rank b
    | none => 0
  | none => 0

/-- along the wait-for relation the rank of the wanted lock strictly increases (as long as the next thread is
blocked too) -/
theorem waits_rank_lt (rank : Nat → Nat) (s : State) (ho : Ordered rank s) (t u v : Nat)
    (h1 : WaitsFor s t u) (h2 : WaitsFor s u v) : wantRank rank s t < wantRank rank s u := by
  obtain ⟨th, tu, b, ht, hu, hb, hmem⟩ := h1
  obtain ⟨tu', _, b', hu', _, hb', _⟩ := h2
  rw [hu] at hu'
  injection hu' with hu'
  subst hu'
  have hin : tu ∈ s := List.mem_of_getElem? hu
  have := ho tu hin b' hb' b hmem
  simp only [wantRank, ht, hb, hu, hb']
  exact this

theorem chain_head (R : Nat → Nat → Prop) (a x : Nat) (l : List Nat) (h : Chain R (a :: x :: l)) : R a x := h.1

theorem chain_rank_lt (rank : Nat → Nat) (s : State) (ho : Ordered rank s) (z v : Nat) (hz : WaitsFor s z v) :
    ∀ (mid : List Nat) (t : Nat), Chain (WaitsFor s) (t :: (mid ++ [z])) → wantRank rank s t < wantRank rank s z := by
  intro mid
  induction mid with
  | nil =>
    intro t h
    exact waits_rank_lt rank s ho t z v h.1 hz
  | cons m mid ih =>
    intro t h
    have h1 : WaitsFor s t m := h.1
    have h2 : Chain (WaitsFor s) (m :: (mid ++ [z])) := h.2
    have hlt := ih m h2
    -- m is blocked too: it waits for the next element of the chain
    have hm : ∃ x, WaitsFor s m x := by
      cases mid with
      | nil => exact ⟨z, h2.1⟩
      | cons x r => exact ⟨x, h2.1⟩
    obtain ⟨x, hx⟩ := hm
    exact Nat.lt_trans (waits_rank_lt rank s ho t m x h1 hx) hlt

/-- an ordered state has no wait cycle -/
theorem ordered_no_deadlock (rank : Nat → Nat) (s : State) (ho : Ordered rank s) : ¬ Deadlock s := by
  intro ⟨t, mid, h⟩
  have hv : ∃ v, WaitsFor s t v := by
    cases mid with
    | nil => exact ⟨t, h.1⟩
    | cons x r => exact ⟨x, h.1⟩
  obtain ⟨v, hv⟩ := hv
  exact Nat.lt_irrefl _ (chain_rank_lt rank s ho t v hv mid t h)

/-- **No deadlock under a ranked lock order**: for every number of threads and every schedule that respects
the edges `E`, no reachable state contains a cycle of threads each blocked on a lock held by the next. -/
theorem no_deadlock_of_rank (E : Edges) (rank : Nat → Nat) (hr : ∀ e ∈ E, rank e.1 < rank e.2)
    (n : Nat) (s : State) (h : Reachable E n s) : ¬ Deadlock s :=
  ordered_no_deadlock rank s (reachable_ordered E rank hr n s h)

/-! ## progress: blocked threads do not wait for ever on each other -/

theorem exists_max {α : Type} (f : α → Nat) (p : α → Prop) :
    ∀ (l : List α), (∃ x ∈ l, p x) → ∃ x ∈ l, p x ∧ ∀ y ∈ l, p y → f y ≤ f x := by
  intro l
  induction l with
  | nil => intro ⟨x, hx, _⟩; simp at hx
  | cons a l ih =>
    intro ⟨x, hx, hp⟩
    by_cases hl : ∃ y ∈ l, p y
    · obtain ⟨m, hm, hpm, hmax⟩ := ih hl
      by_cases hpa : p a
      · by_cases hcmp : f m ≤ f a
        · refine ⟨a, List.mem_cons_self, hpa, ?_⟩
          intro y hy hpy
          rcases List.mem_cons.mp hy with h | h
          · subst h; exact Nat.le_refl _
          · exact Nat.le_trans (hmax y h hpy) hcmp
        · refine ⟨m, List.mem_cons_of_mem _ hm, hpm, ?_⟩
          intro y hy hpy
          rcases List.mem_cons.mp hy with h | h
          · subst h; exact Nat.le_of_lt (Nat.lt_of_not_le hcmp)
          · exact hmax y h hpy
      · refine ⟨m, List.mem_cons_of_mem _ hm, hpm, ?_⟩
        intro y hy hpy
        rcases List.mem_cons.mp hy with h | h
        · subst h; exact absurd hpy hpa
        · exact hmax y h hpy
    · rcases List.mem_cons.mp hx with h | h
      · subst h
        refine ⟨x, List.mem_cons_self, hp, ?_⟩
        intro y hy hpy
        rcases List.mem_cons.mp hy with h | h
        · subst h; exact Nat.le_refl _
        · exact absurd ⟨y, h, hpy⟩ hl
      · exact absurd ⟨x, h, hp⟩ hl

/-- a step that is not a new request: a blocked thread gets its lock, or a running thread releases one -/
def Act.isProgress : Act → Bool
  | .request _ _ => false
  | _ => true

/-- in an ordered state with a blocked thread, a blocked thread can take its lock or the (running) holder of a
wanted lock can release it -/
theorem ordered_progress (E : Edges) (rank : Nat → Nat) (s : State) (ho : Ordered rank s)
    (hw : ∃ th ∈ s, th.want ≠ none) : ∃ a s', a.isProgress = true ∧ step E s a = some s' := by
  obtain ⟨th, hth, hwant, hmax⟩ :=
    exists_max (fun th : Thr => match th.want with | some b => rank b | none => 0) (fun th => th.want ≠ none) s hw
  obtain ⟨t, ht⟩ := List.getElem?_of_mem hth
  cases hb : th.want with
  | none => exact absurd hb hwant
  | some b =>
    cases hfree : isFree s b with
    | true =>
      exact ⟨.acquire t, s.set t { held := b :: th.held, want := none }, rfl, by simp [step, ht, hb, hfree]⟩
    | false =>
      -- somebody holds b; that thread cannot be blocked (it would want a lock of higher rank than the maximum)
      have : ∃ tu ∈ s, b ∈ tu.held := by
        simp only [isFree, List.all_eq_false] at hfree
        obtain ⟨tu, htu, hc⟩ := hfree
        exact ⟨tu, htu, by simpa using hc⟩
      obtain ⟨tu, htu, hheld⟩ := this
      obtain ⟨u, hu⟩ := List.getElem?_of_mem htu
      cases hb' : tu.want with
      | some b' =>
        have h1 : rank b < rank b' := ho tu htu b' hb' b hheld
        have h2 := hmax tu htu (by rw [hb']; simp)
        simp only [hb', hb] at h2
        exact absurd h1 (Nat.not_lt_of_le h2)
      | none =>
        refine ⟨.release u b, s.set u { tu with held := tu.held.erase b }, rfl, ?_⟩
        simp [step, hu, hb', hheld]

/-- **Progress under a ranked lock order**: in every reachable state in which some thread is blocked, some
thread can take a step that is not a new request — the blocked threads are never all waiting on each other. -/
theorem progress_of_rank (E : Edges) (rank : Nat → Nat) (hr : ∀ e ∈ E, rank e.1 < rank e.2)
    (n : Nat) (s : State) (h : Reachable E n s) (hw : ∃ th ∈ s, th.want ≠ none) :
    ∃ a s', a.isProgress = true ∧ step E s a = some s' :=
  ordered_progress E rank s (reachable_ordered E rank hr n s h) hw

/-! ## what is excluded is permanent: a wait cycle never dissolves -/

/-- blocked on a lock that some thread holds -/
def Stuck (s : State) (t : Nat) : Prop := ∃ u, WaitsFor s t u

/-- the thread that takes a step is not stuck, and no other thread changes -/
theorem step_frame (E : Edges) (s s' : State) (a : Act) (hs : step E s a = some s') :
    ∃ x, ¬ Stuck s x ∧ ∀ t, t ≠ x → s'[t]? = s[t]? := by
  cases a with
  | request x b =>
    simp only [step] at hs
    split at hs
    · rename_i th hth
      split at hs
      · rename_i hc
        injection hs with hs; subst hs
        refine ⟨x, ?_, fun t ht => List.getElem?_set_ne (Ne.symm ht)⟩
        intro ⟨u, th0, tu, b0, h0, _, hb0, _⟩
        rw [hth] at h0; injection h0 with h0; subst h0
        simp only [Bool.and_eq_true, Option.isNone_iff_eq_none] at hc
        rw [hc.1] at hb0; simp at hb0
      · simp at hs
    · simp at hs
  | acquire x =>
    simp only [step] at hs
    split at hs
    · rename_i th hth
      split at hs
      · rename_i b hb
        split at hs
        · rename_i hfree
          injection hs with hs; subst hs
          refine ⟨x, ?_, fun t ht => List.getElem?_set_ne (Ne.symm ht)⟩
          intro ⟨u, th0, tu, b0, h0, hu, hb0, hmem⟩
          rw [hth] at h0; injection h0 with h0; subst h0
          rw [hb] at hb0; injection hb0 with hb0; subst hb0
          simp only [isFree, List.all_eq_true] at hfree
          have := hfree tu (List.mem_of_getElem? hu)
          simp [hmem] at this
        · simp at hs
      · simp at hs
    · simp at hs
  | release x a =>
    simp only [step] at hs
    split at hs
    · rename_i th hth
      split at hs
      · rename_i hc
        injection hs with hs; subst hs
        refine ⟨x, ?_, fun t ht => List.getElem?_set_ne (Ne.symm ht)⟩
        intro ⟨u, th0, tu, b0, h0, _, hb0, _⟩
        rw [hth] at h0; injection h0 with h0; subst h0
        simp only [Bool.and_eq_true, Option.isNone_iff_eq_none] at hc
        rw [hc.1] at hb0; simp at hb0
      · simp at hs
    · simp at hs

/-- a wait-for edge between two stuck threads survives every step -/
theorem waitsFor_step (E : Edges) (s s' : State) (a : Act) (hs : step E s a = some s') (t u : Nat)
    (h : WaitsFor s t u) (hu : Stuck s u) : WaitsFor s' t u := by
  obtain ⟨x, hx, hframe⟩ := step_frame E s s' a hs
  have ht : t ≠ x := fun e => hx (e ▸ ⟨u, h⟩)
  have hu' : u ≠ x := fun e => hx (e ▸ hu)
  obtain ⟨th, tu, b, h1, h2, h3, h4⟩ := h
  exact ⟨th, tu, b, (hframe t ht).trans h1, (hframe u hu').trans h2, h3, h4⟩

theorem chain_step (E : Edges) (s s' : State) (a : Act) (hs : step E s a = some s') :
    ∀ (l : List Nat), Chain (WaitsFor s) l → (∀ z, l.getLast? = some z → Stuck s z) → Chain (WaitsFor s') l := by
  intro l
  induction l with
  | nil => intro _ _; trivial
  | cons hd l ih =>
    intro h hlast
    cases l with
    | nil => trivial
    | cons b r =>
      have hb : Stuck s b := by
        cases r with
        | nil => exact hlast b (by simp)
        | cons c r' => exact ⟨c, h.2.1⟩
      refine ⟨waitsFor_step E s s' a hs _ _ h.1 hb, ih h.2 ?_⟩
      intro z hz
      exact hlast z (by simpa [List.getLast?_cons_cons] using hz)

/-- **A deadlock is for ever**: once a wait cycle exists, no step of any thread dissolves it (the threads of the
cycle cannot move, and nobody else's step gives them their lock) — every thread of the cycle waits for ever,
which for a join request means: never answered. -/
theorem deadlock_permanent (E : Edges) (s s' : State) (a : Act) (hs : step E s a = some s')
    (h : Deadlock s) : Deadlock s' := by
  obtain ⟨t, mid, h⟩ := h
  refine ⟨t, mid, chain_step E s s' a hs _ h ?_⟩
  intro z hz
  have : z = t := by
    have : (t :: (mid ++ [t])).getLast? = some t := by
      rw [show t :: (mid ++ [t]) = (t :: mid) ++ [t] from rfl, List.getLast?_append]
      simp
    rw [this] at hz; injection hz with hz; exact hz.symm
  subst this
  cases mid with
  | nil => exact ⟨z, h.1⟩
  | cons x r => exact ⟨x, h.1⟩

theorem deadlock_permanent_run (E : Edges) : ∀ (acts : List Act) (s s' : State),
    run E s acts = some s' → Deadlock s → Deadlock s' := by
  intro acts
  induction acts with
  | nil => intro s s' h hd; simp only [run, Option.some.injEq] at h; subst h; exact hd
  | cons a as ih =>
    intro s s' h hd
    simp only [run] at h
    split at h
    · rename_i s1 hs1
      exact ih s1 s' h (deadlock_permanent E s s1 a hs1 hd)
    · simp at h

/-! ## the executable acyclicity check -/

/-- one round: every edge pushes the rank of its target above the rank of its source -/
def relax (E : Edges) (r : List Nat) : List Nat :=
  E.foldl (fun r e => if r.getD e.2 0 ≤ r.getD e.1 0 then r.set e.2 (r.getD e.1 0 + 1) else r) r

def iter (f : List Nat → List Nat) : Nat → List Nat → List Nat
  | 0, r => r
  | k + 1, r => iter f k (f r)

/-- longest-path ranks of the `n` locks after `n` rounds (exact when `E` is acyclic) -/
def ranks (E : Edges) (n : Nat) : List Nat := iter (relax E) n (List.replicate n 0)

def rankFn (E : Edges) (n : Nat) (v : Nat) : Nat := (ranks E n).getD v 0

/-- every edge joins known locks and goes up in rank -/
def acyclicCheck (E : Edges) (n : Nat) : Bool :=
  E.all (fun e => e.1 < n && e.2 < n && rankFn E n e.1 < rankFn E n e.2)

theorem acyclicCheck_sound (E : Edges) (n : Nat) (h : acyclicCheck E n = true) :
    ∀ e ∈ E, rankFn E n e.1 < rankFn E n e.2 := by
  intro e he
  simp only [acyclicCheck, List.all_eq_true] at h
  have := h e he
  simp only [Bool.and_eq_true, decide_eq_true_eq] at this
  exact this.2

/-- the two theorems, from the executable check -/
theorem no_deadlock_of_check (E : Edges) (k : Nat) (hc : acyclicCheck E k = true)
    (n : Nat) (s : State) (h : Reachable E n s) : ¬ Deadlock s :=
  no_deadlock_of_rank E (rankFn E k) (acyclicCheck_sound E k hc) n s h

theorem progress_of_check (E : Edges) (k : Nat) (hc : acyclicCheck E k = true)
    (n : Nat) (s : State) (h : Reachable E n s) (hw : ∃ th ∈ s, th.want ≠ none) :
    ∃ a s', a.isProgress = true ∧ step E s a = some s' :=
  progress_of_rank E (rankFn E k) (acyclicCheck_sound E k hc) n s h hw

/-! ## naming a cycle (for the report when the check fails; not part of any proof) -/

/-- a path of labelled edges from `a` to `b`, at most `fuel` edges long -/
def path (E : List (Nat × Nat × String)) : Nat → Nat → Nat → Option (List (Nat × Nat × String))
  | 0, _, _ => none
  | f + 1, a, b =>
    E.findSome? (fun e =>
      if e.1 == a then
        if e.2.1 == b then some [e] else (path E f e.2.1 b).map (fun p => e :: p)
      else none)

def findCycle (E : List (Nat × Nat × String)) : Option (List (Nat × Nat × String)) :=
  E.findSome? (fun e => path E E.length e.1 e.1)

def describeCycle (names : List String) (c : List (Nat × Nat × String)) : String :=
  let nm := fun (i : Nat) => names.getD i s!"#{i}"
  " ; ".intercalate (c.map (fun e => s!"{nm e.1} -> {nm e.2.1} (in {e.2.2})"))

end Specter.C08.Locks
