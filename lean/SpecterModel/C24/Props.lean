import SpecterModel.C24.Model
import SpecterModel.C24.Gen
/-!
# C24 — Opening an existing SQLite database never damages its data

Theorems about `openDb Gen.facts` (the model of `sqlite3.New` = `migrate` + `prepareStatements`,
instantiated with the facts regenerated from the source on every run) over **every** database:
any `user_version : Int` (SQLite's is a signed 32-bit value, so negative ones exist too), any of the
2^5 present/absent combinations of the v1 objects, any rows of any type, and any set of v1 names
occupied by a foreign object of the other kind (`clash`) — the situation in which a statement in the
middle of the migration script fails after earlier statements have already run.
-/
namespace Specter.C24
open Gen

variable {ρ : Type}

/-- all four tables exist -/
def tablesPresent (db : Db ρ) : Prop := ∀ o ∈ Obj.tables, present db o = true
/-- the complete v1 schema (tables and index) exists -/
def complete (db : Db ρ) : Prop := ∀ o ∈ Obj.all, present db o = true
/-- every row of every object that existed is still there, in the same object -/
def rowsKept (db db' : Db ρ) : Prop := ∀ o rows, db.tab o = some rows → db'.tab o = some rows

theorem latest_facts : latest facts = 1 := by decide
theorem schemaVersion_is_latest : facts.schemaVersion = latest facts := by decide

theorem migrate_current (db : Db ρ) (h : db.uv = 1) : migrate facts db = (.ok, db) := by
  simp [migrate, latest_facts, h]
theorem migrate_newer (db : Db ρ) (h : 1 < db.uv) : migrate facts db = (.refuse, db) := by
  have : db.uv ≠ 1 := by omega
  simp [migrate, latest_facts, this, h]

/-- the migration loop when the local `uv` is below every migration version (here: `uv < 1`) -/
theorem run_below (uv : Int) (h : uv < 1) (db : Db ρ) :
    runMigrations facts uv facts.migrations db = runMigrations facts 0 facts.migrations db := by
  have h4 : ¬ (1:Int) ≤ uv := by omega
  simp [facts, runMigrations, h4]

theorem migrate_zero (db : Db ρ) (h : db.uv = 0) : migrate facts db =
    if looksLikeV1 facts db then (.ok, { db with uv := 1 })
    else if hasAnyV1 facts db then (.refuse, db) else runMigrations facts 0 facts.migrations db := by
  unfold migrate
  rw [latest_facts, if_neg (by omega), if_neg (by omega), if_pos h]
  split
  · simp [facts, runMigrations]
  · rfl
theorem migrate_neg (db : Db ρ) (h : db.uv < 0) : migrate facts db = runMigrations facts 0 facts.migrations db := by
  unfold migrate
  rw [latest_facts, if_neg (by omega), if_neg (by omega), if_neg (by omega)]
  exact run_below _ (by omega) _

set_option hygiene false in
macro "c24_split" db:ident : tactic => `(tactic| (
  rcases hk : Db.tab $db .keyTrackers with _ | rk <;>
  rcases hs : Db.tab $db .simpleEntries with _ | rs <;>
  rcases hp : Db.tab $db .prefixEntries with _ | rp <;>
  rcases hl : Db.tab $db .leaseEntries with _ | rl <;>
  rcases hx : Db.tab $db .idxHash with _ | rx))

macro "c24_simp" : tactic => `(tactic|
  simp [*, openDb, prepare, runMigrations, applyMigration, execScript, create, looksLikeV1, hasAnyV1,
    present, upd, facts, tablesPresent, complete, rowsKept, Obj.tables, Obj.all])

/-! ### the migration script, statement by statement (any script, any database) -/

theorem present_of_rowsKept {db db' : Db ρ} (h : rowsKept db db') {o : Obj} (hp : present db o = true) :
    present db' o = true := by
  unfold present at *
  rcases ho : db.tab o with _ | rows
  · simp [ho] at hp
  · simp [h o rows ho]

/-- a `CREATE` that succeeds keeps version, foreign objects and every existing row, and the name exists afterwards -/
theorem create_spec {db db' : Db ρ} {c : Obj × Bool} (h : create db c = some db') :
    db'.uv = db.uv ∧ db'.clash = db.clash ∧ rowsKept db db' ∧ present db' c.1 = true := by
  unfold create at h
  by_cases hp : present db c.1 = true
  · rw [if_pos hp] at h
    by_cases hc : c.2 = true
    · rw [if_pos hc] at h; cases h; exact ⟨rfl, rfl, fun _ _ h => h, hp⟩
    · rw [if_neg hc] at h; cases h
  · rw [if_neg hp] at h
    by_cases hc : db.clash c.1 = true
    · rw [if_pos hc] at h; cases h
    · rw [if_neg hc] at h; cases h
      refine ⟨rfl, rfl, ?_, by simp [present, upd]⟩
      intro o rows ho
      have hne : o ≠ c.1 := by
        intro e; subst e; exact hp (by simp [present, ho])
      simp [upd, hne, ho]

/-- a script that ran to its end: version and foreign objects untouched, every existing row kept,
every object the script names exists -/
theorem execScript_ok : ∀ (cs : List (Obj × Bool)) (db db' : Db ρ), execScript cs db = (true, db') →
    db'.uv = db.uv ∧ db'.clash = db.clash ∧ rowsKept db db' ∧ ∀ c ∈ cs, present db' c.1 = true
  | [], db, db', h => by
    simp only [execScript, Prod.mk.injEq, true_and] at h
    subst h; exact ⟨rfl, rfl, fun _ _ h => h, by simp⟩
  | c :: cs, db, db', h => by
    unfold execScript at h
    rcases hc : create db c with _ | db1
    · simp [hc] at h
    · simp only [hc] at h
      obtain ⟨a1, b1, c1, d1⟩ := create_spec hc
      obtain ⟨a2, b2, c2, d2⟩ := execScript_ok cs db1 db' h
      refine ⟨a2.trans a1, b2.trans b1, fun o r ho => c2 o r (c1 o r ho), ?_⟩
      intro c' hc'
      rcases List.mem_cons.mp hc' with e | h'
      · subst e; exact present_of_rowsKept c2 d1
      · exact d2 c' h'

/-- when a script of `IF NOT EXISTS` statements runs to its end: exactly when no name it has to
create is occupied by a foreign object of the other kind -/
theorem execScript_ok_iff : ∀ (cs : List (Obj × Bool)) (_ : ∀ c ∈ cs, c.2 = true) (db : Db ρ),
    (execScript cs db).1 = true ↔ ∀ c ∈ cs, present db c.1 = true ∨ db.clash c.1 = false
  | [], _, db => by simp [execScript]
  | c :: cs, hall, db => by
    have hc2 : c.2 = true := hall c (by simp)
    have hall' : ∀ c' ∈ cs, c'.2 = true := fun c' h => hall c' (by simp [h])
    unfold execScript
    by_cases hp : present db c.1 = true
    · have : create db c = some db := by simp [create, hp, hc2]
      simp only [this, List.mem_cons, forall_eq_or_imp, hp, true_or, true_and]
      exact execScript_ok_iff cs hall' db
    · by_cases hcl : db.clash c.1 = true
      · have : create db c = none := by simp [create, hp, hcl]
        simp [this, hp, hcl]
      · have hcl' : db.clash c.1 = false := by simpa using hcl
        have hcr : create db c = some { db with tab := upd db.tab c.1 (some []) } := by simp [create, hp, hcl]
        simp only [hcr, List.mem_cons, forall_eq_or_imp, hcl', or_true, true_and]
        rw [execScript_ok_iff cs hall' _]
        constructor
        · intro h c' hc'
          by_cases e : c'.1 = c.1
          · right; rw [e]; exact hcl'
          · rcases h c' hc' with h1 | h1
            · left; simpa [present, upd, e] using h1
            · right; exact h1
        · intro h c' hc'
          rcases h c' hc' with h1 | h1
          · left
            by_cases e : c'.1 = c.1
            · simp [present, upd, e]
            · simpa [present, upd, e] using h1
          · right; exact h1

/-! ### the migration script of this release (from the regenerated facts) -/

/-- the `CREATE` statements of the (single) embedded migration -/
def script : List (Obj × Bool) := match facts.migrations with
  | [m] => m.creates
  | _ => []

theorem mem_all (o : Obj) : o ∈ Obj.all := by cases o <;> simp [Obj.all]
theorem script_if_not_exists : ∀ c ∈ script, c.2 = true := by decide
theorem script_covers : ∀ o ∈ Obj.all, ∃ c ∈ script, c.1 = o := by decide
theorem transactional : facts.txMigration = true := by decide

/-- the migration loop started below every migration version: the script runs inside
`applyMigration`'s transaction; on an error nothing of it stays -/
theorem run_zero (db : Db ρ) : runMigrations facts 0 facts.migrations db =
    match execScript script db with
    | (true, db') => (.ok, { db' with uv := 1 })
    | (false, _) => (.refuse, db) := by
  have hmig : facts.migrations = [⟨1, script⟩] := rfl
  rw [hmig]
  unfold runMigrations applyMigration
  rcases execScript script db with ⟨_ | _, db'⟩ <;> simp [runMigrations, transactional]

/-- `New` when `migrate` goes straight to the migration loop (fresh file, or negative version) -/
theorem open_via_script (db : Db ρ) (hm : migrate facts db = runMigrations facts 0 facts.migrations db) :
    (∃ db', execScript script db = (true, db') ∧ openDb facts db = (.ok, { db' with uv := 1 })) ∨
    ((execScript script db).1 = false ∧ openDb facts db = (.refuse, db)) := by
  rcases h : execScript script db with ⟨_ | _, db'⟩
  · right
    refine ⟨rfl, ?_⟩
    unfold openDb; rw [hm, run_zero, h]
  · left
    refine ⟨db', rfl, ?_⟩
    obtain ⟨_, _, _, hall⟩ := execScript_ok _ _ _ h
    have hprep : prepare facts { db' with uv := 1 } = true := by
      unfold prepare
      rw [List.all_eq_true]
      intro o _
      obtain ⟨c, hc, e⟩ := script_covers o (by cases o <;> simp [Obj.all])
      have := hall c hc
      rw [e] at this
      simpa [present] using this
    unfold openDb; rw [hm, run_zero, h]
    simp only [hprep, if_true]

/-- The decision table: `New` succeeds exactly for `user_version = current` with the four tables,
`user_version = 0` with all five objects (legacy) or none of them and none of the five names occupied
by a foreign object of the other kind (fresh), and negative `user_version` when no name that still
has to be created is so occupied (the migration is applied with IF NOT EXISTS on whatever is there). -/
theorem open_outcome_table (db : Db ρ) :
    (openDb facts db).1 = .ok ↔
      (db.uv = 1 ∧ tablesPresent db) ∨
      (db.uv = 0 ∧ (complete db ∨ ∀ o ∈ Obj.all, present db o = false ∧ db.clash o = false)) ∨
      (db.uv < 0 ∧ ∀ o ∈ Obj.all, present db o = true ∨ db.clash o = false) := by
  have hscript : (execScript script db).1 = true ↔ ∀ o ∈ Obj.all, present db o = true ∨ db.clash o = false := by
    rw [execScript_ok_iff script script_if_not_exists db]
    constructor
    · intro h o ho
      obtain ⟨c, hc, e⟩ := script_covers o ho
      rw [← e]; exact h c hc
    · intro h c _
      exact h c.1 (mem_all c.1)
  have hvia : migrate facts db = runMigrations facts 0 facts.migrations db →
      ((openDb facts db).1 = .ok ↔ ∀ o ∈ Obj.all, present db o = true ∨ db.clash o = false) := by
    intro hm
    rw [← hscript]
    rcases open_via_script db hm with ⟨db', h1, h2⟩ | ⟨h1, h2⟩
    · simp [h1, h2]
    · simp [h1, h2]
  by_cases h1 : db.uv = 1
  · have hm := migrate_current db h1
    unfold openDb; rw [hm]
    c24_split db <;> c24_simp
  · by_cases h2 : db.uv > 1
    · have hm := migrate_newer db h2
      have : ¬ db.uv = 0 := by omega
      have : ¬ db.uv < 0 := by omega
      unfold openDb; rw [hm]
      c24_simp
    · by_cases h0 : db.uv = 0
      · have hm := migrate_zero db h0
        have hn : ¬ db.uv < 0 := by omega
        by_cases hf : ∀ o ∈ Obj.all, present db o = false
        · have hm' : migrate facts db = runMigrations facts 0 facts.migrations db := by
            rw [hm]
            have : looksLikeV1 facts db = false := by simp [looksLikeV1, facts, hf .keyTrackers (by simp [Obj.all])]
            have : hasAnyV1 facts db = false := by
              simp only [hasAnyV1, List.any_eq_false]
              intro o ho
              simp [hf o (by cases o <;> simp [Obj.all])]
            simp [*]
          rw [hvia hm']
          have hnc : ¬ complete db := by
            intro hc
            have := hc .keyTrackers (by simp [Obj.all])
            rw [hf .keyTrackers (by simp [Obj.all])] at this
            cases this
          constructor
          · intro h
            refine Or.inr (Or.inl ⟨h0, Or.inr fun o ho => ⟨hf o ho, ?_⟩⟩)
            rcases h o ho with h' | h'
            · rw [hf o ho] at h'; cases h'
            · exact h'
          · rintro (⟨e, _⟩ | ⟨_, hc | h⟩ | ⟨hlt, _⟩)
            · exact absurd e h1
            · exact absurd hc hnc
            · exact fun o ho => Or.inr (h o ho).2
            · exact absurd hlt hn
        · have hf' : ¬ (db.tab .keyTrackers = none ∧ db.tab .simpleEntries = none ∧ db.tab .prefixEntries = none ∧
              db.tab .leaseEntries = none ∧ db.tab .idxHash = none) := by
            intro ⟨a, b, c, d, e⟩
            apply hf
            intro o _
            cases o <;> simp [present, *]
          unfold openDb; rw [hm]
          c24_split db <;> first | (c24_simp; done) | exact absurd ⟨hk, hs, hp, hl, hx⟩ hf'
      · have hn : db.uv < 0 := by omega
        rw [hvia (migrate_neg db hn)]
        simp [h1, h0, hn]

/-- what the property demands of the result `r` of opening `db` -/
def Safe (db : Db ρ) (r : Outcome × Db ρ) : Prop :=
  (r.1 = .ok → r.2.uv = facts.schemaVersion ∧ tablesPresent r.2 ∧ rowsKept db r.2 ∧ (complete r.2 ∨ db.uv = latest facts)
      ∧ db.uv ≤ r.2.uv ∧ r.2.clash = db.clash) ∧
  (r.1 = .refuse → r.2 = db)

/-- `Safe` on the path where the migration script is run (fresh file or negative version): the
script either runs to its end inside the transaction, or the transaction is rolled back. -/
theorem safe_via_script (db : Db ρ) (hm : migrate facts db = runMigrations facts 0 facts.migrations db)
    (hle : db.uv ≤ 1) : Safe db (openDb facts db) := by
  rcases open_via_script db hm with ⟨db', h1, h2⟩ | ⟨_, h2⟩
  · obtain ⟨_, hcl, hrows, hall⟩ := execScript_ok _ _ _ h1
    have hcomp : complete ({ db' with uv := 1 } : Db ρ) := by
      intro o ho
      obtain ⟨c, hc, e⟩ := script_covers o ho
      have := hall c hc
      rw [e] at this
      simpa [present] using this
    rw [h2]
    unfold Safe
    refine ⟨fun _ => ⟨rfl, ?_, hrows, Or.inl hcomp, hle, hcl⟩, fun h => by simp at h⟩
    intro o ho
    exact hcomp o (by cases o <;> simp [Obj.tables] at ho <;> simp [Obj.all])
  · rw [h2]
    exact ⟨fun h => by simp at h, fun _ => rfl⟩

/-- C24 over every database (any `user_version : Int`, any of the 2^5 object subsets, any rows, any
set of v1 names occupied by foreign objects of the other kind, i.e. also when the migration script
fails part-way): a successful open ends at the current version, all tables present, every
pre-existing row in place, and the schema complete unless the file was already stamped current, and
the version stamp never lowered (so a file from a newer version is never opened); a refused open
changes nothing. -/
theorem open_safe (db : Db ρ) : Safe db (openDb facts db) := by
  by_cases h1 : db.uv = 1
  · have hm := migrate_current db h1
    unfold Safe; rw [latest_facts]
    unfold openDb; rw [hm]
    c24_split db <;> c24_simp
  · by_cases h2 : db.uv > 1
    · have hm := migrate_newer db h2
      unfold Safe; rw [latest_facts]
      unfold openDb; rw [hm]
      c24_simp
    · by_cases h0 : db.uv = 0
      · have hm := migrate_zero db h0
        by_cases hf : looksLikeV1 facts db = false ∧ hasAnyV1 facts db = false
        · exact safe_via_script db (by rw [hm]; simp [hf.1, hf.2]) (by omega)
        · have hf' : ¬ (db.tab .keyTrackers = none ∧ db.tab .simpleEntries = none ∧ db.tab .prefixEntries = none ∧
              db.tab .leaseEntries = none ∧ db.tab .idxHash = none) := by
            intro ⟨a, b, c, d, e⟩
            apply hf
            simp [looksLikeV1, hasAnyV1, facts, present, *]
          unfold Safe; rw [latest_facts]
          unfold openDb; rw [hm]
          c24_split db <;> first
            | (c24_simp <;> (try (intro o; cases o <;> simp [*])); done)
            | exact absurd ⟨hk, hs, hp, hl, hx⟩ hf'
      · have hn : db.uv < 0 := by omega
        exact safe_via_script db (migrate_neg db hn) (by omega)

/-- A refused open leaves the database exactly as it was (version, schema, rows). In particular the
legacy stamp (`user_version := 1`, written outside a transaction) is never followed by a refusal. -/
theorem open_refuse_unchanged (db : Db ρ) (h : (openDb facts db).1 = .refuse) : (openDb facts db).2 = db :=
  (open_safe db).2 h

/-- A migration script that breaks off part-way leaves nothing behind.  Whenever `migrate` runs the
script (negative version, or version 0 with no v1 object) and some name the script still has to
create is occupied by a foreign object of the other kind — so the statement creating it fails, after
the statements before it have run — the open is refused and the database is exactly what it was: no
table or index of the partial script survives, `user_version` is not stamped.  (With the statement
order of this release, `lease_entries` occupied means four `CREATE`s have succeeded before the error.) -/
theorem open_interrupted_migration_unchanged (db : Db ρ)
    (hrun : db.uv < 0 ∨ (db.uv = 0 ∧ ∀ o ∈ Obj.all, present db o = false))
    (o : Obj) (ha : present db o = false) (hc : db.clash o = true) : openDb facts db = (.refuse, db) := by
  have hnot : ¬ (openDb facts db).1 = .ok := by
    rw [open_outcome_table]
    rintro (⟨e, _⟩ | ⟨_, hcomp | h⟩ | ⟨_, h⟩)
    · rcases hrun with h | ⟨h, _⟩ <;> omega
    · have := hcomp o (mem_all o); rw [ha] at this; cases this
    · have := (h o (mem_all o)).2; rw [hc] at this; cases this
    · rcases h o (mem_all o) with h' | h'
      · rw [ha] at h'; cases h'
      · rw [hc] at h'; cases h'
  have href : (openDb facts db).1 = .refuse := by
    rcases h : (openDb facts db).1 with _ | _
    · exact absurd h hnot
    · rfl
  have := open_refuse_unchanged db href
  exact Prod.ext href this

/-- A successful open ends at the current version with all four tables usable and every existing row
still in place. -/
theorem open_ok_preserves (db : Db ρ) (h : (openDb facts db).1 = .ok) :
    (openDb facts db).2.uv = facts.schemaVersion ∧ tablesPresent (openDb facts db).2 ∧
      rowsKept db (openDb facts db).2 :=
  let ⟨a, b, c, _⟩ := (open_safe db).1 h; ⟨a, b, c⟩

/-- A database from a newer version (`user_version` above the latest embedded migration) is refused and
left exactly as it was, whatever objects and rows it contains — in particular when it carries the
complete v1 schema and so *looks like* a legacy database to `schemaLooksLikeV1`. -/
theorem open_newer_refused (db : Db ρ) (h : latest facts < db.uv) : openDb facts db = (.refuse, db) := by
  rw [latest_facts] at h
  unfold openDb; rw [migrate_newer db h]

/-- A successful open never lowers `user_version`: the stamp only moves forward, by migrations. -/
theorem open_never_downgrades (db : Db ρ) (h : (openDb facts db).1 = .ok) : db.uv ≤ (openDb facts db).2.uv :=
  let ⟨_, _, _, _, e, _⟩ := (open_safe db).1 h; e

/-- FULL statement (DESIGN `open_safe`): `ok → complete ∧ uv = current ∧ rows kept; refuse → unchanged`
for every database.  It is FALSE of the code for exactly one family (`open_ok_incomplete_witness`): a
database already stamped `user_version = 1` whose `idx_hash` is missing is opened as-is (`migrate`
returns early, `prepareStatements` does not need the index).  Proved here: the full statement for
every database that is not already stamped current. -/
theorem open_schema_complete_partial (db : Db ρ) (hne : db.uv ≠ latest facts) :
    ((openDb facts db).1 = .ok →
        complete (openDb facts db).2 ∧ (openDb facts db).2.uv = facts.schemaVersion ∧ rowsKept db (openDb facts db).2) ∧
    ((openDb facts db).1 = .refuse → (openDb facts db).2 = db) := by
  refine ⟨fun h => ?_, open_refuse_unchanged db⟩
  obtain ⟨a, _, c, d, _⟩ := (open_safe db).1 h
  exact ⟨d.resolve_right hne, a, c⟩

/-- The exception is real: stamped-current database, four tables, no index → opened, index still missing. -/
def staleIndexDb : Db Nat :=
  { uv := 1, tab := fun o => match o with | .idxHash => none | .simpleEntries => some [7, 8] | _ => some [] }

theorem open_ok_incomplete_witness :
    (openDb facts staleIndexDb).1 = .ok ∧ present (openDb facts staleIndexDb).2 .idxHash = false := by decide

/-- a fresh file in which a foreign index is called `lease_entries` (the last statement of the script fails) -/
def occupiedDb : Db Nat := { uv := 0, tab := fun _ => none, clash := fun o => o == .leaseEntries }

/-- The transaction in `applyMigration` is what the property rests on: the very same opener with the
script executed statement by statement on the handle (`txMigration := false`) refuses `occupiedDb`
and leaves `key_trackers` (and more) behind in a file that had no v1 object. -/
theorem rollback_needed_witness :
    (openDb { facts with txMigration := false } occupiedDb).1 = .refuse ∧
    present occupiedDb .keyTrackers = false ∧
    present (openDb { facts with txMigration := false } occupiedDb).2 .keyTrackers = true ∧
    (execScript script occupiedDb).1 = false ∧ present (execScript script occupiedDb).2 .prefixEntries = true := by
  decide

/-! ### non-vacuity: each branch of the table is inhabited -/
def freshDb : Db Nat := { uv := 0, tab := fun _ => none }
def legacyDb : Db Nat := { uv := 0, tab := fun o => match o with | .simpleEntries => some [1, 2, 3] | _ => some [] }
def partialDb : Db Nat := { uv := 0, tab := fun o => match o with | .simpleEntries => some [1] | _ => none }
def stampedMissingTable : Db Nat := { uv := 1, tab := fun o => match o with | .leaseEntries => none | _ => some [5] }
def newerDb : Db Nat := { uv := 2, tab := fun _ => some [] }
/-- a newer-version file as it really looks: complete v1 schema, rows -/
def newerFullDb : Db Nat := { uv := 2, tab := fun o => match o with | .idxHash => some [] | _ => some [4, 5] }

example : (openDb facts freshDb).1 = .ok ∧ (openDb facts freshDb).2.uv = 1 ∧
    (Obj.all.all (present (openDb facts freshDb).2)) = true := by decide
example : (openDb facts legacyDb).1 = .ok ∧ (openDb facts legacyDb).2.uv = 1 ∧
    (openDb facts legacyDb).2.tab .simpleEntries = some [1, 2, 3] := by decide
example : (openDb facts partialDb).1 = .refuse := by decide
example : (openDb facts stampedMissingTable).1 = .refuse := by decide
example : (openDb facts newerDb).1 = .refuse := by decide
example : legacyDb.uv ≠ latest facts := by decide
example : latest facts < newerFullDb.uv ∧ looksLikeV1 facts newerFullDb = true := by decide
example : (openDb facts newerFullDb).1 = .refuse ∧ (openDb facts newerFullDb).2.uv = 2 := by decide
example : (openDb facts legacyDb).1 = .ok ∧ legacyDb.uv < (openDb facts legacyDb).2.uv := by decide
-- the interrupted migration: hypotheses of `open_interrupted_migration_unchanged` are satisfiable, and the
-- refused file really has no v1 object afterwards although the script had created four before failing
example : (occupiedDb.uv = 0 ∧ ∀ o ∈ Obj.all, present occupiedDb o = false) ∧
    present occupiedDb .leaseEntries = false ∧ occupiedDb.clash .leaseEntries = true := by decide
example : (openDb facts occupiedDb).1 = .refuse ∧
    (Obj.all.all fun o => !present (openDb facts occupiedDb).2 o) = true ∧ (openDb facts occupiedDb).2.uv = 0 := by decide
/-- negative version on top of existing rows, `idx_hash` taken by a foreign table -/
def negOccupiedDb : Db Nat :=
  { uv := -1, tab := fun o => match o with | .keyTrackers => some [1, 2] | _ => none, clash := fun o => o == .idxHash }
example : (openDb facts negOccupiedDb).1 = .refuse ∧ (openDb facts negOccupiedDb).2.tab .keyTrackers = some [1, 2] ∧
    present (openDb facts negOccupiedDb).2 .simpleEntries = false := by decide
-- `execScript_ok_iff` both ways on concrete scripts
example : (execScript script freshDb).1 = true ∧ (execScript script occupiedDb).1 = false := by decide

end Specter.C24
