import SpecterModel.C21.Model
/-!
# C20 — crash points of the append-only log store (model)

The writer loop of `DiskKV.Start` is cut at its atomic file-level actions. For the `n+1`-th mutation:

```
issued                                   (request queued; nothing happened yet)
checkMutation            → rejected: acknowledged with the error, nothing was written
appendLog  = wal.Write   → ONE write(2) appending the frame to the tail segment
handleMutation           → memory only
  on error rollbackOne = wal.TruncateBack:
      atomicWrite <seg>.END   (TEMP file + rename: the END file appears atomically, TEMP is ignored by load)
      remove <seg>
      rename <seg>.END → <seg>
acknowledged
```

A process crash (SIGKILL, panic, OOM) keeps every completed `write(2)`; nothing is torn. The periodic
`Sync` does not change file contents and is therefore not a crash point of its own.
`precheck = false` is the code before the repair (no `checkMutation`), kept to state the regression.
-/
namespace Specter.Aof

/-- the WAL directory -/
structure Disk where
  seg : Option (List Mutation) := some []     -- tail segment file (`none`: removed during TruncateBack)
  endf : Option (List Mutation) := none       -- `<seg>.END` left by an unfinished TruncateBack
deriving DecidableEq, Repr

/-- `wal.Open` → `load`: an END file completes the truncation (the segment it replaces is removed, END is
renamed); a directory without segment files starts a new empty log -/
def walOpen (d : Disk) : List Mutation :=
  match d.endf with
  | some e => e
  | none =>
    match d.seg with
    | some l => l
    | none => []

/-- a crash point: directory content, number of mutations issued and acknowledged so far -/
structure Pt where
  disk : Disk
  issued : Nat
  acked : Nat
deriving DecidableEq, Repr

/-- One writer-loop iteration for the `n+1`-th mutation, with every crash point on the way.
Returns the crash points and the same result as `submitG`. -/
def stepG (pre : Bool) (s : Store) (n : Nat) (mu : Mutation) : List Pt × (Store × Option Err) :=
  let d0 : Disk := { seg := some s.log }
  let p0 : Pt := ⟨d0, n + 1, n⟩
  match (if pre then check s.mem mu else none) with
  | some e => ([p0, ⟨d0, n + 1, n + 1⟩], (s, some e))
  | none =>
    let s1 : Store := { s with log := s.log ++ [mu], counter := s.counter + 1 }
    let d1 : Disk := { seg := some s1.log }
    match handle s1.mem mu with
    | .ok m' => ([p0, ⟨d1, n + 1, n⟩, ⟨d1, n + 1, n + 1⟩], ({ s1 with mem := m' }, none))
    | .error e =>
      let kept := s1.log.dropLast
      let d2 : Disk := { seg := some s1.log, endf := some kept }
      let d3 : Disk := { seg := none, endf := some kept }
      let d4 : Disk := { seg := some kept }
      ([p0, ⟨d1, n + 1, n⟩, ⟨d2, n + 1, n⟩, ⟨d3, n + 1, n⟩, ⟨d4, n + 1, n⟩, ⟨d4, n + 1, n + 1⟩],
        ({ s1 with log := kept, counter := s1.counter - 1 }, some e))

/-- all crash points of running `rest` from store `s` after `n` mutations -/
def ptsFrom (pre : Bool) (s : Store) (n : Nat) : List Mutation → List Pt
  | [] => []
  | mu :: rest => (stepG pre s n mu).1 ++ ptsFrom pre (stepG pre s n mu).2.1 (n + 1) rest

/-- every crash point of a history on a fresh store (the first point: opened, nothing issued) -/
def crashPts (pre : Bool) (hist : List Mutation) : List Pt :=
  ⟨{}, 0, 0⟩ :: ptsFrom pre Store.init 0 hist

/-! ## Concurrent callers

`mutationHandler` (the body of `Put`, `PrefixAppend`, `Import`, …) builds the request and hands it to the
writer goroutine over the UNBUFFERED channel `d.queue`, then blocks on `<-req.err`. Nothing about the
request is decided on the caller's side: the rejection test `checkMutation`, `appendLog`,
`handleMutation` and the acknowledgement all run inside ONE iteration of the single writer loop, between
two receives. Whatever number of goroutines call the store at the same time (also before `Start` runs:
they all wait in the channel send), a run is therefore determined by the order in which the writer
receives the requests: a history of requests tagged with the caller that issued them. Each caller has at
most one outstanding request, so its own requests appear in program order. -/

/-- a request: (caller, mutation) -/
abbrev Req := Nat × Mutation

/-- the order in which the writer received the requests, as a plain history -/
def muts (h : List Req) : List Mutation := h.map (·.2)

/-- the program of caller `t` (its requests in the order it issued them) inside a tagged history -/
def proj (t : Nat) (h : List Req) : List Mutation := (h.filter (fun r => r.1 = t)).map (·.2)

/-- crash points of a run with concurrent callers in which the writer received the requests in the order `h` -/
def crashPtsC (h : List Req) : List Pt := crashPts true (muts h)

/-- A writer iteration whose rejection test looks at the memory `seen` instead of the memory the writer
has at that moment. `seen = s.mem` is the code as it is (`stepSeen_current`); any other value is what a
test made OUTSIDE the writer loop (e.g. by the caller before queueing) can observe when another
request is applied in between: the test then passes for a mutation that `handleMutation` rejects, and the
log-then-roll-back path of `stepG false` is reachable again. Kept to state the regression. -/
def stepSeen (seen : Mem) (s : Store) (n : Nat) (mu : Mutation) : List Pt × (Store × Option Err) :=
  match check seen mu with
  | some e => ([⟨{ seg := some s.log }, n + 1, n⟩, ⟨{ seg := some s.log }, n + 1, n + 1⟩], (s, some e))
  | none => stepG false s n mu

/-! ### Observer for runs with concurrent callers

What the harness can see of such a run: `issue t mu` (caller `t` is about to call the store), `wal mu` (a
`write(2)` appending the frame of `mu` to the tail segment completed), `ack t r` (the call returned `r`), in
the order the kernel completed them. The order in which the writer received the requests is not visible
directly; `CConf` is one explanation of the observations so far by the writer-loop model (`submit`), the
observer keeps all of them. A request is appended between its `issue` and its `ack`, at the moment of its
`wal` event, and only if the rejection test passes on the writer's memory at that moment; it is rejected
without a trace in the log at some moment between `issue` and `ack` at which the test fails. -/

structure CConf where
  store : Store := {}
  /-- callers whose outstanding request went through `appendLog` (with the result the writer sent back) -/
  logged : List (Nat × Option Err) := []
  /-- callers whose outstanding request the writer can have rejected since it was issued -/
  rej : List (Nat × Err) := []
deriving Inhabited

def CConf.same (a b : CConf) : Bool :=
  a.store.log == b.store.log && a.logged == b.logged && a.rej == b.rej

def dedupConfs (cs : List CConf) : List CConf :=
  cs.foldl (fun acc c => if acc.any (CConf.same c) then acc else acc ++ [c]) []

/-- note every outstanding, not yet appended request that the writer would reject on its current memory -/
def CConf.noteRejectable (pend : List Req) (c : CConf) : CConf :=
  pend.foldl (fun c r =>
    if c.logged.any (·.1 = r.1) ∨ c.rej.any (·.1 = r.1) then c else
    match check c.store.mem r.2 with
    | some e => { c with rej := c.rej ++ [(r.1, e)] }
    | none => c) c

/-- `pend` already contains the new request -/
def obsIssue (pend : List Req) (cs : List CConf) : List CConf :=
  cs.map (CConf.noteRejectable pend)

/-- a frame holding `mu` was appended: some outstanding request with that content passed the test -/
def obsWal (pend : List Req) (mu : Mutation) (cs : List CConf) : List CConf :=
  dedupConfs <| cs.flatMap fun c => pend.filterMap fun r =>
    if r.2 = mu ∧ ¬ c.logged.any (·.1 = r.1) ∧ check c.store.mem r.2 = none then
      let (s', res) := submit c.store r.2
      some (CConf.noteRejectable pend { c with store := s', logged := c.logged ++ [(r.1, res)] })
    else none

/-- the call of `t` returned `res` -/
def obsAck (t : Nat) (res : Option Err) (cs : List CConf) : List CConf :=
  dedupConfs <| cs.filterMap fun c =>
    let fits := match res with
      | none => c.logged.any (fun x => x.1 = t ∧ x.2 = none)
      | some e => c.logged.any (fun x => x.1 = t ∧ x.2 = some e) ∨
          (¬ c.logged.any (·.1 = t) ∧ c.rej.any (fun x => x.1 = t ∧ x.2 = e))
    if fits then some { c with logged := c.logged.filter (·.1 ≠ t), rej := c.rej.filter (·.1 ≠ t) } else none

/-- `aof.New` on a crash image -/
def recover (d : Disk) : Except Err Store := reopenLog (walOpen d)

def recovers (pt : Pt) : Bool :=
  match recover pt.disk with
  | .ok _ => true
  | .error _ => false

/-- what `aof.New` yields on the image of a process that stopped now, per explanation -/
def obsRecover (cs : List CConf) : List (Except Err Store) :=
  cs.map fun c => recover { seg := some c.store.log }

end Specter.Aof
