// Crash images with a torn write-ahead-log tail.  A SIGKILL at a random instant almost never lands inside the
// write of one WAL frame (SQLite writes a frame with two pwrites: the 24-byte frame header, then the page), so
// the images a kill at exactly those moments leaves behind are constructed from the directory of the killed
// child: the log is parsed (header, salts, cumulative checksums) up to the end of its valid frames, and at that
// position - where the next transaction would have written its first frame - zero or more whole frames WITHOUT
// a commit mark and then a strict prefix of one more frame are written (1..23 bytes: inside the frame header,
// 24: between the two pwrites, more: inside the page).  Nothing of what the child had committed is touched, so
// every such image is the image of the same history killed a little later, while the next transaction was being
// logged: re-opening must succeed and show exactly what the untouched image shows.  When the log ends with valid
// frames that carry no commit mark yet (kill inside a multi-frame commit) the image may instead be cut inside them.
//
// A second family needs no knowledge of the log format: the child runs under `strace` which delivers SIGKILL on
// entry to the child's N-th pwrite64 (see crashCase, pw > 0).
package main

import (
	"encoding/binary"
	"fmt"
	"io"
	"os"
	"path/filepath"

	"verif/harness/hlib"
)

type walInfo struct {
	size      int64
	pgsz      int
	bo        binary.ByteOrder // byte order of the checksum words
	salt      [8]byte
	valid     int    // number of valid frames from the start of the log
	committed int    // valid frames up to and including the last commit frame
	s0, s1    uint32 // running checksum after the last valid frame
	lastPage  []byte // page image of the last valid frame (nil if none)
	lastPgno  uint32
}

func (w walInfo) frame() int64    { return int64(24 + w.pgsz) }
func (w walInfo) validEnd() int64 { return 32 + int64(w.valid)*w.frame() }

func walSum(bo binary.ByteOrder, s0, s1 uint32, b []byte) (uint32, uint32) {
	for i := 0; i+8 <= len(b); i += 8 {
		s0 += bo.Uint32(b[i:]) + s1
		s1 += bo.Uint32(b[i+4:]) + s0
	}
	return s0, s1
}

// parseWAL reads the log the way SQLite's recovery does: frames count while salts and running checksum match.
func parseWAL(path string) (w walInfo, ok bool) {
	b, err := os.ReadFile(path)
	if err != nil || len(b) < 32 {
		return w, false
	}
	w.size = int64(len(b))
	switch binary.BigEndian.Uint32(b[0:]) {
	case 0x377f0682:
		w.bo = binary.LittleEndian
	case 0x377f0683:
		w.bo = binary.BigEndian
	default:
		return w, false
	}
	w.pgsz = int(binary.BigEndian.Uint32(b[8:]))
	if w.pgsz == 1 {
		w.pgsz = 65536
	}
	if w.pgsz < 512 || w.pgsz > 65536 || w.pgsz&(w.pgsz-1) != 0 {
		return w, false
	}
	copy(w.salt[:], b[16:24])
	s0, s1 := walSum(w.bo, 0, 0, b[:24])
	if s0 != binary.BigEndian.Uint32(b[24:]) || s1 != binary.BigEndian.Uint32(b[28:]) {
		return w, false
	}
	w.s0, w.s1 = s0, s1
	for off := int64(32); off+w.frame() <= w.size; off += w.frame() {
		h := b[off : off+24]
		pg := b[off+24 : off+w.frame()]
		if binary.BigEndian.Uint32(h[0:]) == 0 || string(h[8:16]) != string(w.salt[:]) {
			break
		}
		s0, s1 = walSum(w.bo, w.s0, w.s1, h[:8])
		s0, s1 = walSum(w.bo, s0, s1, pg)
		if s0 != binary.BigEndian.Uint32(h[16:]) || s1 != binary.BigEndian.Uint32(h[20:]) {
			break
		}
		w.s0, w.s1 = s0, s1
		w.valid++
		if binary.BigEndian.Uint32(h[4:]) != 0 {
			w.committed = w.valid
		}
		w.lastPage, w.lastPgno = pg, binary.BigEndian.Uint32(h[0:])
	}
	return w, true
}

// nextFrames builds n whole frames that continue the log validly (right salts, right running checksum) and carry
// NO commit mark: what a transaction that rewrites pages logs before its last frame.
func (w walInfo) nextFrames(rng *hlib.Rng, n int) []byte {
	var out []byte
	s0, s1 := w.s0, w.s1
	for i := 0; i < n; i++ {
		pg := make([]byte, w.pgsz)
		pgno := uint32(2 + rng.Intn(6))
		if w.lastPage != nil {
			copy(pg, w.lastPage)
			pgno = w.lastPgno
		}
		for j := 0; j < 8; j++ { // the rewritten page differs from the logged one
			pg[rng.Intn(len(pg))] ^= byte(1 + rng.Intn(255))
		}
		h := make([]byte, 24)
		binary.BigEndian.PutUint32(h[0:], pgno)
		binary.BigEndian.PutUint32(h[4:], 0) // not a commit frame
		copy(h[8:16], w.salt[:])
		s0, s1 = walSum(w.bo, s0, s1, h[:8])
		s0, s1 = walSum(w.bo, s0, s1, pg)
		binary.BigEndian.PutUint32(h[16:], s0)
		binary.BigEndian.PutUint32(h[20:], s1)
		out = append(append(out, h...), pg...)
	}
	return out
}

func copyDir(src, dst string) error {
	return filepath.Walk(src, func(p string, fi os.FileInfo, err error) error {
		if err != nil {
			return err
		}
		rel, _ := filepath.Rel(src, p)
		to := filepath.Join(dst, rel)
		if fi.IsDir() {
			return os.MkdirAll(to, 0o755)
		}
		if !fi.Mode().IsRegular() {
			return nil
		}
		in, err := os.Open(p)
		if err != nil {
			return err
		}
		defer in.Close()
		o, err := os.OpenFile(to, os.O_CREATE|os.O_WRONLY|os.O_TRUNC, 0o644)
		if err != nil {
			return err
		}
		defer o.Close()
		_, err = io.Copy(o, in)
		return err
	})
}

type tornImage struct {
	dir string
	how string // one token, for the `recovered` line
}

// tornImages derives up to n crash images with a torn log tail from the directory of a killed child (which is
// left untouched).  Returns nothing when the child left no parsable log (clean Close, killed before the first write).
func tornImages(rng *hlib.Rng, root string, id int, dir string, n int, count func(string)) (imgs []tornImage) {
	walPath := filepath.Join(dir, "sqlite3", "db-wal")
	w, ok := parseWAL(walPath)
	if !ok {
		if fi, err := os.Stat(walPath); err != nil {
			count("torn:no-log-left")
		} else if fi.Size() == 0 {
			// the log exists but its 32-byte header has not been written: image of a kill inside that write
			to := filepath.Join(root, fmt.Sprintf("crash%dtornH", id))
			if copyDir(dir, to) == nil {
				hdr := make([]byte, 32)
				binary.BigEndian.PutUint32(hdr[0:], 0x377f0682)
				binary.BigEndian.PutUint32(hdr[4:], 3007000)
				binary.BigEndian.PutUint32(hdr[8:], 4096)
				t := 1 + rng.Intn(31)
				if os.WriteFile(filepath.Join(to, "sqlite3", "db-wal"), hdr[:t], 0o644) == nil {
					count("torn:inside-log-header")
					imgs = append(imgs, tornImage{to, fmt.Sprintf("log-header-cut-at-%d-of-32-bytes", t)})
				}
			}
		} else {
			count("torn:log-not-parsable")
		}
		return
	}
	if w.valid == 0 {
		count("torn:log-without-valid-frames")
	}
	for v := 0; v < n; v++ {
		to := filepath.Join(root, fmt.Sprintf("crash%dtorn%d", id, v))
		if copyDir(dir, to) != nil {
			os.RemoveAll(to)
			continue
		}
		wp := filepath.Join(to, "sqlite3", "db-wal")
		f, err := os.OpenFile(wp, os.O_RDWR, 0)
		if err != nil {
			os.RemoveAll(to)
			continue
		}
		how := ""
		if pend := w.valid - w.committed; pend > 0 && w.validEnd() == w.size && rng.Chance(50) {
			// the log ends with frames of a transaction that has not written its commit frame: cut inside them
			span := int64(pend) * w.frame()
			cut := 1 + int64(rng.Intn(int(span-1)))
			if rng.Chance(40) { // between the two writes of one of those frames
				cut = int64(rng.Intn(pend))*w.frame() + 24
			}
			f.Truncate(32 + int64(w.committed)*w.frame() + cut)
			how = fmt.Sprintf("log-cut-%d-bytes-into-%d-frames-without-commit-mark", cut, pend)
			count("torn:cut-into-uncommitted-frames")
		} else {
			whole := 0
			if rng.Chance(40) {
				whole = 1 + rng.Intn(3)
			}
			fr := w.nextFrames(rng, whole+1)
			var part int
			switch x := rng.Intn(100); {
			case x < 45:
				part = 24 // between the pwrite of the frame header and the pwrite of the page
				count("torn:frame-header-without-page")
			case x < 65:
				part = 1 + rng.Intn(23)
				count("torn:inside-frame-header")
			default:
				part = 25 + rng.Intn(w.pgsz-1)
				count("torn:inside-page")
			}
			buf := fr[:int64(whole)*w.frame()+int64(part)]
			f.WriteAt(buf, w.validEnd())
			wrote := fmt.Sprintf("%d-whole-frames-without-commit-mark-and-%d-of-%d-bytes-of-one-more", whole, part, w.frame())
			switch rest := w.size - w.validEnd(); {
			case rest == 0:
				how = fmt.Sprintf("log-of-%d-frames-followed-by-%s", w.valid, wrote)
				count("torn:appended-at-end-of-log")
			case rest < w.frame():
				// the kill itself left a partly written frame (pwrite cases): another torn tail at the same place
				how = fmt.Sprintf("log-of-%d-frames-and-%d-bytes-of-a-partly-written-one-rewritten-from-there-by-%s", w.valid, rest, wrote)
				count("torn:rewritten-over-a-partly-written-frame")
			default:
				// the log was restarted after a checkpoint: new frames overwrite old ones in place
				how = fmt.Sprintf("restarted-log-with-%d-valid-frames-overwritten-in-place-by-%s", w.valid, wrote)
				count("torn:overwritten-in-restarted-log")
			}
		}
		f.Close()
		if fi, err := os.Stat(wp); err == nil {
			if (fi.Size()-32)%w.frame() != 0 {
				count("torn:log-length-not-whole-frames")
			} else {
				count("torn:log-length-whole-frames")
			}
		}
		imgs = append(imgs, tornImage{to, how})
	}
	return
}
