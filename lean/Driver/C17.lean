import SpecterModel.C17.Drv

def main : IO Unit := Specter.C17.main
