import SpecterModel.C44.Drv

def main : IO Unit := Specter.C44.main
