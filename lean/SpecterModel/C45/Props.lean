import SpecterModel.C45.Model
/-!
# C45 — Saving the client configuration never loses the client identity

`atomic_replace_safe`: for EVERY op list of the atomic-replace shape (decidable predicate
`isAtomicReplace`, evaluated by the driver on the strace-recorded operations of the real
`Config.writeFile`) whose temporary name is private (`tmpPrivate`, also evaluated by the driver on
the recorded start state), every crash image of the config path after every prefix is the old or the
new content — whether the config path is a regular file or a symbolic link (chain) to one: images are
read through links, the rename replaces the link itself. `atomic_replace_never_writes_old`: the file
that held the old configuration is never written by such a save. `truncate_in_place_unsafe` /
`truncate_through_link_unsafe` / `rename_without_fsync_unsafe`: the classic broken shapes have a crash
image that is neither.
-/
namespace Specter.C45

/-! ## path resolution facts -/

theorem upd_same {α β} [DecidableEq α] (f : α → β) (a : α) (b : β) : upd f a b a = b := by simp [upd]
theorem upd_other {α β} [DecidableEq α] (f : α → β) (a x : α) (b : β) (h : x ≠ a) : upd f a b x = f x := by
  simp [upd, h]

theorem resolve_file {dir : String → Option Entry} {p : String} {i : Nat} (f : Nat)
    (h : dir p = some (.file i)) : resolve dir f p = some (p, some i) := by
  cases f <;> simp [resolve, h]

theorem resolve_absent {dir : String → Option Entry} {p : String} (f : Nat)
    (h : dir p = none) : resolve dir f p = some (p, none) := by
  cases f <;> simp [resolve, h]

theorem resolve_link {dir : String → Option Entry} {p q : String} (f : Nat)
    (h : dir p = some (.link q)) : resolve dir (f + 1) p = resolve dir f q := by
  simp [resolve, h]

/-- a resolution that finds a file ends at a regular-file entry -/
theorem resolve_end {dir : String → Option Entry} : ∀ (f : Nat) (p q : String) (i : Nat),
    resolve dir f p = some (q, some i) → dir q = some (.file i) := by
  intro f
  induction f with
  | zero =>
    intro p q i h
    simp only [resolve] at h
    split at h <;> simp at h
    obtain ⟨rfl, rfl⟩ := h; assumption
  | succ f ih =>
    intro p q i h
    simp only [resolve] at h
    split at h
    · simp at h
    · simp at h; obtain ⟨rfl, rfl⟩ := h; assumption
    · exact ih _ _ _ h

/-- creating a name that did not exist does not change where an existing file is found -/
theorem resolve_upd_absent {dir : String → Option Entry} {x : String} (e : Option Entry) (hx : dir x = none) :
    ∀ (f : Nat) (p q : String) (i : Nat), resolve dir f p = some (q, some i) →
      resolve (upd dir x e) f p = some (q, some i) := by
  intro f
  induction f with
  | zero =>
    intro p q i h
    have hp : p ≠ x := by
      intro e'; subst e'; simp [resolve, hx] at h
    simpa [resolve, upd, hp] using h
  | succ f ih =>
    intro p q i h
    have hp : p ≠ x := by
      intro e'; subst e'; simp [resolve, hx] at h
    simp only [resolve, upd, hp, if_false] at h ⊢
    split at h
    · simp at h
    · simpa using h
    · exact ih _ _ _ h

theorem inodeOf_file {dir : String → Option Entry} {p : String} {i : Nat}
    (h : dir p = some (.file i)) : inodeOf dir p = some i := by
  simp [inodeOf, resolve_file linkFuel h]

theorem inodeOf_resolve {dir : String → Option Entry} {p : String} {i : Nat}
    (h : inodeOf dir p = some i) : ∃ q, resolve dir linkFuel p = some (q, some i) := by
  unfold inodeOf at h
  split at h
  · rename_i q j hr; cases h; exact ⟨q, hr⟩
  · cases h

theorem inodeOf_end {dir : String → Option Entry} {p : String} {i : Nat}
    (h : inodeOf dir p = some i) : ∃ q, dir q = some (.file i) := by
  obtain ⟨q, hr⟩ := inodeOf_resolve h
  exact ⟨q, resolve_end _ _ _ _ hr⟩

theorem inodeOf_upd_absent {dir : String → Option Entry} {x p : String} {i : Nat} (e : Option Entry)
    (hx : dir x = none) (h : inodeOf dir p = some i) : inodeOf (upd dir x e) p = some i := by
  obtain ⟨q, hr⟩ := inodeOf_resolve h
  simp [inodeOf, resolve_upd_absent e hx _ _ _ _ hr]

/-! ## the invariant of the atomic-replace shape -/

/-- Quiescent start: `path` leads (directly or through symbolic links) to the file `i0` whose content
`old` is entirely on stable storage; every inode in the directory is below `next`. -/
def BaseAt (path : String) (old : List Nat) (i0 : Nat) (s : Fs) : Prop :=
  inodeOf s.dir path = some i0 ∧ s.file i0 = ⟨old, old.length⟩ ∧ (∀ q i, s.dir q = some (.file i) → i < s.next)

def Base (path : String) (old : List Nat) (s : Fs) : Prop := ∃ i0, BaseAt path old i0 s

/-- `path` still leads to the untouched old file `i0`; `tmp` is a regular file entry for a different inode `i1`. -/
def Pre (path : String) (old : List Nat) (i0 : Nat) (tmp : String) (i1 : Nat) (s : Fs) : Prop :=
  inodeOf s.dir path = some i0 ∧ s.file i0 = ⟨old, old.length⟩ ∧ i1 ≠ i0 ∧ tmp ≠ path ∧ s.dir tmp = some (.file i1)

def Inv (path : String) (old new : List Nat) (i0 : Nat) : Phase → Fs → List FsOp → Prop
  | .start, s, rest => BaseAt path old i0 s ∧ pending rest = new ∧ tmpPrivate s path rest = true
  | .writing fd tmp, s, rest =>
    ∃ i1, Pre path old i0 tmp i1 s ∧ s.fd fd = some i1 ∧ (s.file i1).data ++ pending rest = new
  | .synced _ tmp, s, _ => ∃ i1, Pre path old i0 tmp i1 s ∧ s.file i1 = ⟨new, new.length⟩
  | .closed tmp, s, _ => ∃ i1, Pre path old i0 tmp i1 s ∧ s.file i1 = ⟨new, new.length⟩
  | .done _, s, _ => ∃ i1, i1 ≠ i0 ∧ s.dir path = some (.file i1) ∧ s.file i1 = ⟨new, new.length⟩ ∧
      s.file i0 = ⟨old, old.length⟩

def Phase.post : Phase → Bool
  | .synced .. | .closed .. | .done .. => true
  | _ => false

theorem next_post {path : String} {ph ph' : Phase} {op : FsOp} (hp : ph.post = true)
    (hn : ph.next path op = some ph') : ph'.post = true ∧ ∀ rest, pending (op :: rest) = pending rest := by
  cases ph with
  | start => simp [Phase.post] at hp
  | writing => simp [Phase.post] at hp
  | synced fd tmp =>
    cases op <;> simp [Phase.next] at hn <;> (obtain ⟨_, rfl⟩ := hn; simp [Phase.post, pending])
  | closed tmp =>
    cases op <;> simp [Phase.next] at hn <;> (obtain ⟨_, rfl⟩ := hn; simp [Phase.post, pending])
  | done o =>
    cases o <;> cases op <;> simp [Phase.next] at hn <;> (obtain ⟨_, rfl⟩ := hn; simp [Phase.post, pending])

/-- once the temporary file is synced, the shape admits no further write -/
theorem post_no_writes (path : String) : ∀ (rest : List FsOp) (ph : Phase), ph.post = true →
    shapeFrom path ph rest = true → pending rest = [] := by
  intro rest
  induction rest with
  | nil => intros; rfl
  | cons op rest ih =>
    intro ph hp hs
    rw [shapeFrom] at hs
    split at hs
    · rename_i ph' hn
      have := next_post hp hn
      rw [this.2]; exact ih ph' this.1 hs
    · simp at hs

theorem image_of_synced {s : Fs} {path : String} {i : Nat} {x c : List Nat}
    (hd : inodeOf s.dir path = some i) (hf : s.file i = ⟨x, x.length⟩) (hc : IsImage s path c) : c = x := by
  obtain ⟨j, hj, n, h1, h2, hc⟩ := hc
  rw [hd] at hj; cases hj
  rw [hf] at h1 h2 hc; simp at h1 h2 hc
  have : n = x.length := by omega
  subst this; simpa using hc

theorem synced_has_image {s : Fs} {path : String} {i : Nat} {x : List Nat}
    (hd : inodeOf s.dir path = some i) (hf : s.file i = ⟨x, x.length⟩) : IsImage s path x :=
  ⟨i, hd, x.length, by simp [hf], by simp [hf], by simp [hf]⟩

theorem inv_images {path : String} {old new : List Nat} {i0 : Nat} {ph : Phase} {s : Fs} {rest : List FsOp}
    (h : Inv path old new i0 ph s rest) : ∀ c, IsImage s path c → c = old ∨ c = new := by
  intro c hc
  have pre : ∀ tmp i1, Pre path old i0 tmp i1 s → c = old := fun tmp i1 ⟨hd, hf, _⟩ => image_of_synced hd hf hc
  cases ph with
  | start => obtain ⟨⟨hd, hf, _⟩, _⟩ := h; exact .inl (image_of_synced hd hf hc)
  | writing fd tmp => obtain ⟨i1, hp, _⟩ := h; exact .inl (pre tmp i1 hp)
  | synced fd tmp => obtain ⟨i1, hp, _⟩ := h; exact .inl (pre tmp i1 hp)
  | closed tmp => obtain ⟨i1, hp, _⟩ := h; exact .inl (pre tmp i1 hp)
  | done o => obtain ⟨i1, _, hd, hf, _⟩ := h; exact .inr (image_of_synced (inodeOf_file hd) hf hc)

theorem inv_exists {path : String} {old new : List Nat} {i0 : Nat} {ph : Phase} {s : Fs} {rest : List FsOp}
    (h : Inv path old new i0 ph s rest) : ∃ c, IsImage s path c := by
  have pre : ∀ tmp i1, Pre path old i0 tmp i1 s → ∃ c, IsImage s path c :=
    fun tmp i1 ⟨hd, hf, _⟩ => ⟨old, synced_has_image hd hf⟩
  cases ph with
  | start => obtain ⟨⟨hd, hf, _⟩, _⟩ := h; exact ⟨old, synced_has_image hd hf⟩
  | writing fd tmp => obtain ⟨i1, hp, _⟩ := h; exact pre tmp i1 hp
  | synced fd tmp => obtain ⟨i1, hp, _⟩ := h; exact pre tmp i1 hp
  | closed tmp => obtain ⟨i1, hp, _⟩ := h; exact pre tmp i1 hp
  | done o => obtain ⟨i1, _, hd, hf, _⟩ := h; exact ⟨new, synced_has_image (inodeOf_file hd) hf⟩

/-- in every phase the file that held the old configuration is untouched -/
theorem inv_old_kept {path : String} {old new : List Nat} {i0 : Nat} {ph : Phase} {s : Fs} {rest : List FsOp}
    (h : Inv path old new i0 ph s rest) : s.file i0 = ⟨old, old.length⟩ := by
  cases ph with
  | start => exact h.1.2.1
  | writing fd tmp => obtain ⟨i1, hp, _⟩ := h; exact hp.2.1
  | synced fd tmp => obtain ⟨i1, hp, _⟩ := h; exact hp.2.1
  | closed tmp => obtain ⟨i1, hp, _⟩ := h; exact hp.2.1
  | done o => obtain ⟨i1, _, _, _, hf⟩ := h; exact hf

theorem inv_step {path : String} {old new : List Nat} {i0 : Nat} {ph ph' : Phase} {s : Fs} {op : FsOp}
    {rest : List FsOp} (h : Inv path old new i0 ph s (op :: rest)) (hn : ph.next path op = some ph')
    (hs : shapeFrom path ph' rest = true) : Inv path old new i0 ph' (step s op) rest := by
  cases ph with
  | start =>
    cases op <;> simp [Phase.next] at hn
    rename_i fd tmp
    obtain ⟨hne, rfl⟩ := hn
    obtain ⟨⟨hd, hf, hlt⟩, hp, hpriv⟩ := h
    simp only [pending] at hp
    simp only [tmpPrivate, privateName] at hpriv
    cases hq : s.dir tmp with
    | none =>
      have hr := resolve_absent linkFuel hq
      obtain ⟨q0, hq0⟩ := inodeOf_end hd
      have hi : s.next ≠ i0 := by have := hlt q0 i0 hq0; omega
      have hd' := inodeOf_upd_absent (some (.file s.next)) hq hd
      refine ⟨s.next, ⟨?_, ?_, hi, hne, ?_⟩, ?_, ?_⟩ <;> simp [step, hr, upd, hd', hi.symm, hf, hp]
    | some e =>
      cases e with
      | link t => simp [hq] at hpriv
      | file i =>
        simp only [hq, hd] at hpriv
        have hi : i ≠ i0 := by intro e; subst e; simp at hpriv
        have hr := resolve_file linkFuel hq
        refine ⟨i, ⟨?_, ?_, hi, hne, ?_⟩, ?_, ?_⟩ <;> simp [step, hr, upd, hd, hi.symm, hf, hp, hq]
  | writing fd tmp =>
    obtain ⟨i1, ⟨hd, hf, hi, hne, ht⟩, hfd, hdata⟩ := h
    cases op <;> simp [Phase.next] at hn
    · rename_i fd' bs
      obtain ⟨rfl, rfl⟩ := hn
      simp only [pending] at hdata
      refine ⟨i1, ⟨?_, ?_, hi, hne, ?_⟩, ?_, ?_⟩ <;>
        simp [step, hfd, upd, hd, hi.symm, hf, ht, ← hdata, List.append_assoc]
    · rename_i fd'
      obtain ⟨rfl, rfl⟩ := hn
      have hnw := post_no_writes path rest _ rfl hs
      simp only [pending, hnw, List.append_nil] at hdata
      refine ⟨i1, ⟨?_, ?_, hi, hne, ?_⟩, ?_⟩ <;>
        simp [step, hfd, upd, hd, hi.symm, hf, ht, hdata]
  | synced fd tmp =>
    obtain ⟨i1, ⟨hd, hf, hi, hne, ht⟩, hnew⟩ := h
    cases op <;> simp [Phase.next] at hn
    · obtain ⟨_, rfl⟩ := hn
      exact ⟨i1, ⟨by simp [step, hd], by simp [step, hf], hi, hne, by simp [step, ht]⟩, by simp [step, hnew]⟩
    · obtain ⟨⟨rfl, rfl⟩, rfl⟩ := hn
      exact ⟨i1, hi, by simp [step, ht, upd], by simp [step, ht, hnew], by simp [step, ht, hf]⟩
  | closed tmp =>
    obtain ⟨i1, ⟨hd, hf, hi, hne, ht⟩, hnew⟩ := h
    cases op <;> simp [Phase.next] at hn
    obtain ⟨⟨rfl, rfl⟩, rfl⟩ := hn
    exact ⟨i1, hi, by simp [step, ht, upd], by simp [step, ht, hnew], by simp [step, ht, hf]⟩
  | done o =>
    obtain ⟨i1, hi, hd, hnew, hf⟩ := h
    cases o with
    | none => simp [Phase.next] at hn
    | some fd =>
      cases op <;> simp [Phase.next] at hn
      obtain ⟨_, rfl⟩ := hn
      exact ⟨i1, hi, by simp [step, hd], by simp [step, hnew], by simp [step, hf]⟩

theorem run_cons (s : Fs) (op : FsOp) (ops : List FsOp) : run s (op :: ops) = run (step s op) ops := rfl

/-- the invariant holds (in some phase) after every prefix of a list of the shape -/
theorem inv_prefix (path : String) (old new : List Nat) (i0 : Nat) :
    ∀ (ops : List FsOp) (ph : Phase) (s : Fs), Inv path old new i0 ph s ops → shapeFrom path ph ops = true →
      ∀ k, ∃ ph' rest, Inv path old new i0 ph' (run s (ops.take k)) rest := by
  intro ops
  induction ops with
  | nil => intro ph s h _ k; exact ⟨ph, [], by simpa [run] using h⟩
  | cons op rest ih =>
    intro ph s h hs k
    cases k with
    | zero => exact ⟨ph, op :: rest, by simpa [run] using h⟩
    | succ k =>
      rw [List.take_succ_cons, run_cons]
      have hs' := hs
      rw [shapeFrom] at hs'
      split at hs'
      · rename_i ph' hn
        exact ih ph' (step s op) (inv_step h hn hs') hs' k
      · simp at hs'

/-- after the complete list the phase is `done` -/
theorem inv_final (path : String) (old new : List Nat) (i0 : Nat) :
    ∀ (ops : List FsOp) (ph : Phase) (s : Fs), Inv path old new i0 ph s ops → shapeFrom path ph ops = true →
      ∃ o, Inv path old new i0 (.done o) (run s ops) [] := by
  intro ops
  induction ops with
  | nil =>
    intro ph s h hsh
    cases ph <;> simp [shapeFrom] at hsh
    exact ⟨_, by simpa [run] using h⟩
  | cons op rest ih =>
    intro ph s h hsh
    rw [run_cons]
    have hs' := hsh
    rw [shapeFrom] at hs'
    split at hs'
    · rename_i ph' hn
      exact ih ph' (step s op) (inv_step h hn hs') hs'
    · simp at hs'

/-- **atomic_replace_safe.** From a quiescent state where `path` leads — directly or through a chain
of symbolic links — to a file holding `old`, for every op list of the atomic-replace shape with a
private temporary name writing `new` in total, a crash after ANY prefix leaves `path` (read through
links) with exactly `old` or exactly `new` — never a truncated or partial file. -/
theorem atomic_replace_safe (path : String) (old new : List Nat) (s : Fs) (ops : List FsOp)
    (hs : Base path old s) (hshape : isAtomicReplace path ops = true) (htmp : tmpPrivate s path ops = true)
    (hnew : pending ops = new) :
    ∀ k c, IsImage (run s (ops.take k)) path c → c = old ∨ c = new := by
  obtain ⟨i0, hb⟩ := hs
  intro k c hc
  obtain ⟨ph', rest, h⟩ := inv_prefix path old new i0 ops .start s ⟨hb, hnew, htmp⟩ hshape k
  exact inv_images h c hc

/-- after the complete save the only image is the new content (the save is durable once it returns),
and the config path is a regular file (a symbolic link at the config path has been replaced) -/
theorem atomic_replace_complete (path : String) (old new : List Nat) (s : Fs) (ops : List FsOp)
    (hs : Base path old s) (hshape : isAtomicReplace path ops = true) (htmp : tmpPrivate s path ops = true)
    (hnew : pending ops = new) :
    (∀ c, IsImage (run s ops) path c → c = new) ∧ ∃ i, (run s ops).dir path = some (.file i) := by
  obtain ⟨i0, hb⟩ := hs
  obtain ⟨o, i1, _, hd, hf, _⟩ := inv_final path old new i0 ops .start s ⟨hb, hnew, htmp⟩ hshape
  exact ⟨fun c hc => image_of_synced (inodeOf_file hd) hf hc, i1, hd⟩

/-- the config path exists (has an image) after every prefix of an atomic replace: the statement of
`atomic_replace_safe` is never vacuous -/
theorem atomic_replace_exists (path : String) (old new : List Nat) (s : Fs) (ops : List FsOp)
    (hs : Base path old s) (hshape : isAtomicReplace path ops = true) (htmp : tmpPrivate s path ops = true)
    (hnew : pending ops = new) :
    ∀ k, ∃ c, IsImage (run s (ops.take k)) path c := by
  obtain ⟨i0, hb⟩ := hs
  intro k
  obtain ⟨ph', rest, h⟩ := inv_prefix path old new i0 ops .start s ⟨hb, hnew, htmp⟩ hshape k
  exact inv_exists h

/-- **atomic_replace_never_writes_old.** The save never writes the file that held the previous
configuration: after every prefix that file (the inode the config path led to at the start — for a
symbolic-link config path, the link's target) still holds exactly `old`, fully on stable storage. -/
theorem atomic_replace_never_writes_old (path : String) (old new : List Nat) (i0 : Nat) (s : Fs) (ops : List FsOp)
    (hs : BaseAt path old i0 s) (hshape : isAtomicReplace path ops = true) (htmp : tmpPrivate s path ops = true)
    (hnew : pending ops = new) :
    ∀ k, (run s (ops.take k)).file i0 = ⟨old, old.length⟩ := by
  intro k
  obtain ⟨ph', rest, h⟩ := inv_prefix path old new i0 ops .start s ⟨hs, hnew, htmp⟩ hshape k
  exact inv_old_kept h

/-- **truncate_in_place_unsafe.** If the save opens the config path itself with truncation — a
regular file, or a symbolic link, which the open follows — the crash image right after that first
operation is the empty file: neither the (non-empty) old nor the (non-empty) new configuration —
certificate and key are gone. -/
theorem truncate_in_place_unsafe (path : String) (old new : List Nat) (s : Fs) (ops : List FsOp)
    (hs : Base path old s) (hshape : isTruncateInPlace path ops = true)
    (hold : old ≠ []) (hnew : new ≠ []) :
    ∃ k c, IsImage (run s (ops.take k)) path c ∧ c ≠ old ∧ c ≠ new := by
  obtain ⟨i0, hd, hf, _⟩ := hs
  obtain ⟨q, hr⟩ := inodeOf_resolve hd
  cases ops with
  | nil => simp [isTruncateInPlace] at hshape
  | cons op rest =>
    cases op <;> simp [isTruncateInPlace] at hshape
    subst hshape
    refine ⟨1, [], ⟨i0, ?_, 0, ?_, ?_, ?_⟩, Ne.symm hold, Ne.symm hnew⟩ <;>
      simp [run, step, hr, hd, upd]

/-- **truncate_through_link_unsafe.** The config path is a symbolic link to the file `tgt` holding
`old`; a save that opens the config path with truncation ("save through the link") empties the file
the link points to: a crash right after the open leaves the config path — and `tgt` — empty. -/
theorem truncate_through_link_unsafe (path tgt : String) (i0 fd : Nat) (old new : List Nat) (s : Fs)
    (rest : List FsOp) (hl : s.dir path = some (.link tgt)) (ht : s.dir tgt = some (.file i0))
    (_hf : s.file i0 = ⟨old, old.length⟩) (hold : old ≠ []) (hnew : new ≠ []) :
    ∃ k c, IsImage (run s ((FsOp.openTrunc fd path :: rest).take k)) path c ∧
      IsImage (run s ((FsOp.openTrunc fd path :: rest).take k)) tgt c ∧ c ≠ old ∧ c ≠ new := by
  have hrt : resolve s.dir linkFuel path = some (tgt, some i0) := by
    have : linkFuel = 39 + 1 := rfl
    rw [this, resolve_link _ hl, resolve_file _ ht]
  have hdp : inodeOf s.dir path = some i0 := by simp [inodeOf, hrt]
  have hdt : inodeOf s.dir tgt = some i0 := inodeOf_file ht
  refine ⟨1, [], ⟨i0, ?_, 0, ?_, ?_, ?_⟩, ⟨i0, ?_, 0, ?_, ?_, ?_⟩, Ne.symm hold, Ne.symm hnew⟩ <;>
    simp [run, step, hrt, hdp, hdt, upd]

/-- **rename_without_fsync_unsafe.** Temp file + rename but no fsync before the rename: after the
complete save the config path may still hold an empty file after a crash. -/
theorem rename_without_fsync_unsafe (path tmp : String) (fd : Nat) (old new : List Nat) (s : Fs)
    (_hs : Base path old s) (_hne : tmp ≠ path) (hnl : ∀ t, s.dir tmp ≠ some (.link t))
    (hold : old ≠ []) (hnew : new ≠ []) :
    ∃ c, IsImage (run s [.openTrunc fd tmp, .write fd new, .close fd, .rename tmp path]) path c ∧
      c ≠ old ∧ c ≠ new := by
  refine ⟨[], ?_, Ne.symm hold, Ne.symm hnew⟩
  cases hq : s.dir tmp with
  | some e =>
    cases e with
    | link t => exact absurd hq (hnl t)
    | file i =>
      have hr := resolve_file linkFuel hq
      have hd : (run s [.openTrunc fd tmp, .write fd new, .close fd, .rename tmp path]).dir path = some (.file i) := by
        simp [run, step, hr, hq, upd]
      refine ⟨i, inodeOf_file hd, 0, ?_, ?_, ?_⟩ <;> simp [run, step, hr, hq, upd]
  | none =>
    have hr := resolve_absent linkFuel hq
    have hd : (run s [.openTrunc fd tmp, .write fd new, .close fd, .rename tmp path]).dir path = some (.file s.next) := by
      simp [run, step, hr, upd]
    refine ⟨s.next, inodeOf_file hd, 0, ?_, ?_, ?_⟩ <;> simp [run, step, hr, upd]

/-! ## non-vacuity -/

def exFs : Fs := { dir := fun p => if p = "cfg" then some (.file 0) else none, file := fun _ => ⟨[1, 2, 3], 3⟩,
                   fd := fun _ => none, next := 1 }
/-- the config path is a symbolic link to a link to the real file -/
def exFsLink : Fs :=
  { dir := fun p => if p = "cfg" then some (.link "dot") else if p = "dot" then some (.link "real")
                    else if p = "real" then some (.file 0) else none,
    file := fun _ => ⟨[1, 2, 3], 3⟩, fd := fun _ => none, next := 1 }
def exOps : List FsOp :=
  [.openTrunc 7 "cfg.tmp", .write 7 [4, 5], .write 7 [6], .fsync 7, .close 7, .rename "cfg.tmp" "cfg"]

example : Base "cfg" [1, 2, 3] exFs := ⟨0, by decide, rfl, by
  intro q i h; simp only [exFs] at h ⊢; split at h <;> simp at h; omega⟩
example : Base "cfg" [1, 2, 3] exFsLink := ⟨0, by decide, rfl, by
  intro q i h; simp only [exFsLink] at h ⊢; repeat' split at h
  all_goals simp at h
  omega⟩
example : isAtomicReplace "cfg" exOps = true := by decide
example : tmpPrivate exFs "cfg" exOps = true ∧ tmpPrivate exFsLink "cfg" exOps = true := by decide
example : pending exOps = [4, 5, 6] := by decide
example : imageSync (run exFs exOps) "cfg" = some [4, 5, 6] ∧ imageLossy (run exFs exOps) "cfg" = some [4, 5, 6] ∧
    imageLossy (run exFs (exOps.take 4)) "cfg" = some [1, 2, 3] := by decide
-- symbolic-link config path: old through the link before the rename, new (regular file) after it; the
-- link's target keeps the old content
example : imageSync (run exFsLink (exOps.take 5)) "cfg" = some [1, 2, 3] ∧
    imageLossy (run exFsLink exOps) "cfg" = some [4, 5, 6] ∧
    (run exFsLink exOps).dir "cfg" = some (.file 1) ∧
    imageLossy (run exFsLink exOps) "real" = some [1, 2, 3] := by decide
-- a temporary name that is a symbolic link to the config file is not private
def exFsTmpLink : Fs :=
  { exFs with dir := fun p => if p = "cfg" then some (.file 0) else if p = "cfg.tmp" then some (.link "cfg") else none }
example : tmpPrivate exFsTmpLink "cfg" exOps = false := by decide
example : isTruncateInPlace "cfg" [.openTrunc 7 "cfg", .write 7 [4, 5], .close 7] = true := by decide
example : isAtomicReplace "cfg" [.openTrunc 7 "cfg", .write 7 [4, 5], .close 7] = false := by decide
example : isAtomicReplace "cfg" [.openTrunc 7 "t", .write 7 [4], .close 7, .rename "t" "cfg"] = false := by decide
-- saving through the link: the first crash image of the config path is the empty file
example : imageSync (run exFsLink [.openTrunc 7 "cfg"]) "cfg" = some [] ∧
    imageSync (run exFsLink [.openTrunc 7 "cfg"]) "real" = some [] := by decide

end Specter.C45
