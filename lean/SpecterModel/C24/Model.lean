/-!
# C24 — model of opening an existing SQLite database (`kv/sqlite3`: `New` = `migrate` + `prepareStatements`)

A database is its `user_version` plus, for every v1 schema object, either `none` (absent) or
`some rows` (present, with its rows; the index carries `[]`).  The opener only ever looks at object
*names* (`tableExists` / `indexExists`), stamps `user_version`, and runs the embedded migration DDL
inside one transaction.  Everything the Go code consults that is data rather than control flow
(`schemaVersion`, the inspected object lists, the migration list with its `CREATE … [IF NOT EXISTS]`
statements, the tables referenced by the prepared statements) is a field of `Facts`, which
`Gen.lean` instantiates from the source on every run.  Core Lean only.
-/
namespace Specter.C24

inductive Obj where
  | keyTrackers | simpleEntries | prefixEntries | leaseEntries | idxHash
deriving DecidableEq, Repr

def Obj.all : List Obj := [.keyTrackers, .simpleEntries, .prefixEntries, .leaseEntries, .idxHash]
def Obj.tables : List Obj := [.keyTrackers, .simpleEntries, .prefixEntries, .leaseEntries]

/-- one embedded migration file: its version and its `CREATE` statements in file order
(`true` = `IF NOT EXISTS`) -/
structure Mig where
  version : Int
  creates : List (Obj × Bool)
deriving Repr

structure Facts where
  schemaVersion : Int            -- const schemaVersion
  looksObjs : List Obj           -- objects schemaLooksLikeV1 requires (all of them)
  anyObjs : List Obj             -- objects schemaHasAnyV1Objects looks for (any of them)
  migrations : List Mig          -- loadMigrations(): sorted, validated 1..n
  prepared : List Obj            -- tables referenced by the statements prepareStatements prepares
deriving Repr

structure Db (ρ : Type) where
  uv : Int                               -- PRAGMA user_version (signed 32 bit in SQLite)
  tab : Obj → Option (List ρ)

inductive Outcome where
  | ok | refuse
deriving DecidableEq, Repr

variable {ρ : Type}

def upd (f : Obj → Option (List ρ)) (o : Obj) (v : Option (List ρ)) : Obj → Option (List ρ) :=
  fun o' => if o' = o then v else f o'

def present (db : Db ρ) (o : Obj) : Bool := (db.tab o).isSome

/-- `schemaLooksLikeV1`: every inspected name exists. -/
def looksLikeV1 (F : Facts) (db : Db ρ) : Bool := F.looksObjs.all (present db)

/-- `schemaHasAnyV1Objects`: some inspected name exists. -/
def hasAnyV1 (F : Facts) (db : Db ρ) : Bool := F.anyObjs.any (present db)

/-- one `CREATE [IF NOT EXISTS]` statement; `none` = SQL error "already exists" -/
def create (db : Db ρ) (c : Obj × Bool) : Option (Db ρ) :=
  if present db c.1 then (if c.2 then some db else none)
  else some { db with tab := upd db.tab c.1 (some []) }

def createAll : List (Obj × Bool) → Db ρ → Option (Db ρ)
  | [], db => some db
  | c :: cs, db => match create db c with
    | none => none
    | some db' => createAll cs db'

/-- `applyMigration`: DDL and `PRAGMA user_version` in one transaction; an error rolls everything back
(`none`). -/
def applyMigration (db : Db ρ) (m : Mig) : Option (Db ρ) :=
  (createAll m.creates db).map fun db' => { db' with uv := m.version }

/-- the migration loop of `migrate`; `uv` is the *local variable* of the Go code (it is not refreshed
inside the loop). -/
def runMigrations (uv : Int) : List Mig → Db ρ → Outcome × Db ρ
  | [], db => (.ok, db)
  | m :: ms, db =>
    if m.version ≤ uv then runMigrations uv ms db
    else match applyMigration db m with
      | none => (.refuse, db)
      | some db' => runMigrations uv ms db'

def latest (F : Facts) : Int :=
  match F.migrations.getLast? with
  | some m => m.version
  | none => 0

/-- `migrate(db)`; the second component is the database as it is left on disk. -/
def migrate (F : Facts) (db : Db ρ) : Outcome × Db ρ :=
  if db.uv = latest F then (.ok, db)
  else if db.uv > latest F then (.refuse, db)
  else if db.uv = 0 then
    if looksLikeV1 F db then
      -- legacy: `setUserVersion(db, schemaVersion)` outside any transaction, then the loop with uv = schemaVersion
      runMigrations F.schemaVersion F.migrations { db with uv := F.schemaVersion }
    else if hasAnyV1 F db then (.refuse, db)
    else runMigrations 0 F.migrations db
  else runMigrations db.uv F.migrations db

/-- `prepareStatements` fails iff a referenced table does not exist. -/
def prepare (F : Facts) (db : Db ρ) : Bool := F.prepared.all (present db)

/-- `New`: migrate, then prepare; nothing is rolled back when prepare fails. -/
def openDb (F : Facts) (db : Db ρ) : Outcome × Db ρ :=
  match migrate F db with
  | (.refuse, db') => (.refuse, db')
  | (.ok, db') => if prepare F db' then (.ok, db') else (.refuse, db')

/-! executable helpers for the driver -/
def maskOf (db : Db ρ) : Nat :=
  (Obj.all.zipIdx.map fun (o, i) => if present db o then 2 ^ i else 0).sum

def ofMask (uv : Int) (mask : Nat) (rows : List Nat) : Db Nat :=
  { uv := uv
    tab := fun o =>
      let i := match o with
        | .keyTrackers => 0 | .simpleEntries => 1 | .prefixEntries => 2 | .leaseEntries => 3 | .idxHash => 4
      if mask / 2 ^ i % 2 = 1 then some (List.range (rows.getD i 0)) else none }

def rowCounts (db : Db ρ) : List Nat := Obj.tables.map fun o => ((db.tab o).getD []).length

end Specter.C24
