import SpecterModel.C37.Ops
import SpecterModel.C37.Gen
/-!
# C37 model — who reaches the internal admin endpoints (gateway/apex.go, gateway/internal_proxy.go)

The structure of `apexServer.Mount` is GENERATED (`Gen.C37`: prefix, credential guard, middleware order, mounts).
Library behaviour enters as inputs of a request: whether chi knows the method, `r.BasicAuth()`, the two
internal-proxy header values as returned by `Header.Get`. chi's prefix routing of `Route`/`Mount`
(`p = prefix ∨ p` starts with `prefix/`, on `RawPath` when set) is modelled and validated per line.
-/
namespace Specter.C37

structure Cfg where
  user : String
  pass : String
  acme : Bool        -- a.handlers.Acme != nil …
  chord : Bool
  tun : Bool
  migrator : Bool

structure Rq where
  knownMethod : Bool                 -- chi's method table contains r.Method
  path : String                      -- r.URL.Path
  rawPath : String                   -- r.URL.RawPath ("" when the default encoding of Path)
  auth : Option (String × String)    -- r.BasicAuth()
  node : String                      -- r.Header.Get("x-internal-proxy-node-address")
  forwarded : Bool                   -- r.Header.Get("x-internal-proxy-forwarded") != ""

inductive Out where
  | methodNotAllowed            -- 405 from the root router, nothing entered
  | outside                     -- routed outside the internal subtree
  | notMounted                  -- 404: the internal subtree does not exist
  | unauthorized                -- 401 from BasicAuth
  | proxied (target : String)   -- handed to the internal proxy → TunnelServer.DialInternal(target)
  | served (handler : String)   -- reached a handler of the internal subtree
  deriving DecidableEq, Repr

/-- chi: the path the router matches on (as a character list) -/
def routePath (rq : Rq) : List Char := if rq.rawPath ≠ "" then rq.rawPath.toList else rq.path.toList

/-- chi `Mount`/`Route`: pattern, pattern + "/", pattern + "/*" -/
def under (pre : String) (p : List Char) : Bool := p == pre.toList || (pre.toList ++ ['/']).isPrefixOf p

def fieldOf (c : Cfg) (f : String) : Option String :=
  if f = "authUser" then some c.user else if f = "authPass" then some c.pass else none

/-- the early `return` before the subtree is registered is NOT taken -/
def configured (c : Cfg) : Bool := Gen.C37.guardFields.all fun f => fieldOf c f != some ""

def mounted (c : Cfg) (field : String) : Bool :=
  if field = "always" then true else if field = "Acme" then c.acme else if field = "Chord" then c.chord
  else if field = "TunnelServer" then c.tun else if field = "Migrator" then c.migrator else false

/-- `some out` = the middleware answers itself; `none` = it calls the next handler -/
def runMw (c : Cfg) (rq : Rq) : Mw → Option Out
  | .basicAuth => if rq.auth = some (c.user, c.pass) then none else some .unauthorized
  | .internalProxy => if rq.forwarded || rq.node = "" then none else some (.proxied rq.node)

def runChain (c : Cfg) (rq : Rq) : List Mw → Out → Out
  | [], final => final
  | m :: ms, final => match runMw c rq m with
    | some o => o
    | none => runChain c rq ms final

/-- routing inside the subtree (after the middlewares) -/
def subHandler (c : Cfg) (sub : List Char) : Out :=
  match Gen.C37.mounts.find? (fun m => mounted c m.2 && under m.1 sub) with
  | some m => .served m.1
  | none => if Gen.C37.catchAll then .served "catchall" else .notMounted

def apex (c : Cfg) (rq : Rq) : Out :=
  if !rq.knownMethod then .methodNotAllowed
  else
    let p := routePath rq
    if !under Gen.C37.internalPrefix p then .outside
    else if !configured c then .notMounted
    else runChain c rq Gen.C37.middlewares (subHandler c (p.drop Gen.C37.internalPrefix.toList.length))

def Out.reachesInternal : Out → Bool
  | .proxied _ => true
  | .served _ => true
  | _ => false

end Specter.C37
