// C09: lookups issued to nodes in every state of the join protocol (neighbours learnt, fingers
// nil / partial / stale), on real LocalNodes, in a guarded child process (a diverging lookup
// kills the process with a stack overflow; the parent reports the operation in flight).
package main

import (
	"runtime/debug"
	"strings"

	"verif/harness/hlib"
	"verif/harness/ringh"
)

func main() {
	hlib.Guarded(func(run *hlib.Run) {
		debug.SetMaxStack(64 << 20) // fail fast instead of eating 1 GB
		run.Rule = "lookups (FindSuccessor) for member ids ±1, 0, 2^48-1, finger targets and random keys issued (a) to a joiner paused right after its neighbour pointers were assigned (finger table empty), and to its neighbours, (b) to nodes whose fingers were set to nil / partially nil / stale members, with pred nil or set; non-trivial = distinct (state, start, key) where the start node has at least one nil finger"
		rng := hlib.NewRng(run.Seed)
		lookup := func(s *ringh.Session, n, k uint64, tag string) {
			lhs := "lookup " + ringh.U(n) + " " + ringh.U(k)
			run.Begin(lhs)
			s.Do("lookup", ringh.U(n), ringh.U(k))
			run.Case(tag + "|" + lhs)
		}
		if run.Replay != "" {
			s := ringh.NewSession(run, rng)
			for _, t := range run.ReplayLines() {
				if t[0] == "reset" {
					continue
				}
				run.Begin(strings.Join(t, " "))
				s.Do(t...)
			}
			return
		}
		cases := 10
		if run.Thorough() {
			cases = 60
		}
		for c := 0; c < cases; c++ {
			n := 1 + rng.Intn(7)
			ids := ringh.AdversarialIDs(rng, n+1)
			s := ringh.NewSession(run, rng)
			members := s.BuildRing(ids[:n])
			s.Repair(members, 6)
			// (a) paused join of the last id
			j := ids[n]
			s.Do("new", ringh.U(j))
			if s.Do("joinbegin", ringh.U(j), ringh.U(hlib.Pick(rng, members))) == "ok" {
				all := append(append([]uint64{}, members...), j)
				keys := ringh.InterestingKeys(rng, all, 8)
				for _, k := range keys {
					lookup(s, j, k, hlib.F("paused-join:%v", ids))
				}
				// every neighbour is asked for every key: the bootstrap node of a one-node ring is in a unique
				// state here (predecessor = joiner, successor still itself)
				for _, m := range members {
					for _, k := range keys {
						lookup(s, m, k, hlib.F("paused-join-nb:%v", ids))
					}
				}
				run.Count("paused-join")
				s.Do("joinend", ringh.U(j))
				members = all
			}
			// (a') a lookup at a joiner whose join request is still on the way (Joining, no pointers yet)
			if len(ids) > 0 {
				jp := (hlib.Pick(rng, members) + 1 + rng.U64()%1000) % ringh.M
				fresh := true
				for _, x := range append(append([]uint64{}, members...), ids...) {
					fresh = fresh && x != jp
				}
				if fresh {
					s.Do("new", ringh.U(jp))
					key := hlib.Pick(rng, ringh.InterestingKeys(rng, members, 4))
					lhs := []string{"joinprobe", ringh.U(jp), ringh.U(hlib.Pick(rng, members)), ringh.U(key)}
					run.Begin(strings.Join(lhs, " "))
					res := s.Do(lhs...)
					run.Case(hlib.F("joinprobe:%v|%d|%d", members, jp, key))
					if strings.HasSuffix(res, ";ok") {
						members = append(members, jp)
					}
					run.Count("joinprobe")
				}
			}
			// (b) constructed finger states on a random member
			for rep := 0; rep < 2; rep++ {
				m := hlib.Pick(rng, members)
				style := rng.Intn(3)
				for k := 1; k <= 48; k++ {
					switch {
					case style == 0, style == 1 && rng.Bool():
						s.Do("setfinger", ringh.U(m), hlib.F("%d", k), "nil")
					case style == 2 && rng.Chance(50):
						s.Do("setfinger", ringh.U(m), hlib.F("%d", k), ringh.U(hlib.Pick(rng, members)))
					}
				}
				if rng.Chance(30) {
					s.Do("setpred", ringh.U(m), "nil")
				}
				run.Count(hlib.F("finger-style:%d", style))
				for _, k := range ringh.InterestingKeys(rng, members, 6) {
					lookup(s, m, k, hlib.F("constructed:%d:%v", style, members))
				}
				s.Repair(members, 4)
			}
		}
	})
}
