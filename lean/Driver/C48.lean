import SpecterModel.C48.Drv

def main : IO Unit := Specter.C48.main
