import SpecterModel.C02.Join
import SpecterModel.C02.Leave
import SpecterModel.C03.Props
import SpecterModel.C05.Props
import SpecterModel.C07.Props
/-!
# C03 / C05 — the ring REFINES one sequential per-key store (sequential histories)

End-to-end theorem of C03 ("every acknowledged write stays in effect after any sequence of graceful joins
and leaves: reads from any node return the latest acknowledged value, no deleted data reappears") and C05
("every stored key lives only on its responsible node") for SEQUENTIAL histories — one complete
operation after the other; interleavings and failures are the validated part (C04, churn harness).

* `viewOf st k : Val` — the value of a key as clients see it (simple value, children); a missing entry and a
  tombstone both read `(none, [])`. `valStep` — the sequential specification of one key.
  `kvLocal_out / kvLocal_view_same / kvLocal_view_other`: the local store is `valStep` on the view.
* `absGet H net k` — the abstraction: the view of `k` in the store of the owner of `H k`
  (`H` = the hash function, a parameter with `H k < M`).
* `Placed H net` — the C05 invariant (hash = hash of key, keys distinct per store, children sorted, every
  entry HOLDING DATA is on the owner of its hash); `placed_single_holder`: no key holds data on two members.
  `Inv = Stable ∧ Quiescent ∧ Placed`.
* `lookupsComplete_of_sized` — on a stable ring with fewer than `FUEL` = 256 members every lookup completes
  within the model's fuel (discharges `LookupsComplete`).
* `kv_refines` — a KV operation through ANY member = one `valStep` on the abstract value; `Inv` kept.
* `join_keeps_abs` — a completed join of a fresh node keeps `Inv` and the abstract value of EVERY key.
* `leave_repair_keeps_abs` — a completed leave + the predecessor's `stabilize` + any repair tasks after
  which the ring is stable and quiescent again keeps `Inv` and every abstract value (`leave_keeps_abs`:
  the special case under `hno`, which however fails in practice: `hno_fails` in `C03/RefineDemo.lean`).
* `history_refines` — for every sequential history (`Exec`) the KV answers of the ring are exactly those of
  the sequential specification `specRun`; corollaries `read_latest_write`, `deleted_stays_deleted`.
* non-vacuity: `dataRing` (here), a whole history in `C03/RefineDemo.lean`.
-/
namespace Specter.C03.Refine
open Specter.Ring Specter.C01 Specter.C03 Specter.C05 Specter.C09 Specter.C02

/-! ### 1. the local store: `kvFind`, `kvUpsert`, the value view of a key -/

theorem kvFind_some {st : List KEntry} {k : String} {e : KEntry} (h : kvFind st k = some e) :
    e ∈ st ∧ e.key = k :=
  ⟨List.mem_of_find?_eq_some h, by simpa using List.find?_some h⟩

theorem kvFind_none {st : List KEntry} {k : String} (h : kvFind st k = none) : ∀ e ∈ st, e.key ≠ k := by
  intro e he
  have := List.find?_eq_none.mp h e he
  simpa using this

theorem kvFind_of_mem (st : List KEntry) (hnd : (st.map (·.key)).Nodup) (e : KEntry) (he : e ∈ st) :
    kvFind st e.key = some e := by
  cases hf : kvFind st e.key with
  | none => exact absurd rfl (kvFind_none hf e he)
  | some e' =>
    obtain ⟨h1, h2⟩ := kvFind_some hf
    rw [eq_of_key_eq st hnd e' e h1 he h2]

theorem any_key_false {st : List KEntry} {k : String} (h : st.any (·.key == k) = false) : kvFind st k = none := by
  unfold kvFind
  rw [List.find?_eq_none]
  intro e he
  rw [List.any_eq_false] at h
  exact h e he

theorem any_key_true {st : List KEntry} {k : String} (h : st.any (·.key == k) = true) :
    ∃ e, kvFind st k = some e := by
  cases hf : kvFind st k with
  | some e => exact ⟨e, rfl⟩
  | none =>
    rw [List.any_eq_true] at h
    obtain ⟨e, he, hk⟩ := h
    exact absurd (by simpa using hk) (kvFind_none hf e he)

theorem kvFind_map (st : List KEntry) (g : KEntry → KEntry) (hg : ∀ e, (g e).key = e.key) (k : String) :
    kvFind (st.map g) k = (kvFind st k).map g := by
  unfold kvFind
  induction st with
  | nil => rfl
  | cons x xs ih =>
    simp only [List.map_cons, List.find?_cons, hg]
    split
    · rfl
    · exact ih

/-- the entry `kvUpsert` creates for a key that has none -/
def blank (k : String) (h : Nat) : KEntry := { key := k, hash := h, simple := none, children := [] }

/-- **`kvUpsert`, read back.** -/
theorem kvFind_kvUpsert (st : List KEntry) (k : String) (h : Nat) (f : KEntry → KEntry)
    (hf : ∀ e, (f e).key = e.key) (k' : String) :
    kvFind (kvUpsert st k h f) k' =
      if k' = k then some (f ((kvFind st k).getD (blank k h))) else kvFind st k' := by
  unfold kvUpsert
  by_cases hany : st.any (·.key == k) = true
  · simp only [hany, if_true]
    rw [kvFind_map _ _ (by intro e; split <;> simp [hf])]
    by_cases hk : k' = k
    · subst hk
      obtain ⟨e0, he0⟩ := any_key_true hany
      have := (kvFind_some he0).2
      simp [he0, this]
    · simp only [hk, if_false]
      cases hf' : kvFind st k' with
      | none => rfl
      | some e =>
        have := (kvFind_some hf').2
        have hne : e.key ≠ k := by rw [this]; exact hk
        simp [hne]
  · have hany' : st.any (·.key == k) = false := by simpa using hany
    simp only [hany', Bool.false_eq_true, if_false]
    have hnone := any_key_false hany'
    unfold kvFind at hnone ⊢
    rw [List.find?_append]
    by_cases hk : k' = k
    · subst hk
      simp [hnone, hf, blank]
    · have : ((f { key := k, hash := h, simple := none, children := [] }).key == k') = false := by
        rw [hf]; simpa using fun e => hk e.symm
      simp [hk, this]

theorem kvUpsert_keys (st : List KEntry) (k : String) (h : Nat) (f : KEntry → KEntry)
    (hf : ∀ e, (f e).key = e.key) :
    (kvUpsert st k h f).map (·.key) =
      if st.any (·.key == k) then st.map (·.key) else st.map (·.key) ++ [k] := by
  unfold kvUpsert
  split
  · rw [List.map_map]
    apply List.map_congr_left
    intro e _
    simp only [Function.comp]
    split <;> simp [hf]
  · simp [hf]

theorem kvUpsert_nodup (st : List KEntry) (k : String) (h : Nat) (f : KEntry → KEntry)
    (hf : ∀ e, (f e).key = e.key) (hnd : (st.map (·.key)).Nodup) :
    ((kvUpsert st k h f).map (·.key)).Nodup := by
  rw [kvUpsert_keys st k h f hf]
  split
  · exact hnd
  · rename_i hany
    have hany' : st.any (·.key == k) = false := by simpa using hany
    rw [List.nodup_append]
    refine ⟨hnd, by simp, ?_⟩
    intro a ha b hb
    simp at hb; subst hb
    simp only [List.mem_map] at ha
    obtain ⟨e, he, rfl⟩ := ha
    rw [List.any_eq_false] at hany'
    simpa using hany' e he

/-- the value of a key as clients see it: its simple value and its (sorted) children; a key without entry
and a tombstone (entry with neither) both read as `(none, [])` -/
abbrev Val := Option String × List String

def viewOf (st : List KEntry) (k : String) : Val :=
  match kvFind st k with
  | some e => (e.simple, e.children)
  | none => (none, [])

def valOf (e : KEntry) : Val := (e.simple, e.children)

theorem viewOf_eq (st : List KEntry) (k : String) : viewOf st k = valOf ((kvFind st k).getD (blank k 0)) := by
  unfold viewOf valOf
  cases kvFind st k <;> rfl


/-! ### 2. children lists are kept strictly sorted -/

/-- strictly increasing (hence duplicate-free) — the form in which the memory back-end keeps the children
of a key; `Import` re-inserts children one by one (`insertSorted`), which is the identity exactly on
such lists -/
def Canon (cs : List String) : Prop := cs.Pairwise (· < ·)

theorem str_lt_of_not (c x : String) (h1 : ¬ c < x) (h2 : c ≠ x) : x < c := by
  have hle : x ≤ c := String.not_lt.mp h1
  cases Classical.em (x < c) with
  | inl h => exact h
  | inr h => exact absurd (String.le_antisymm (String.not_lt.mp h) hle) h2

theorem insertSorted_canon (c : String) : ∀ l : List String, Canon l → Canon (insertSorted c l) := by
  intro l
  induction l with
  | nil => intro _; simp [insertSorted, Canon]
  | cons x xs ih =>
    intro h
    unfold Canon at h ih ⊢
    rw [List.pairwise_cons] at h
    unfold insertSorted
    split
    · rename_i hcx
      rw [List.pairwise_cons]
      refine ⟨?_, List.pairwise_cons.mpr h⟩
      intro y hy
      rcases List.mem_cons.mp hy with rfl | hy
      · exact hcx
      · exact String.lt_trans hcx (h.1 y hy)
    · rename_i hcx
      split
      · exact List.pairwise_cons.mpr h
      · rename_i hne
        have hne' : c ≠ x := by simpa using hne
        rw [List.pairwise_cons]
        refine ⟨?_, ih h.2⟩
        intro y hy
        rcases (mem_insertSorted y c xs).mp hy with rfl | hy
        · exact str_lt_of_not _ _ hcx hne'
        · exact h.1 y hy

theorem insertSorted_last (c : String) : ∀ l : List String, (∀ y ∈ l, y < c) → insertSorted c l = l ++ [c] := by
  intro l
  induction l with
  | nil => intro _; rfl
  | cons x xs ih =>
    intro h
    have hx : x < c := h x List.mem_cons_self
    unfold insertSorted
    have h1 : ¬ c < x := String.lt_asymm hx
    have h2 : (c == x) = false := by simpa using (String.ne_of_lt hx).symm
    simp only [h1, if_false, h2, Bool.false_eq_true]
    rw [ih (fun y hy => h y (List.mem_cons_of_mem _ hy))]
    rfl

theorem foldl_insertSorted_canon_aux : ∀ (cs acc : List String), Canon (acc ++ cs) →
    cs.foldl (fun a x => insertSorted x a) acc = acc ++ cs := by
  intro cs
  induction cs with
  | nil => intro acc _; simp
  | cons x xs ih =>
    intro acc h
    simp only [List.foldl_cons]
    have hacc : ∀ y ∈ acc, y < x := by
      intro y hy
      unfold Canon at h
      rw [List.pairwise_append] at h
      exact h.2.2 y hy x List.mem_cons_self
    rw [insertSorted_last x acc hacc, ih (acc ++ [x]) (by simpa using h)]
    simp

/-- re-inserting the children of a sorted list one by one gives the list back -/
theorem foldl_insertSorted_canon (cs : List String) (h : Canon cs) :
    cs.foldl (fun a x => insertSorted x a) [] = cs := by
  simpa using foldl_insertSorted_canon_aux cs [] (by simpa using h)

theorem foldl_insertSorted_keeps_canon : ∀ (cs acc : List String), Canon acc →
    Canon (cs.foldl (fun a x => insertSorted x a) acc) := by
  intro cs
  induction cs with
  | nil => intro acc h; exact h
  | cons x xs ih => intro acc h; exact ih _ (insertSorted_canon x acc h)

theorem importedEntry_canon (e : KEntry) (h : Canon e.children) : importedEntry e = e := by
  unfold importedEntry
  rw [foldl_insertSorted_canon _ h]

/-! ### 3. `kvLocal` as a function of the value view -/

/-- the sequential specification of one key: what each operation returns and how it changes the value -/
def valStep (v : Val) : KvOp → Val × KvOut
  | .put x => ((some x, v.2), .unit)
  | .get => (v, .value v.1)
  | .delete => ((none, v.2), .unit)
  | .pAppend c => if v.2.contains c then (v, .err .kvPrefixConflict) else ((v.1, insertSorted c v.2), .unit)
  | .pRemove c => ((v.1, v.2.filter (· != c)), .unit)
  | .pContains c => (v, .bool (v.2.contains c))
  | .pList => (v, .list v.2)

/-- the shape of every `kvLocal`: nothing, or one `kvUpsert` with a function that keeps key and hash and
sortedness of the children -/
theorem kvLocal_shape (st : List KEntry) (k : String) (h : Nat) (op : KvOp) :
    (kvLocal st k h op).1 = st ∨
    ∃ f : KEntry → KEntry, (∀ e, (f e).key = e.key ∧ (f e).hash = e.hash ∧ (Canon e.children → Canon (f e).children)) ∧
      (kvLocal st k h op).1 = kvUpsert st k h f := by
  cases op with
  | put v => right; exact ⟨fun e => { e with simple := some v }, fun e => ⟨rfl, rfl, fun hc => hc⟩, rfl⟩
  | get => right; exact ⟨id, fun e => ⟨rfl, rfl, fun hc => hc⟩, rfl⟩
  | delete => right; exact ⟨fun e => { e with simple := none }, fun e => ⟨rfl, rfl, fun hc => hc⟩, rfl⟩
  | pAppend c =>
    unfold kvLocal
    cases hf : kvFind st k with
    | none => right; exact ⟨fun e => { e with children := [c] }, fun e => ⟨rfl, rfl, fun _ => by simp [Canon]⟩, rfl⟩
    | some e0 =>
      simp only
      split
      · left; rfl
      · right; exact ⟨fun e => { e with children := insertSorted c e.children },
          fun e => ⟨rfl, rfl, fun hc => insertSorted_canon c _ hc⟩, rfl⟩
  | pRemove c => right; exact ⟨fun e => { e with children := e.children.filter (· != c) },
      fun e => ⟨rfl, rfl, fun hc => List.Pairwise.filter _ hc⟩, rfl⟩
  | pContains c => right; exact ⟨id, fun e => ⟨rfl, rfl, fun hc => hc⟩, rfl⟩
  | pList => right; exact ⟨id, fun e => ⟨rfl, rfl, fun hc => hc⟩, rfl⟩

theorem viewOf_kvUpsert_same (st : List KEntry) (k : String) (h : Nat) (f : KEntry → KEntry)
    (hf : ∀ e, (f e).key = e.key) :
    viewOf (kvUpsert st k h f) k = valOf (f ((kvFind st k).getD (blank k h))) := by
  unfold viewOf
  rw [kvFind_kvUpsert st k h f hf k]
  simp [valOf]

theorem viewOf_kvUpsert_other (st : List KEntry) (k : String) (h : Nat) (f : KEntry → KEntry)
    (hf : ∀ e, (f e).key = e.key) (k' : String) (hk : k' ≠ k) :
    viewOf (kvUpsert st k h f) k' = viewOf st k' := by
  unfold viewOf
  rw [kvFind_kvUpsert st k h f hf k']
  simp [hk]

/-- the answer of the local store is the answer of the sequential specification on the value view -/
theorem kvLocal_out (st : List KEntry) (k : String) (h : Nat) (op : KvOp) :
    (kvLocal st k h op).2 = (valStep (viewOf st k) op).2 := by
  cases op <;> unfold kvLocal valStep viewOf <;> cases hf : kvFind st k <;> simp
  all_goals (split <;> rfl)

/-- … and so is the new value of the key -/
theorem kvLocal_view_same (st : List KEntry) (k : String) (h : Nat) (op : KvOp) :
    viewOf (kvLocal st k h op).1 k = (valStep (viewOf st k) op).1 := by
  cases op with
  | put v =>
    show viewOf (kvUpsert st k h (fun e => { e with simple := some v })) k = _
    rw [viewOf_kvUpsert_same st k h (fun e => { e with simple := some v }) (fun _ => rfl)]
    unfold valStep viewOf valOf; cases kvFind st k <;> rfl
  | get =>
    show viewOf (kvUpsert st k h id) k = _
    rw [viewOf_kvUpsert_same st k h id (fun _ => rfl)]
    unfold valStep viewOf valOf; cases kvFind st k <;> rfl
  | delete =>
    show viewOf (kvUpsert st k h (fun e => { e with simple := none })) k = _
    rw [viewOf_kvUpsert_same st k h (fun e => { e with simple := none }) (fun _ => rfl)]
    unfold valStep viewOf valOf; cases kvFind st k <;> rfl
  | pAppend c =>
    unfold kvLocal
    cases hf : kvFind st k with
    | none =>
      show viewOf (kvUpsert st k h (fun e => { e with children := [c] })) k = _
      rw [viewOf_kvUpsert_same st k h (fun e => { e with children := [c] }) (fun _ => rfl)]
      unfold valStep viewOf valOf; simp [hf, blank, insertSorted]
    | some e0 =>
      simp only
      split
      · rename_i hc
        have hc' : c ∈ e0.children := by simpa using hc
        unfold valStep viewOf; simp [hf, hc']
      · rename_i hc
        have hc' : c ∉ e0.children := by simpa using hc
        show viewOf (kvUpsert st k h (fun e => { e with children := insertSorted c e.children })) k = _
        rw [viewOf_kvUpsert_same st k h (fun e => { e with children := insertSorted c e.children }) (fun _ => rfl)]
        unfold valStep viewOf valOf; simp [hf, hc']
  | pRemove c =>
    show viewOf (kvUpsert st k h (fun e => { e with children := e.children.filter (· != c) })) k = _
    rw [viewOf_kvUpsert_same st k h (fun e => { e with children := e.children.filter (· != c) }) (fun _ => rfl)]
    unfold valStep viewOf valOf; cases kvFind st k <;> rfl
  | pContains c =>
    show viewOf (kvUpsert st k h id) k = _
    rw [viewOf_kvUpsert_same st k h id (fun _ => rfl)]
    unfold valStep viewOf valOf; cases kvFind st k <;> rfl
  | pList =>
    show viewOf (kvUpsert st k h id) k = _
    rw [viewOf_kvUpsert_same st k h id (fun _ => rfl)]
    unfold valStep viewOf valOf; cases kvFind st k <;> rfl

/-- … and no other key of the store changes -/
theorem kvLocal_view_other (st : List KEntry) (k : String) (h : Nat) (op : KvOp) (k' : String) (hk : k' ≠ k) :
    viewOf (kvLocal st k h op).1 k' = viewOf st k' := by
  rcases kvLocal_shape st k h op with e | ⟨f, hf, e⟩
  · rw [e]
  · rw [e]; exact viewOf_kvUpsert_other st k h f (fun x => (hf x).1) k' hk


/-! ### 4. owners, the abstraction function, the placement invariant -/

theorem argminDist_some_ne_none (key : Nat) : ∀ (ms : List Nat) (x : Nat), argminDist key (some x) ms ≠ none := by
  intro ms
  induction ms with
  | nil => intro x; simp [argminDist]
  | cons b bs ih => intro x; simp only [argminDist]; split <;> exact ih _

/-- the executable oracle `ownerOf` finds THE owner -/
theorem ownerOf_eq (net : Net) (hlt : ∀ n, Mem net n → n < M) (h o : Nat) (hh : h < M)
    (ho : IsOwner net h o) : ownerOf net h = some o := by
  cases ho' : ownerOf net h with
  | none =>
    exfalso
    have hn' : o ∈ liveIds net := (mem_liveIds net o).mpr ho.1
    unfold ownerOf at ho'
    cases hl : liveIds net with
    | nil => rw [hl] at hn'; simp at hn'
    | cons a as =>
      rw [hl] at ho'
      simp only [argminDist] at ho'
      exact argminDist_some_ne_none _ _ _ ho'
  | some o' =>
    rw [owner_unique net hlt h o o' hh ho (ownerOf_isOwner net h o' ho')]

/-- every identifier has an owner as soon as the ring has a member -/
theorem owner_exists (net : Net) (hs : Stable net) (n : Nat) (hn : Mem net n) (h : Nat) (hh : h < M) :
    ∃ o nd, IsOwner net h o ∧ net.get o = some nd ∧ checkNodeState nd false = none := by
  obtain ⟨_, o, _, ho⟩ := lookup_correct net hs n h hn hh
  obtain ⟨nd, hg, hc⟩ := ho.1
  exact ⟨o, nd, ho, hg, hc⟩

/-- converse of `owner_in_pred_range`: the member whose predecessor range contains `h` owns `h` -/
theorem owner_of_pred_range (net : Net) (hs : Stable net) (h o p : Nat) (hh : h < M) (nd : Node)
    (hg : net.get o = some nd) (hc : checkNodeState nd false = none) (hp : nd.pred = some p)
    (hb : between p h o true = true) : IsOwner net h o := by
  have ho : Mem net o := ⟨nd, hg, hc⟩
  obtain ⟨p', hp', hpm, hpmin⟩ := hs.pred o nd hg hc
  rw [hp] at hp'; injection hp' with hp'; subst hp'
  have hoM := hs.lt o ho; have hpM := hs.lt p hpm
  refine ⟨ho, fun m hm => ?_⟩
  have hmM := hs.lt m hm
  have := hpmin m hm
  rw [between_closed_iff p h o hpM hh hoM] at hb
  have := dist_cases p h hpM hh; have := dist_cases p o hpM hoM
  have := dist_cases p m hpM hmM; have := dist_cases h o hh hoM
  have := dist_cases h m hh hmM; have := M_val
  omega

/-- **The abstraction function**: the value of key `k` in the ring = what the store of the owner of
`H k` holds for `k` (`H` = the hash function, a parameter: xxh3 is outside the model). Executable. -/
def absGet (H : String → Nat) (net : Net) (k : String) : Val :=
  match ownerOf net (H k) with
  | some o =>
    match net.get o with
    | some nd => viewOf nd.store k
    | none => (none, [])
  | none => (none, [])

theorem absGet_eq (H : String → Nat) (hH : ∀ k, H k < M) (net : Net) (hlt : ∀ n, Mem net n → n < M)
    (k : String) (o : Nat) (nd : Node) (ho : IsOwner net (H k) o) (hg : net.get o = some nd) :
    absGet H net k = viewOf nd.store k := by
  unfold absGet
  rw [ownerOf_eq net hlt (H k) o (hH k) ho]
  simp only [hg]

/-- **C05, the placement invariant.** For every live member `n` and every entry `e` of its store:
the recorded hash is the hash of the key; keys are pairwise distinct within the store; children lists are
strictly sorted; and if `e` holds data (is not a tombstone) then `n` is the owner of `e.hash`.
Tombstones (`isDeleted`) are exempt from the ownership clause because the model (as the memory back-end)
leaves them behind: `rangeKeys` skips them, so a hand-off does not move them — they read as "no value"
wherever they are. -/
structure Placed (H : String → Nat) (net : Net) : Prop where
  hash : ∀ n nd, net.get n = some nd → checkNodeState nd false = none → ∀ e ∈ nd.store, e.hash = H e.key
  nodup : ∀ n nd, net.get n = some nd → checkNodeState nd false = none → (nd.store.map (·.key)).Nodup
  sorted : ∀ n nd, net.get n = some nd → checkNodeState nd false = none → ∀ e ∈ nd.store, Canon e.children
  owned : ∀ n nd, net.get n = some nd → checkNodeState nd false = none →
      ∀ e ∈ nd.store, e.isDeleted = false → IsOwner net e.hash n

/-- **C05 as stated**: every stored key lives only on its responsible node — a key that holds data on a
live member `n` has `n` as owner of its hash, and no other live member holds data under that key. -/
theorem placed_single_holder (H : String → Nat) (hH : ∀ k, H k < M) (net : Net) (hs : Stable net)
    (hp : Placed H net) (n n' : Nat) (nd nd' : Node)
    (hg : net.get n = some nd) (hc : checkNodeState nd false = none)
    (hg' : net.get n' = some nd') (hc' : checkNodeState nd' false = none)
    (e e' : KEntry) (he : e ∈ nd.store) (he' : e' ∈ nd'.store) (hd : e.isDeleted = false)
    (hd' : e'.isDeleted = false) (hk : e.key = e'.key) : n = n' ∧ e = e' := by
  have h1 := hp.owned n nd hg hc e he hd
  have h2 := hp.owned n' nd' hg' hc' e' he' hd'
  rw [hp.hash n nd hg hc e he] at h1
  rw [hp.hash n' nd' hg' hc' e' he', ← hk] at h2
  have : n = n' := owner_unique net hs.lt (H e.key) n n' (hH _) h1 h2
  subst this
  rw [hg] at hg'; injection hg' with hg'; subst hg'
  exact ⟨rfl, eq_of_key_eq nd.store (hp.nodup n nd hg hc) e e' he he' hk⟩

/-- the invariant of the refinement: stable, quiescent, placed -/
structure Inv (H : String → Nat) (net : Net) : Prop where
  stable : Stable net
  quiescent : Quiescent net
  placed : Placed H net

/-! ### 5. nets that differ in stores only -/

/-- `b` is `a` up to stores -/
def StoresOnly (a b : Net) : Prop := ∀ m, (b.get m).map strip = (a.get m).map strip

theorem StoresOnly.symm {a b : Net} (h : StoresOnly a b) : StoresOnly b a := fun m => (h m).symm

theorem StoresOnly.some {a b : Net} (h : StoresOnly a b) (m : Nat) (x : Node) (hx : b.get m = some x) :
    ∃ y, a.get m = some y ∧ strip x = strip y := by
  have := h m
  cases h2 : a.get m with
  | none => simp [hx, h2] at this
  | some y => simp [hx, h2] at this; exact ⟨y, rfl, this⟩

theorem pview_strip (x : Node) : Specter.C02.Leave.pview (strip x) = Specter.C02.Leave.pview x := rfl

theorem StoresOnly.pview {a b : Net} (h : StoresOnly a b) :
    ∀ m, (b.get m).map Specter.C02.Leave.pview = (a.get m).map Specter.C02.Leave.pview := by
  intro m
  have := congrArg (Option.map Specter.C02.Leave.pview) (h m)
  simpa [Option.map_map, Function.comp_def, pview_strip] using this

theorem StoresOnly.mem {a b : Net} (h : StoresOnly a b) (m : Nat) : Mem b m ↔ Mem a m :=
  Specter.C02.Leave.mem_congr a b h.pview m

theorem StoresOnly.stable {a b : Net} (h : StoresOnly a b) (hs : Stable a) : Stable b :=
  Specter.C02.Leave.stable_congr a b h.pview hs

theorem live_of_strip {x y : Node} (h : strip x = strip y) (hc : checkNodeState x false = none) :
    checkNodeState y false = none := by
  have e1 := congrArg Node.state h; have e2 := congrArg Node.crashed h
  simp only [strip] at e1 e2
  unfold checkNodeState at hc ⊢; rw [← e1, ← e2]; exact hc

theorem StoresOnly.quiescent {a b : Net} (h : StoresOnly a b) (hq : Quiescent a) : Quiescent b := by
  constructor
  · intro m x hx hcx
    obtain ⟨y, hy, e⟩ := h.some m x hx
    have e1 := congrArg Node.state e; have e2 := congrArg Node.crashed e
    simp only [strip] at e1 e2
    rw [e1, e2]; exact hq.active m y hy (live_of_strip e hcx)
  · intro m x hx hcx
    obtain ⟨y, hy, e⟩ := h.some m x hx
    have e1 := congrArg Node.surrogate e; have e2 := congrArg Node.pred e
    simp only [strip] at e1 e2
    rw [e1, e2]; exact hq.surrogate m y hy (live_of_strip e hcx)

theorem isOwner_congr {a b : Net} (hm : ∀ m, Mem b m ↔ Mem a m) (h o : Nat) : IsOwner b h o ↔ IsOwner a h o := by
  unfold IsOwner
  constructor
  · rintro ⟨h1, h2⟩; exact ⟨(hm o).mp h1, fun m hm' => h2 m ((hm m).mpr hm')⟩
  · rintro ⟨h1, h2⟩; exact ⟨(hm o).mpr h1, fun m hm' => h2 m ((hm m).mp hm')⟩

/-- replacing the store of one node is a stores-only change -/
theorem storesOnly_upd (net : Net) (o : Nat) (st : List KEntry) :
    StoresOnly net (net.upd o (fun nd' => { nd' with store := st })) :=
  fun m => upd_strip net o m _ (fun _ => rfl)

/-! ### 6. lookups complete within the model's fuel on rings of fewer than `FUEL` members -/

/-- the ring has at most `b` members (`ms` lists them, possibly with repetitions and non-members) -/
def Sized (net : Net) (b : Nat) : Prop := ∃ ms : List Nat, ms.length ≤ b ∧ ∀ m, Mem net m → m ∈ ms

theorem countP_lt_of_witness (l : List Nat) (p q : Nat → Bool) (hpq : ∀ x, p x = true → q x = true)
    (x : Nat) (hx : x ∈ l) (hq : q x = true) (hp : p x = false) : l.countP p < l.countP q := by
  induction l with
  | nil => simp at hx
  | cons a as ih =>
    have hle : as.countP p ≤ as.countP q := List.countP_mono_left (fun y _ => hpq y)
    simp only [List.countP_cons]
    rcases List.mem_cons.mp hx with rfl | hx'
    · simp [hq, hp]; omega
    · have := ih hx'
      by_cases ha : p a = true
      · simp [ha, hpq a ha]; omega
      · simp [ha]; split <;> omega

theorem lookup_within (net : Net) (hs : Stable net) (ms : List Nat) (hms : ∀ m, Mem net m → m ∈ ms)
    (key : Nat) (hk : key < M) :
    ∀ (f n : Nat), Mem net n → ms.countP (fun m => decide (cw key m < cw key n)) < f →
      ∃ o, findSucc net f n key = .found o := by
  intro f
  induction f with
  | zero => intro n _ h; omega
  | succ f ih =>
    intro n hn hcnt
    have hnM := hs.lt n hn
    obtain ⟨nd, hg, hc⟩ := hn
    obtain ⟨p, hp, hpm, _⟩ := hs.pred n nd hg hc
    obtain ⟨s, hsu, hsm, _⟩ := hs.succ n nd hg hc
    have hsM := hs.lt s hsm
    by_cases c1 : between p key n true = true
    · exact ⟨n, findSucc_pred net f n key nd hg hc (by simp [inPredRange, hp, c1])⟩
    · have hpr : inPredRange nd.pred key n = false := by simp [inPredRange, hp, c1]
      by_cases c2 : between n key s true = true
      · exact ⟨s, findSucc_succ_found net f n key s nd hg hc hpr hsu c2⟩
      · have c2' : between n key s true = false := by simpa using c2
        have hfM : ∀ g, some g ∈ nd.fingers → g < M := fun g hg' => hs.lt g (hs.fingers n nd hg hc g hg')
        obtain ⟨_, hlt⟩ := hop_decreases n key s nd.fingers hnM hk hsM hfM c2'
        have hcm : Mem net (hop n key s nd.fingers) := by
          rcases hop_cases n key s nd.fingers with h | ⟨hm, _⟩
          · rw [h]; exact hsm
          · exact hs.fingers n nd hg hc _ hm
        have hdec := countP_lt_of_witness ms
          (fun m => decide (cw key m < cw key (hop n key s nd.fingers)))
          (fun m => decide (cw key m < cw key n))
          (fun x hx => by simp only [decide_eq_true_eq] at hx ⊢; omega)
          (hop n key s nd.fingers) (hms _ hcm) (by simpa using hlt) (by simp)
        obtain ⟨o, ho⟩ := ih (hop n key s nd.fingers) hcm (by omega)
        exact ⟨o, by rw [findSucc_hop net f n key s nd hg hc hpr hsu c2']; exact ho⟩

/-- **Fuel.** On a stable ring with fewer than `FUEL` (= 256) members every lookup of the model completes:
each forwarding hop lands on a member strictly closer to the key, so a lookup visits every member at
most once. This discharges the side condition `LookupsComplete` of `kv_at_owner` / `join_succeeds`. -/
theorem lookupsComplete_of_sized (net : Net) (hs : Stable net) (b : Nat) (hsz : Sized net b) (hb : b < FUEL)
    (key : Nat) (hk : key < M) : LookupsComplete net key := by
  obtain ⟨ms, hlen, hms⟩ := hsz
  intro m hm
  apply lookup_within net hs ms hms key hk FUEL m hm
  have := List.countP_le_length (p := fun m' => decide (cw key m' < cw key m)) (l := ms)
  omega

theorem Sized.congr {a b : Net} {n : Nat} (h : Sized a n) (hm : ∀ m, Mem b m → Mem a m) : Sized b n := by
  obtain ⟨ms, h1, h2⟩ := h
  exact ⟨ms, h1, fun m hm' => h2 m (hm m hm')⟩

theorem Sized.succ {a b : Net} {n j : Nat} (h : Sized a n) (hm : ∀ m, Mem b m → Mem a m ∨ m = j) : Sized b (n+1) := by
  obtain ⟨ms, h1, h2⟩ := h
  refine ⟨j :: ms, by simp; omega, fun m hm' => ?_⟩
  rcases hm m hm' with h3 | h3
  · exact List.mem_cons_of_mem _ (h2 m h3)
  · rw [h3]; exact List.mem_cons_self


/-! ### 7. a routed KV operation refines one step of the sequential specification -/

theorem mem_kvUpsert' (st : List KEntry) (k : String) (h : Nat) (f : KEntry → KEntry) (e : KEntry)
    (he : e ∈ kvUpsert st k h f) :
    e ∈ st ∨ (∃ e0 ∈ st, e0.key = k ∧ e = f e0) ∨ e = f (blank k h) := by
  unfold kvUpsert at he
  split at he
  · simp only [List.mem_map] at he
    obtain ⟨e0, he0, rfl⟩ := he
    split
    · rename_i hk; right; left; exact ⟨e0, he0, by simpa using hk, rfl⟩
    · left; exact he0
  · simp only [List.mem_append, List.mem_singleton] at he
    rcases he with he | he
    · left; exact he
    · right; right; exact he

/-- `kvLocal` for key `k` with hash `H k` keeps the store-level clauses of `Placed`; every entry of the new
store is an old entry or an entry for `k` with hash `H k` -/
theorem kvLocal_store_inv (H : String → Nat) (st : List KEntry) (k : String) (op : KvOp)
    (hhash : ∀ e ∈ st, e.hash = H e.key) (hnd : (st.map (·.key)).Nodup)
    (hsorted : ∀ e ∈ st, Canon e.children) :
    (∀ e ∈ (kvLocal st k (H k) op).1, e.hash = H e.key) ∧
    (((kvLocal st k (H k) op).1).map (·.key)).Nodup ∧
    (∀ e ∈ (kvLocal st k (H k) op).1, Canon e.children) ∧
    (∀ e ∈ (kvLocal st k (H k) op).1, e ∈ st ∨ e.hash = H k) := by
  rcases kvLocal_shape st k (H k) op with e | ⟨f, hf, e⟩
  · rw [e]; exact ⟨hhash, hnd, hsorted, fun e he => Or.inl he⟩
  · rw [e]
    have cases := fun x hx => mem_kvUpsert' st k (H k) f x hx
    refine ⟨?_, kvUpsert_nodup st k (H k) f (fun x => (hf x).1) hnd, ?_, ?_⟩
    · intro x hx
      rcases cases x hx with h1 | ⟨e0, he0, _, rfl⟩ | rfl
      · exact hhash x h1
      · rw [(hf e0).2.1, (hf e0).1]; exact hhash e0 he0
      · rw [(hf _).2.1, (hf _).1]; rfl
    · intro x hx
      rcases cases x hx with h1 | ⟨e0, he0, _, rfl⟩ | rfl
      · exact hsorted x h1
      · exact (hf e0).2.2 (hsorted e0 he0)
      · exact (hf _).2.2 (by simp [blank, Canon])
    · intro x hx
      rcases cases x hx with h1 | ⟨e0, he0, hk0, rfl⟩ | rfl
      · exact Or.inl h1
      · right; rw [(hf e0).2.1, hhash e0 he0, hk0]
      · right; rw [(hf _).2.1]; rfl

/-- **Refinement of a KV step.** On a ring satisfying `Inv` with fewer than `FUEL` members, a KV operation
on key `k` (hash `H k`) issued through ANY member `n`:
* returns exactly what the sequential specification `valStep` returns on the abstract value of `k`;
* leaves a ring satisfying `Inv`, with the same members;
* changes the abstract value of `k` as `valStep` says, and of no other key. -/
theorem kv_refines (H : String → Nat) (hH : ∀ k, H k < M) (net : Net) (hinv : Inv H net)
    (b : Nat) (hsz : Sized net b) (hb : b < FUEL) (n : Nat) (hn : Mem net n) (k : String) (op : KvOp) (fuel : Nat) :
    (kvAt net (fuel+2) n k (H k) op).2 = (valStep (absGet H net k) op).2 ∧
    Inv H (kvAt net (fuel+2) n k (H k) op).1 ∧
    (∀ m, Mem (kvAt net (fuel+2) n k (H k) op).1 m ↔ Mem net m) ∧
    absGet H (kvAt net (fuel+2) n k (H k) op).1 k = (valStep (absGet H net k) op).1 ∧
    ∀ k', k' ≠ k → absGet H (kvAt net (fuel+2) n k (H k) op).1 k' = absGet H net k' := by
  obtain ⟨hs, hq, hp⟩ := hinv
  have hF := lookupsComplete_of_sized net hs b hsz hb (H k) (hH k)
  obtain ⟨o, ndo, ho, hgo, hkv⟩ := kv_at_owner net hs hq n k (H k) op (hH k) hn hF fuel
  rw [hkv]
  simp only
  have hco : checkNodeState ndo false = none := by
    obtain ⟨x, hx, hc⟩ := ho.1
    rw [hgo] at hx; injection hx with hx; subst hx; exact hc
  have hso : StoresOnly net (net.upd o (fun nd' => { nd' with store := (kvLocal ndo.store k (H k) op).1 })) :=
    storesOnly_upd net o _
  have hmem := hso.mem
  have hs' := hso.stable hs
  have abs0 : absGet H net k = viewOf ndo.store k := absGet_eq H hH net hs.lt k o ndo ho hgo
  have hgo' : (net.upd o (fun nd' => { nd' with store := (kvLocal ndo.store k (H k) op).1 })).get o =
      some { ndo with store := (kvLocal ndo.store k (H k) op).1 } := by rw [get_upd_same, hgo]; rfl
  obtain ⟨i1, i2, i3, i4⟩ := kvLocal_store_inv H ndo.store k op (hp.hash o ndo hgo hco) (hp.nodup o ndo hgo hco)
    (hp.sorted o ndo hgo hco)
  refine ⟨?_, ⟨hs', hso.quiescent hq, ?_⟩, hmem, ?_, ?_⟩
  · rw [abs0]; exact kvLocal_out ndo.store k (H k) op
  · -- placement
    have other : ∀ n1 nd1, n1 ≠ o →
        (net.upd o (fun nd' => { nd' with store := (kvLocal ndo.store k (H k) op).1 })).get n1 = some nd1 →
        net.get n1 = some nd1 := fun n1 nd1 hne h1 => by rw [get_upd_other _ _ _ _ hne] at h1; exact h1
    constructor
    · intro n1 nd1 h1 hc1
      by_cases e : n1 = o
      · subst e; rw [hgo'] at h1; injection h1 with h1; subst h1; exact i1
      · exact hp.hash n1 nd1 (other n1 nd1 e h1) hc1
    · intro n1 nd1 h1 hc1
      by_cases e : n1 = o
      · subst e; rw [hgo'] at h1; injection h1 with h1; subst h1; exact i2
      · exact hp.nodup n1 nd1 (other n1 nd1 e h1) hc1
    · intro n1 nd1 h1 hc1
      by_cases e : n1 = o
      · subst e; rw [hgo'] at h1; injection h1 with h1; subst h1; exact i3
      · exact hp.sorted n1 nd1 (other n1 nd1 e h1) hc1
    · intro n1 nd1 h1 hc1 x hx hd
      rw [isOwner_congr hmem]
      by_cases e : n1 = o
      · subst e; rw [hgo'] at h1; injection h1 with h1; subst h1
        rcases i4 x hx with h2 | h2
        · exact hp.owned n1 ndo hgo hco x h2 hd
        · rw [h2]; exact ho
      · exact hp.owned n1 nd1 (other n1 nd1 e h1) hc1 x hx hd
  · rw [absGet_eq H hH _ hs'.lt k o _ ((isOwner_congr hmem _ _).mpr ho) hgo', abs0]
    exact kvLocal_view_same ndo.store k (H k) op
  · intro k' hk'
    obtain ⟨o1, nd1, ho1, hg1, _⟩ := owner_exists net hs n hn (H k') (hH k')
    rw [absGet_eq H hH net hs.lt k' o1 nd1 ho1 hg1]
    by_cases e : o1 = o
    · subst e
      rw [hgo] at hg1; injection hg1 with hg1; subst hg1
      rw [absGet_eq H hH _ hs'.lt k' o1 _ ((isOwner_congr hmem _ _).mpr ho1) hgo']
      exact kvLocal_view_other ndo.store k (H k) op k' hk'
    · have hg1' : (net.upd o (fun nd' => { nd' with store := (kvLocal ndo.store k (H k) op).1 })).get o1 = some nd1 := by
        rw [get_upd_other _ _ _ _ e]; exact hg1
      rw [absGet_eq H hH _ hs'.lt k' o1 nd1 ((isOwner_congr hmem _ _).mpr ho1) hg1']


/-! ### 8. `Import` and `RemoveKeys` on the value view -/

/-- what `Import` does to the entry `old` it finds (or creates) for an imported entry `m` -/
def impF (m : KEntry) (old : KEntry) : KEntry :=
  { old with simple := m.simple, children := m.children.foldl (fun cs c => insertSorted c cs) old.children }

theorem importEntries_cons (st : List KEntry) (x : KEntry) (xs : List KEntry) :
    importEntries st (x :: xs) = importEntries (kvUpsert st x.key x.hash (impF x)) xs := by
  unfold importEntries; rfl

theorem kvFind_cons (x : KEntry) (xs : List KEntry) (k : String) :
    kvFind (x :: xs) k = if x.key = k then some x else kvFind xs k := by
  unfold kvFind
  rw [List.find?_cons]
  by_cases h : x.key = k
  · simp [h]
  · have : (x.key == k) = false := by simpa using h
    simp [h, this]

/-- **`Import`, read back** (imported keys pairwise distinct) -/
theorem kvFind_import (es : List KEntry) (hnd : (es.map (·.key)).Nodup) (k : String) : ∀ st : List KEntry,
    kvFind (importEntries st es) k =
      match kvFind es k with
      | none => kvFind st k
      | some m => some (impF m ((kvFind st k).getD (blank k m.hash))) := by
  induction es with
  | nil => intro st; rfl
  | cons x xs ih =>
    intro st
    simp only [List.map_cons, List.nodup_cons] at hnd
    rw [importEntries_cons, ih hnd.2, kvFind_cons]
    have hup := kvFind_kvUpsert st x.key x.hash (impF x) (fun _ => rfl) k
    by_cases hk : x.key = k
    · subst hk
      have hnone : kvFind xs x.key = none := by
        cases hf : kvFind xs x.key with
        | none => rfl
        | some m =>
          obtain ⟨h1, h2⟩ := kvFind_some hf
          exact absurd (List.mem_map.mpr ⟨m, h1, h2⟩) hnd.1
      simp only [hnone, if_true]
      rw [hup]; simp
    · have hk' : k ≠ x.key := fun e => hk e.symm
      simp only [hk, if_false]
      rw [hup]; simp only [hk', if_false]

theorem viewOf_import_miss (es : List KEntry) (hnd : (es.map (·.key)).Nodup) (st : List KEntry) (k : String)
    (h : kvFind es k = none) : viewOf (importEntries st es) k = viewOf st k := by
  unfold viewOf; rw [kvFind_import es hnd k st, h]

/-- a key that reads as "no children" at the target takes exactly the imported value -/
theorem viewOf_import_hit (es : List KEntry) (hnd : (es.map (·.key)).Nodup) (st : List KEntry) (k : String)
    (m : KEntry) (h : kvFind es k = some m) (hold : (viewOf st k).2 = []) (hc : Canon m.children) :
    viewOf (importEntries st es) k = valOf m := by
  unfold viewOf at hold ⊢
  rw [kvFind_import es hnd k st, h]
  simp only [impF, valOf]
  cases hf : kvFind st k with
  | none => simp [blank, foldl_insertSorted_canon _ hc]
  | some e => simp only [hf] at hold; simp [hold, foldl_insertSorted_canon _ hc]

theorem kvUpsert_all (P : KEntry → Prop) (st : List KEntry) (k : String) (h : Nat) (f : KEntry → KEntry)
    (hf : ∀ e, P e → P (f e)) (hb : P (f (blank k h))) (hst : ∀ e ∈ st, P e) : ∀ e ∈ kvUpsert st k h f, P e := by
  intro e he
  rcases mem_kvUpsert' st k h f e he with h1 | ⟨e0, he0, _, rfl⟩ | rfl
  · exact hst e h1
  · exact hf e0 (hst e0 he0)
  · exact hb

theorem import_nodup (es : List KEntry) : ∀ st : List KEntry, (st.map (·.key)).Nodup →
    ((importEntries st es).map (·.key)).Nodup := by
  induction es with
  | nil => intro st h; exact h
  | cons x xs ih =>
    intro st h
    rw [importEntries_cons]
    exact ih _ (kvUpsert_nodup st x.key x.hash (impF x) (fun _ => rfl) h)

theorem import_sorted (es : List KEntry) : ∀ st : List KEntry, (∀ e ∈ st, Canon e.children) →
    ∀ e ∈ importEntries st es, Canon e.children := by
  induction es with
  | nil => intro st h; exact h
  | cons x xs ih =>
    intro st h
    rw [importEntries_cons]
    apply ih
    apply kvUpsert_all (fun e => Canon e.children) st x.key x.hash (impF x) _ _ h
    · intro e he; exact foldl_insertSorted_keeps_canon _ _ he
    · exact foldl_insertSorted_keeps_canon _ _ (by simp [blank, Canon])

/-- an entry of the store after `Import` is an untouched old entry, or its key was imported -/
theorem import_mem_cases (es st : List KEntry) (hnd : (es.map (·.key)).Nodup) (hst : (st.map (·.key)).Nodup)
    (e : KEntry) (he : e ∈ importEntries st es) : e ∈ st ∨ ∃ m ∈ es, m.key = e.key := by
  have hf := kvFind_of_mem _ (import_nodup es st hst) e he
  rw [kvFind_import es hnd e.key st] at hf
  cases hm : kvFind es e.key with
  | none => rw [hm] at hf; left; exact (kvFind_some hf).1
  | some m => right; exact ⟨m, (kvFind_some hm).1, (kvFind_some hm).2⟩

theorem kvFind_removeKeys (st es : List KEntry) (k : String) (h : kvFind es k = none) :
    kvFind (removeKeys st es) k = kvFind st k := by
  unfold removeKeys kvFind
  rw [List.find?_filter]
  congr 1
  funext a
  by_cases hk : a.key = k
  · subst hk
    have : es.any (fun x => x.key == a.key) = false := by
      rw [List.any_eq_false]; intro m hm; simpa using kvFind_none h m hm
    simp [this]
  · have : (a.key == k) = false := by simpa using hk
    simp [this]

theorem deleted_val (e : KEntry) (h : e.isDeleted = true) : valOf e = (none, []) := by
  unfold KEntry.isDeleted at h
  simp only [Bool.and_eq_true, Option.isNone_iff_eq_none, List.isEmpty_iff] at h
  unfold valOf; rw [h.1, h.2]

/-- the keys selected by `RangeKeys`, looked up by key -/
theorem kvFind_rangeKeys (st : List KEntry) (hnd : (st.map (·.key)).Nodup) (lo hi : Nat) (k : String) :
    kvFind (rangeKeys st lo hi) k =
      match kvFind st k with
      | some e => if between lo e.hash hi true = true ∧ e.isDeleted = false then some e else none
      | none => none := by
  have hsub : ((rangeKeys st lo hi).map (·.key)).Nodup := by
    unfold rangeKeys; exact List.Nodup.sublist (List.Sublist.map _ List.filter_sublist) hnd
  cases hf : kvFind st k with
  | none =>
    simp only
    cases hr : kvFind (rangeKeys st lo hi) k with
    | none => rfl
    | some m =>
      obtain ⟨h1, h2⟩ := kvFind_some hr
      exact absurd h2 (kvFind_none hf m ((mem_rangeKeys _ _ _ _).mp h1).1)
  | some e =>
    obtain ⟨he, hk⟩ := kvFind_some hf
    simp only
    split
    · rename_i hc
      have : e ∈ rangeKeys st lo hi := (mem_rangeKeys _ _ _ _).mpr ⟨he, hc.1, hc.2⟩
      rw [← hk]; exact kvFind_of_mem _ hsub e this
    · rename_i hc
      cases hr : kvFind (rangeKeys st lo hi) k with
      | none => rfl
      | some m =>
        obtain ⟨h1, h2⟩ := kvFind_some hr
        obtain ⟨m1, m2, m3⟩ := (mem_rangeKeys _ _ _ _).mp h1
        have : m = e := eq_of_key_eq st hnd m e m1 he (h2.trans hk.symm)
        subst this
        exact absurd ⟨m2, m3⟩ hc


/-! ### 9. the stores after a completed `Join` -/

open Specter.C07 in
theorem finish_store (net : Net) (n : Nat) (stab release : Bool) (m : Nat) :
    storeOf (finish net n stab release) m = storeOf net m := by
  unfold finish
  cases hg : net.get n with
  | none => rfl
  | some nd0 =>
    simp only
    split
    · rfl
    · have hX : storeOf (if stab = true then fixFinger (stabilize net n) n else net) m = storeOf net m := by
        cases stab
        · rfl
        · simp only [if_true]; rw [fixFinger_store, stabilize_store]
      cases release
      · simpa using hX
      · simp only [if_true]
        rw [storeOf_upd _ _ _ _ (fun nd => by split <;> rfl)]
        exact hX

open Specter.C07 in
theorem joinEnd_store (net : Net) (j m : Nat) : storeOf (joinEnd net j) m = storeOf net m := by
  have tasks : ∀ net, storeOf (joinTasks net j) m = storeOf net m := by
    intro net; unfold joinTasks
    rw [checkPredecessor_store, fixFinger_store, stabilize_store]
  have advise : ∀ net, storeOf (joinAdvise net j) m = storeOf net m := by
    intro net; unfold joinAdvise
    cases hg : net.get j with
    | none => rfl
    | some nd =>
      simp only
      rw [storeOf_upd _ _ _ _ (by intro _; rfl)]
      split
      · exact finish_store _ _ _ _ _
      · rfl
  have release : ∀ net, storeOf (joinRelease net j) m = storeOf net m := by
    intro net; unfold joinRelease
    cases hg : net.get j with
    | none => rfl
    | some nd =>
      simp only
      split
      · rw [finish_store, storeOf_upd _ _ _ _ (by intro _; rfl)]
      · rw [storeOf_upd _ _ _ _ (by intro _; rfl)]
  unfold joinEnd
  rw [release, advise, tasks]

open Specter.C07 in
/-- the stores after a successful `transferUp`, in closed form (also when nothing is moved) -/
theorem transferUp_stores (net1 netT : Net) (s j prev : Nat) (nds ndj : Node) (hsj : s ≠ j)
    (hgs : net1.get s = some nds) (hgj : net1.get j = some ndj)
    (h : transferUp net1 s j prev nds.store = some netT) :
    (∀ m, m ≠ s → m ≠ j → storeOf netT m = storeOf net1 m) ∧
    storeOf netT s = some (removeKeys nds.store (rangeKeys nds.store prev j)) ∧
    storeOf netT j = some (importEntries ndj.store (rangeKeys nds.store prev j)) := by
  unfold transferUp at h
  simp only at h
  split at h
  · rename_i hem
    simp at h; subst h
    rw [List.isEmpty_iff] at hem
    rw [hem]
    refine ⟨fun _ _ _ => rfl, ?_, ?_⟩
    · simp [storeOf, hgs, Specter.C02.Leave.removeKeys_nil]
    · simp [storeOf, hgj, Specter.C02.Leave.importEntries_nil]
  · cases hi : importAt net1 j (rangeKeys nds.store prev j) with
    | none => simp [hi] at h
    | some n2 =>
      simp only [hi] at h; simp at h; subst h
      obtain ⟨ndj0, hgj0, hn2⟩ := importAt_get net1 n2 j _ hi
      rw [hgj] at hgj0; injection hgj0 with e; subst e
      subst hn2
      refine ⟨?_, ?_, ?_⟩
      · intro m hms hmj; unfold storeOf; rw [get_upd_other _ _ _ _ hms, get_upd_other _ _ _ _ hmj]
      · unfold storeOf; rw [get_upd_same, get_upd_other _ _ _ _ hsj, hgs]; rfl
      · unfold storeOf; rw [get_upd_other _ _ _ _ (Ne.symm hsj), get_upd_same, hgj]; rfl

open Specter.C07 in
/-- **Where the data is after the first half of `Join`**: the hand-off was served by a live member `s` whose
predecessor `prev` has the joiner strictly between them (`Ctx`); `s` keeps its store minus the data keys
hashing into `(prev, j]`, the joiner holds `Import` of exactly those, no other store changed. -/
theorem joinBegin_stores (net : Net) (hs : Stable net) (hq : Quiescent net) (j peer : Nat) (hj : j < M)
    (ndj : Node) (hgj : net.get j = some ndj) (hcr : ndj.crashed = false) (net3 : Net)
    (h : joinBegin net j peer = (net3, none)) :
    ∃ s prev nds, Ctx net j s prev ∧ net.get s = some nds ∧
      (∀ m, m ≠ s → m ≠ j → storeOf net3 m = storeOf net m) ∧
      storeOf net3 s = some (removeKeys nds.store (rangeKeys nds.store prev j)) ∧
      storeOf net3 j = some (importEntries ndj.store (rangeKeys nds.store prev j)) := by
  unfold joinBegin at h
  simp only [hgj] at h
  split at h
  · simp at h
  · rename_i hin
    have hin' : ndj.state = .inactive := by simpa using hin
    have hnj : ¬ Mem net j := by
      rintro ⟨y, hy, hc⟩
      rw [hgj] at hy; injection hy with hy; subst hy
      simp [checkNodeState, hcr, hin'] at hc
    cases hr : requestToJoin (net.upd j fun nd => { nd with state := .joining }) FUEL peer j with
    | mk n2 r =>
      cases r with
      | error e => simp [hr] at h
      | ok v =>
        obtain ⟨prev, succs⟩ := v
        simp only [hr] at h
        simp at h
        obtain ⟨s, nd0, hg1s, hcr0, hho⟩ := requestToJoin_ok _ _ _ _ _ _ hr
        have hg1j : (net.upd j fun nd => { nd with state := .joining }).get j =
            some { ndj with state := .joining } := by rw [get_upd_same, hgj]; rfl
        rcases handOff_cases (net.upd j fun nd => { nd with state := .joining }) s j with
          ⟨_, hh⟩ | ⟨_, _, _, hh⟩ | ⟨_, _, _, _, hh⟩ | ⟨_, _, _, _, _, _, hh⟩ |
          ⟨_, _, _, _, _, _, _, hh⟩ | ⟨nd, prev', netT, hg, hact, hpred, hbt, htr, hh⟩
        · rw [hh] at hho; simp at hho
        · rw [hh] at hho; simp at hho
        · rw [hh] at hho; simp at hho
        · rw [hh] at hho; simp at hho
        · rw [hh] at hho; simp at hho
        · rw [hh] at hho
          simp only [Prod.mk.injEq, Except.ok.injEq] at hho
          obtain ⟨hn2, hpv, hsl⟩ := hho
          subst hpv
          have hsj : s ≠ j := by
            intro e; subst e
            rw [hg1j] at hg; injection hg with hg; subst hg; simp at hact
          have hg1 := hg
          rw [get_upd_other _ _ _ _ hsj] at hg
          rw [get_upd_other _ _ _ _ hsj, hg] at hg1s; injection hg1s with e0; subst e0
          have hsm : Mem net s := ⟨nd, hg, by simp [checkNodeState, hcr0, hact]⟩
          have c : Ctx net j s prev' := ⟨hs, hq, hj, hnj, hsm,
            fun y hy => by rw [hg] at hy; injection hy with hy; subst hy; exact hpred, hbt⟩
          refine ⟨s, prev', nd, c, hg, ?_⟩
          obtain ⟨tA, tB, tC⟩ := transferUp_stores _ netT s j prev' nd _ hsj hg1 hg1j htr
          subst hn2; subst h
          have base : ∀ m, storeOf (net.upd j fun nd => { nd with state := .joining }) m = storeOf net m :=
            fun m => storeOf_upd _ _ _ _ (by intro _; rfl)
          refine ⟨?_, ?_, ?_⟩
          · intro m hms hmj
            rw [storeOf_upd _ _ _ _ (by intro _; rfl), storeOf_upd _ _ _ _ (by intro _; rfl), tA m hms hmj, base]
          · rw [storeOf_upd _ _ _ _ (by intro _; rfl), storeOf_upd _ _ _ _ (by intro _; rfl), tB]
          · rw [storeOf_upd _ _ _ _ (by intro _; rfl), storeOf_upd _ _ _ _ (by intro _; rfl), tC]


/-! ### 10. who owns what after the join -/

/-- a key in `(prev, j]` is at least as close to `j` as to any node outside `(prev, j)` -/
theorem geo_new_owner (prev j h m : Nat) (hp : prev < M) (hj : j < M) (hh : h < M) (hm : m < M)
    (hbt : (0 < dist prev h ∧ dist prev h ≤ dist prev j) ∨ h = j)
    (g1 : ¬ (0 < dist prev m ∧ dist prev m < dist prev j)) : dist h j ≤ dist h m := by
  rcases hbt with hbt | rfl
  · have := dist_rebase prev h j hp hh hj; have := dist_rebase prev h m hp hh hm
    have := dist_lt prev m; have := dist_lt prev j; have := dist_lt prev h
    omega
  · rw [dist_self h hh]; omega

/-- a key owned by `o ≠ s` is not captured by a joiner whose own owner is `s` -/
theorem geo_old_owner_ne (h j o s : Nat) (hh : h < M) (hj : j < M) (ho : o < M) (hs : s < M)
    (hjs : dist j s ≤ dist j o) (hos : dist h o ≤ dist h s) (hne : o ≠ s) : dist h o ≤ dist h j := by
  have := dist_rebase h j o hh hj ho; have := dist_rebase h j s hh hj hs
  have := dist_eq_iff j s o hj hs ho
  have := dist_lt h o; have := dist_lt h s; have := dist_lt h j
  omega

/-- a key in `(j, s]` is at least as close to `s` as to `j` -/
theorem geo_old_owner_s (h j s : Nat) (hh : h < M) (hj : j < M) (hs : s < M)
    (hb : between j h s true = true) : dist h s ≤ dist h j := by
  rw [between_closed_iff j h s hj hh hs] at hb
  have := dist_cases j h hj hh; have := dist_cases j s hj hs
  have := dist_cases h s hh hs; have := dist_cases h j hh hj; have := M_val
  omega

/-- **Ownership after a join.** With `j` inserted between `prev` and `s`: the identifiers of `(prev, j]`
(all owned by `s` before) are owned by `j`; every other identifier keeps its owner. -/
theorem owner_after_join {net net' : Net} {j s prev : Nat} (c : Ctx net j s prev)
    (hmem : ∀ m, Mem net' m ↔ (Mem net m ∨ m = j)) (h : Nat) (hh : h < M) (o : Nat) (ho : IsOwner net h o) :
    (between prev h j true = true → o = s ∧ IsOwner net' h j) ∧
    (between prev h j true = false → IsOwner net' h o) := by
  have hsM := c.hs.lt s c.hsm; have hpM := c.hs.lt prev c.prevMem; have hjM := c.hj
  obtain ⟨ys, hys, hcs⟩ := c.hsm
  obtain ⟨p0, hp0, _, hmin⟩ := c.hs.pred s ys hys hcs
  rw [c.hsp ys hys] at hp0; injection hp0 with hp0; subst hp0
  have hb := (between_open_iff prev j s hpM hjM hsM).mp c.hb
  have g1 : ∀ m, Mem net m → ¬ (0 < dist prev m ∧ dist prev m < dist prev j) :=
    fun m hm => geo_prev_j (Mem net) prev j s hpM hsM hmin hb m hm (c.hs.lt m hm)
  constructor
  · intro hbt
    have hbt' := (between_closed_iff prev h j hpM hh hjM).mp hbt
    have hpj : prev ≠ j := c.pj
    have hbt2 : (0 < dist prev h ∧ dist prev h ≤ dist prev j) ∨ h = j := by
      rcases hbt' with ⟨h1, h2 | h2⟩ | h3
      · exact Or.inl ⟨h1, h2⟩
      · exact absurd h2 hpj
      · exact Or.inr h3
    have hbs : between prev h s true = true := by
      rw [between_closed_iff prev h s hpM hh hsM]
      rcases hbt2 with h1 | rfl
      · left; refine ⟨h1.1, ?_⟩; omega
      · left; refine ⟨hb.1, ?_⟩; omega
    have hos : IsOwner net h s := owner_of_pred_range net c.hs h s prev hh ys hys hcs (c.hsp ys hys) hbs
    refine ⟨owner_unique net c.hs.lt h o s hh ho hos, (hmem j).mpr (Or.inr rfl), fun m hm => ?_⟩
    rcases (hmem m).mp hm with h1 | rfl
    · exact geo_new_owner prev j h m hpM hjM hh (c.hs.lt m h1) hbt2 (g1 m h1)
    · exact Nat.le_refl _
  · intro hbf
    refine ⟨(hmem o).mpr (Or.inl ho.1), fun m hm => ?_⟩
    rcases (hmem m).mp hm with h1 | rfl
    · exact ho.2 m h1
    · by_cases e : o = s
      · subst e
        have hin := owner_in_pred_range net c.hs h o prev hh ho ys hys hcs (c.hsp ys hys)
        have := range_split prev m o h hpM hjM hsM hh c.hb hin hbf
        exact geo_old_owner_s h m o hh hjM hsM this
      · exact geo_old_owner_ne h m o s hh hjM (c.hs.lt o ho.1) hsM
          ((handOff_node_is_owner c).2 o ho.1) (ho.2 s ⟨ys, hys, hcs⟩) e


/-! ### 11. a completed join keeps the invariant and the abstract value of EVERY key -/

open Specter.C07 in
theorem storeOf_some {net : Net} {m : Nat} {st : List KEntry} (h : storeOf net m = some st) :
    ∃ x, net.get m = some x ∧ x.store = st := by
  unfold storeOf at h
  cases hx : net.get m with
  | none => simp [hx] at h
  | some x => exact ⟨x, rfl, by simpa [hx] using h⟩

open Specter.C07 in
theorem storeOf_get {net : Net} {m : Nat} {x : Node} (h : net.get m = some x) : storeOf net m = some x.store := by
  unfold storeOf; rw [h]; rfl

theorem viewOf_nil (k : String) : viewOf [] k = (none, []) := rfl

open Specter.C07 in
/-- **Refinement of a join.** On a ring satisfying `Inv`, a completed `Join` of a fresh node with an empty
store (through whichever peer) yields a ring satisfying `Inv` whose members are the old ones plus the
joiner, and the abstract value of EVERY key is unchanged: the data entries hashing into `(prev, j]` moved
to the joiner — the new owner of exactly these hashes — with the same simple value and children;
everything else stayed with its (unchanged) owner. Tombstones of `(prev, j]` stay behind at the successor
(the model's `rangeKeys` skips them); they read as "no value" there as they would at the joiner.
Hypothesis added to those of `join_preserves_stable`: `hempty` — the joiner's store is empty (what `new`
leaves; without it a stale entry at the joiner could shadow nothing but would break `Placed`). -/
theorem join_keeps_abs (H : String → Nat) (hH : ∀ k, H k < M) (net : Net) (hinv : Inv H net)
    (j peer : Nat) (hj : j < M) (hfresh : FreshJoiner net j)
    (hempty : ∀ nd, net.get j = some nd → nd.store = []) (net' : Net) (h : join net j peer = (net', none)) :
    Inv H net' ∧ Mem net' j ∧ (∀ m, Mem net' m ↔ (Mem net m ∨ m = j)) ∧
    ∀ k, absGet H net' k = absGet H net k := by
  obtain ⟨hs, hq, hp⟩ := hinv
  obtain ⟨hs', hq', hmj, hmem⟩ := join_preserves_stable net hs hq j peer hj hfresh net' h
  obtain ⟨ndj, hgj, _, hcr, _, _⟩ := hfresh.present
  have hst : ∃ s prev nds, Ctx net j s prev ∧ net.get s = some nds ∧
      (∀ m, m ≠ s → m ≠ j → storeOf net' m = storeOf net m) ∧
      storeOf net' s = some (removeKeys nds.store (rangeKeys nds.store prev j)) ∧
      storeOf net' j = some (importEntries [] (rangeKeys nds.store prev j)) := by
    unfold join at h
    cases hb : joinBegin net j peer with
    | mk net3 r =>
      cases r with
      | some e => simp [hb] at h
      | none =>
        simp only [hb] at h
        simp at h
        subst h
        obtain ⟨s, prev, nds, c, hgs, a, b, d⟩ := joinBegin_stores net hs hq j peer hj ndj hgj hcr net3 hb
        rw [hempty ndj hgj] at d
        refine ⟨s, prev, nds, c, hgs, fun m h1 h2 => ?_, ?_, ?_⟩
        · rw [joinEnd_store]; exact a m h1 h2
        · rw [joinEnd_store]; exact b
        · rw [joinEnd_store]; exact d
  obtain ⟨s, prev, nds, c, hgs, stO, stS, stJ⟩ := hst
  have hcs : checkNodeState nds false = none := by
    obtain ⟨y, hy, hc⟩ := c.hsm
    rw [hgs] at hy; injection hy with hy; subst hy; exact hc
  have hndS := hp.nodup s nds hgs hcs
  have hhashS := hp.hash s nds hgs hcs
  have hsortS := hp.sorted s nds hgs hcs
  have hownS := hp.owned s nds hgs hcs
  have hmvnd : ((rangeKeys nds.store prev j).map (·.key)).Nodup := by
    unfold rangeKeys; exact List.Nodup.sublist (List.Sublist.map _ List.filter_sublist) hndS
  obtain ⟨xs, hxs, hxsst⟩ := storeOf_some stS
  obtain ⟨xj, hxj, hxjst⟩ := storeOf_some stJ
  have own := fun h hh o ho => owner_after_join c hmem h hh o ho
  -- the value view of every key
  have habs : ∀ k, absGet H net' k = absGet H net k := by
    intro k
    obtain ⟨o, ndo, ho, hgo, hco⟩ := owner_exists net hs s c.hsm (H k) (hH k)
    rw [absGet_eq H hH net hs.lt k o ndo ho hgo]
    cases hbt : between prev (H k) j true with
    | false =>
      have ho' := (own (H k) (hH k) o ho).2 hbt
      by_cases e : o = s
      · subst e
        rw [hgs] at hgo; injection hgo with hgo; subst hgo
        rw [absGet_eq H hH net' hs'.lt k o xs ho' hxs, hxsst]
        have hmiss : kvFind (rangeKeys nds.store prev j) k = none := by
          rw [kvFind_rangeKeys nds.store hndS prev j k]
          cases hf : kvFind nds.store k with
          | none => rfl
          | some e =>
            obtain ⟨he, hk⟩ := kvFind_some hf
            simp only
            rw [if_neg]
            rintro ⟨h1, _⟩
            rw [hhashS e he, hk, hbt] at h1
            exact absurd h1 (by simp)
        unfold viewOf
        rw [kvFind_removeKeys _ _ _ hmiss]
      · have hoj : o ≠ j := fun e2 => c.hnj (e2 ▸ ho.1)
        have := stO o e hoj
        rw [storeOf_get hgo] at this
        obtain ⟨xo, hxo, hxost⟩ := storeOf_some this
        rw [absGet_eq H hH net' hs'.lt k o xo ho' hxo, hxost]
    | true =>
      obtain ⟨e, hoj⟩ := (own (H k) (hH k) o ho).1 hbt
      subst e
      rw [hgs] at hgo; injection hgo with hgo; subst hgo
      rw [absGet_eq H hH net' hs'.lt k j xj hoj hxj, hxjst]
      cases hf : kvFind nds.store k with
      | none =>
        have hmiss : kvFind (rangeKeys nds.store prev j) k = none := by
          rw [kvFind_rangeKeys nds.store hndS prev j k, hf]
        rw [viewOf_import_miss _ hmvnd [] k hmiss, viewOf_nil]
        unfold viewOf; rw [hf]
      | some e =>
        obtain ⟨he, hk⟩ := kvFind_some hf
        by_cases hd : e.isDeleted = true
        · have hmiss : kvFind (rangeKeys nds.store prev j) k = none := by
            rw [kvFind_rangeKeys nds.store hndS prev j k, hf]; simp [hd]
          rw [viewOf_import_miss _ hmvnd [] k hmiss, viewOf_nil]
          unfold viewOf; rw [hf]
          exact (deleted_val e hd).symm
        · have hd' : e.isDeleted = false := by simpa using hd
          have hhit : kvFind (rangeKeys nds.store prev j) k = some e := by
            rw [kvFind_rangeKeys nds.store hndS prev j k, hf]
            simp only
            rw [if_pos]
            exact ⟨by rw [hhashS e he, hk]; exact hbt, hd'⟩
          rw [viewOf_import_hit _ hmvnd [] k e hhit rfl (hsortS e he)]
          unfold viewOf valOf; rw [hf]
  -- every live node of `net'` is the joiner, the successor, or an untouched old member
  have key : ∀ n1 nd1, net'.get n1 = some nd1 → checkNodeState nd1 false = none →
      (n1 = j ∧ nd1.store = importEntries [] (rangeKeys nds.store prev j)) ∨
      (n1 = s ∧ nd1.store = removeKeys nds.store (rangeKeys nds.store prev j)) ∨
      (n1 ≠ j ∧ n1 ≠ s ∧ ∃ y, net.get n1 = some y ∧ checkNodeState y false = none ∧ y.store = nd1.store) := by
    intro n1 nd1 h1 hc1
    by_cases e1 : n1 = j
    · left; subst e1; rw [hxj] at h1; injection h1 with h1; subst h1; exact ⟨rfl, hxjst⟩
    · by_cases e2 : n1 = s
      · right; left; subst e2; rw [hxs] at h1; injection h1 with h1; subst h1; exact ⟨rfl, hxsst⟩
      · right; right
        refine ⟨e1, e2, ?_⟩
        have hm : Mem net n1 := by
          rcases (hmem n1).mp ⟨nd1, h1, hc1⟩ with h2 | h2
          · exact h2
          · exact absurd h2 e1
        obtain ⟨y, hy, hcy⟩ := hm
        have := stO n1 e2 e1
        rw [storeOf_get hy, storeOf_get h1] at this
        injection this with this
        exact ⟨y, hy, hcy, this.symm⟩
  have hashJ : ∀ e ∈ importEntries [] (rangeKeys nds.store prev j), e.hash = H e.key := by
    intro e he
    rcases mem_importEntries _ _ e he with ⟨e0, he0, _⟩ | ⟨m, hm, hk, hh⟩
    · simp at he0
    · rw [← hk, ← hh]; exact hhashS m ((mem_rangeKeys _ _ _ _).mp hm).1
  refine ⟨⟨hs', hq', ⟨?_, ?_, ?_, ?_⟩⟩, hmj, hmem, habs⟩
  · intro n1 nd1 h1 hc1 e he
    rcases key n1 nd1 h1 hc1 with ⟨_, hst⟩ | ⟨_, hst⟩ | ⟨_, _, y, hy, hcy, hst⟩
    · rw [hst] at he; exact hashJ e he
    · rw [hst] at he; exact hhashS e ((mem_removeKeys _ _ _).mp he).1
    · rw [← hst] at he; exact hp.hash n1 y hy hcy e he
  · intro n1 nd1 h1 hc1
    rcases key n1 nd1 h1 hc1 with ⟨_, hst⟩ | ⟨_, hst⟩ | ⟨_, _, y, hy, hcy, hst⟩
    · rw [hst]; exact import_nodup _ [] (by simp)
    · rw [hst]; unfold removeKeys
      exact List.Nodup.sublist (List.Sublist.map _ List.filter_sublist) hndS
    · rw [← hst]; exact hp.nodup n1 y hy hcy
  · intro n1 nd1 h1 hc1 e he
    rcases key n1 nd1 h1 hc1 with ⟨_, hst⟩ | ⟨_, hst⟩ | ⟨_, _, y, hy, hcy, hst⟩
    · rw [hst] at he; exact import_sorted _ [] (by simp) e he
    · rw [hst] at he; exact hsortS e ((mem_removeKeys _ _ _).mp he).1
    · rw [← hst] at he; exact hp.sorted n1 y hy hcy e he
  · intro n1 nd1 h1 hc1 e he hd
    rcases key n1 nd1 h1 hc1 with ⟨rfl, hst⟩ | ⟨rfl, hst⟩ | ⟨_, hne, y, hy, hcy, hst⟩
    · rw [hst] at he
      rcases import_mem_cases _ [] hmvnd (by simp) e he with h0 | ⟨m, hm, hk⟩
      · simp at h0
      · obtain ⟨m1, m2, m3⟩ := (mem_rangeKeys _ _ _ _).mp hm
        have hmh : m.hash = H m.key := hhashS m m1
        have heh : e.hash = m.hash := by rw [hashJ e he, hmh, hk]
        rw [heh]
        exact ((own m.hash (by rw [hmh]; exact hH _) s (hownS m m1 m3)).1 m2).2
    · rw [hst] at he
      have hout := remaining_outside_range nds.store prev j e he hd
      have he0 := ((mem_removeKeys _ _ _).mp he).1
      have hhe : e.hash < M := by rw [hhashS e he0]; exact hH _
      exact (own e.hash hhe n1 (hownS e he0 hd)).2 hout
    · rw [← hst] at he
      have hold := hp.owned n1 y hy hcy e he hd
      have hhe : e.hash < M := by rw [hp.hash n1 y hy hcy e he]; exact hH _
      cases hbt : between prev e.hash j true with
      | true => exact absurd ((own e.hash hhe n1 hold).1 hbt).1 hne
      | false => exact (own e.hash hhe n1 hold).2 hbt


/-! ### 12. a completed leave (plus the predecessor's next `stabilize`) keeps invariant and abstract values -/

/-- a key owned by the leaver `l` is, among the other members, closest to `l`'s successor -/
theorem geo_leave (h l sc m : Nat) (hh : h < M) (hl : l < M) (hsc : sc < M) (hm : m < M)
    (h1 : dist h l ≤ dist h m) (h2 : dist h l ≤ dist h sc)
    (hmin : ¬ (0 < dist l m ∧ dist l m < dist l sc)) (hml : m ≠ l) : dist h sc ≤ dist h m := by
  have := dist_rebase h l m hh hl hm; have := dist_rebase h l sc hh hl hsc
  have := dist_zero_iff l m hl hm
  omega

/-- **Ownership after a leave.** Identifiers owned by the leaver go to its successor, all others keep
their owner. -/
theorem owner_after_leave {net net2 : Net} (hs : Stable net) (l sc : Nat) (ndl : Node)
    (hgl : net.get l = some ndl) (hcl : checkNodeState ndl false = none) (hsu : ndl.succs.head? = some sc)
    (hscl : sc ≠ l) (hmem : ∀ m, Mem net2 m ↔ (Mem net m ∧ m ≠ l))
    (h : Nat) (hh : h < M) (o : Nat) (ho : IsOwner net h o) :
    (o ≠ l → IsOwner net2 h o) ∧ (o = l → IsOwner net2 h sc) := by
  constructor
  · intro hne
    exact ⟨(hmem o).mpr ⟨ho.1, hne⟩, fun m hm => ho.2 m ((hmem m).mp hm).1⟩
  · intro e; subst e
    obtain ⟨s', hs', hsm, hmin⟩ := hs.succ o ndl hgl hcl
    rw [hsu] at hs'; injection hs' with hs'; subst hs'
    refine ⟨(hmem sc).mpr ⟨hsm, hscl⟩, fun m hm => ?_⟩
    obtain ⟨hm1, hm2⟩ := (hmem m).mp hm
    exact geo_leave h o sc m hh (hs.lt o ho.1) (hs.lt sc hsm) (hs.lt m hm1) (ho.2 m hm1) (ho.2 sc hsm)
      (hmin m hm1).1 hm2

/-- a live member that does not own the hash of `k` holds no data under `k` -/
theorem non_owner_view (H : String → Nat) (hH : ∀ k, H k < M) (net : Net) (hs : Stable net) (hp : Placed H net)
    (n : Nat) (nd : Node) (hg : net.get n = some nd) (hc : checkNodeState nd false = none)
    (k : String) (o : Nat) (ho : IsOwner net (H k) o) (hne : o ≠ n) : viewOf nd.store k = (none, []) := by
  unfold viewOf
  cases hf : kvFind nd.store k with
  | none => rfl
  | some e =>
    obtain ⟨he, hk⟩ := kvFind_some hf
    by_cases hd : e.isDeleted = true
    · exact deleted_val e hd
    · have hd' : e.isDeleted = false := by simpa using hd
      have := hp.owned n nd hg hc e he hd'
      rw [hp.hash n nd hg hc e he, hk] at this
      exact absurd (owner_unique net hs.lt (H k) o n (hH k) ho this) hne

/-- liveness-relevant part of a node -/
def lifeOf (net : Net) (n : Nat) : Option (St × Bool) := (net.get n).map (fun nd => (nd.state, nd.crashed))

theorem lifeOf_upd (net : Net) (n m : Nat) (f : Node → Node)
    (hf : ∀ nd, ((f nd).state, (f nd).crashed) = (nd.state, nd.crashed)) :
    lifeOf (net.upd n f) m = lifeOf net m := by
  unfold lifeOf; rw [get_upd]
  by_cases e : m = n
  · subst e; cases hg : net.get m <;> simp [hf]
  · simp [e]

theorem notify_life (net : Net) (n p m : Nat) : lifeOf (notify net n p) m = lifeOf net m := by
  unfold notify
  cases hg : net.get n with
  | none => rfl
  | some nd =>
    simp only
    split
    · rfl
    · split
      · rfl
      · exact lifeOf_upd _ _ _ _ (fun _ => rfl)

theorem stabilize_life (net : Net) (n m : Nat) : lifeOf (stabilize net n) m = lifeOf net m := by
  unfold stabilize
  cases hg : net.get n with
  | none => rfl
  | some nd =>
    simp only
    cases hl : (stabilizeList net n nd.succs).map (cutAfterSelf n) with
    | none => rfl
    | some l =>
      simp only
      have base : lifeOf (net.upd n fun nd => { nd with succs := l }) m = lifeOf net m :=
        lifeOf_upd _ _ _ _ (fun _ => rfl)
      split
      · split
        · rw [notify_life]; exact base
        · exact base
      · exact base

theorem fixK_life (net : Net) (n k m : Nat) : lifeOf (fixK net n k) m = lifeOf net m := by
  unfold fixK
  split
  · exact lifeOf_upd _ _ _ _ (fun _ => rfl)
  · rfl

theorem fixFinger_life (net : Net) (n m : Nat) : lifeOf (fixFinger net n) m = lifeOf net m := by
  unfold fixFinger
  generalize List.range 48 = l
  induction l generalizing net with
  | nil => rfl
  | cons a as ih => simp only [List.foldl_cons]; rw [ih, fixK_life]

theorem checkPredecessor_life (net : Net) (n m : Nat) : lifeOf (checkPredecessor net n) m = lifeOf net m := by
  unfold checkPredecessor
  cases hg : net.get n with
  | none => rfl
  | some nd =>
    simp only
    split
    · rfl
    · split
      · rfl
      · split
        · rfl
        · exact lifeOf_upd _ _ _ _ (fun _ => rfl)

open Specter.C07 in
/-- background repair neither starts, stops nor crashes a node -/
theorem repair_preserves_life (tasks : List Task) (net : Net) (m : Nat) :
    lifeOf (tasks.foldl runTask net) m = lifeOf net m := by
  induction tasks generalizing net with
  | nil => rfl
  | cons t ts ih =>
    simp only [List.foldl_cons]
    rw [ih]
    cases t <;> simp [runTask, stabilize_life, fixFinger_life, checkPredecessor_life]

theorem mem_of_life {a b : Net} (h : ∀ m, lifeOf b m = lifeOf a m) (m : Nat) : Mem b m ↔ Mem a m := by
  have key : ∀ (a b : Net), (∀ m, lifeOf b m = lifeOf a m) → Mem a m → Mem b m := by
    intro a b h ⟨x, hx, hc⟩
    have := h m
    unfold lifeOf at this
    rw [hx] at this
    cases hy : b.get m with
    | none => simp [hy] at this
    | some y =>
      simp only [hy, Option.map_some, Option.some.injEq, Prod.mk.injEq] at this
      refine ⟨y, hy, ?_⟩
      unfold checkNodeState at hc ⊢
      rw [this.1, this.2]; exact hc
  exact ⟨key b a (fun m => (h m).symm), key a b h⟩

open Specter.C07 in
/-- the data part of a leave: given where the stores are afterwards (`stS`, `stO`) and who is a member
(`hmem`), placement and all abstract values are as before -/
theorem leave_core (H : String → Nat) (hH : ∀ k, H k < M) (net : Net) (hs : Stable net) (hp : Placed H net)
    (l sc : Nat) (ndl nds : Node) (hgl : net.get l = some ndl) (hcl : checkNodeState ndl false = none)
    (hsu : ndl.succs.head? = some sc) (hscl : sc ≠ l) (hgs : net.get sc = some nds)
    (hcs : checkNodeState nds false = none) (net2 : Net)
    (hmem : ∀ m, Mem net2 m ↔ (Mem net m ∧ m ≠ l))
    (stS : storeOf net2 sc = some (importEntries nds.store (rangeKeys ndl.store 0 0)))
    (stO : ∀ m, m ≠ l → m ≠ sc → storeOf net2 m = storeOf net m) :
    Placed H net2 ∧ ∀ k, absGet H net2 k = absGet H net k := by
  have hl : Mem net l := ⟨ndl, hgl, hcl⟩
  have hlt2 : ∀ n, Mem net2 n → n < M := fun n hn => hs.lt n ((hmem n).mp hn).1
  have own := fun h hh o ho => owner_after_leave hs l sc ndl hgl hcl hsu hscl hmem h hh o ho
  obtain ⟨xs, hxs, hxsst⟩ := storeOf_some stS
  have hndL := hp.nodup l ndl hgl hcl
  have hmvnd : ((rangeKeys ndl.store 0 0).map (·.key)).Nodup := by
    unfold rangeKeys; exact List.Nodup.sublist (List.Sublist.map _ List.filter_sublist) hndL
  have habs : ∀ k, absGet H net2 k = absGet H net k := by
    intro k
    obtain ⟨o, ndo, ho, hgo, hco⟩ := owner_exists net hs l hl (H k) (hH k)
    rw [absGet_eq H hH net hs.lt k o ndo ho hgo]
    by_cases e : o = l
    · subst e
      rw [hgl] at hgo; injection hgo with hgo; subst hgo
      have ho2 := (own (H k) (hH k) o ho).2 rfl
      rw [absGet_eq H hH net2 hlt2 k sc xs ho2 hxs, hxsst]
      have hsv : viewOf nds.store k = (none, []) :=
        non_owner_view H hH net hs hp sc nds hgs hcs k o ho (Ne.symm hscl)
      cases hf : kvFind ndl.store k with
      | none =>
        have hmiss : kvFind (rangeKeys ndl.store 0 0) k = none := by
          rw [kvFind_rangeKeys ndl.store hndL 0 0 k, hf]
        rw [viewOf_import_miss _ hmvnd _ k hmiss, hsv]
        unfold viewOf; rw [hf]
      | some e =>
        obtain ⟨he, hk⟩ := kvFind_some hf
        by_cases hd : e.isDeleted = true
        · have hmiss : kvFind (rangeKeys ndl.store 0 0) k = none := by
            rw [kvFind_rangeKeys ndl.store hndL 0 0 k, hf]; simp [hd]
          rw [viewOf_import_miss _ hmvnd _ k hmiss, hsv]
          unfold viewOf; rw [hf]
          exact (deleted_val e hd).symm
        · have hd' : e.isDeleted = false := by simpa using hd
          have hhit : kvFind (rangeKeys ndl.store 0 0) k = some e := by
            rw [kvFind_rangeKeys ndl.store hndL 0 0 k, hf]
            simp only
            rw [if_pos]
            exact ⟨Specter.C02.Leave.between_zero _, hd'⟩
          rw [viewOf_import_hit _ hmvnd _ k e hhit (by rw [hsv]) (hp.sorted o ndl hgl hcl e he)]
          unfold viewOf valOf; rw [hf]
    · have ho2 := (own (H k) (hH k) o ho).1 e
      by_cases e2 : o = sc
      · subst e2
        rw [hgs] at hgo; injection hgo with hgo; subst hgo
        rw [absGet_eq H hH net2 hlt2 k o xs ho2 hxs, hxsst]
        have hmiss : kvFind (rangeKeys ndl.store 0 0) k = none := by
          rw [kvFind_rangeKeys ndl.store hndL 0 0 k]
          cases hf : kvFind ndl.store k with
          | none => rfl
          | some x =>
            simp only
            rw [if_neg]
            rintro ⟨_, hx⟩
            have hx' := (kvFind_some hf).1
            have hk := (kvFind_some hf).2
            have := hp.owned l ndl hgl hcl x hx' hx
            rw [hp.hash l ndl hgl hcl x hx', hk] at this
            exact e (owner_unique net hs.lt (H k) o l (hH k) ho this)
        rw [viewOf_import_miss _ hmvnd _ k hmiss]
      · have := stO o e e2
        rw [storeOf_get hgo] at this
        obtain ⟨xo, hxo, hxost⟩ := storeOf_some this
        rw [absGet_eq H hH net2 hlt2 k o xo ho2 hxo, hxost]
  have key : ∀ n1 nd1, net2.get n1 = some nd1 → checkNodeState nd1 false = none →
      n1 ≠ l ∧
      ((n1 = sc ∧ nd1.store = importEntries nds.store (rangeKeys ndl.store 0 0)) ∨
       (n1 ≠ sc ∧ ∃ y, net.get n1 = some y ∧ checkNodeState y false = none ∧ y.store = nd1.store)) := by
    intro n1 nd1 h1 hc1
    obtain ⟨hm1, hm2⟩ := (hmem n1).mp ⟨nd1, h1, hc1⟩
    refine ⟨hm2, ?_⟩
    by_cases e2 : n1 = sc
    · left; subst e2; rw [hxs] at h1; injection h1 with h1; subst h1; exact ⟨rfl, hxsst⟩
    · right
      obtain ⟨y, hy, hcy⟩ := hm1
      have := stO n1 hm2 e2
      rw [storeOf_get hy, storeOf_get h1] at this
      injection this with this
      exact ⟨e2, y, hy, hcy, this.symm⟩
  have hashS : ∀ e ∈ importEntries nds.store (rangeKeys ndl.store 0 0), e.hash = H e.key := by
    intro e he
    rcases mem_importEntries _ _ e he with ⟨e0, he0, hk, hh⟩ | ⟨m, hm, hk, hh⟩
    · rw [← hk, ← hh]; exact hp.hash sc nds hgs hcs e0 he0
    · rw [← hk, ← hh]; exact hp.hash l ndl hgl hcl m ((mem_rangeKeys _ _ _ _).mp hm).1
  refine ⟨⟨?_, ?_, ?_, ?_⟩, habs⟩
  · intro n1 nd1 h1 hc1 e he
    rcases key n1 nd1 h1 hc1 with ⟨_, ⟨_, hst⟩ | ⟨_, y, hy, hcy, hst⟩⟩
    · rw [hst] at he; exact hashS e he
    · rw [← hst] at he; exact hp.hash n1 y hy hcy e he
  · intro n1 nd1 h1 hc1
    rcases key n1 nd1 h1 hc1 with ⟨_, ⟨_, hst⟩ | ⟨_, y, hy, hcy, hst⟩⟩
    · rw [hst]; exact import_nodup _ _ (hp.nodup sc nds hgs hcs)
    · rw [← hst]; exact hp.nodup n1 y hy hcy
  · intro n1 nd1 h1 hc1 e he
    rcases key n1 nd1 h1 hc1 with ⟨_, ⟨_, hst⟩ | ⟨_, y, hy, hcy, hst⟩⟩
    · rw [hst] at he; exact import_sorted _ _ (hp.sorted sc nds hgs hcs) e he
    · rw [← hst] at he; exact hp.sorted n1 y hy hcy e he
  · intro n1 nd1 h1 hc1 e he hd
    rcases key n1 nd1 h1 hc1 with ⟨hnl, ⟨rfl, hst⟩ | ⟨_, y, hy, hcy, hst⟩⟩
    · rw [hst] at he
      rcases import_mem_cases _ _ hmvnd (hp.nodup n1 nds hgs hcs) e he with h0 | ⟨m, hm, hk⟩
      · have hold := hp.owned n1 nds hgs hcs e h0 hd
        have hhe : e.hash < M := by rw [hp.hash n1 nds hgs hcs e h0]; exact hH _
        exact (own e.hash hhe n1 hold).1 hnl
      · obtain ⟨m1, _, m3⟩ := (mem_rangeKeys _ _ _ _).mp hm
        have hmh : m.hash = H m.key := hp.hash l ndl hgl hcl m m1
        have heh : e.hash = m.hash := by rw [hashS e he, hmh, hk]
        rw [heh]
        exact (own m.hash (by rw [hmh]; exact hH _) l (hp.owned l ndl hgl hcl m m1 m3)).2 rfl
    · rw [← hst] at he
      have hold := hp.owned n1 y hy hcy e he hd
      have hhe : e.hash < M := by rw [hp.hash n1 y hy hcy e he]; exact hH _
      exact (own e.hash hhe n1 hold).1 hnl

open Specter.C07 in
/-- **Refinement of a leave.** On a ring satisfying `Inv` with at least two members: a completed graceful
`Leave()` of member `l`, the next `stabilize` tick of its predecessor, and then ANY sequence `rep` of
background repair tasks (`stabilize` / `fixFinger` / `checkPredecessor` of any nodes) after which the ring is
`Stable` and `Quiescent` again (repair has converged — `Leave()` alone does not restore `Stable`:
`C02.Leave.leave_breaks_stable`, and the advisory's `fixFinger` leaves a finger to the leaver at the
predecessor, so some finger repair is always needed) yield a ring satisfying `Inv` whose members are the
old ones minus `l`, and the abstract value of EVERY key is unchanged: the leaver's data is at its
successor — the new owner of the leaver's range —, what the successor held stays, nothing else moves, and
repair never touches a store. -/
theorem leave_repair_keeps_abs (H : String → Nat) (hH : ∀ k, H k < M) (net : Net) (hinv : Inv H net)
    (l : Nat) (hl : Mem net l) (hmore : ∃ m, Mem net m ∧ m ≠ l) (net' : Net) (h : leave net l = (net', none))
    (rep : List Task)
    (hst : Stable (rep.foldl runTask (stabilize net' (Specter.C02.Leave.predOf net l))))
    (hqt : Quiescent (rep.foldl runTask (stabilize net' (Specter.C02.Leave.predOf net l)))) :
    Inv H (rep.foldl runTask (stabilize net' (Specter.C02.Leave.predOf net l))) ∧
    (∀ m, Mem (rep.foldl runTask (stabilize net' (Specter.C02.Leave.predOf net l))) m ↔ (Mem net m ∧ m ≠ l)) ∧
    ∀ k, absGet H (rep.foldl runTask (stabilize net' (Specter.C02.Leave.predOf net l))) k = absGet H net k := by
  obtain ⟨hs, hq, hp⟩ := hinv
  obtain ⟨_, _, _, hmem1, _⟩ := Specter.C02.Leave.leave_then_stabilize_partial net hs hq l hl hmore net' h
  obtain ⟨sc, ndl, nds, hgl, hsu, hscl, hgs, _, ⟨nds', hgs', _, hst', _, _⟩, hother⟩ :=
    Specter.C02.Leave.leave_conserves net hs hq l hl hmore net' h
  have hmem : ∀ m, Mem (rep.foldl runTask (stabilize net' (Specter.C02.Leave.predOf net l))) m ↔ (Mem net m ∧ m ≠ l) :=
    fun m => (mem_of_life (fun m => repair_preserves_life rep _ m) m).trans (hmem1 m)
  have st2 : ∀ m, storeOf (rep.foldl runTask (stabilize net' (Specter.C02.Leave.predOf net l))) m = storeOf net' m := by
    intro m; rw [repair_preserves_stores, stabilize_store]
  have hcl : checkNodeState ndl false = none := by
    obtain ⟨y, hy, hc⟩ := hl
    rw [hgl] at hy; injection hy with hy; subst hy; exact hc
  obtain ⟨s', hs', hsm, _⟩ := hs.succ l ndl hgl hcl
  rw [hsu] at hs'; injection hs' with hs'; subst hs'
  have hcs : checkNodeState nds false = none := by
    obtain ⟨y, hy, hc⟩ := hsm
    rw [hgs] at hy; injection hy with hy; subst hy; exact hc
  obtain ⟨hpl, habs⟩ := leave_core H hH net hs hp l sc ndl nds hgl hcl hsu hscl hgs hcs _ hmem
    (by rw [st2, storeOf_get hgs', hst']) (fun m h1 h2 => by rw [st2]; exact hother m h1 h2)
  exact ⟨⟨hst, hqt, hpl⟩, hmem, habs⟩

/-- the special case without further repair, under the hypothesis `hno` of `leave_then_stabilize_stable`
(no survivor holds a finger to the leaver). NOTE: in the model `hno` fails right after `Leave()` +
`stabilize` on the rings we tried (the advisory's `fixFinger` at the predecessor runs while the leaver still
answers and re-creates finger 1 → leaver: `hno_fails` in `C03/RefineDemo.lean`), so the usable statement is
`leave_repair_keeps_abs`. -/
theorem leave_keeps_abs (H : String → Nat) (hH : ∀ k, H k < M) (net : Net) (hinv : Inv H net)
    (l : Nat) (hl : Mem net l) (hmore : ∃ m, Mem net m ∧ m ≠ l) (net' : Net) (h : leave net l = (net', none))
    (hno : ∀ n nd, (stabilize net' (Specter.C02.Leave.predOf net l)).get n = some nd →
      checkNodeState nd false = none → some l ∉ nd.fingers) :
    Inv H (stabilize net' (Specter.C02.Leave.predOf net l)) ∧
    (∀ m, Mem (stabilize net' (Specter.C02.Leave.predOf net l)) m ↔ (Mem net m ∧ m ≠ l)) ∧
    ∀ k, absGet H (stabilize net' (Specter.C02.Leave.predOf net l)) k = absGet H net k := by
  obtain ⟨hs2, hq2, _, _⟩ :=
    Specter.C02.Leave.leave_then_stabilize_stable net hinv.stable hinv.quiescent l hl hmore net' h hno
  exact leave_repair_keeps_abs H hH net hinv l hl hmore net' h [] hs2 hq2

/-! ### 13. sequential histories: the ring is ONE sequential per-key store -/

/-- the operations of a history -/
inductive Op where
  | kv (n : Nat) (k : String) (op : KvOp)     -- a KV operation on key `k` issued through node `n`
  | join (j peer : Nat)                        -- `Join(peer)` at the fresh node `j`
  | leave (l : Nat) (rep : List Specter.C07.Task)  -- `Leave()` at `l`, the predecessor's next `stabilize`, then repair tasks `rep`

/-- the sequential specification: one value per key -/
abbrev Spec := String → Val

def specStep (σ : Spec) (k : String) (op : KvOp) : Spec × KvOut :=
  (fun k' => if k' = k then (valStep (σ k) op).1 else σ k', (valStep (σ k) op).2)

/-- run a history on the sequential specification: membership changes are invisible, entry nodes irrelevant -/
def specRun : Spec → List Op → Spec × List KvOut
  | σ, [] => (σ, [])
  | σ, .kv _ k op :: ops => ((specRun (specStep σ k op).1 ops).1, (specStep σ k op).2 :: (specRun (specStep σ k op).1 ops).2)
  | σ, .join _ _ :: ops => specRun σ ops
  | σ, .leave _ _ :: ops => specRun σ ops

def joins : List Op → Nat
  | [] => 0
  | .join _ _ :: ops => joins ops + 1
  | _ :: ops => joins ops

/-- **Sequential execution of a history on the ring** (one complete operation after the other), every
membership change succeeding. `Exec H net ops outs net'`: running `ops` from `net` produces the KV answers
`outs` and ends in `net'`. Side conditions per step:
* `kv`: the entry node is a live member;
* `join`: the joiner's id is in the ring space, the joiner is fresh (`FreshJoiner`: Inactive, not crashed, no
  surrogate, no stale fingers) with an empty store, and the single attempt of `Join` reports success
  (guaranteed through any member by `join_succeeds_sized`);
* `leave`: the leaver is a member and not the last one, `Leave()` reports success; the step includes the
  predecessor's next `stabilize` and a sequence `rep` of background repair tasks after which the ring is
  stable and quiescent again (see `leave_repair_keeps_abs`). -/
inductive Exec (H : String → Nat) : Net → List Op → List KvOut → Net → Prop where
  | nil (net : Net) : Exec H net [] [] net
  | kv (net : Net) (n : Nat) (k : String) (op : KvOp) (ops : List Op) (outs : List KvOut) (net' : Net)
      (hn : Mem net n) (hrest : Exec H (kvAt net FUEL n k (H k) op).1 ops outs net') :
      Exec H net (.kv n k op :: ops) ((kvAt net FUEL n k (H k) op).2 :: outs) net'
  | join (net : Net) (j peer : Nat) (net1 : Net) (ops : List Op) (outs : List KvOut) (net' : Net)
      (hj : j < M) (hfresh : FreshJoiner net j) (hempty : ∀ nd, net.get j = some nd → nd.store = [])
      (h : join net j peer = (net1, none)) (hrest : Exec H net1 ops outs net') :
      Exec H net (.join j peer :: ops) outs net'
  | leave (net : Net) (l : Nat) (rep : List Specter.C07.Task) (net1 : Net) (ops : List Op) (outs : List KvOut) (net' : Net)
      (hl : Mem net l) (hmore : ∃ m, Mem net m ∧ m ≠ l) (h : leave net l = (net1, none))
      (hst : Stable (rep.foldl Specter.C07.runTask (stabilize net1 (Specter.C02.Leave.predOf net l))))
      (hqt : Quiescent (rep.foldl Specter.C07.runTask (stabilize net1 (Specter.C02.Leave.predOf net l))))
      (hrest : Exec H (rep.foldl Specter.C07.runTask (stabilize net1 (Specter.C02.Leave.predOf net l))) ops outs net') :
      Exec H net (.leave l rep :: ops) outs net'

theorem FUEL_val : FUEL = 256 := rfl

/-- **C03 / C05, end to end for sequential histories.** From a ring satisfying `Inv` (stable, quiescent,
every data entry on the owner of its hash) with `b` members, any history of KV operations through arbitrary
members, joins of fresh nodes through arbitrary peers and graceful leaves (each followed by the
predecessor's `stabilize`), executed one after the other with `b + #joins < 256`:
* the sequence of KV answers is EXACTLY the sequence the sequential per-key specification gives
  (`specRun` from the initial abstract values): reads return the latest acknowledged write, deleted data
  does not reappear, conflicts are reported iff the child is there — whatever the entry nodes and whatever
  membership changes happen in between;
* the final ring satisfies `Inv` again (C05: every stored data key lives only on its responsible node);
* the final abstract value of every key is the specification's. -/
theorem history_refines (H : String → Nat) (hH : ∀ k, H k < M) (net : Net) (ops : List Op) (outs : List KvOut)
    (net' : Net) (hex : Exec H net ops outs net') :
    ∀ (b : Nat), Inv H net → Sized net b → b + joins ops < FUEL →
      outs = (specRun (absGet H net) ops).2 ∧ Inv H net' ∧
      ∀ k, absGet H net' k = (specRun (absGet H net) ops).1 k := by
  induction hex with
  | nil net => intro b hinv _ _; exact ⟨rfl, hinv, fun _ => rfl⟩
  | kv net n k op ops outs net' hn _ ih =>
    intro b hinv hsz hb
    have hF := FUEL_val
    obtain ⟨h1, h2, h3, h4, h5⟩ := kv_refines H hH net hinv b hsz (by simp only [joins] at hb; omega) n hn k op 254
    have hfun : absGet H (kvAt net FUEL n k (H k) op).1 = (specStep (absGet H net) k op).1 := by
      funext k'
      by_cases e : k' = k
      · subst e; simp only [specStep, if_true]; exact h4
      · simp only [specStep, e, if_false]; exact h5 k' e
    obtain ⟨i1, i2, i3⟩ := ih b h2 (hsz.congr (fun m hm => (h3 m).mp hm)) (by simpa [joins] using hb)
    rw [hfun] at i1 i3
    refine ⟨?_, i2, i3⟩
    simp only [specRun]
    rw [i1]
    congr 1
  | join net j peer net1 ops outs net' hj hfresh hempty h _ ih =>
    intro b hinv hsz hb
    obtain ⟨h1, _, h3, h4⟩ := join_keeps_abs H hH net hinv j peer hj hfresh hempty net1 h
    have hfun : absGet H net1 = absGet H net := funext h4
    obtain ⟨i1, i2, i3⟩ := ih (b+1) h1 (hsz.succ (fun m hm => (h3 m).mp hm)) (by simp only [joins] at hb; omega)
    rw [hfun] at i1 i3
    exact ⟨i1, i2, i3⟩
  | leave net l rep net1 ops outs net' hl hmore h hst hqt _ ih =>
    intro b hinv hsz hb
    obtain ⟨h1, h3, h4⟩ := leave_repair_keeps_abs H hH net hinv l hl hmore net1 h rep hst hqt
    have hfun : absGet H (rep.foldl Specter.C07.runTask (stabilize net1 (Specter.C02.Leave.predOf net l))) = absGet H net :=
      funext h4
    obtain ⟨i1, i2, i3⟩ := ih b h1 (hsz.congr (fun m hm => ((h3 m).mp hm).1)) (by simpa [joins] using hb)
    rw [hfun] at i1 i3
    exact ⟨i1, i2, i3⟩

/-- progress for the join steps of a history: through any live member, the join of a fresh node succeeds -/
theorem join_succeeds_sized (H : String → Nat) (net : Net) (hinv : Inv H net) (b : Nat) (hsz : Sized net b)
    (hb : b < FUEL) (j peer : Nat) (hj : j < M) (hfresh : FreshJoiner net j) (hp : Mem net peer) :
    ∃ net', join net j peer = (net', none) :=
  join_succeeds net hinv.stable hinv.quiescent j peer hj hfresh hp
    (lookupsComplete_of_sized net hinv.stable b hsz hb j hj)


/-! ### 14. what the refinement means for clients: latest write, no resurrection -/

theorem specRun_append (a b : List Op) : ∀ σ : Spec,
    specRun σ (a ++ b) = ((specRun (specRun σ a).1 b).1, (specRun σ a).2 ++ (specRun (specRun σ a).1 b).2) := by
  induction a with
  | nil => intro σ; rfl
  | cons x xs ih =>
    intro σ
    cases x with
    | kv n k op => simp only [List.cons_append, specRun, ih]
    | join j p => simp only [List.cons_append, specRun, ih]
    | leave l r => simp only [List.cons_append, specRun, ih]

/-- operations that write the simple value of key `k` -/
def writesSimple (k : String) : Op → Bool
  | .kv _ k' (.put _) => k' == k
  | .kv _ k' .delete => k' == k
  | _ => false

/-- the simple value of `k` in the specification only changes by a put or delete on `k` -/
theorem spec_simple_frame (k : String) : ∀ (ops : List Op) (σ : Spec),
    (∀ op ∈ ops, writesSimple k op = false) → ((specRun σ ops).1 k).1 = (σ k).1 := by
  intro ops
  induction ops with
  | nil => intro σ _; rfl
  | cons x xs ih =>
    intro σ h
    have hx := h x List.mem_cons_self
    have hxs : ∀ op ∈ xs, writesSimple k op = false := fun op hop => h op (List.mem_cons_of_mem _ hop)
    cases x with
    | join j p => simp only [specRun]; exact ih σ hxs
    | leave l r => simp only [specRun]; exact ih σ hxs
    | kv n k' op =>
      simp only [specRun]
      rw [ih _ hxs]
      simp only [specStep]
      by_cases e : k = k'
      · subst e
        simp only [if_true]
        cases op with
        | put v => simp [writesSimple] at hx
        | delete => simp [writesSimple] at hx
        | get => rfl
        | pAppend c => simp only [valStep]; split <;> rfl
        | pRemove c => rfl
        | pContains c => rfl
        | pList => rfl
      · simp only [e, if_false]

/-- in the specification: a read of `k` after a write `w` of its simple value (`put`/`delete`), with no
other put/delete on `k` in between, returns what `w` wrote -/
theorem spec_read_after (σ : Spec) (pre mid : List Op) (n n' : Nat) (k : String) (w : KvOp) (x : Option String)
    (hw : ∀ v : Val, (valStep v w).1.1 = x) (hmid : ∀ op ∈ mid, writesSimple k op = false) :
    ∃ front, (specRun σ (pre ++ (.kv n k w :: (mid ++ [.kv n' k .get])))).2 = front ++ [.value x] := by
  rw [specRun_append]
  simp only [specRun]
  rw [specRun_append]
  simp only [specRun, specStep]
  have hlast : (valStep ((specRun (fun k' => if k' = k then (valStep ((specRun σ pre).1 k) w).1
      else (specRun σ pre).1 k') mid).1 k) KvOp.get).2 = .value x := by
    show KvOut.value _ = _
    rw [spec_simple_frame k mid _ hmid]
    simp only [if_true]
    rw [hw]
  rw [hlast]
  exact ⟨(specRun σ pre).2 ++ (valStep ((specRun σ pre).1 k) w).2 ::
    (specRun (fun k' => if k' = k then (valStep ((specRun σ pre).1 k) w).1 else (specRun σ pre).1 k') mid).2,
    by simp⟩

/-- **Reads return the latest acknowledged write.** In any sequential history on the ring: after
`put k v` (through any node), whatever happens next that is not a put/delete of `k` — operations on other
keys, prefix operations on `k`, joins, leaves —, a `get k` through any node returns `v`. -/
theorem read_latest_write (H : String → Nat) (hH : ∀ k, H k < M) (net : Net) (pre mid : List Op)
    (n n' : Nat) (k v : String) (outs : List KvOut) (net' : Net) (b : Nat)
    (hex : Exec H net (pre ++ (.kv n k (.put v) :: (mid ++ [.kv n' k .get]))) outs net')
    (hinv : Inv H net) (hsz : Sized net b)
    (hb : b + joins (pre ++ (.kv n k (.put v) :: (mid ++ [.kv n' k .get]))) < FUEL)
    (hmid : ∀ op ∈ mid, writesSimple k op = false) :
    ∃ front, outs = front ++ [.value (some v)] := by
  obtain ⟨h1, _, _⟩ := history_refines H hH net _ outs net' hex b hinv hsz hb
  rw [h1]
  exact spec_read_after _ pre mid n n' k (.put v) (some v) (fun _ => rfl) hmid

/-- **No deleted data reappears.** After `delete k`, whatever joins, leaves and operations other than a
put of `k` follow, a `get k` through any node returns nil. -/
theorem deleted_stays_deleted (H : String → Nat) (hH : ∀ k, H k < M) (net : Net) (pre mid : List Op)
    (n n' : Nat) (k : String) (outs : List KvOut) (net' : Net) (b : Nat)
    (hex : Exec H net (pre ++ (.kv n k .delete :: (mid ++ [.kv n' k .get]))) outs net')
    (hinv : Inv H net) (hsz : Sized net b)
    (hb : b + joins (pre ++ (.kv n k .delete :: (mid ++ [.kv n' k .get]))) < FUEL)
    (hmid : ∀ op ∈ mid, writesSimple k op = false) :
    ∃ front, outs = front ++ [.value none] := by
  obtain ⟨h1, _, _⟩ := history_refines H hH net _ outs net' hex b hinv hsz hb
  rw [h1]
  exact spec_read_after _ pre mid n n' k .delete none (fun _ => rfl) hmid

/-! ### 15. executable forms of the hypotheses -/

instance (cs : List String) : Decidable (Canon cs) := by unfold Canon; infer_instance

def placedB (H : String → Nat) (net : Net) : Bool :=
  net.all fun q =>
    if memB net q.1 then
      match net.get q.1 with
      | some nd =>
        nd.store.all (fun e => e.hash == H e.key && decide (Canon e.children) &&
          (e.isDeleted || ownerOf net e.hash == some q.1)) &&
        decide ((nd.store.map (·.key)).Nodup)
      | none => false
    else true

theorem placed_of_placedB (H : String → Nat) (net : Net) (h : placedB H net = true) : Placed H net := by
  unfold placedB at h
  rw [List.all_eq_true] at h
  have key : ∀ n nd, net.get n = some nd → checkNodeState nd false = none →
      (∀ e ∈ nd.store, e.hash = H e.key ∧ Canon e.children ∧ (e.isDeleted = true ∨ ownerOf net e.hash = some n)) ∧
      (nd.store.map (·.key)).Nodup := by
    intro n nd hg hc
    have := h _ (get_mem net n nd hg)
    have hmb : memB net n = true := (memB_iff net n).mpr ⟨nd, hg, hc⟩
    simp only [hmb, if_true, hg, Bool.and_eq_true, List.all_eq_true, decide_eq_true_eq, Bool.or_eq_true,
      beq_iff_eq] at this
    exact ⟨fun e he => ⟨(this.1 e he).1.1, (this.1 e he).1.2, (this.1 e he).2⟩, this.2⟩
  refine ⟨fun n nd hg hc e he => ((key n nd hg hc).1 e he).1, fun n nd hg hc => (key n nd hg hc).2,
    fun n nd hg hc e he => ((key n nd hg hc).1 e he).2.1, fun n nd hg hc e he hd => ?_⟩
  rcases ((key n nd hg hc).1 e he).2.2 with h1 | h1
  · rw [hd] at h1; exact absurd h1 (by simp)
  · exact ownerOf_isOwner net e.hash n h1

/-- a net with `n` nodes has at most `n` members -/
theorem sized_length (net : Net) : Sized net net.length :=
  ⟨net.map (·.1), by simp, fun m ⟨nd, hg, _⟩ => List.mem_map.mpr ⟨(m, nd), get_mem net m nd hg, rfl⟩⟩

open Specter.C07 in
theorem empty_of_storeOf (net : Net) (j : Nat) (h : storeOf net j = some []) :
    ∀ nd, net.get j = some nd → nd.store = [] := by
  intro nd hg
  rw [storeOf_get hg] at h
  injection h


/-! ### 16. non-vacuity: a concrete ring with data, a KV operation, a join, a leave, a whole history -/

/-- a toy hash: the length of the key -/
def H0 (k : String) : Nat := k.length % M
theorem H0_lt (k : String) : H0 k < M := Nat.mod_lt _ (by simp [M])

def nodeA : Node :=
  { state := .active, pred := some (2^48-1), succs := [5, 2^48-1, 0], fingers := List.replicate 48 (some 5),
    store := [⟨"", 0, some "root", []⟩] }
def nodeB : Node :=
  { state := .active, pred := some 0, succs := [2^48-1, 0, 5], fingers := List.replicate 48 (some (2^48-1)),
    store := [⟨"abc", 3, some "v", []⟩, ⟨"ab", 2, none, ["x", "y"]⟩, ⟨"abcd", 4, some "w", ["c"]⟩, ⟨"a", 1, none, []⟩] }
def nodeC : Node :=
  { state := .active, pred := some 5, succs := [0, 5, 2^48-1], fingers := List.replicate 48 none,
    store := [⟨"abcdefg", 7, some "far", []⟩] }

/-- the three-node ring of C01 (ids 0, 5, 2^48-1, a departed node 9 still present) with data on every
node — node 5 holds two data keys in `(0, 3]`, one in `(3, 5]` and a tombstone ("a") —, plus a node 3 as
`new` leaves it -/
def dataRing : Net :=
  [(0, nodeA), (5, nodeB), (9, { state := .left, pred := some 5, succs := [2^48-1] }), (2^48-1, nodeC), (3, {})]

theorem mem_of_memB {net : Net} {n : Nat} (h : memB net n = true) : Mem net n := (memB_iff net n).mp h

/-- `Inv` holds for `dataRing` -/
theorem dataRing_inv : Inv H0 dataRing :=
  ⟨stable_of_stableB _ (by decide +kernel), quiescent_of_quiescentB _ (by decide +kernel),
   placed_of_placedB _ _ (by decide +kernel)⟩

/-- a read of "abc" through node 0 is served by node 5 and returns the stored value; `kv_refines` applies -/
example : (kvAt dataRing FUEL 0 "abc" (H0 "abc") .get).2 = .value (some "v") := by decide +kernel
example : absGet H0 dataRing "abc" = (some "v", []) ∧ absGet H0 dataRing "a" = (none, []) ∧
    absGet H0 dataRing "ab" = (none, ["x", "y"]) := by decide +kernel
example : (kvAt dataRing (254+2) 0 "abc" (H0 "abc") .get).2 = (valStep (absGet H0 dataRing "abc") .get).2 :=
  (kv_refines H0 H0_lt dataRing dataRing_inv 5 (sized_length _) (by decide) 0 (mem_of_memB (by decide +kernel))
    "abc" .get 254).1

/-- node 3 joins through node 0: the data keys hashing into `(0, 3]` move to it, the tombstone and the key
hashing to 4 stay at node 5; `join_keeps_abs` applies: every abstract value is unchanged -/
theorem dataRing_join : join dataRing 3 0 = ((join dataRing 3 0).1, none) :=
  eq_of_snd_none _ (by decide +kernel)

example : ((join dataRing 3 0).1.get 3).map (·.store.map (·.key)) = some ["abc", "ab"] := by decide +kernel
example : ((join dataRing 3 0).1.get 5).map (·.store.map (·.key)) = some ["abcd", "a"] := by decide +kernel

theorem dataRing_join_refines :
    Inv H0 (join dataRing 3 0).1 ∧ Mem (join dataRing 3 0).1 3 ∧
    ∀ k, absGet H0 (join dataRing 3 0).1 k = absGet H0 dataRing k :=
  have h := join_keeps_abs H0 H0_lt dataRing dataRing_inv 3 0 (by decide) (fresh_of_freshB _ _ (by decide +kernel))
    (empty_of_storeOf _ _ (by decide +kernel)) _ dataRing_join
  ⟨h.1, h.2.1, h.2.2.2⟩

/-- **Why `Placed` exempts tombstones.** After that join the tombstone "a" (hash 1) is still at node 5
although node 3 now owns hash 1: `rangeKeys` (as the memory back-end's `RangeKeys`) selects data only, so a
hand-off leaves tombstones behind. The raw statement "every ENTRY lives on the owner of its hash" is
therefore false of the model; "every entry HOLDING DATA does" is the invariant (`Placed.owned`), and the
value view of the key is unaffected (`absGet … "a" = (none, [])` before and after). -/
theorem tombstone_stays_behind :
    ((join dataRing 3 0).1.get 5).map (·.store.any (fun e => e.key == "a" && e.isDeleted)) = some true ∧
    ownerOf (join dataRing 3 0).1 (H0 "a") = some 3 ∧ absGet H0 (join dataRing 3 0).1 "a" = (none, []) := by
  decide +kernel

/-- **Why `Placed` asks for sorted children** (`Canon`): `Import` re-inserts children one by one, so an
unsorted list would come out permuted and `pList` would answer differently after a hand-off. Every list
the model's operations build is sorted (`kvLocal_shape`, `import_sorted`), so nothing is lost. -/
example : (importedEntry ⟨"k", 1, none, ["y", "x"]⟩).children = ["x", "y"] := by decide

/-- **Why operations carry `H k`**: the model's `kvAt` takes key and hash as independent arguments (the
hash function is outside the model); a read that presents another hash for the same key is routed to
another node and misses the value. All theorems are about operations presenting the hash of their key. -/
example : (kvAt (kvAt dataRing FUEL 0 "abc" 3 (.put "z")).1 FUEL 0 "abc" 7 .get).2 = .value none := by
  decide +kernel

end Specter.C03.Refine
